(* C04 — A name resolves to its innermost live binding; lookup caches are invisible.
   What is proved, and what is refuted:
   * C04_innermost: the by-name search (what get_object does on a node's first evaluation, and
     always when the CHAISCRIPT_VERIF hint bypass is on) returns the binding of the innermost scope of
     the current frame that has the name — no shallower scope has it, and it is that scope's first
     entry with the name;
   * C04_hint_codec: the (distance, slot) packing of the hint is lossless within its field widths;
   * C04_valid_hit_transparent: a cached lookup whose hint still describes what the by-name search
     finds returns the same Boxed_Value as the by-name lookup and changes nothing but the hint table —
     this is the exact envelope in which the cache is invisible;
   * C04_refuted: outside that envelope it is not — the full statement of the property is FALSE of
     the faithful model and of the code (recorded known finding, keyed by call site
     dispatchkit.hpp:Dispatch_Engine::get_object:stale-hint); the witness is evaluated here in Coq. *)
From Coq Require Import NArith List Bool String.
From ChaiV Require Import StrUtil Ast EvalDefs Eval EvalMeta HintLemmas.

Theorem C04_innermost :
  forall f name d0 dist slot d,
    frame_find f name d0 = Some (dist, slot, d) ->
    d0 <= dist /\
    (exists sc, nth_error f (dist - d0) = Some sc /\ nth_error sc slot = Some (name, d)
                /\ (forall j, j < slot -> forall nm v, nth_error sc j = Some (nm, v) -> nm <> name)) /\
    (forall j sc', j < dist - d0 -> nth_error f j = Some sc' -> forall nm v, In (nm, v) sc' -> nm <> name).
Proof. exact frame_find_innermost. Qed.
Print Assumptions C04_innermost.

Theorem C04_hint_codec :
  forall d i, (N.of_nat d < 4096)%N -> (N.of_nat i < 65536)%N ->
    hint_is_local (hint_local d i) = true /\ hint_dist (hint_local d i) = d /\ hint_slot (hint_local d i) = i
    /\ hint_local d i <> 0%N /\ hint_is_local hint_nonlocal = false /\ hint_nonlocal <> 0%N.
Proof. exact hint_codec. Qed.
Print Assumptions C04_hint_codec.

Theorem C04_valid_hit_transparent :
  forall (ev : ast -> M dloc) k n s h,
    assoc (s_hints s) (hint_key n) = Some h -> hint_valid n s ->
    forall r s', run ev k (lookup_id (mkcfg true) n) s = (r, s') ->
    exists s'', run ev k (lookup_id (mkcfg false) n) s = (r, s'') /\
                s_objs s'' = s_objs s' /\ s_data s'' = s_data s' /\ s_stacks s'' = s_stacks s' /\ s_out s'' = s_out s'.
Proof. exact hinted_lookup_transparent. Qed.
Print Assumptions C04_valid_hit_transparent.

(* def g(b){ if(b){eval("var h=100")}; var a=1; a }; g(false); g(true)   — 100 with the cache, 1 without *)
Theorem C04_refuted :
  run_witness true <> run_witness false
  /\ has_prefix "OUT - || RES int:i32:100" (run_witness true) = true
  /\ has_prefix "OUT - || RES int:i32:1 " (run_witness false) = true.
Proof. exact c04_refuted. Qed.
Print Assumptions C04_refuted.
