(* C17 — Prelude algorithms compute what their names say.
   Property theorems only; each is closed by `exact` of a lemma of PreludeTheorems.v.
   The p_* functions are regenerated from /repo's chaiscript_prelude.hpp on every run
   (tools/translate/t_Prelude.py -> coq/gen/G_Prelude.v), so these are statements about what the
   prelude text says now.  Shape of every statement:
       p_f inputs callbacks = (callback trace, Ok (result, by-reference inputs afterwards))
   i.e. result = functional specification, inputs unmodified, callback called once per element in
   order (early exit visible in the trace), and neither OutOfFuel nor RangeEmpty can occur.
   `logged f` / `logged2 f` is an arbitrary total callback whose calls are recorded. *)
From Coq Require Import ZArith List Bool String Ascii.
From ChaiV Require Import PreludeDefs PreludeProofs PreludeMech PreludeTheorems.
From ChaiV.Gen Require Import G_Prelude.
Import ListNotations.
Local Open Scope Z_scope.

Theorem C17_for_each : forall V W (f : V -> W) (l : list V), p_for_each l (logged f) = (l, Ok (tt, l)).
Proof. exact @for_each_thm. Qed.
Print Assumptions C17_for_each.

Theorem C17_map : forall V (f : V -> V) (l : list V), p_map l (logged f) = (l, Ok (map f l, l)).
Proof. exact @map_thm. Qed.
Print Assumptions C17_map.
Theorem C17_map_inserter : forall V W (f : V -> W) (l : list V) (out : list W),
  p_map_3 l (logged f) out = (l, Ok (tt, (l, out ++ map f l))).
Proof. exact @map_3_thm. Qed.
Print Assumptions C17_map_inserter.

Theorem C17_filter : forall V (p : V -> bool) (l : list V), p_filter l (logged p) = (l, Ok (filter p l, l)).
Proof. exact @filter_thm. Qed.
Print Assumptions C17_filter.

(* foldl(c, f, z): f is called as f(element, accumulator) *)
Theorem C17_foldl : forall V A (f : V -> A -> A) (z : A) (l : list V),
  p_foldl l (logged2 f) z = (spec_foldl_trace f z l, Ok (fold_left (fun a x => f x a) l z, l)).
Proof. exact @foldl_thm. Qed.
Print Assumptions C17_foldl.

Theorem C17_sum : forall E V (O : Ops V) (l : list V),
  p_sum l = (([] : list E), Ok (fold_left (fun a x => op_add x a) l (lit_d 0), l)).
Proof. exact @sum_thm. Qed.
Print Assumptions C17_sum.
Theorem C17_product : forall E V (O : Ops V) (l : list V),
  p_product l = (([] : list E), Ok (fold_left (fun a x => op_mul x a) l (lit_d 1), l)).
Proof. exact @product_thm. Qed.
Print Assumptions C17_product.

(* any_of / all_of: the callback sees the elements up to and including the deciding one *)
Theorem C17_any_of : forall V (p : V -> bool) (l : list V),
  p_any_of l (logged p) = (upto_first p l, Ok (existsb p l, l)).
Proof. exact @any_of_thm. Qed.
Print Assumptions C17_any_of.
Theorem C17_all_of : forall V (p : V -> bool) (l : list V),
  p_all_of l (logged p) = (upto_first (fun x => negb (p x)) l, Ok (forallb p l, l)).
Proof. exact @all_of_thm. Qed.
Print Assumptions C17_all_of.

Theorem C17_contains_cmp : forall V (cmp : V -> V -> bool) (item : V) (l : list V),
  p_contains_3 l item (logged2 cmp) =
  (map (fun x => (x, item)) (upto_first (fun x => cmp x item) l), Ok (existsb (fun x => cmp x item) l, l)).
Proof. exact @contains_3_thm. Qed.
Print Assumptions C17_contains_cmp.
Theorem C17_contains : forall E V (O : Ops V) (item : V) (l : list V),
  p_contains l item = (([] : list E), Ok (existsb (fun x => spec_eq x item) l, l)).
Proof. exact @contains_thm. Qed.
Print Assumptions C17_contains.

(* find returns the range that starts at the first match (empty if there is none) *)
Theorem C17_find_cmp : forall V (cmp : V -> V -> bool) (v : V) (l : list V),
  p_find_3 l v (logged2 cmp) =
  (map (fun x => (x, v)) (upto_first (fun x => cmp x v) l), Ok (Rng (find_suffix (fun x => cmp x v) l), l)).
Proof. exact @find_3_thm. Qed.
Print Assumptions C17_find_cmp.
Theorem C17_find : forall E V (O : Ops V) (v : V) (l : list V),
  p_find l v = (([] : list E), Ok (Rng (find_suffix (fun x => spec_eq x v) l), l)).
Proof. exact @find_thm. Qed.
Print Assumptions C17_find.

(* take / drop: any integer count (negative counts as 0, counts beyond the length saturate) *)
Theorem C17_take : forall E V (n : Z) (l : list V), p_take l n = (([] : list E), Ok (firstn (Z.to_nat n) l, l)).
Proof. exact @take_thm. Qed.
Print Assumptions C17_take.
Theorem C17_drop : forall E V (n : Z) (l : list V), p_drop l n = (([] : list E), Ok (skipn (Z.to_nat n) l, l)).
Proof. exact @drop_thm. Qed.
Print Assumptions C17_drop.

Theorem C17_take_while : forall V (p : V -> bool) (l : list V),
  p_take_while l (logged p) = (upto_first (fun x => negb (p x)) l, Ok (take_while_l p l, l)).
Proof. exact @take_while_thm. Qed.
Print Assumptions C17_take_while.
Theorem C17_drop_while : forall V (p : V -> bool) (l : list V),
  p_drop_while l (logged p) = (upto_first (fun x => negb (p x)) l, Ok (drop_while_l p l, l)).
Proof. exact @drop_while_thm. Qed.
Print Assumptions C17_drop_while.

Theorem C17_zip_with : forall A B C (f : A -> B -> C) (x : list A) (y : list B),
  p_zip_with (logged2 f) x y = (combine x y, Ok (map (fun p => f (fst p) (snd p)) (combine x y), (x, y))).
Proof. exact @zip_with_thm. Qed.
Print Assumptions C17_zip_with.
Theorem C17_zip : forall E A B (x : list A) (y : list B), p_zip x y = (([] : list E), Ok (combine x y, (x, y))).
Proof. exact @zip_thm. Qed.
Print Assumptions C17_zip.

Theorem C17_concat : forall E V (x y : list V), p_concat x y = (([] : list E), Ok (x ++ y, (x, y))).
Proof. exact @concat_thm. Qed.
Print Assumptions C17_concat.

Theorem C17_join : forall E V (O : Ops V) (delim : string) (l : list V),
  p_join l delim = (([] : list E), Ok (String.concat delim (map op_to_string l), l)).
Proof. exact @join_thm. Qed.
Print Assumptions C17_join.

Theorem C17_reverse : forall E V (l : list V), p_reverse l = (([] : list E), Ok (rev l, l)).
Proof. exact @reverse_thm. Qed.
Print Assumptions C17_reverse.

(* retro: iterating the view front-to-back yields the elements in reverse; its back-to-front is the original order *)
Theorem C17_retro : forall E V (l : list V), retro_drain (S (List.length l)) (Rng l) = (([] : list E), Ok (rev l)).
Proof. exact @retro_thm. Qed.
Print Assumptions C17_retro.
Theorem C17_retro_back : forall E V (l : list V), retro_drain_back (S (List.length l)) (Rng l) = (([] : list E), Ok l).
Proof. exact @retro_back_thm. Qed.
Print Assumptions C17_retro_back.
Theorem C17_retro_ctor : forall E V (old r : range V), p_retro_ctor old r = (([] : list E), Ok (tt, r)).
Proof. exact @retro_ctor_thm. Qed.
Print Assumptions C17_retro_ctor.

(* reduce: defined exactly for >= 2 elements (the guard), where it is the left fold seeded with the first element *)
Theorem C17_reduce : forall V (f : V -> V -> V) (x y : V) (t : list V),
  p_reduce (x :: y :: t) (logged2 f) = (spec_reduce_trace f x (y :: t), Ok (fold_left f (y :: t) x, x :: y :: t)).
Proof. exact @reduce_thm. Qed.
Print Assumptions C17_reduce.
Theorem C17_reduce_guard : forall E V (f : V -> V -> M E V) (l : list V),
  (List.length l < 2)%nat -> p_reduce l f = ([], Err GuardFailed).
Proof. exact @reduce_guard_thm. Qed.
Print Assumptions C17_reduce_guard.

(* generate_range x y = [x..y], empty when x > y *)
Theorem C17_generate_range : forall E (x y : Z),
  p_generate_range x y = (([] : list E), Ok (map (fun k => x + Z.of_nat k) (seq 0 (Z.to_nat (y + 1 - x))))).
Proof. exact @generate_range_thm. Qed.
Print Assumptions C17_generate_range.

(* min / max / even / odd: parity is that of the mathematical integer although the mechanism uses C++'s truncating % *)
Theorem C17_max : forall E a b, p_max a b = (([] : list E), Ok (Z.max a b)).
Proof. exact @max_thm. Qed.
Print Assumptions C17_max.
Theorem C17_min : forall E a b, p_min a b = (([] : list E), Ok (Z.min a b)).
Proof. exact @min_thm. Qed.
Print Assumptions C17_min.
Theorem C17_odd : forall E x, p_odd x = (([] : list E), Ok (Z.odd x)).
Proof. exact @odd_thm. Qed.
Print Assumptions C17_odd.
Theorem C17_even : forall E x, p_even x = (([] : list E), Ok (Z.even x)).
Proof. exact @even_thm. Qed.
Print Assumptions C17_even.

(* string trim family (a string is the list of its characters) *)
Theorem C17_ltrim : forall E (s : list ascii), p_string_ltrim s = (([] : list E), Ok (drop_while_l is_ws s, s)).
Proof. exact @ltrim_thm. Qed.
Print Assumptions C17_ltrim.
Theorem C17_rtrim : forall E (s : list ascii), p_string_rtrim s = (([] : list E), Ok (rev (drop_while_l is_ws (rev s)), s)).
Proof. exact @rtrim_thm. Qed.
Print Assumptions C17_rtrim.
Theorem C17_trim : forall E (s : list ascii),
  p_string_trim s = (([] : list E), Ok (drop_while_l is_ws (rev (drop_while_l is_ws (rev s))), s)).
Proof. exact @trim_thm. Qed.
Print Assumptions C17_trim.

(* to_string of containers and pairs *)
Theorem C17_to_string_container : forall E V (O : Ops V) (l : list V),
  p_to_string_container l = (([] : list E), Ok (("[" ++ String.concat ", " (map op_to_string l) ++ "]")%string, l)).
Proof. exact @to_string_container_thm. Qed.
Print Assumptions C17_to_string_container.
Theorem C17_to_string_pair : forall E A B (OA : Ops A) (OB : Ops B) (p : A * B),
  p_to_string_pair p = (([] : list E), Ok ("<" ++ op_to_string (fst p) ++ ", " ++ op_to_string (snd p) ++ ">")%string).
Proof. exact @to_string_pair_thm. Qed.
Print Assumptions C17_to_string_pair.

(* ---- non-vacuity: the statements speak about non-trivial concrete runs *)
Example C17_ex_take_beyond : p_take [1; 2; 3] 5 = (([] : list unit), Ok ([1; 2; 3], [1; 2; 3])).
Proof. reflexivity. Qed.
Example C17_ex_take_negative : p_take [1; 2; 3] (-1) = (([] : list unit), Ok ([], [1; 2; 3])).
Proof. reflexivity. Qed.
Example C17_ex_any_of_early_exit : p_any_of [1; 2; 3] (logged (fun x => x =? 2)) = ([1; 2], Ok (true, [1; 2; 3])).
Proof. reflexivity. Qed.
Example C17_ex_reduce : p_reduce [1; 2; 3; 4] (logged2 Z.sub) = ([(1, 2); (-1, 3); (-4, 4)], Ok (-8, [1; 2; 3; 4])).
Proof. reflexivity. Qed.
Example C17_ex_reduce_guard : exists l : list Z, (List.length l < 2)%nat /\ p_reduce l (logged2 Z.add) = ([], Err GuardFailed).
Proof. exists [7]. split; [repeat constructor | reflexivity]. Qed.
Example C17_ex_foldl_order : p_foldl [1; 2; 3] (logged2 (fun x a => x - a)) 10 = ([(1, 10); (2, -9); (3, 11)], Ok (-8, [1; 2; 3])).
Proof. reflexivity. Qed.
Example C17_ex_odd_negative : p_odd (-3) = (([] : list unit), Ok true).
Proof. reflexivity. Qed.
Example C17_ex_zip_uneven : p_zip [1; 2; 3] [true; false] = (([] : list unit), Ok ([(1, true); (2, false)], ([1; 2; 3], [true; false]))).
Proof. reflexivity. Qed.
Example C17_ex_trim :
  p_string_trim (list_ascii_of_string "  a b  ") = (([] : list unit), Ok (list_ascii_of_string "a b", list_ascii_of_string "  a b  ")).
Proof. reflexivity. Qed.
