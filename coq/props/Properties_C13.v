(* C13 — One engine may be used from many threads at once.
   Property theorems only; each is closed by `exact` of a lemma proved in ConcProofs / ConcTheorems / ConcExamples.
   `mutexes`, `fields`, `methods` (gen/G_Locks.v) are regenerated from /repo's working tree on every run by
   tools/translate/t_Locks.py.

   WHAT IS PROVED, at the abstraction "member functions of Dispatch_Engine, Type_Conversions, ChaiScript_Basic =
   sequences of lock operations and field accesses; registrations = one state transformer per exclusive section":
     C13_lockset(+_instance)   no two conflicting accesses to a shared member field are unordered
     C13_section_exclusive     an exclusive section is never interleaved with an access its mutex guards
     C13_retained              concurrent registrations are all retained, each exactly once
     C13_visible               a registration that has returned is seen by every later lookup
     C13_use_once(+_instance)  a file passed to use() by several threads is evaluated once
   WHAT IS NOT PROVED and only tested (ThreadSanitizer stress in tools/p_C13.py, labelled "stress", not proof):
     data races below that abstraction - Boxed_Value::Data flags shared through AST constants, the m_loc atomics
     of AST nodes, the thread_local maps behind Thread_Storage, std::shared_ptr control blocks, libstdc++ - and
     "each thread sees only its own locals / its results equal its solo run" (script evaluation is not modelled).
   FULL STATEMENT kept visible: "concurrent eval/add/add_global/use/get_state calls on one engine from several
   threads are free of data races" for the whole library is NOT what C13_lockset says; C13_lockset is that
   statement restricted to the member fields of the three classes (partial, by design: see DESIGN.md C13). *)
From Coq Require Import List String Bool Arith PeanoNat Permutation.
From ChaiV Require Import ConcDefs ConcProofs ConcTheorems ConcExamples.
From ChaiV.Gen Require Import G_Locks.
Import ListNotations.
Local Open Scope string_scope.
Local Open Scope nat_scope.
Local Open Scope list_scope.

(* Generic lockset theorem.  Any number of threads (indexed by nat), any programs, any execution (= any interleaving
   that respects exclusive / shared / recursive mutex semantics): if every program keeps the discipline [pol]
   (each access of a field inside a section holding the field's mutex, exclusively for writes), then two conflicting
   accesses by different threads are always separated by a release of that mutex by the first thread followed by an
   acquire by the second - the release/acquire pair that orders them (no data race at this abstraction). *)
Theorem C13_lockset :
  forall kinds pol P0 tr s,
    (forall t, gscan pol [] (P0 t) <> None) ->
    exec kinds (P0, no_locks) tr s ->
    forall tr1 t1 a tr2 t2 b tr3 f,
      tr = tr1 ++ (t1, a) :: tr2 ++ (t2, b) :: tr3 -> t1 <> t2 ->
      accesses a f = true -> accesses b f = true -> (is_write a = true \/ is_write b = true) ->
      pol f <> PExempt ->
      exists m, pol f = PGuard m /\ exists p q r md, tr2 = p ++ (t1, Rel m) :: q ++ (t2, Acq m md) :: r.
Proof. exact lockset_thm. Qed.
Print Assumptions C13_lockset.

(* The regenerated table satisfies the premise: threads that call, in any order, public member functions and stored
   callbacks of the three classes.  The exempt fields (atomic / per-thread / sub-object with its own rows) and the
   guarding mutex of every other field are part of the statement. *)
Theorem C13_lockset_instance :
  lockset_table_ok mutexes fields methods = true /\
  exempt_fields fields = expected_exempt /\
  guard_assignment mutexes fields methods = expected_guards /\
  forall (calls : nat -> list (list ev)) tr s,
    (forall t, Forall (fun c => In c entries) (calls t)) ->
    exec kinds_table (fun t => List.concat (calls t), no_locks) tr s ->
    forall tr1 t1 a tr2 t2 b tr3 f,
      tr = tr1 ++ (t1, a) :: tr2 ++ (t2, b) :: tr3 -> t1 <> t2 ->
      accesses a f = true -> accesses b f = true -> (is_write a = true \/ is_write b = true) ->
      pol_table f <> PExempt ->
      exists m, pol_table f = PGuard m /\ exists p q r md, tr2 = p ++ (t1, Rel m) :: q ++ (t2, Acq m md) :: r.
Proof. exact lockset_instance_thm. Qed.
Print Assumptions C13_lockset_instance.

Example C13_lockset_hypotheses_satisfiable :
  exists s,
    (forall t, gscan pol_table [] (ex_P t) <> None) /\
    exec kinds_table (ex_P, no_locks) ex_tr s /\
    ex_tr = [(0, Acq engine_mutex_id Ex)] ++ (0, Wr f_global_objects) :: [(0, Rel engine_mutex_id); (1, Acq engine_mutex_id Sh)] ++ (1, Rd f_global_objects) :: [] /\
    pol_table f_global_objects = PGuard engine_mutex_id.
Proof. exact lockset_example. Qed.

(* While a thread holds a mutex exclusively, no other thread performs an access that this mutex guards: one
   exclusive section = one atomic step of the section-level model below.  The registration member functions do all
   their table accesses in one such section (decided on the regenerated table). *)
Theorem C13_section_exclusive :
  forall kinds pol s tr s',
    exec kinds s tr s' -> minv (snd s) -> ginv pol s ->
    forall t1 m, In (m, Ex) (snd s t1) -> ~ In (t1, Rel m) tr ->
    forall t2 b f, In (t2, b) tr -> t2 <> t1 -> accesses b f = true -> pol f = PGuard m -> False.
Proof. exact section_exclusive_thm. Qed.
Print Assumptions C13_section_exclusive.

Theorem C13_registration_sections :
  one_section engine_mutex_id engine_fields 0 [] (body_of "Dispatch_Engine" "add_function" 2) = true /\
  one_section engine_mutex_id engine_fields 0 [] (body_of "Dispatch_Engine" "add_global" 2) = true /\
  one_section engine_mutex_id engine_fields 0 [] (body_of "Dispatch_Engine" "add_global_const" 2) = true /\
  one_section engine_mutex_id engine_fields 0 [] (body_of "Dispatch_Engine" "set_global" 2) = true /\
  one_section engine_mutex_id engine_fields 0 [] (body_of "Dispatch_Engine" "set_state" 1) = true /\
  one_section conv_mutex_id [f_conversions; f_convertable_types] 0 [] (body_of "Type_Conversions" "add_conversion" 1) = true /\
  body_of "Dispatch_Engine" "add_function" 2 <> [] /\ body_of "Dispatch_Engine" "add_global" 2 <> [] /\
  body_of "Dispatch_Engine" "add_global_const" 2 <> [] /\ body_of "Type_Conversions" "add_conversion" 1 <> [].
Proof. exact registration_sections_ok. Qed.
Print Assumptions C13_registration_sections.

(* For EVERY interleaving [s] of the operation lists [ts] of any number of threads (registrations of functions,
   globals, type entries, conversions; lookups, use, get_state may be mixed in): when the registered items are new and
   pairwise distinct, no registration fails and the final tables hold exactly the initial items plus every
   registered item - each exactly once (overload vectors compared as multisets: Permutation + NoDup). *)
Theorem C13_retained :
  forall ts s e0,
    Interleave ts s ->
    forallb monotone_op (List.concat ts) = true ->
    fresh_regs e0 (List.concat ts) ->
    let e := run_ops s e0 in
    Permutation (fun_items e) (fun_items e0 ++ flat_map reg_funs (List.concat ts)) /\
    Permutation (global_items e) (global_items e0 ++ flat_map reg_globals (List.concat ts)) /\
    Permutation (type_items e) (type_items e0 ++ flat_map reg_types (List.concat ts)) /\
    Permutation (conv_items e) (conv_items e0 ++ flat_map reg_convs (List.concat ts)) /\
    NoDup (fun_items e) /\ NoDup (map fst (global_items e)) /\ NoDup (map fst (type_items e)) /\ NoDup (conv_items e) /\
    Forall (fun r => r <> RConflict) (run_log s e0).
Proof. exact retained_thm. Qed.
Print Assumptions C13_retained.

Example C13_retained_hypotheses_satisfiable :
  Interleave ex_ts ex_sched /\ forallb monotone_op (List.concat ex_ts) = true /\ fresh_regs empty_engine (List.concat ex_ts) /\
  fun_items (run_ops ex_sched empty_engine) = [("f", 2); ("f", 1); ("h", 0)] /\
  nth 5 (run_log ex_sched empty_engine) ROk = RFuns [2; 1].
Proof. exact retained_example. Qed.

(* A lookup section that comes after a registration section that returned normally - whatever sections of whatever
   threads ran before ([s1]) and in between ([s2], anything but set_global / set_state) - observes the item. *)
Theorem C13_visible :
  forall s1 o s2 e0,
    forallb monotone_op s2 = true ->
    snd (apply_op o (run_ops s1 e0)) = ROk ->
    shows o (snd (apply_op (lookup_for o) (run_ops (s1 ++ o :: s2) e0))).
Proof. exact visible_thm. Qed.
Print Assumptions C13_visible.

Example C13_visible_hypotheses_satisfiable :
  snd (apply_op (AddFun "f" 2) (run_ops [AddFun "f" 1] empty_engine)) = ROk /\
  forallb monotone_op [AddGlobal "g" 1; AddFun "f" 3] = true /\
  snd (apply_op (GetFun "f") (run_ops ([AddFun "f" 1] ++ AddFun "f" 2 :: [AddGlobal "g" 1; AddFun "f" 3]) empty_engine)) = RFuns [1; 2; 3].
Proof. exact visible_example. Qed.

(* use(): generic.  Any number of threads whose programs open the check-evaluate-insert window only while holding the
   use mutex exclusively and never release it inside ([wscan]); under EVERY interleaving: a file is evaluated to
   completion at most once; evaluations started <= 1 + evaluations that threw; and once some use(f) has returned
   normally, f is in the used set, was evaluated to completion exactly once, and - if no evaluation of f threw - was
   started exactly once. *)
Theorem C13_use_once :
  forall kinds ids P0 tr s,
    (forall t, wscan ids [] 0 (P0 t) <> None) ->
    exec kinds (P0, no_locks) tr s ->
    let d := urun ids tr u0 in
    forall f,
      u_finished d f <= 1 /\
      u_started d f <= 1 + u_thrown d f /\
      (forall t, In (t, f) (u_returned d) -> In f (u_used d) /\ u_finished d f = 1 /\ (u_thrown d f = 0 -> u_started d f = 1)).
Proof. exact use_once_thm. Qed.
Print Assumptions C13_use_once.

(* ... and the body of ChaiScript_Basic::use in the regenerated table has that shape (m_use_mutex is held across
   eval_file), for calls that return and calls whose evaluation throws. *)
Theorem C13_use_once_instance :
  forall (calls : nat -> list (nat * bool)) tr s,
    exec kinds_table (fun t => List.concat (map (fun c => use_prog use_ids_table use_body (fst c) (snd c)) (calls t)), no_locks) tr s ->
    let d := urun use_ids_table tr u0 in
    forall f,
      u_finished d f <= 1 /\
      u_started d f <= 1 + u_thrown d f /\
      (forall t, In (t, f) (u_returned d) -> In f (u_used d) /\ u_finished d f = 1 /\ (u_thrown d f = 0 -> u_started d f = 1)).
Proof. exact use_once_instance_thm. Qed.
Print Assumptions C13_use_once_instance.

Example C13_use_once_hypotheses_satisfiable :
  exists s, exec kinds_table (ex_use_P, no_locks) ex_use_tr s /\
    u_started (urun use_ids_table ex_use_tr u0) 5 = 1 /\ u_finished (urun use_ids_table ex_use_tr u0) 5 = 1 /\
    u_returned (urun use_ids_table ex_use_tr u0) = [(1, 5); (0, 5)].
Proof. exact use_once_example. Qed.
