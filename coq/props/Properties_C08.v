(* C08 — Evaluating code does not change the code: re-evaluation is deterministic.
   In the evaluator model a Constant node owns one Boxed_Value, shared by all its evaluations (as
   Constant_AST_Node::m_value is); the rest of the tree is not part of the mutable state at all.
   * C08_const_discipline: for any set F of objects reachable through const Boxed_Values only, no
     evaluation — of any tree, from any state satisfying the invariant, with any outcome — changes an
     object of F, and the invariant is kept (so it holds across any number of evaluations, in any order);
   * C08_constant_never_changes: instance for the object of one constant;
   * C08_new_constant_is_frozen: a constant created const satisfies the invariant from its creation;
   * C08_optimizer_keeps_constants_const: the optimizer model (tied tree-for-tree to the real
     optimizer) creates const constants only — the premise under which the above applies to every
     constant of an optimised tree.
   Results of two evaluations from equal states are equal because `eval` is a function of (tree,
   state); the tie (tools/p_C08.py) checks the implementation against it call by call. *)
From Coq Require Import List Bool String.
From ChaiV Require Import Ast EvalDefs Eval EvalMeta EvalConst Optimizer OptConst.
Import ListNotations.

Theorem C08_const_discipline :
  forall F c ops fuel n s r s', eval c ops fuel n s = (r, s') -> cinv F s -> cinv F s' /\ same_on F s s'.
Proof. intros F c ops fuel n. exact (eval_keeps F c ops fuel n). Qed.
Print Assumptions C08_const_discipline.

Theorem C08_constant_never_changes :
  forall c ops o s, cinv [o] s ->
  forall fuel n r s', eval c ops fuel n s = (r, s') -> nth_error (s_objs s') o = nth_error (s_objs s) o /\ cinv [o] s'.
Proof. exact constant_object_never_changes. Qed.
Print Assumptions C08_constant_never_changes.

Theorem C08_new_constant_is_frozen :
  forall s o, heap_wf s -> cinv [List.length (s_objs s)] (snd (run_prim (PNewValue o true false) s)).
Proof. exact fresh_const_frozen. Qed.
Print Assumptions C08_new_constant_is_frozen.

Theorem C08_heap_wf_invariant :
  forall c ops fuel n s r s', eval c ops fuel n s = (r, s') -> heap_wf s -> heap_wf s'.
Proof. exact eval_heap_wf. Qed.
Print Assumptions C08_heap_wf_invariant.

Theorem C08_optimizer_keeps_constants_const :
  forall ops fc order n, consts_const n = true -> consts_const (optimize_tree ops fc order n) = true.
Proof. exact optimize_tree_const. Qed.
Print Assumptions C08_optimizer_keeps_constants_const.

Example C08_invariant_holds_initially : cinv [] init_state /\ heap_wf init_state.
Proof.
  split; [split; [exact init_heap_wf|split; [intros o []|intros i x o _ _ []]]|exact init_heap_wf].
Qed.
