(* C09 — Every evaluation leaves the engine's scope/call stack as it found it.
   Theorems about the evaluator model (Eval.v), for every configuration, every arithmetic
   instantiation, every tree, every starting state, every fuel and every outcome (value, return,
   break/continue, script throw, C++ exception of any kind incl. the harness callback's injected
   faults, eval_error, exhaustion of fuel). Proved once for the primitive effects and the
   combinators (EvalMeta.v), hence for every node. The implementation is tied to this model by
   tools/p_C09.py (fault enumeration on the real engine with the CHAISCRIPT_VERIF shape hook). *)
From Coq Require Import List String.
From ChaiV Require Import Ast EvalDefs Eval EvalMeta.
Import ListNotations.

(* (scopes in each call frame, number of saved-parameter lists, call depth) *)
Theorem C09_shape :
  forall c ops fuel n s r s', run_program c ops fuel n s = (r, s') -> shape s' = shape s.
Proof. exact run_program_preserves. Qed.
Print Assumptions C09_shape.

Theorem C09_shape_every_node :
  forall c ops fuel n s r s', eval c ops fuel n s = (r, s') -> shape s' = shape s.
Proof. intros c ops fuel n. exact (eval_preserves c ops fuel n). Qed.
Print Assumptions C09_shape_every_node.

(* bindings that existed are neither removed, reordered nor rebound, and only the innermost scope of
   the current frame can have gained bindings (at its end): completed top-level declarations stay *)
Theorem C09_persistence :
  forall c ops fuel n s r s', eval c ops fuel n s = (r, s') -> grows s s'.
Proof. intros c ops fuel n. exact (eval_growing c ops fuel n). Qed.
Print Assumptions C09_persistence.

(* nothing declared inside a block, loop, switch, case, catch clause or try survives it … *)
Theorem C09_scoped_leaves_nothing :
  forall c ops f k A (p : prog A) s r s', run (eval c ops f) k (Scoped p) s = (r, s') -> s_stacks s' = s_stacks s.
Proof. exact scoped_leaves_no_names. Qed.
Print Assumptions C09_scoped_leaves_nothing.

(* … nor does anything declared inside a function, lambda or method call reach the caller's scopes *)
Theorem C09_call_leaves_nothing :
  forall c ops f k A (p : prog A) s r s', run (eval c ops f) k (Framed p) s = (r, s') -> s_stacks s' = s_stacks s.
Proof. exact framed_leaves_no_names. Qed.
Print Assumptions C09_call_leaves_nothing.

(* non-vacuity: the base shape of a fresh engine and a state in the middle of a call *)
Example C09_shapes_exist :
  shape init_state = ([1], 1, 0) /\ shape (push_scope (enter_call (push_frame init_state))) = ([2; 1], 1, 1).
Proof. split; reflexivity. Qed.
