(* C19 — eval_file evaluates the file's bytes; use() evaluates once.
   Property theorems only; each is closed by `exact` of a lemma proved in FilesProofs / FilesTheorems.
   skip_bom_ops, load_file_ops, use_body, use_rethrows_nested are regenerated from chaiscript_engine.hpp on
   every run (tools/translate/t_LoadFile.py); run_load_file interprets them over a model of std::ifstream,
   exec interprets use()'s try block over search paths, the used-files set and abstract file programs. *)
From Coq Require Import List Bool String Arith NArith.
From ChaiV Require Import FilesDefs FilesProofs FilesTheorems.
From ChaiV.Gen Require Import G_LoadFile.
Import ListNotations.

(* for every content of every length (0, 1, 2 included) load_file returns exactly the content minus at most one
   leading EF BB BF; a path that does not exist raises file_not_found_error *)
Theorem C19_load : forall file, run_load_file skip_bom_ops load_file_ops file = load_spec file.
Proof. exact gen_load_thm. Qed.
Print Assumptions C19_load.

Theorem C19_load_ops : skip_bom_ops = canonical_skip_bom /\ load_file_ops = canonical_load_file.
Proof. exact (conj gen_skip_bom_canonical gen_load_file_canonical). Qed.
Print Assumptions C19_load_ops.

(* eval_file(name) is eval(load_file(name), handler, name) in the source *)
Theorem C19_eval_file : eval_file_is_eval_of_load_file = true.
Proof. exact gen_eval_file_direct. Qed.
Print Assumptions C19_eval_file.

(* in any history of use / eval_file / script eval_file, whatever the files do (nested use, nested eval_file,
   errors), a path that has entered m_used_files is never evaluated by use() again *)
Theorem C19_use_once : forall cfg fuel h, used_once (u_log (hrun use_body use_rethrows_nested cfg fuel u_init h)).
Proof. exact gen_use_once. Qed.
Print Assumptions C19_use_once.

(* use(name) looks at the search paths in the configured order: nothing found => file_not_found_error(name);
   first candidate already used => no effect at all; first existing candidate => it is evaluated (first event) *)
Theorem C19_use_search_order : forall cfg name paths fuel st, List.length paths + 2 <= fuel ->
  match resolve cfg (u_used st) name paths with
  | None => exec use_body use_rethrows_nested cfg fuel (CUse name paths) st = (st, UMissing name)
  | Some (p, true) => exec use_body use_rethrows_nested cfg fuel (CUse name paths) st = (st, UOk)
  | Some (p, false) => exists l, u_log (fst (exec use_body use_rethrows_nested cfg fuel (CUse name paths) st)) = u_log st ++ EvEval true p :: l
  end.
Proof. exact gen_use_resolves. Qed.
Print Assumptions C19_use_search_order.

Theorem C19_missing : forall cfg,
  (forall b p f st, lookup p (c_files cfg) = None -> exec use_body use_rethrows_nested cfg (S f) (CEvalPath b p) st = (st, UMissing p)) /\
  (forall name paths fuel st, (forall pa, In pa paths -> lookup (pa ++ name)%string (c_files cfg) = None) -> List.length paths + 2 <= fuel ->
     exec use_body use_rethrows_nested cfg fuel (CIef name paths) st = (st, UMissing name)) /\
  load_spec None = FileNotFound.
Proof. exact (fun cfg => conj (gen_eval_file_missing cfg) (conj (gen_script_eval_file_missing cfg) eq_refl)). Qed.
Print Assumptions C19_missing.

(* --- non-vacuity and what the mechanism is needed for *)
Local Open Scope string_scope.
Example C19_examples :
  run_load_file canonical_skip_bom canonical_load_file (Some [239; 187; 191; 49]%N) = Content [49%N] /\
  run_load_file canonical_skip_bom canonical_load_file (Some [239; 187]%N) = Content [239; 187]%N /\
  run_load_file canonical_skip_bom canonical_load_file (Some [239; 187; 191]%N) = Content [] /\
  run_load_file canonical_skip_bom canonical_load_file None = FileNotFound.
Proof. exact load_examples. Qed.

Example C19_history_example :
  let cfg := mkCfg ["p0/"; "p1/"] [("p0/a", [FUse "b"]); ("p1/a", []); ("p1/b", []); ("p0/c", [FUse "zz"])] in
  let st := hrun canonical_use_body true cfg 50 u_init [HUse "a"; HUse "a"; HUse "b"; HScriptEvalFile "a"] in
  u_log st = [EvEval true "p0/a"; EvEval true "p1/b"; EvUsed "p1/b"; EvUsed "p0/a"; EvEval false "p0/a"] /\
  u_used st = ["p1/b"; "p0/a"] /\
  snd (exec canonical_use_body true cfg 50 (CUse "c" ["p0/"; "p1/"]) st) = UMissing "zz" /\
  snd (exec canonical_use_body true cfg 50 (CUse "q" ["p0/"; "p1/"]) st) = UMissing "q" /\
  resolve cfg (u_used st) "b" ["p0/"; "p1/"] = Some ("p1/b", true).
Proof. exact history_example. Qed.

(* without infile.clear() a 1- or 2-byte file is returned as NUL bytes *)
Example C19_refuted_without_clear :
  run_load_file skip_bom_without_clear canonical_load_file (Some [49%N]) = Content [0%N] /\
  run_load_file skip_bom_without_clear canonical_load_file (Some [49; 50]%N) = Content [0; 0]%N /\
  run_load_file skip_bom_without_clear canonical_load_file (Some [49; 50; 51]%N) = Content [49; 50; 51]%N.
Proof. exact no_clear_returns_nuls. Qed.

(* inserting into m_used_files before the check: the file is never evaluated *)
Example C19_refuted_insert_first :
  let cfg := mkCfg ["p0/"] [("p0/a", [])] in
  u_log (fst (exec use_body_insert_first true cfg 10 (CUse "a" ["p0/"]) u_init)) = [EvUsed "p0/a"] /\
  u_log (fst (exec canonical_use_body true cfg 10 (CUse "a" ["p0/"]) u_init)) = [EvEval true "p0/a"; EvUsed "p0/a"].
Proof. exact insert_first_never_evaluates. Qed.
