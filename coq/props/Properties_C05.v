(* C05 — Script arithmetic is C++ arithmetic; trapping operations raise arithmetic_error.
   Property theorems only; each is closed by `exact` of a lemma proved elsewhere.
   go_table / unary_table / to_operator_table / pod_table / type_ladder are regenerated
   from /repo's working tree on every run (tools/translate/t_NumTables.py). *)
From Coq Require Import ZArith List Bool String.
From ChaiV Require Import NumDefs NumProofs NumTheorems.
From ChaiV.Gen Require Import G_NumTables.
Local Open Scope Z_scope.

(* value, width, signedness, floating-ness and in-place update: every case of Boxed_Number::go
   yields what the C++ operator its name denotes yields, or the demanded error *)
Theorem C05_value :
  forall op a m t1 v1 t2 v2,
    In op binary_opcodes -> expected_action op = Some a ->
    operand_ty t1 = true -> operand_ty t2 = true -> wf_val t1 v1 = true -> wf_val t2 v2 = true ->
    fst (spec_row a m t1 v1 t2 v2) <> UB ->
    interp_go go_table op m t1 v1 t2 v2 = spec_row a m t1 v1 t2 v2.
Proof. exact value_thm. Qed.
Print Assumptions C05_value.

(* no operand pair of any of the eleven types reaches the CPU's divide trap *)
Theorem C05_no_trap :
  forall op m t1 v1 t2 v2,
    operand_ty t1 = true -> operand_ty t2 = true -> wf_val t1 v1 = true -> wf_val t2 v2 = true ->
    fst (interp_go go_table op m t1 v1 t2 v2) <> Trap.
Proof. exact no_trap_thm. Qed.
Print Assumptions C05_no_trap.

Theorem C05_no_spurious_error :
  forall op a m t1 v1 t2 v2,
    In op binary_opcodes -> expected_action op = Some a ->
    operand_ty t1 = true -> operand_ty t2 = true -> wf_val t1 v1 = true -> wf_val t2 v2 = true ->
    (exists t v, fst (spec_row a m t1 v1 t2 v2) = Val t v) ->
    exists t v, fst (interp_go go_table op m t1 v1 t2 v2) = Val t v.
Proof. exact no_spurious_error_thm. Qed.
Print Assumptions C05_no_spurious_error.

Theorem C05_unary :
  forall op u m t v, In op unary_opcodes -> expected_unary op = Some u ->
    interp_unary unary_table op m t v = spec_unary u m t v.
Proof. exact unary_thm. Qed.
Print Assumptions C05_unary.

(* every C++ arithmetic type is operated on at its own width, signedness and floating-ness *)
Theorem C05_types :
  forall name k, In (name, k) type_ladder ->
    exists t, resolve_ladder name k = Some t /\ cxx_type_info name = Some t.
Proof. exact types_thm. Qed.
Print Assumptions C05_types.

Theorem C05_types_complete :
  forallb (fun n => existsb (fun e => String.eqb (fst e) n) type_ladder) cxx_type_names = true
  /\ forallb (fun e => onty_eqb (common_types_ty (fst e)) (common_types_ty (snd e))) visit_table = true
  /\ forallb (fun n => existsb (fun e => String.eqb (fst e) n) visit_table) common_type_names = true.
Proof. exact (conj types_ladder_complete visit_ok). Qed.
Print Assumptions C05_types_complete.

(* the evaluation routes agree on which operation an operator text denotes *)
Theorem C05_routes :
  forall op, In op (binary_opcodes ++ unary_opcodes) ->
    exists text, opcode_text op = Some text /\
      route_fn text (opcode_arity op) = Some (op, opcode_arity op) /\
      (route_node text (Nat.eqb (opcode_arity op) 1) = op \/ route_node text (Nat.eqb (opcode_arity op) 1) = invalid).
Proof. exact routes_thm. Qed.
Print Assumptions C05_routes.

Example C05_hypotheses_satisfiable :
  operand_ty (TI 32 true) = true /\ wf_val (TI 32 true) (VI (-2147483648)) = true /\ wf_val (TI 8 false) (VI 255) = true
  /\ fst (spec_row (ABin CDiv) false (TI 32 true) (VI (-2147483648)) (TI 32 true) (VI (-1))) = ArithErr
  /\ fst (spec_row (AAsg (Some CRem)) true (TI 32 true) (VI 5) (TI 32 true) (VI 0)) = ArithErr
  /\ fst (spec_row (AAsg (Some CAnd)) true (TI 32 true) (VI 5) (TI 32 true) (VI 0)) = Val (TI 32 true) (VI 0)
  /\ fst (spec_row (ABin CAdd) false (TI 8 false) (VI 255) (TI 8 true) (VI 1)) = Val (TI 32 true) (VI 256).
Proof. exact value_hyps_satisfiable. Qed.
