(* C07 — Const values cannot be modified from script.
   Property theorems only, closed by lemmas of DispatchProofs.v / ConstProofs.v instantiated with the tables regenerated from
   /repo's working tree on every run: G_CastRules (tools/translate/t_CastRules.py: Cast_Helper_Inner, the verify_type
   functions, Data's mutable pointer) and G_ConstRules (tools/translate/t_ConstRules.py: the guards of Equation_AST_Node /
   Prefix_AST_Node, where Boxed_Number takes its in-place pointer from, Handle_Return, the first-parameter forms of the
   stdlib wrappers; the host entry points chaiscript::const_var / var and what they hand to Boxed_Value's constructor; the
   global registration functions and their constness test; how add_function boxes function objects; every function registered
   under an assignment-like name in bootstrap.hpp, with the tests ptr_assign / unknown_assign make before rebinding).

   Model (ConstDefs.v): C++ objects are cells; every Boxed_Value::Data record points at one, with a const flag; script
   names are bound to Data records. A const object is an object all of whose Data records are const ([protected]).
   Standing assumption (stated in ConstDefs.ret_allowed): C++ callees are const-correct - what they get as const T& / const T*
   they return only by value or as const.
   Known deviations on the real code, reported by the check as findings, are outside these statements: elements of a const
   std::vector<Boxed_Value> are separate non-const objects; a const arithmetic value passed to a shared_ptr<T> /
   reference_wrapper<T> / other-arithmetic-type parameter is replaced by a converted temporary (result RTemp below). *)
From Coq Require Import String ZArith List Bool.
From ChaiV Require Import DispatchDefs DispatchProofs DispatchTheorems ConstDefs ConstSpecRun ConstProofs ConstTheorems.
From ChaiV.Gen Require Import G_CastRules G_ConstRules.
Import ListNotations.

(* every regenerated cast rule whose C++ form permits mutation (T&, T*, T&&, shared_ptr<T>, reference_wrapper<T>,
   unique_ptr<T> forms ...) rejects a const box, whatever its type, storage and value *)
Theorem C07_cast_guard :
  forall f t b r, In f mutable_inner_forms -> b_const b = true -> inner_cast gen_rules f t b <> DOk r.
Proof.
  intros f t b r Hin Hc. unfold mutable_inner_forms in Hin. apply filter_In in Hin. destruct Hin as [Hin Hm].
  apply cast_guard; auto using gen_rules_ok.
Qed.
Print Assumptions C07_cast_guard.

(* through boxed_cast with the engine's conversions (as call_func does for every parameter): a parameter of such a form
   never receives the object of a const argument - at most a converted temporary *)
Theorem C07_cast_guard_boxed_cast :
  forall E wc p a r, env_ok E = true -> param_wf p = true -> form_mutable (p_form p) = true -> b_const a = true ->
    boxed_cast_gen gen_rules E wc p a = COk r -> r_id r <> b_id a.
Proof.
  intros E wc p a r HE Hwf Hm Hc H. eapply mutable_recv_not_const; eauto.
  eapply boxed_cast_sound; eauto using gen_rules_ok.
Qed.
Print Assumptions C07_cast_guard_boxed_cast.

(* in the store model: mutable access to the object behind a Data record is granted only if the record is not const *)
Theorem C07_grant :
  forall f d, form_grant gen_rules f d = GMut -> d_const d = false.
Proof. intros. eapply grant_mut_not_const; eauto using gen_rules_ok. Qed.
Print Assumptions C07_grant.

(* aliasing operations (var &r = x, auto r := x, parameter passing, capture, push_back_ref, m[k] := x, return) bind the new
   name to the same object with the same const flag; copying (var y = x) creates a fresh non-const object with the same
   value and leaves every existing object alone *)
Theorem C07_const_propagates :
  (forall s k r x h d s' res, data_of s x = Some (h, d) -> exec gen_crules gen_rules s (CAlias k r x) = (s', res) ->
     exists h' d', data_of s' r = Some (h', d') /\ d_loc d' = d_loc d /\ d_const d' = d_const d)
  /\ (forall s y x h d s' res, data_of s x = Some (h, d) -> d_ret d = false -> exec gen_crules gen_rules s (CClone y x) = (s', res) ->
     exists h' d', data_of s' y = Some (h', d') /\ d_const d' = false /\ d_loc d' = length (s_cells s)
                   /\ cell s' (d_loc d') = cell s (d_loc d) /\ (forall l, l < length (s_cells s) -> cell s' l = cell s l)).
Proof. split; [apply alias_propagates | apply clone_fresh]. Qed.
Print Assumptions C07_const_propagates.

(* for every program - any sequence of aliasing routes, copies, member/element accesses, calls returning references, and
   mutation attempts (assignment operators, :=, ++/--, operator functions, C++ functions and stdlib members by any
   parameter form) - an object that is const at the start keeps its value, its Data records stay const and in place
   (so every name bound to it keeps denoting it), and every attempt aimed at it ends in an error or, for parameters of
   another arithmetic type / shared_ptr / reference_wrapper of an arithmetic type, runs on a converted temporary *)
Theorem C07_immutable :
  forall p l s s' outs,
    l < length (s_cells s) -> protected l s ->
    run gen_crules gen_rules s p = (s', outs) ->
    cell s' l = cell s l /\ protected l s' /\ stable l s s'
    /\ Forall (fun o => o_target o = Some l -> o_attempt o = true -> o_result o = RErr \/ o_result o = RTemp) outs.
Proof.
  intros p l s s' outs Hl Hp Hrun.
  destruct (run_immutable gen_crules gen_rules gen_crules_ok gen_rules_ok gen_null_when_const p l s s' outs (conj Hl Hp) Hrun)
    as ((_ & Hp') & Hc & Hs & Ha).
  auto.
Qed.
Print Assumptions C07_immutable.

(* ---- host entry points -------------------------------------------------------------------------------------------- *)

(* every host entry point whose name starts with const_ (the four chaiscript::const_var overloads: value, pointer, shared_ptr,
   reference_wrapper) yields a Boxed_Value whose const flag is set, whether or not the C++ type it was given is const *)
Theorem C07_const_entry_points :
  forall e tconst, In e (cr_entries gen_crules) -> prefix "const_" (en_name e) = true -> entry_const e tconst = true.
Proof. intros. eapply const_entry_const; eauto using gen_entries_ok. Qed.
Print Assumptions C07_const_entry_points.

(* every regenerated entry point gives the constness the specification used by the oracle demands (const_* : always; otherwise
   the constness of the C++ type it is given: var(std::cref(x)), var((const T * )p), shared_ptr<const T> are const, var(std::ref(x)) is not) *)
Theorem C07_entry_points_meet_spec :
  forall e tconst, In e (cr_entries gen_crules) -> entry_const e tconst = source_const (en_name e) tconst.
Proof. exact gen_entries_meet_spec. Qed.
Print Assumptions C07_entry_points_meet_spec.

(* function objects reached by name (script `def`s, functions the host added) are boxed by a const_* entry point *)
Theorem C07_function_objects_const :
  exists e, find_entry gen_crules (fst (cr_fnobj gen_crules)) (snd (cr_fnobj gen_crules)) = Some e /\ forall tc, entry_const e tc = true.
Proof. apply fnobj_const. exact gen_entries_ok. Qed.
Print Assumptions C07_function_objects_const.

(* add_global_const (every registration function with _const in its name) accepts only values whose const flag is set *)
Theorem C07_const_registration :
  forall r d, In r (cr_regs gen_crules) -> contains "_const" (rg_name r) = true -> reg_accepts r d = true -> d_const d = true.
Proof. intros. eapply const_registration; eauto using gen_entries_ok. Qed.
Print Assumptions C07_const_registration.

(* a C++ object l that the host shares only through entry points yielding const - any number of times, before or between
   script commands is covered by applying this to the store reached so far - : after sharing it once more under the name x by a
   const_* entry point, the name denotes l (or, for const_var of a value, a fresh object with l's value) as const, and whatever
   program runs next, l keeps its value, every Data record of l stays const, and every attempt aimed at l ends in an error (or on
   a converted temporary) *)
Theorem C07_shared_const_immutable :
  forall e tc sh ar l x s p s' outs,
    In e (cr_entries gen_crules) -> prefix "const_" (en_name e) = true ->
    l < length (s_cells s) -> protected l s ->
    run gen_crules gen_rules (share s e tc sh ar l x) p = (s', outs) ->
    (exists h d, data_of (share s e tc sh ar l x) x = Some (h, d) /\ d_const d = true
                 /\ d_loc d = (if en_copies e then length (s_cells s) else l) /\ cell (share s e tc sh ar l x) (d_loc d) = cell s l)
    /\ cell s' l = cell s l /\ protected l s'
    /\ Forall (fun o => o_target o = Some l -> o_attempt o = true -> o_result o = RErr \/ o_result o = RTemp) outs.
Proof.
  intros e tc sh ar l x s p s' outs Hin Hpre Hl Hp Hrun.
  pose proof (const_entry_const gen_crules e tc gen_entries_ok Hin Hpre) as Hc.
  destruct (share_data s e tc sh ar l x) as (h & d & Hd & Hdc & _ & Hloc & Hcell & Hold).
  destruct (share_protected s e tc sh ar l x l Hl Hp (fun _ => or_introl Hc)) as [Hl' Hp'].
  destruct (run_immutable gen_crules gen_rules gen_crules_ok gen_rules_ok gen_null_when_const p l _ s' outs (conj Hl' Hp') Hrun)
    as ((_ & Hp'') & Hcl & _ & Ha).
  split; [exists h, d; rewrite Hdc, Hc; auto|].
  split; [rewrite Hcl; apply Hold; exact Hl|]. auto.
Qed.
Print Assumptions C07_shared_const_immutable.

(* ---- functions registered under assignment-like names ------------------------------------------------------------- *)

(* every function registered in bootstrap.hpp under `=`, `+=`, ... `++`, `--` - Boxed_Number's in-place operations, the
   Assignable_Function `=`, and ptr_assign / unknown_assign, which take the left operand as a Boxed_Value and rebind it - gets no
   mutable access to, and does not rebind, a value whose const flag is set; the same for every stdlib wrapper
   (operators.hpp, bootstrap_stl.hpp) *)
Theorem C07_assign_functions_reject_const :
  (forall a d, In a (cr_assign gen_crules) -> d_const d = true -> In (fst a) assign_names /\ asg_access gen_crules gen_rules (snd a) d = false)
  /\ (forall w d, In w (cr_wrappers gen_crules) -> d_const d = true -> form_grant gen_rules (snd (fst w)) d <> GMut).
Proof.
  split.
  - intros a d Hin Hd. split; [apply gen_assign_names; exact Hin|].
    eapply assign_rejects_const; eauto using gen_crules_ok, gen_rules_ok, gen_null_when_const.
  - intros w d _ Hd. apply wrapper_rejects_const; auto using gen_rules_ok.
Qed.
Print Assumptions C07_assign_functions_reject_const.

(* ---- non-vacuity: concrete states in which the hypotheses hold and the mechanisms are exercised ---- *)
Definition ex_store : store :=
  (* cell 0 = 5 is const (a const_var), cell 1 = 7 is an ordinary variable *)
  mkstore [5%Z; 7%Z] [mkdata 0 true false true true; mkdata 1 false false true true] [(0, 0); (1, 1)].
Definition ex_prog : list cmd :=
  [ CAlias ARefDecl 2 0;            (* var &r = c *)
    CMut MEqArith 2 9;              (* r = 9          -> error *)
    CAlias AShare 3 2;              (* def f(p) {..}; f(r) *)
    CMut MPreArith 3 0;             (* ++p            -> error *)
    CMut (MRebind 1) 0 0;           (* c := v         -> error *)
    CMut (MForm FRef false) 3 9;    (* mut_ref(p)     -> error *)
    CMut (MForm FSh true) 3 9;      (* mut_sp(p)      -> runs on a converted temporary *)
    CMut MOperFn 0 9;               (* `+=`(c, 4)     -> error *)
    CClone 4 0;                     (* var y = c *)
    CMut MEqArith 4 9;              (* y = 9          -> fine, y is a copy *)
    CMut MEqArith 1 9;              (* v = 9          -> fine *)
    CMut (MOperBoxed "=" 1 true) 0 0;   (* `=`(c, v) through ptr_assign: refused, c is const *)
    CMut (MOperBoxed "=" 0 true) 1 0 ]. (* `=`(v, c): v now denotes c's object, as const *)
Example C07_hypotheses_satisfiable :
  1 < length (s_cells ex_store) /\ protected 0 ex_store
  /\ List.map o_result (snd (run gen_crules gen_rules ex_store ex_prog))
     = [RDone; RErr; RDone; RErr; RErr; RErr; RTemp; RErr; RDone; RMutated; RMutated; RErr; RRebound]
  /\ s_cells (fst (run gen_crules gen_rules ex_store ex_prog)) = [5%Z; 9%Z; 9%Z]
  /\ (forall b, b_const b = true -> inner_cast gen_rules FRef 10 b = DThrow EBadAny).
Proof.
  split; [cbn; auto|]. split.
  - intros h d Hn Hl. destruct h as [|[|h]]; cbn in Hn; try (destruct h; discriminate); injection Hn as <-; cbn in *; congruence.
  - split; [vm_compute; reflexivity|]. split; [vm_compute; reflexivity|].
    intros b Hb. unfold inner_cast. cbn. rewrite Hb. reflexivity.
Qed.

(* sharing through the regenerated entry points: const_var(std::ref(x)) of a non-const x is const and does not copy, const_var(value)
   copies, var(std::ref(x)) is not const, var(std::cref(x)) is; add_global_const takes the first and refuses the third *)
Local Open Scope string_scope.
Example C07_entry_points_exercised :
  (exists e, nth_error (cr_entries gen_crules) 3 = Some e /\ en_name e = "const_var" /\ en_arg e = EaRefWrap /\ prefix "const_" (en_name e) = true
             /\ entry_const e false = true /\ en_copies e = false
             /\ s_cells (fst (run gen_crules gen_rules (share ex_store e false false true 1 7) [CMut MEqArith 7 9; CMut MEqArith 1 9])) = [5%Z; 9%Z]
             /\ List.map o_result (snd (run gen_crules gen_rules (share ex_store e false false true 1 7) [CMut MEqArith 7 9; CMut MEqArith 1 9])) = [RErr; RMutated])
  /\ (exists e, nth_error (cr_entries gen_crules) 4 = Some e /\ en_name e = "var" /\ entry_const e false = false /\ entry_const e true = true)
  /\ List.map (fun r => (rg_name r, reg_accepts r (mkdata 0 true false true true), reg_accepts r (mkdata 0 false false true true))) (cr_regs gen_crules)
     = [("Module::add_global_const", true, false); ("Dispatch_Engine::add_global_const", true, false); ("Dispatch_Engine::add_global_no_throw", true, true);
        ("Dispatch_Engine::add_global", true, true); ("Dispatch_Engine::set_global", true, true)].
Proof.
  split; [eexists; split; [reflexivity|]; vm_compute; repeat split; reflexivity|].
  split; [eexists; split; [reflexivity|]; vm_compute; repeat split; reflexivity|].
  vm_compute. reflexivity.
Qed.
