(* C07 — Const values cannot be modified from script.
   Property theorems only, closed by lemmas of DispatchProofs.v / ConstProofs.v instantiated with the tables regenerated from
   /repo's working tree on every run: G_CastRules (tools/translate/t_CastRules.py: Cast_Helper_Inner, the verify_type
   functions, Data's mutable pointer) and G_ConstRules (tools/translate/t_ConstRules.py: the guards of Equation_AST_Node /
   Prefix_AST_Node, where Boxed_Number takes its in-place pointer from, Handle_Return, the first-parameter forms of the
   stdlib wrappers).

   Model (ConstDefs.v): C++ objects are cells; every Boxed_Value::Data record points at one, with a const flag; script
   names are bound to Data records. A const object is an object all of whose Data records are const ([protected]).
   Standing assumption (stated in ConstDefs.ret_allowed): C++ callees are const-correct - what they get as const T& / const T*
   they return only by value or as const.
   Known deviations on the real code, reported by the check as findings, are outside these statements: elements of a const
   std::vector<Boxed_Value> are separate non-const objects; a const arithmetic value passed to a shared_ptr<T> /
   reference_wrapper<T> / other-arithmetic-type parameter is replaced by a converted temporary (result RTemp below). *)
From Coq Require Import ZArith List Bool.
From ChaiV Require Import DispatchDefs DispatchProofs DispatchTheorems ConstDefs ConstProofs ConstTheorems.
From ChaiV.Gen Require Import G_CastRules G_ConstRules.
Import ListNotations.

(* every regenerated cast rule whose C++ form permits mutation (T&, T*, T&&, shared_ptr<T>, reference_wrapper<T>,
   unique_ptr<T> forms ...) rejects a const box, whatever its type, storage and value *)
Theorem C07_cast_guard :
  forall f t b r, In f mutable_inner_forms -> b_const b = true -> inner_cast gen_rules f t b <> DOk r.
Proof.
  intros f t b r Hin Hc. unfold mutable_inner_forms in Hin. apply filter_In in Hin. destruct Hin as [Hin Hm].
  apply cast_guard; auto using gen_rules_ok.
Qed.
Print Assumptions C07_cast_guard.

(* through boxed_cast with the engine's conversions (as call_func does for every parameter): a parameter of such a form
   never receives the object of a const argument - at most a converted temporary *)
Theorem C07_cast_guard_boxed_cast :
  forall E wc p a r, env_ok E = true -> param_wf p = true -> form_mutable (p_form p) = true -> b_const a = true ->
    boxed_cast_gen gen_rules E wc p a = COk r -> r_id r <> b_id a.
Proof.
  intros E wc p a r HE Hwf Hm Hc H. eapply mutable_recv_not_const; eauto.
  eapply boxed_cast_sound; eauto using gen_rules_ok.
Qed.
Print Assumptions C07_cast_guard_boxed_cast.

(* in the store model: mutable access to the object behind a Data record is granted only if the record is not const *)
Theorem C07_grant :
  forall f d, form_grant gen_rules f d = GMut -> d_const d = false.
Proof. intros. eapply grant_mut_not_const; eauto using gen_rules_ok. Qed.
Print Assumptions C07_grant.

(* aliasing operations (var &r = x, auto r := x, parameter passing, capture, push_back_ref, m[k] := x, return) bind the new
   name to the same object with the same const flag; copying (var y = x) creates a fresh non-const object with the same
   value and leaves every existing object alone *)
Theorem C07_const_propagates :
  (forall s k r x h d s' res, data_of s x = Some (h, d) -> exec gen_crules gen_rules s (CAlias k r x) = (s', res) ->
     exists h' d', data_of s' r = Some (h', d') /\ d_loc d' = d_loc d /\ d_const d' = d_const d)
  /\ (forall s y x h d s' res, data_of s x = Some (h, d) -> d_ret d = false -> exec gen_crules gen_rules s (CClone y x) = (s', res) ->
     exists h' d', data_of s' y = Some (h', d') /\ d_const d' = false /\ d_loc d' = length (s_cells s)
                   /\ cell s' (d_loc d') = cell s (d_loc d) /\ (forall l, l < length (s_cells s) -> cell s' l = cell s l)).
Proof. split; [apply alias_propagates | apply clone_fresh]. Qed.
Print Assumptions C07_const_propagates.

(* for every program - any sequence of aliasing routes, copies, member/element accesses, calls returning references, and
   mutation attempts (assignment operators, :=, ++/--, operator functions, C++ functions and stdlib members by any
   parameter form) - an object that is const at the start keeps its value, its Data records stay const and in place
   (so every name bound to it keeps denoting it), and every attempt aimed at it ends in an error or, for parameters of
   another arithmetic type / shared_ptr / reference_wrapper of an arithmetic type, runs on a converted temporary *)
Theorem C07_immutable :
  forall p l s s' outs,
    l < length (s_cells s) -> protected l s ->
    run gen_crules gen_rules s p = (s', outs) ->
    cell s' l = cell s l /\ protected l s' /\ stable l s s'
    /\ Forall (fun o => o_target o = Some l -> o_attempt o = true -> o_result o = RErr \/ o_result o = RTemp) outs.
Proof.
  intros p l s s' outs Hl Hp Hrun.
  destruct (run_immutable gen_crules gen_rules gen_crules_ok gen_rules_ok gen_null_when_const p l s s' outs (conj Hl Hp) Hrun)
    as ((_ & Hp') & Hc & Hs & Ha).
  auto.
Qed.
Print Assumptions C07_immutable.

(* ---- non-vacuity: concrete states in which the hypotheses hold and the mechanisms are exercised ---- *)
Definition ex_store : store :=
  (* cell 0 = 5 is const (a const_var), cell 1 = 7 is an ordinary variable *)
  mkstore [5%Z; 7%Z] [mkdata 0 true false true true; mkdata 1 false false true true] [(0, 0); (1, 1)].
Definition ex_prog : list cmd :=
  [ CAlias ARefDecl 2 0;            (* var &r = c *)
    CMut MEqArith 2 9;              (* r = 9          -> error *)
    CAlias AShare 3 2;              (* def f(p) {..}; f(r) *)
    CMut MPreArith 3 0;             (* ++p            -> error *)
    CMut (MRebind 1) 0 0;           (* c := v         -> error *)
    CMut (MForm FRef false) 3 9;    (* mut_ref(p)     -> error *)
    CMut (MForm FSh true) 3 9;      (* mut_sp(p)      -> runs on a converted temporary *)
    CMut MOperFn 0 9;               (* `+=`(c, 4)     -> error *)
    CClone 4 0;                     (* var y = c *)
    CMut MEqArith 4 9;              (* y = 9          -> fine, y is a copy *)
    CMut MEqArith 1 9 ].            (* v = 9          -> fine *)
Example C07_hypotheses_satisfiable :
  1 < length (s_cells ex_store) /\ protected 0 ex_store
  /\ List.map o_result (snd (run gen_crules gen_rules ex_store ex_prog))
     = [RDone; RErr; RDone; RErr; RErr; RErr; RTemp; RErr; RDone; RMutated; RMutated]
  /\ s_cells (fst (run gen_crules gen_rules ex_store ex_prog)) = [5%Z; 9%Z; 9%Z]
  /\ (forall b, b_const b = true -> inner_cast gen_rules FRef 10 b = DThrow EBadAny).
Proof.
  split; [cbn; auto|]. split.
  - intros h d Hn Hl. destruct h as [|[|h]]; cbn in Hn; try (destruct h; discriminate); injection Hn as <-; cbn in *; congruence.
  - split; [vm_compute; reflexivity|]. split; [vm_compute; reflexivity|].
    intros b Hb. unfold inner_cast. cbn. rewrite Hb. reflexivity.
Qed.
