(* Lexer-level lemmas cited by C01 (parsing is total and safe) and C20 (positions are right).
   Property theorems only; each is closed by `exact` of a lemma proved in LexProofs / LexLitProofs / LexTheorems.
   `lexer_safe m` (LexLitProofs): from EVERY state (any buffer, any cursor) whose line/col are right, `m` yields no
   Crash (no `--`/`-=` before `begin`, no raw read outside the buffer, no foreign exception) and no OutOfFuel
   (every loop ends within remaining+1 iterations); a normal result has the same buffer, a cursor that did not
   move back, and line/col that are right again (wf_pos). *)
From Coq Require Import ZArith NArith List Bool String.
From ChaiV Require Import NumDefs LexDefs LexProofs LexLitProofs LexTheorems.
From ChaiV.Gen Require Import G_IntLadder G_Keywords.
Local Open Scope Z_scope.

(* C20_inc: operator++ keeps line = 1 + newlines before the cursor, col = 1 + distance from the line start *)
Theorem Lex_inc_wf : forall p, wf_pos p -> wf_pos (pos_inc p).
Proof. exact wf_pos_inc. Qed.
Print Assumptions Lex_inc_wf.

(* C20_dec: operator-- keeps them when it does not cross a newline, or crosses the one whose column m_last_col records *)
Theorem Lex_dec_wf : forall p q,
  wf_pos p -> pos_dec p = Some q ->
  (nth (Nat.pred (idx p)) (buf p) 0%N <> NL \/ last_col p = 1 + Z.of_nat (since_nl (firstn (Nat.pred (idx p)) (buf p)))) ->
  wf_pos q.
Proof. exact wf_pos_dec. Qed.
Print Assumptions Lex_dec_wf.

(* operator-- is a Crash exactly at `begin` *)
Theorem Lex_dec_crash : forall p, pos_dec p = None <-> idx p = O.
Proof. exact pos_dec_none. Qed.
Print Assumptions Lex_dec_crash.

(* every `--` of the lexer directly undoes a `++` made while has_more held: it restores the position exactly
   (only m_last_col may differ), whatever byte was crossed *)
Theorem Lex_dec_after_inc : forall p, has_more p = true ->
  pos_dec (pos_inc p) = Some (set_last_col p (if N.eqb (nth (idx p) (buf p) 0%N) NL then col p else last_col p)).
Proof. exact pos_dec_inc. Qed.
Print Assumptions Lex_dec_after_inc.

Theorem Lex_begin_wf : forall b, wf_pos (pos_begin b).
Proof. exact wf_pos_begin. Qed.

Section Scanners.
  Variable U : Type.
  Variable A : alphabets.
  Variable T : int_tables.
  Variable K : kw_tables.

  Theorem Lex_Symbol_ : forall sym, lexer_safe (@Symbol_ U sym).
  Proof. exact (fun sym => fine_safe _ _ (fine_Symbol_ sym)). Qed.
  Theorem Lex_Char_ : forall c, lexer_safe (@Char_ U c).
  Proof. exact (fun c => fine_safe _ _ (fine_Char_ c)). Qed.
  Theorem Lex_Keyword_ : forall t, lexer_safe (@Keyword_ U t).
  Proof. exact (fun t => fine_safe _ _ (fine_Keyword_ t)). Qed.
  Theorem Lex_Eol_ : forall t_eos, lexer_safe (@Eol_ U t_eos).
  Proof. exact (fun e => fine_safe _ _ (fine_Eol_ e)). Qed.
  (* SkipComment: the `m_position -= 2` / `--m_position` sites (x2 each: `//` and `#` comments) *)
  Theorem Lex_SkipComment : lexer_safe (@SkipComment U).
  Proof. exact (fine_safe _ _ fine_SkipComment). Qed.
  Theorem Lex_SkipWS : forall skip_cr, lexer_safe (@SkipWS U A skip_cr).
  Proof. exact (fun b => fine_safe _ _ (fine_SkipWS A b)). Qed.
  Theorem Lex_read_exponent_and_suffix : lexer_safe (@read_exponent_and_suffix U A).
  Proof. exact (fine_safe _ _ (fine_read_exponent_and_suffix A)). Qed.
  (* Float_ / Hex_ / Binary_: the `--m_position` sites *)
  Theorem Lex_Float_ : lexer_safe (@Float_ U A).
  Proof. exact (fine_safe _ _ (fine_Float_ A)). Qed.
  Theorem Lex_Hex_ : lexer_safe (@Hex_ U A).
  Proof. exact (fine_safe _ _ (fine_Hex_ A)). Qed.
  Theorem Lex_Binary_ : lexer_safe (@Binary_ U A).
  Proof. exact (fine_safe _ _ (fine_Binary_ A)). Qed.
  Theorem Lex_IntSuffix_ : lexer_safe (@IntSuffix_ U A).
  Proof. exact (fine_safe _ _ (fine_IntSuffix_ A)). Qed.
  Theorem Lex_Num : lexer_safe (@Num U A T).
  Proof. exact (fine_safe _ _ (fine_Num A T)). Qed.
  Theorem Lex_Eol : lexer_safe (@Eol U A).
  Proof. exact (fine_safe _ _ (fine_Eol A)). Qed.
  Theorem Lex_Eos : lexer_safe (@Eos U A).
  Proof. exact (fine_safe _ _ (fine_Eos A)). Qed.
  Theorem Lex_Char : forall c, lexer_safe (@Char U A c).
  Proof. exact (fun c => fine_safe _ _ (fine_Char A c)). Qed.
  Theorem Lex_Keyword : forall t, lexer_safe (@Keyword U A t).
  Proof. exact (fun t => fine_safe _ _ (fine_Keyword A t)). Qed.
  Theorem Lex_Id_ : lexer_safe (@Id_ U A).
  Proof. exact (fine_safe _ _ (fine_Id_ A)). Qed.
  (* Id: `m_position - 1` for back-quoted identifiers; needs '`' not to be an identifier-start character *)
  Theorem Lex_Id : in_alpha (a_id A) 96%N = false -> forall validate, lexer_safe (@Id U A K validate).
  Proof. exact (fun H v => fine_safe _ _ (fine_Id A K H v)). Qed.
  Theorem Lex_Quoted_String_ : lexer_safe (@Quoted_String_ U).
  Proof. exact (fine_safe _ _ fine_Quoted_String_). Qed.
  Theorem Lex_Single_Quoted_String_ : lexer_safe (@Single_Quoted_String_ U).
  Proof. exact (fine_safe _ _ fine_Single_Quoted_String_). Qed.
  (* Quoted_String / Single_Quoted_String: `m_position - 1`, the Char_Parser's stoll/stoul calls, the interpolation scan's fuel *)
  Theorem Lex_Quoted_String : lexer_safe (@Quoted_String U A).
  Proof. exact (fine_safe _ _ (fine_Quoted_String A)). Qed.
  Theorem Lex_Single_Quoted_String : lexer_safe (@Single_Quoted_String U A).
  Proof. exact (fine_safe _ _ (fine_Single_Quoted_String A)). Qed.
End Scanners.
Print Assumptions Lex_SkipComment.
Print Assumptions Lex_SkipWS.
Print Assumptions Lex_Num.
Print Assumptions Lex_Id.
Print Assumptions Lex_Quoted_String.
Print Assumptions Lex_Single_Quoted_String.

(* over the alphabets regenerated from build_alphabet() the side condition of Lex_Id holds *)
Theorem Lex_Id_gen : forall U validate, lexer_safe (@Id U alphabets_gen kw_tables_gen validate).
Proof. exact Id_safe_gen. Qed.
Print Assumptions Lex_Id_gen.

(* the Char_Parser never leaks a foreign exception, on any byte string *)
Theorem Lex_Char_Parser_no_crash : forall interp s k, cp_run interp s <> CPCrash k.
Proof. exact cp_run_no_crash. Qed.
Print Assumptions Lex_Char_Parser_no_crash.

(* the hypotheses are satisfiable by a non-trivial state: a cursor in the middle of the second line *)
Example Lex_hypotheses_satisfiable :
  wf_pos (pos_add (pos_begin (10 :: 47 :: 47 :: 32 :: 13 :: 10 :: 49 :: nil)%N) 3)
  /\ idx (pos_add (pos_begin (10 :: 47 :: 47 :: 32 :: 13 :: 10 :: 49 :: nil)%N) 3) = 3%nat
  /\ line (pos_add (pos_begin (10 :: 47 :: 47 :: 32 :: 13 :: 10 :: 49 :: nil)%N) 3) = 2.
Proof. exact (conj (wf_pos_add _ 3 (wf_pos_begin _)) (conj eq_refl eq_refl)). Qed.
