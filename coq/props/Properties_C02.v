(* C02 — the AST optimizer never changes what a program does.  Only statements and `exact`. *)
From Coq Require Import ZArith NArith List Bool String.
From ChaiV Require Import StrUtil NumDefs Ast EvalDefs Eval Optimizer OptConst OptLaws.
Import ListNotations.

(* Return: the pass looks at the last child of a Def/Lambda after the body was detached: identity on every tree *)
Theorem C02_return_is_identity : forall n, pass_return n = n.
Proof. exact pass_return_id. Qed.
Print Assumptions C02_return_is_identity.

(* Partial_Fold: the rewritten node denotes literally the same effect program, for every tree *)
Theorem C02_partial_fold_same_program :
  forall c ops n, node_prog c ops (pass_partial_fold ops n) = node_prog c ops n.
Proof. exact partial_fold_same_program. Qed.
Print Assumptions C02_partial_fold_same_program.

(* Constant_Fold on `c1 op c2`: the constant it creates holds exactly what the runtime Binary node computes
   for those operands (same table row, same flags); when the operator traps or is unknown nothing is folded *)
Theorem C02_binary_fold_value :
  forall ops fc cls text l c a b tn1 t1 v1 tn2 t2 v2,
    const_num a = Some (tn1, t1, v1) -> const_num b = Some (tn2, t2, v2) ->
    match n_bin ops text false t1 v1 t2 v2 with
    | Some (Val t' v', _) => pass_constant_fold ops fc (Node KBinary cls text l c [a; b]) = folded (a_text a ++ " " ++ text ++ " " ++ a_text b) l t' v'
    | _ => pass_constant_fold ops fc (Node KBinary cls text l c [a; b]) = Node KBinary cls text l c [a; b]
    end.
Proof. exact binary_fold_value. Qed.
Print Assumptions C02_binary_fold_value.

(* a pass leaves every node of a kind it is not about untouched *)
Theorem C02_passes_are_local :
  forall ops fc n,
    (a_kind n <> KBinary -> pass_partial_fold ops n = n) /\
    (a_kind n <> KIf -> pass_if n = n) /\
    (a_kind n <> KBlock -> pass_dead_code n = n /\ pass_block n = n) /\
    (a_kind n <> KFor -> pass_for_loop n = n) /\
    (a_kind n <> KEquation -> pass_assign_decl n = n) /\
    (a_kind n <> KBinary -> a_kind n <> KPrefix -> a_kind n <> KLogical_And -> a_kind n <> KLogical_Or -> a_kind n <> KFun_Call -> pass_constant_fold ops fc n = n).
Proof. exact passes_are_local. Qed.
Print Assumptions C02_passes_are_local.

(* If: the pass returns one of the node's own children, chosen by the constant condition exactly as eval_if chooses *)
Theorem C02_if_picks_the_taken_branch :
  forall cls text l c cnd th rest b,
    const_bool cnd = Some b ->
    pass_if (Node KIf cls text l c (cnd :: th :: rest)) =
      if b then th else match rest with [el] => el | _ => Node KIf cls text l c (cnd :: th :: rest) end.
Proof. exact if_picks_branch. Qed.
Print Assumptions C02_if_picks_the_taken_branch.

(* Dead_Code keeps the last child and every child that is neither a Constant nor a Noop, in order *)
Theorem C02_dead_code_keeps :
  forall l, keepers l = match rev l with
                        | [] => []
                        | last :: front => filter (fun x => negb (kind_eqb (a_kind x) KConstant || kind_eqb (a_kind x) KNoop)) (rev front) ++ [last]
                        end.
Proof. exact keepers_spec. Qed.
Print Assumptions C02_dead_code_keeps.

(* every pass and the bottom-up driver keep constants const (shared with C08) *)
Theorem C02_optimizer_keeps_constants_const :
  forall ops fc order n, consts_const n = true -> consts_const (optimize_tree ops fc order n) = true.
Proof. exact optimize_tree_const. Qed.
Print Assumptions C02_optimizer_keeps_constants_const.

(* The full statement — for every tree n, configuration and related start states, running the optimised tree and the raw
   tree yields the same output, result and error — is decided per program by the translation validation in tools/p_C02.py
   (the same extracted `eval` is run on both trees and compared with the implementation on both).  The general theorem
   needs the location-renaming equivariance of the evaluator (DESIGN.md §6 C02, stage M4). *)
