(* C01 — Parsing is total and safe.  Property theorems only (proofs in ParserProofs / ParserTheorems / LexProofs). *)
From Coq Require Import ZArith NArith List Bool String.
From ChaiV Require Import NumDefs Ast LexDefs ParserDefs ParserTheorems.
From ChaiV.Gen Require Import G_IntLadder G_Keywords G_OperatorTable.

Theorem C01_tables_depth_limit : g_max_depth gtables_gen = max_parse_depth.
Proof. exact max_depth_gen_ok. Qed.
Print Assumptions C01_tables_depth_limit.
