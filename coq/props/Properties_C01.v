(* C01 — Parsing is total and safe: a tree for the whole input, or eval_error.
   Property theorems only; each is closed by `exact` of a lemma proved in ParserBodies / ParserTheorems (grammar layer, by one induction on
   the call-depth fuel over all 28 mutually recursive grammar functions) on top of LexProofs / LexLitProofs / ParserLexProofs (lexical layer,
   see Properties_Lex).  `parse A T K G` is ParserDefs.parse over the tables regenerated from /repo's working tree on every run
   (tools/translate/t_OperatorTable.py, t_Keywords.py, t_IntLadder.py); that this model computes what the compiled parser computes is the
   correspondence checked by tools/p_C01.py on every run.

   Outcomes of the model: Ok tree | Err reason line col (chaiscript::exception::eval_error) | Crash k | OutOfFuel, where Crash covers every way
   the C++ could leave defined behaviour or the eval_error discipline: `--m_position` / `m_position -= n` before `begin` (OOB_dec), a raw read
   `file_pos[i]`, `m_match_stack[i]`, `m_operators[i]`, `children[i]`, `front()` outside its container (OOB_read), std::out_of_range /
   std::invalid_argument leaving the Char_Parser (Foreign_out_of_range, Foreign_invalid_argument), a node constructor's `assert` on the number of children or a throw inside the
   Char_Parser destructor (Terminate). *)
From Coq Require Import ZArith NArith List Bool String.
From ChaiV Require Import NumDefs Ast LexDefs LexProofs LexLitProofs ParserLexProofs ParserDefs ParserProofs ParserBodies ParserTriviaProofs ParserTheorems.
From ChaiV.Gen Require Import G_IntLadder G_Keywords G_OperatorTable.
Import ListNotations.
Local Open Scope string_scope.

(* ---------------------------------------------------------------- C01_safe
   For ALL byte strings and file names the parse never yields Crash: no read or decrement outside the input buffer (the unchecked operations are
   operator--, operator-=, the raw reads of Symbol_/Keyword_; the grammar layer's own sites are the two `--m_position` of Dot_Fun_Array), no read
   outside the match stack / operator table / a node's children, no node constructor assertion, no foreign exception, no terminate. *)
Theorem C01_safe : forall (bytes : list N) (fname : string) (k : crash), parse A T K G bytes fname <> Crash k.
Proof. exact parse_gen_no_crash. Qed.
Print Assumptions C01_safe.

(* ---------------------------------------------------------------- C01_terminates
   With the stated fuel -- every loop runs at most (remaining bytes + 1) iterations, the chain of nested grammar-function calls is at most
   parse_fuel = 2 * 512 + 8 long -- no input yields OutOfFuel: each continuing iteration of every loop of the grammar layer (Statements,
   Class_Statements, Dot_Fun_Array, Operator, the comma lists, catch / case lists, `while (Eol())`) has consumed at least one byte, and a grammar
   function that reports a match has consumed at least one byte.
   NOTE (known finding chaiscript_parser.hpp:Container_Arg_List:exponential-backtracking): termination, not a polynomial bound.  The NUMBER of
   grammar-function invocations is exponential in the nesting depth of inline containers (Value_Range, Map_Pair and Operator each re-parse the
   same text after a roll-back: about 3^n for `[`*n 1 `]`*n), which the fuel does not measure: fuel bounds the depth of the call chain and the
   length of each loop, not the total work. *)
Theorem C01_terminates : forall (bytes : list N) (fname : string), parse A T K G bytes fname <> OutOfFuel.
Proof. exact parse_gen_no_out_of_fuel. Qed.
Print Assumptions C01_terminates.

(* ---------------------------------------------------------------- C01_depth
   (1) The parser's recursion is bounded on every input: a chain of nested grammar-function calls longer than parse_fuel = 2 * 512 + 8 never
       occurs (this is C01_terminates read for the call-depth fuel of ParserDefs.P: OutOfFuel is what a longer chain would yield).
   (2) Exceeding the limit is reported, never a Crash / OutOfFuel: EVERY grammar function that opens a Depth_Counter, entered with the counter
       at the limit, yields Err "Maximum parse depth exceeded" at the current position, whatever the input.
   (3) Concrete nestings, one per self-embedding construct (by computation): see the Examples below.
   Scope: the parser's recursion only.  Operator / call / dot CHAINS are folded iteratively by build_match: parse depth stays constant while
   the TREE becomes as deep as the chain is long (known finding chaiscript_parser.hpp:left-deep-chain: destroying / evaluating the tree recurses). *)
Theorem C01_depth_bounded : parse_fuel = 2 * max_parse_depth + 8 /\ forall bytes fname, parse A T K G bytes fname <> OutOfFuel.
Proof. exact (conj eq_refl parse_gen_no_out_of_fuel). Qed.
Theorem C01_depth_reported : forall (f : nat) (nt : NT) (s : state pstate),
  counted nt -> depth s = max_parse_depth ->
  P A T K G (S f) nt s = Err "Maximum parse depth exceeded" (line (pos s)) (col (pos s)).
Proof. exact (P_depth_limit A T K G). Qed.
Print Assumptions C01_depth_reported.
Theorem C01_depth_limit_is_the_sources : g_max_depth G = max_parse_depth /\ counted_gen = counted_model.
Proof. exact (conj max_depth_gen_ok counted_gen_ok). Qed.

Fixpoint rep (n : nat) (s : list N) : list N := match n with O => [] | S k => s ++ rep k s end.
Definition outcome_of (b : list N) : string * Z * Z :=
  match parse A T K G b "F" with
  | Ok _ => ("OK", 0, 0)%Z | Err r l c => (r, l, c) | Crash _ => ("CRASH", 0, 0)%Z | OutOfFuel => ("OUTOFFUEL", 0, 0)%Z
  end.
Definition too_deep (b : list N) : bool := String.eqb (fst (fst (outcome_of b))) "Maximum parse depth exceeded".
Definition accepted (b : list N) : bool := String.eqb (fst (fst (outcome_of b))) "OK".
(* the deepest accepted nesting and the first rejected one, per construct *)
Example C01_depth_parens : accepted (rep 32 (bos "(") ++ bos "1" ++ rep 32 (bos ")")) = true /\ too_deep (rep 33 (bos "(") ++ bos "1" ++ rep 33 (bos ")")) = true
                           /\ too_deep (rep 100 (bos "(") ++ bos "1" ++ rep 100 (bos ")")) = true.
Proof. vm_compute. auto. Qed.
Example C01_depth_braces : too_deep (rep 300 (bos "{") ++ rep 300 (bos "}")) = true /\ accepted (rep 30 (bos "{") ++ rep 30 (bos "}")) = true.
Proof. vm_compute. auto. Qed.
Example C01_depth_brackets : too_deep (rep 100 (bos "[")) = true /\ accepted (rep 6 (bos "[") ++ bos "1" ++ rep 6 (bos "]")) = true.
Proof. vm_compute. auto. Qed.
Example C01_depth_prefix : too_deep (rep 400 (bos "-") ++ bos "x") = true /\ too_deep (rep 200 (bos "!") ++ bos "x") = true /\ accepted (rep 40 (bos "!") ++ bos "x") = true.
Proof. vm_compute. auto. Qed.
Example C01_depth_lambdas : too_deep (rep 100 (bos "fun(){ ") ++ bos "1" ++ rep 100 (bos " }")) = true /\ accepted (rep 5 (bos "fun(){ ") ++ bos "1" ++ rep 5 (bos " }")) = true.
Proof. vm_compute. auto. Qed.
Example C01_depth_ternaries : too_deep (rep 100 (bos "(a ? ") ++ bos "b" ++ rep 100 (bos " : c)")) = true /\ accepted (rep 5 (bos "(a ? ") ++ bos "b" ++ rep 5 (bos " : c)")) = true.
Proof. vm_compute. auto. Qed.
Example C01_depth_equations : too_deep (rep 600 (bos "x = ") ++ bos "1") = true.
Proof. vm_compute. auto. Qed.

(* ---------------------------------------------------------------- C01_accounts
   FULL STATEMENT (the repaired parse_internal):
     parse bytes fname = Ok t ->  (kind t = File /\ the final cursor is at the end of the input) \/ (kind t = Noop /\ trivia_only bytes = true)
   with ParserDefs.trivia_only the independently written automaton (spaces, tabs, line ends, comments, annotations, shebang line).
   PROVED at full strength for EVERY byte string that does not begin with the two bytes `#!` (C01_accounts): the proof relates the cursor to the
   state of the specification automaton run over the bytes before it (ParserTriviaProofs: SkipComment / SkipWS move between "trivia boundaries",
   every scanner and every grammar function that reports no match leaves the cursor on one -- for Num() this is the fix 3bd5fe4: before it,
   `.1e` parsed to Noop), so a Noop root means the automaton accepts the whole buffer.
   PROVED for all inputs (`_partial`): a normal result is a File node or THE location-less Noop node; in both cases the final cursor is at the end
   of the input, the buffer is the caller's, line/col are right and the depth counter is back at 0.
   MISSING for inputs that begin with `#!`: the lemma that the first Eol() of parse_internal's shebang loop, which starts on the `#`, skips
   exactly that annotation line and then sees the line end or the end of the input (never `;`, never a byte the loop would step over with `++`).
   Both directions are also checked by the oracle of tools/p_C01.py on every run (root Noop <=> the extracted trivia_only holds). *)
Theorem C01_accounts : forall (bytes : list N) (fname : string) (t : pnode) (s' : state pstate),
  no_shebang bytes ->
  parse_full A T K G bytes fname = Ok (t, s') ->
  (pn_kind t = Ast.KFile /\ idx (pos s') = List.length bytes) \/ (t = noop_node /\ trivia_only bytes = true).
Proof. exact parse_gen_accounts. Qed.
Print Assumptions C01_accounts.
Theorem C01_accounts_partial : forall (bytes : list N) (fname : string) (t : pnode) (s' : state pstate),
  parse_full A T K G bytes fname = Ok (t, s') ->
  buf (pos s') = bytes /\ wf_pos (pos s') /\ idx (pos s') = List.length bytes /\ depth s' = 0%nat /\ (pn_kind t = Ast.KFile \/ t = noop_node).
Proof. exact parse_gen_root. Qed.
Print Assumptions C01_accounts_partial.
(* malformed numeric literals are rejected, not dropped (they were before fix 3bd5fe4) *)
Example C01_malformed_number_rejected :
  parse A T K G (bos ".1e") "F" = Err "Unparsed input" 1 1 /\ parse A T K G (bos "f(.1e)") "F" = Err "Incomplete function call" 1 3 /\ trivia_only (bos ".1e") = false.
Proof. vm_compute. auto. Qed.
(* the hypotheses are satisfiable by non-trivial inputs: a program, and an input of trivia only *)
Example C01_accounts_file : exists t s', parse_full A T K G (bos "x = 1 // c") "F" = Ok (t, s') /\ pn_kind t = Ast.KFile /\ idx (pos s') = 10%nat.
Proof. vm_compute. eexists. eexists. split; [reflexivity|]. split; reflexivity. Qed.
Example C01_accounts_noop : exists s', parse_full A T K G (bos " /* c */ // d") "F" = Ok (noop_node, s') /\ trivia_only (bos " /* c */ // d") = true.
Proof. vm_compute. eexists. split; reflexivity. Qed.
Example C01_unparsed_input : parse A T K G (bos ")") "F" = Err "Unparsed input" 1 1.
Proof. vm_compute. reflexivity. Qed.

(* ---------------------------------------------------------------- the regenerated tables satisfy the side conditions the proofs need *)
Theorem C01_tables_ok : tables_ok G = true /\ (forall c, in_alpha (a_id A) c = true -> in_alpha (a_keyword A) c = true).
Proof. exact (conj tables_gen_ok id_sub_keyword_gen). Qed.
