(* C01 — Parsing is total and safe: a tree for the whole input, or eval_error.
   Property theorems only; each is closed by `exact` of a lemma proved in ParserBodies / ParserTriviaProofs / ParserErrPosProofs / ParserFnameProofs / ParserTheorems (grammar layer, by one induction on
   the call-depth fuel over all 28 mutually recursive grammar functions) on top of LexProofs / LexLitProofs / ParserLexProofs (lexical layer,
   see Properties_Lex).  `parse A T K G` is ParserDefs.parse over the tables regenerated from /repo's working tree on every run
   (tools/translate/t_OperatorTable.py, t_Keywords.py, t_IntLadder.py); that this model computes what the compiled parser computes is the
   correspondence checked by tools/p_C01.py on every run.

   Outcomes of the model: Ok tree | Err reason line col (chaiscript::exception::eval_error) | Crash k | OutOfFuel, where Crash covers every way
   the C++ could leave defined behaviour or the eval_error discipline: `--m_position` / `m_position -= n` before `begin` (OOB_dec), a raw read
   `file_pos[i]`, `m_match_stack[i]`, `m_operators[i]`, `children[i]`, `front()` outside its container (OOB_read), std::out_of_range /
   std::invalid_argument leaving the Char_Parser (Foreign_out_of_range, Foreign_invalid_argument), a node constructor's `assert` on the number of children or a throw inside the
   Char_Parser destructor (Terminate).
   Contents: C01_safe, C01_terminates, C01_depth_*, C01_accounts (all inputs, `#!` included), C01_error_position, C01_no_leaked_nodes,
   C01_fname_independent, C01_tables_ok. *)
From Coq Require Import ZArith NArith List Bool String.
From ChaiV Require Import NumDefs Ast LexDefs LexProofs LexLitProofs ParserLexProofs ParserDefs ParserProofs ParserBodies ParserTriviaProofs ParserErrPosProofs ParserFnameProofs ParserTheorems.
From ChaiV.Gen Require Import G_IntLadder G_Keywords G_OperatorTable.
Import ListNotations.
Local Open Scope string_scope.

(* ---------------------------------------------------------------- C01_safe
   For ALL byte strings and file names the parse never yields Crash: no read or decrement outside the input buffer (the unchecked operations are
   operator--, operator-=, the raw reads of Symbol_/Keyword_; the grammar layer's own sites are the two `--m_position` of Dot_Fun_Array), no read
   outside the match stack / operator table / a node's children, no node constructor assertion, no foreign exception, no terminate. *)
Theorem C01_safe : forall (bytes : list N) (fname : string) (k : crash), parse A T K G bytes fname <> Crash k.
Proof. exact parse_gen_no_crash. Qed.
Print Assumptions C01_safe.

(* ---------------------------------------------------------------- C01_terminates
   With the stated fuel -- every loop runs at most (remaining bytes + 1) iterations, the chain of nested grammar-function calls is at most
   parse_fuel = 2 * 512 + 8 long -- no input yields OutOfFuel: each continuing iteration of every loop of the grammar layer (Statements,
   Class_Statements, Dot_Fun_Array, Operator, the comma lists, catch / case lists, `while (Eol())`) has consumed at least one byte, and a grammar
   function that reports a match has consumed at least one byte.
   NOTE (known finding chaiscript_parser.hpp:Container_Arg_List:exponential-backtracking): termination, not a polynomial bound.  The NUMBER of
   grammar-function invocations is exponential in the nesting depth of inline containers (Value_Range, Map_Pair and Operator each re-parse the
   same text after a roll-back: about 3^n for `[`*n 1 `]`*n), which the fuel does not measure: fuel bounds the depth of the call chain and the
   length of each loop, not the total work. *)
Theorem C01_terminates : forall (bytes : list N) (fname : string), parse A T K G bytes fname <> OutOfFuel.
Proof. exact parse_gen_no_out_of_fuel. Qed.
Print Assumptions C01_terminates.

(* ---------------------------------------------------------------- C01_depth
   (1) The parser's recursion is bounded on every input: a chain of nested grammar-function calls longer than parse_fuel = 2 * 512 + 8 never
       occurs (this is C01_terminates read for the call-depth fuel of ParserDefs.P: OutOfFuel is what a longer chain would yield).
   (2) Exceeding the limit is reported, never a Crash / OutOfFuel: EVERY grammar function that opens a Depth_Counter, entered with the counter
       at the limit, yields Err "Maximum parse depth exceeded" at the current position, whatever the input.
   (3) Concrete nestings, one per self-embedding construct (by computation): see the Examples below.
   Scope: the parser's recursion only.  Operator / call / dot CHAINS are folded iteratively by build_match: parse depth stays constant while
   the TREE becomes as deep as the chain is long (known finding chaiscript_parser.hpp:left-deep-chain: destroying / evaluating the tree recurses). *)
Theorem C01_depth_bounded : parse_fuel = 2 * max_parse_depth + 8 /\ forall bytes fname, parse A T K G bytes fname <> OutOfFuel.
Proof. exact (conj eq_refl parse_gen_no_out_of_fuel). Qed.
Theorem C01_depth_reported : forall (f : nat) (nt : NT) (s : state pstate),
  counted nt -> depth s = max_parse_depth ->
  P A T K G (S f) nt s = Err "Maximum parse depth exceeded" (line (pos s)) (col (pos s)).
Proof. exact (P_depth_limit A T K G). Qed.
Print Assumptions C01_depth_reported.
Theorem C01_depth_limit_is_the_sources : g_max_depth G = max_parse_depth /\ counted_gen = counted_model.
Proof. exact (conj max_depth_gen_ok counted_gen_ok). Qed.

Fixpoint rep (n : nat) (s : list N) : list N := match n with O => [] | S k => s ++ rep k s end.
Definition outcome_of (b : list N) : string * Z * Z :=
  match parse A T K G b "F" with
  | Ok _ => ("OK", 0, 0)%Z | Err r l c => (r, l, c) | Crash _ => ("CRASH", 0, 0)%Z | OutOfFuel => ("OUTOFFUEL", 0, 0)%Z
  end.
Definition too_deep (b : list N) : bool := String.eqb (fst (fst (outcome_of b))) "Maximum parse depth exceeded".
Definition accepted (b : list N) : bool := String.eqb (fst (fst (outcome_of b))) "OK".
(* the deepest accepted nesting and the first rejected one, per construct *)
Example C01_depth_parens : accepted (rep 32 (bos "(") ++ bos "1" ++ rep 32 (bos ")")) = true /\ too_deep (rep 33 (bos "(") ++ bos "1" ++ rep 33 (bos ")")) = true
                           /\ too_deep (rep 100 (bos "(") ++ bos "1" ++ rep 100 (bos ")")) = true.
Proof. vm_compute. auto. Qed.
Example C01_depth_braces : too_deep (rep 300 (bos "{") ++ rep 300 (bos "}")) = true /\ accepted (rep 30 (bos "{") ++ rep 30 (bos "}")) = true.
Proof. vm_compute. auto. Qed.
Example C01_depth_brackets : too_deep (rep 100 (bos "[")) = true /\ accepted (rep 6 (bos "[") ++ bos "1" ++ rep 6 (bos "]")) = true.
Proof. vm_compute. auto. Qed.
Example C01_depth_prefix : too_deep (rep 400 (bos "-") ++ bos "x") = true /\ too_deep (rep 200 (bos "!") ++ bos "x") = true /\ accepted (rep 40 (bos "!") ++ bos "x") = true.
Proof. vm_compute. auto. Qed.
Example C01_depth_lambdas : too_deep (rep 100 (bos "fun(){ ") ++ bos "1" ++ rep 100 (bos " }")) = true /\ accepted (rep 5 (bos "fun(){ ") ++ bos "1" ++ rep 5 (bos " }")) = true.
Proof. vm_compute. auto. Qed.
Example C01_depth_ternaries : too_deep (rep 100 (bos "(a ? ") ++ bos "b" ++ rep 100 (bos " : c)")) = true /\ accepted (rep 5 (bos "(a ? ") ++ bos "b" ++ rep 5 (bos " : c)")) = true.
Proof. vm_compute. auto. Qed.
Example C01_depth_equations : too_deep (rep 600 (bos "x = ") ++ bos "1") = true.
Proof. vm_compute. auto. Qed.

(* ---------------------------------------------------------------- C01_accounts
   FULL STATEMENT (the repaired parse_internal), PROVED FOR EVERY BYTE STRING:
     parse bytes fname = Ok t ->  (kind t = File /\ the final cursor is at the end of the input) \/ (t = THE Noop node /\ trivia_only bytes = true)
   with ParserDefs.trivia_only the independently written automaton (spaces, tabs, line ends, comments, annotations, shebang line).
   The proof relates the cursor to the state of the specification automaton run over the bytes before it (ParserTriviaProofs: SkipComment / SkipWS
   move between "trivia boundaries", every scanner and every grammar function that reports no match leaves the cursor on one -- for Num() this is
   the fix 3bd5fe4: before it, `.1e` parsed to Noop), so a Noop root means the automaton accepts the whole buffer.
   Inputs that begin with `#!` (parse_internal's loop `while (m_position.has_more() && !Eol()) ++m_position`): ParserTriviaProofs.shebang_loop_tb --
   the first Eol() of the loop, entered on the `#`, skips exactly that annotation line (SkipWS_annotation) and then stands on the line end, which
   Eol_ always consumes (fine_Eol_complete), or at the end of the input; it never sees `;` nor a byte the loop would step over with `++`, the loop
   runs at most twice and leaves the cursor on a trivia boundary, after which the argument for the other inputs applies unchanged.
   Both directions are also checked by the oracle of tools/p_C01.py on every run (root Noop <=> the extracted trivia_only holds). *)
Theorem C01_accounts : forall (bytes : list N) (fname : string) (t : pnode) (s' : state pstate),
  parse_full A T K G bytes fname = Ok (t, s') ->
  (pn_kind t = Ast.KFile /\ idx (pos s') = List.length bytes) \/ (t = noop_node /\ trivia_only bytes = true).
Proof. exact parse_gen_accounts. Qed.
Print Assumptions C01_accounts.
(* the statement as it stood before the `#!` lemma (inputs not beginning with `#!`), now a corollary *)
Theorem C01_accounts_no_shebang : forall (bytes : list N) (fname : string) (t : pnode) (s' : state pstate),
  no_shebang bytes ->
  parse_full A T K G bytes fname = Ok (t, s') ->
  (pn_kind t = Ast.KFile /\ idx (pos s') = List.length bytes) \/ (t = noop_node /\ trivia_only bytes = true).
Proof. exact parse_gen_accounts_no_shebang. Qed.
(* the shebang loop itself: from the `#` at the start of a well-formed cursor it ends (or throws) on a trivia boundary of the same buffer *)
Theorem C01_shebang_line : forall (s : state pstate),
  wf_pos (pos s) -> tstate_at (pos s) = TS_normal -> has_more (pos s) = true -> deref (pos s) = 35%N ->
  post (loop (shebang_body A) tt s) (fun _ s' => wf_pos (pos s') /\ tb (pos s') /\ buf (pos s') = buf (pos s)).
Proof. exact (shebang_loop_tb A white_gen_ok). Qed.
Print Assumptions C01_shebang_line.
(* in every normal result the final cursor is at the end of the caller's buffer, line/col are right and the depth counter is back at 0 *)
Theorem C01_accounts_root : forall (bytes : list N) (fname : string) (t : pnode) (s' : state pstate),
  parse_full A T K G bytes fname = Ok (t, s') ->
  buf (pos s') = bytes /\ wf_pos (pos s') /\ idx (pos s') = List.length bytes /\ depth s' = 0%nat /\ (pn_kind t = Ast.KFile \/ t = noop_node).
Proof. exact parse_gen_root. Qed.
Print Assumptions C01_accounts_root.
(* old name of C01_accounts_root (it was the all-inputs fallback while C01_accounts needed `no_shebang`); cited by Properties_C20 *)
Definition C01_accounts_partial := C01_accounts_root.
(* malformed numeric literals are rejected, not dropped (they were before fix 3bd5fe4) *)
Example C01_malformed_number_rejected :
  parse A T K G (bos ".1e") "F" = Err "Unparsed input" 1 1 /\ parse A T K G (bos "f(.1e)") "F" = Err "Incomplete function call" 1 3 /\ trivia_only (bos ".1e") = false.
Proof. vm_compute. auto. Qed.
(* the hypotheses are satisfiable by non-trivial inputs: a program, and an input of trivia only *)
Example C01_accounts_file : exists t s', parse_full A T K G (bos "x = 1 // c") "F" = Ok (t, s') /\ pn_kind t = Ast.KFile /\ idx (pos s') = 10%nat.
Proof. vm_compute. eexists. eexists. split; [reflexivity|]. split; reflexivity. Qed.
Example C01_accounts_noop : exists s', parse_full A T K G (bos " /* c */ // d") "F" = Ok (noop_node, s') /\ trivia_only (bos " /* c */ // d") = true.
Proof. vm_compute. eexists. split; reflexivity. Qed.
(* inputs that begin with `#!`: a program after the shebang line parses to a File node with the cursor at the end; a `#!`-only / trivia-only
   input gives the Noop node; a `#!` line is not a licence to drop text *)
Example C01_accounts_shebang_file :
  exists t s', parse_full A T K G (bos "#!/usr/bin/chai" ++ [10%N] ++ bos "x = 1") "F" = Ok (t, s') /\ pn_kind t = Ast.KFile /\ idx (pos s') = 21%nat.
Proof. vm_compute. eexists. eexists. split; [reflexivity|]. split; reflexivity. Qed.
Example C01_accounts_shebang_noop :
  (exists s', parse_full A T K G (bos "#!/usr/bin/chai") "F" = Ok (noop_node, s') /\ idx (pos s') = 15%nat) /\ trivia_only (bos "#!/usr/bin/chai") = true
  /\ (exists s', parse_full A T K G (bos "#!x" ++ [13%N; 10%N] ++ bos " /* c */ // d") "F" = Ok (noop_node, s'))
  /\ trivia_only (bos "#!x" ++ [13%N; 10%N] ++ bos " /* c */ // d") = true.
Proof. vm_compute. split; [eexists; split; reflexivity|]. split; [reflexivity|]. split; [eexists; reflexivity|reflexivity]. Qed.
Example C01_accounts_shebang_unparsed : parse A T K G (bos "#!x" ++ [10%N] ++ bos ")") "F" = Err "Unparsed input" 2 1.
Proof. vm_compute. reflexivity. Qed.
Example C01_unparsed_input : parse A T K G (bos ")") "F" = Err "Unparsed input" 1 1.
Proof. vm_compute. reflexivity. Qed.

(* ---------------------------------------------------------------- C01_error_position
   For EVERY byte string: when the parse ends in eval_error, the error either carries NO position (line = col = 0 is the one-argument
   eval_error constructor; in the parser only the Char_Parser's escape-sequence errors use it: "Octal escape sequence out of range",
   "Incomplete hex escape sequence", the unicode ones) or its line is the line of a cursor position inside the caller's buffer:
   line = 1 + the number of line ends among the first i bytes for some i <= length, hence 1 <= line <= (number of line ends) + 1.
   Errors of a nested `${...}` parse (another buffer) are rethrown by Quoted_String at the start of the string literal and are covered.
   Proof: ParserErrPosProofs, one traversal of both layers with a line-only cursor invariant (preserved by `--` unconditionally).
   NOT covered: the column (it needs the decrement side conditions of C20 along the error paths, which `post` does not track). *)
Theorem C01_error_position : forall (bytes : list N) (fname : string) (msg : string) (line col : Z),
  parse A T K G bytes fname = Err msg line col ->
  (line = 0 /\ col = 0)%Z \/
  ((exists i, (i <= List.length bytes)%nat /\ line = (1 + count_nl (firstn i bytes))%Z) /\ (1 <= line <= count_nl bytes + 1)%Z).
Proof. exact parse_gen_error_position. Qed.
Print Assumptions C01_error_position.
(* both cases occur: a positioned error on the second of two lines, an error of a nested parse rethrown at the string literal, and the
   positionless escape-sequence errors *)
Example C01_error_position_cases :
  parse A T K G (bos "x" ++ [10%N] ++ bos "y = )") "F" = Err "Incomplete equation" 2 5
  /\ parse A T K G (bos "x" ++ [10%N; 34%N] ++ bos "a${1 +}" ++ [34%N]) "F" = Err "Error: ""Incomplete '+' expression"" in 'instr eval'  at (1, 4)" 2 1
  /\ parse A T K G (bos "'\400'") "F" = Err "Octal escape sequence out of range" 0 0
  /\ parse A T K G (bos "x" ++ [10%N; 10%N; 34%N] ++ bos "a\xg" ++ [34%N]) "F" = Err "Incomplete hex escape sequence" 0 0.
Proof. vm_compute. auto. Qed.

(* ---------------------------------------------------------------- C01_no_leaked_nodes
   For EVERY byte string: a successful parse ends with exactly the root on the match stack -- every other node that was pushed has been folded
   into the tree by build_match or dropped by a roll-back (Map_Pair / Value_Range) -- and with the caller's file name in place.  (The C++ then
   moves the root out and clears the vector; the same holds of every nested parse_instr_eval, ParserBodies.Rroot.) *)
Theorem C01_no_leaked_nodes : forall (bytes : list N) (fname0 : string) (t : pnode) (s' : state pstate),
  parse_full A T K G bytes fname0 = Ok (t, s') -> stk (user s') = [t] /\ fname (user s') = fname0.
Proof. exact parse_gen_stack. Qed.
Print Assumptions C01_no_leaked_nodes.
Example C01_no_leaked_nodes_rollback :
  exists t s', parse_full A T K G (bos "f(1, [2, 3], [4 : 5])") "F" = Ok (t, s') /\ stk (user s') = [t] /\ pn_kind t = Ast.KFile.
Proof. vm_compute. eexists. eexists. split; [reflexivity|]. split; reflexivity. Qed.

(* ---------------------------------------------------------------- C01_fname_independent
   For EVERY byte string and ANY two file names f1, f2: the two parses end in the same class of outcome; an eval_error is the same error
   (reason, line, column: no error text of the parser contains the caller's file name -- the one file name that does appear in a text is the
   constant 'instr eval' of a nested parse); two trees are related by ParserFnameProofs.nrel f1 f2: node by node the same kind, text,
   location and number of children, the stored file name equal or (f1 against f2), the constant payload equal or (the string f1 against
   the string f2: a `__FILE__` constant).  Hence the tree stripped of file names and payloads (`shape`) does not depend on the file name.
   The two runs are in lock step throughout (same cursor, depth counter, number of grammar-function invocations: parse_full_fname_independent).
   Proof: ParserFnameProofs, a relational traversal of both layers (the functions that read the match stack -- build_match, __FUNC__ /
   __CLASS__, Class, Inline_Container, Map_Pair / Value_Range roll-back, the method-call fix-up -- look at kinds, texts, locations only). *)
Theorem C01_fname_independent : forall (bytes : list N) (f1 f2 : string),
  match parse A T K G bytes f1, parse A T K G bytes f2 with
  | Ok t1, Ok t2 => nrel f1 f2 t1 t2
  | Err r1 l1 c1, Err r2 l2 c2 => r1 = r2 /\ l1 = l2 /\ c1 = c2
  | Crash k1, Crash k2 => k1 = k2
  | OutOfFuel, OutOfFuel => True
  | _, _ => False
  end.
Proof. exact parse_gen_fname_independent. Qed.
Print Assumptions C01_fname_independent.
Theorem C01_fname_independent_shape : forall (bytes : list N) (f1 f2 : string) (t1 : pnode),
  parse A T K G bytes f1 = Ok t1 -> exists t2, parse A T K G bytes f2 = Ok t2 /\ shape t2 = shape t1.
Proof. exact parse_gen_shape_fname_independent. Qed.
Theorem C01_fname_independent_error : forall (bytes : list N) (f1 f2 : string) (msg : string) (line col : Z),
  parse A T K G bytes f1 = Err msg line col -> parse A T K G bytes f2 = Err msg line col.
Proof. exact parse_gen_error_fname_independent. Qed.
(* the relation is not the identity: `__FILE__` and the stored file names do differ; an in-string evaluation keeps 'instr eval' in both *)
Example C01_fname_independent_differs :
  (exists t1 t2, parse A T K G (bos "__FILE__ + ""${__FILE__}""") "A" = Ok t1 /\ parse A T K G (bos "__FILE__ + ""${__FILE__}""") "B" = Ok t2
                 /\ t1 <> t2 /\ shape t1 = shape t2 /\ pn_file t1 = "A" /\ pn_file t2 = "B")
  /\ parse A T K G (bos "x = )") "A" = parse A T K G (bos "x = )") "B".
Proof. vm_compute. split; [|reflexivity]. eexists. eexists. split; [reflexivity|]. split; [reflexivity|]. split; [discriminate|]. auto. Qed.

(* ---------------------------------------------------------------- the regenerated tables satisfy the side conditions the proofs need *)
Theorem C01_tables_ok : tables_ok G = true /\ (forall c, in_alpha (a_id A) c = true -> in_alpha (a_keyword A) c = true).
Proof. exact (conj tables_gen_ok id_sub_keyword_gen). Qed.
