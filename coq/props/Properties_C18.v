(* C18 — JSON conversion round-trips and tolerates any input.
   Property theorems only; each is closed by `exact` of a lemma proved in JsonProofs.v.
   The model (JsonDefs.v) is a port of utility/json.hpp (JSON::dump, json_escape, JSONParser) and
   utility/json_wrap.hpp (from_json / to_json); it is tied to the C++ on every run by the correspondence
   check of tools/p_C18.py (harness/h_json.cpp against the extracted JsonRun.run_line).

   Vocabulary: a text is `bytes` (all 256 byte values); every read of the text is `at_`/`substr`, which yield
   `Err OutOfRange` exactly where std::string::at/substr throw; `from_json` maps OutOfRange, ParseError and
   DepthExceeded to the three runtime_errors a script sees (FExc), and anything else -- the model running out
   of fuel, a size_t wrapping -- to FStuck.  A script value `sval` has VMap = std::map (association list in
   ascending unsigned-byte key order) and VInt z = an integral value z (from_json always yields int64).

   PARTIAL for floating point: the value of a double and its "%f" text (std::to_string) are not modelled
   (JFloat/VFloat only record how the C++ computes the number).  The round-trip and idempotence laws are
   therefore stated for double-free trees; the clause "floating-point numbers agree to within 1e-6" is only
   tested (tools/p_C18.py, kind tree-float / FLOAT verdicts), not proved. *)
From Coq Require Import ZArith Ascii String List.
From ChaiV Require Import JsonDefs JsonProofs.
Import ListNotations.

(* For EVERY byte string from_json returns a value or throws one of its exceptions.  By construction of the
   model every index passed to at/substr is either in range or becomes the OutOfRange exception; the theorem
   adds that the parse terminates within the fuel S(length s) of every loop and never wraps a size_t. *)
Theorem C18_total :
  forall s : bytes, (exists v, from_json s = FValue v) \/ (exists e, from_json s = FExc e).
Proof. exact total_thm. Qed.
Print Assumptions C18_total.

Theorem C18_total_no_stuck :
  forall s : bytes, load s <> Err OutOfFuel /\ load s <> Err Crash.
Proof. exact no_stuck_thm. Qed.
Print Assumptions C18_total_no_stuck.

(* nesting never exceeds Depth_Guard::max_depth = 512 activations of parse_next: the recursion is structural
   in the depth budget, and whatever is accepted has at most that height *)
Theorem C18_depth_bound :
  forall (s : bytes) (j : json), load s = Ok j -> jheight j <= max_depth.
Proof. exact depth_bound_thm. Qed.
Print Assumptions C18_depth_bound.

(* parse_string reads back exactly what json_escape wrote: quotes, backslashes, control characters, NUL,
   bytes >= 0x80 -- every byte string *)
Theorem C18_escape_roundtrip :
  forall x : bytes, unescape (json_escape x) = Ok x.
Proof. exact escape_roundtrip_thm. Qed.
Print Assumptions C18_escape_roundtrip.

(* std::to_string(int64) and parse_number are inverse on all of int64, INT64_MIN included (where the code
   relies on wrap-around of `t*10 + d` and of `-1 * t`, written explicitly as wrap64 in the model) *)
Theorem C18_int_roundtrip :
  forall z : Z, in_int64 z = true ->
    exists off, parse_number (print_int z) (length (print_int z)) 0 = Ok (JInt z, off).
Proof. exact int_roundtrip_thm. Qed.
Print Assumptions C18_int_roundtrip.

Theorem C18_int_text_roundtrip :
  forall z : Z, in_int64 z = true -> load (print_int z) = Ok (JInt z).
Proof. exact int_text_roundtrip_thm. Qed.
Print Assumptions C18_int_text_roundtrip.

(* from_json(to_json(v)) = v for every tree of int64 integers, booleans, strings over all byte values, null,
   vectors and string-keyed maps.  Equality is equality of trees where a map is its std::map content in key
   order and an integer is its numeric value (the result holds int64 whatever integral type went in).
   wf_sval v: no doubles, integers within int64, maps as std::map holds them (strictly ascending keys).
   vheight v <= 512: deeper trees are refused by from_json's Depth_Guard (ex_roundtrip shows height 513
   yields the depth exception), so the law cannot hold beyond it on the current code. *)
Theorem C18_roundtrip :
  forall v : sval, wf_sval v = true -> vheight v <= max_depth -> from_json (to_json v) = FValue v.
Proof. exact roundtrip_thm. Qed.
Print Assumptions C18_roundtrip.

(* from_json(to_json(from_json(t))) = from_json(t) for every text t that from_json accepts and that contains
   no floating-point number.
   Full statement (NOT proved, floating point is outside the model):
     forall t v, from_json t = FValue v -> from_json (to_json v) ~ FValue v  with doubles within 1e-6. *)
Theorem C18_idempotent :
  forall (t : bytes) (j : json), load t = Ok j -> float_free j = true ->
    from_json t = FValue (from_json_obj j) /\
    from_json (to_json (from_json_obj j)) = FValue (from_json_obj j).
Proof. exact idempotent_thm. Qed.
Print Assumptions C18_idempotent.

(* non-vacuity: concrete instances of every hypothesis and outcome *)
Example C18_total_outcomes :
  from_json (B "[") = FExc ExUnparsed
  /\ from_json (B "[1 2]") = FExc ExParse
  /\ from_json (repeat_byte 513 "["%char) = FExc ExDepth
  /\ from_json (repeat_byte 512 "["%char) = FExc ExUnparsed
  /\ from_json (B "{""a"":1,") = FValue (VMap [(B "a", VInt 1)])
  /\ from_json (B "1x") = FValue (VInt 1)
  /\ from_json [] = FExc ExUnparsed.
Proof. exact ex_total_outcomes. Qed.

Example C18_escape_example :
  let s := [ch_quote; ch_bslash; ch_nl; ch_nul; "128"%char; "255"%char; "u"%char; ch_tab; "/"%char] in
  json_escape s = [ch_bslash; ch_quote; ch_bslash; ch_bslash; ch_bslash; "n"%char; ch_nul; "128"%char; "255"%char;
                   "u"%char; ch_bslash; "t"%char; "/"%char]
  /\ unescape (json_escape s) = Ok s
  /\ unescape (B "A\q\/") = Ok (B "A\/").
Proof. exact ex_escape. Qed.

Example C18_int_example :
  print_int (-9223372036854775808) = B "-9223372036854775808"
  /\ in_int64 (-9223372036854775808) = true
  /\ parse_num_int (B "9223372036854775808") = (-9223372036854775808)%Z
  /\ load (B "-9223372036854775808") = Ok (JInt (-9223372036854775808))
  /\ load (B "9223372036854775807") = Ok (JInt 9223372036854775807)
  /\ load (B "9223372036854775808") = Ok (JInt (-9223372036854775808))
  /\ in_int64 9223372036854775808 = false.
Proof. exact ex_int. Qed.

Example C18_roundtrip_example :
  wf_sval ex_value = true /\ vheight ex_value <= max_depth /\ vheight ex_value = 3
  /\ from_json (to_json ex_value) = FValue ex_value
  /\ wf_sval (VMap [(B "b", VNull); (B "a", VNull)]) = false
  /\ vheight (nest_vec 512 VNull) = 513
  /\ from_json (to_json (nest_vec 512 VNull)) = FExc ExDepth
  /\ from_json (to_json (nest_vec 511 VNull)) = FValue (nest_vec 511 VNull).
Proof. exact ex_roundtrip. Qed.

Example C18_idempotent_example :
  let t := B "{""b"":1, ""a"":[true,""A""] ,""b"":2, null:null}" in
  let j := JObject [(B "b", JInt 2); (B "a", JArray [JBool true; JString (B "A")]); ([], JNull)] in
  load t = Ok j /\ float_free j = true
  /\ from_json_obj j = VMap [([], VNull); (B "a", VVec [VBool true; VStr (B "A")]); (B "b", VInt 2)].
Proof. exact ex_idempotent. Qed.
