(* C11 — Objects live exactly as long as something refers to them.
   Model: the reference-counting machine of LifeDefs (objects with identity; owning and non-owning handles held by
   script variables, temporaries, call_params, conversion saves, C++-side shared_ptrs and the slots of other objects:
   container elements, attributes, captures, bound arguments).  Every statement below quantifies over ALL operation
   histories (lists of primitive operations of any length, in any order; ill-formed operations have explicit
   outcomes).  The ownership routes (which C++ type shapes give an owning handle) are regenerated from the source
   on every run (Gen/G_Ownership.v) and the C11_routes_* theorems are about that regenerated text. *)
From Coq Require Import List Bool Arith.
From ChaiV Require Import LifeDefs LifeProofs LifeExamples LifeTheorems.
From ChaiV.Gen Require Import G_Ownership.
Import ListNotations.

(* (i) no object is destroyed twice *)
Theorem C11_destroyed_at_most_once : forall ops s ev, run ops init = (s, ev) -> NoDup (destroyed_ids ev).
Proof. exact destroyed_at_most_once. Qed.

(* an allocated object is dead exactly when its destruction has been reported *)
Theorem C11_destroyed_iff_dead : forall ops s ev id,
  run ops init = (s, ev) -> id < next s -> (alive s id = false <-> In (Destroyed id) ev).
Proof. exact destroyed_iff_dead. Qed.

(* (i') after the engine and the C++ side's handles are gone every object has been destroyed exactly once,
   unless the script built a reference cycle *)
Theorem C11_engine_end_exactly_once : forall ops s ev,
  run (ops ++ [PEngineEnd; PCxxRelease]) init = (s, ev) -> acyclic s ->
  forall id, id < next s -> count_occ Nat.eq_dec (destroyed_ids ev) id = 1.
Proof. exact engine_end_exactly_once. Qed.

(* ... and whatever is left is held from inside another object that is left (it sits on or behind a cycle) *)
Theorem C11_engine_end_leftover : forall ops s ev id,
  run (ops ++ [PEngineEnd; PCxxRelease]) init = (s, ev) -> alive s id = true ->
  exists o k h, In (LSlot o k, h) (refs s) /\ h_own h = true /\ h_tgt h = id /\ alive s o = true.
Proof. exact engine_end_leftover_is_held_inside. Qed.

(* (ii) the counter of an object is the number of owning referrers; an object is alive iff it has one;
   a slot that holds a handle belongs to a live object *)
Theorem C11_refcount_invariant : forall ops s ev, run ops init = (s, ev) ->
  (forall id, rc s id = own_count id (refs s)) /\
  (forall id, 0 < own_count id (refs s) <-> alive s id = true) /\
  (forall o k h, In (LSlot o k, h) (refs s) -> alive s o = true).
Proof. exact refcount_invariant. Qed.

Theorem C11_alive_while_owned : forall ops s ev l h,
  run ops init = (s, ev) -> In (l, h) (refs s) -> h_own h = true -> alive s (h_tgt h) = true.
Proof. exact alive_while_owned. Qed.

(* (iii) an object is destroyed in the very step that removes its last owning referrer, and in no other step *)
Theorem C11_destroyed_with_last_owner : forall ops s ev0 o s' ev id,
  run ops init = (s, ev0) -> step s o = (s', ev) -> alive s id = true ->
  (own_count id (refs s') = 0 <-> In (Destroyed id) ev).
Proof. exact destroyed_with_last_owner. Qed.

(* the mechanism never runs out of fuel and no counter goes below zero *)
Theorem C11_no_mechanism_fault : forall ops s ev e,
  run ops init = (s, ev) -> In e ev -> e <> OutOfFuel /\ (forall id, e <> RcUnderflow id).
Proof. exact no_mechanism_fault. Qed.

(* (iv) no operation touches an object after its destruction, PROVIDED every non-owning handle is, in every state
   the run goes through, covered by an owning referrer of the same object (LifeDefs.covered) *)
Theorem C11_no_use_after_free_if_covered : forall ops s ev,
  Forall covered (trace ops init) -> run ops init = (s, ev) -> forall e, In e ev -> is_fault e = false.
Proof. exact no_use_after_free_if_covered. Qed.

(* a syntactic sufficient condition: non-owning handles are made only from a variable that owns the object into a
   variable of the same or an inner scope, and are never copied elsewhere (LifeDefs.disciplined) *)
Theorem C11_no_use_after_free_if_nested : forall ops s ev,
  disciplined_run ops init = true -> run ops init = (s, ev) -> forall e, In e ev -> is_fault e = false.
Proof. exact no_use_after_free_if_nested. Qed.

(* C11_no_use_after_free (FULL STATEMENT, without the side condition): forall ops s ev, run ops init = (s, ev) ->
   forall e, In e ev -> is_fault e = false.   REFUTED: the ranged-for route (loop variable bound by std::ref to a
   map pair, captured by a closure that outlives the map) reaches UseAfterFree; this is the known finding
   chaiscript_eval.hpp:Ranged_For_AST_Node:element-reference. *)
Theorem C11_no_use_after_free_unconditional_refuted :
  exists ops s ev id, run ops init = (s, ev) /\ In (UseAfterFree id) ev.
Proof. exact no_use_after_free_unconditional_refuted. Qed.

Theorem C11_finding_route_leaves_the_side_condition : ~ Forall covered (trace finding_ops init).
Proof. exact finding_not_covered. Qed.

(* satisfiability of the hypotheses by a non-trivial history *)
Theorem C11_example_history_covered : Forall covered (trace ex_ops init) /\ disciplined_run ex_ops init = true /\
  snd (run ex_ops init) = [Touched 0; Live 2; Destroyed 1; Destroyed 2; Live 1; Destroyed 0; Live 0].
Proof. exact (conj ex_covered (conj ex_disciplined ex_events)). Qed.

Theorem C11_example_cycle : snd (run cyc_ops init) = [Live 1; Live 1] /\ ~ acyclic (fst (run cyc_ops init)).
Proof. exact (conj cycle_events cycle_not_acyclic). Qed.

(* ---- ownership routes regenerated from the source ---- *)
Theorem C11_routes_match_specification : forall r, In r all_rshapes -> gen_ret r = spec_ret r.
Proof. exact gen_ret_is_spec. Qed.

Theorem C11_routes_boxes_match_specification : forall b, In b all_bshapes ->
  match box_flags 4 box_table b false false, spec_box b with
  | Some f, Some (o, fr) => f_owning f = o /\ f_fresh f = fr
  | _, _ => False
  end.
Proof. exact gen_box_is_spec. Qed.

Theorem C11_routes_creation_is_owning : forall c, In c all_creations ->
  exists f, gen_via (ViaCreation c) = Some f /\ f_owning f = true.
Proof. exact creation_routes_owning. Qed.

Theorem C11_routes_creation_is_fresh : forall c, In c all_creations -> c <> CrConstructorShared ->
  exists f, gen_via (ViaCreation c) = Some f /\ f_fresh f = true.
Proof. exact creation_routes_fresh. Qed.

Theorem C11_routes_only_references_do_not_own : forall r f, In r all_rshapes -> gen_ret r = Some f -> f_owning f = false ->
  In r [RRef; RCRef; RPtr; RCPtr; RPtrRef; RCPtrRef].
Proof. exact only_references_do_not_own. Qed.

Theorem C11_routes_only_reference_boxes_do_not_own : forall b f, In b all_bshapes -> box_flags 4 box_table b false false = Some f -> f_owning f = false ->
  In b [BVoid; BPtr; BCPtr; BRefWrap; BCRefWrap].
Proof. exact only_reference_boxes_do_not_own. Qed.

Theorem C11_routes_mechanism_is_specification : forall h,
  (forall r, match h with HRet r' _ _ => r' = r | HBind (RvShape r') _ _ _ _ => r' = r | _ => False end -> In r all_rshapes) ->
  lower gen_ret h = lower spec_ret h.
Proof. exact lower_gen_is_spec. Qed.

Print Assumptions C11_destroyed_at_most_once.
Print Assumptions C11_destroyed_iff_dead.
Print Assumptions C11_engine_end_exactly_once.
Print Assumptions C11_engine_end_leftover.
Print Assumptions C11_refcount_invariant.
Print Assumptions C11_alive_while_owned.
Print Assumptions C11_destroyed_with_last_owner.
Print Assumptions C11_no_mechanism_fault.
Print Assumptions C11_no_use_after_free_if_covered.
Print Assumptions C11_no_use_after_free_if_nested.
Print Assumptions C11_no_use_after_free_unconditional_refuted.
Print Assumptions C11_finding_route_leaves_the_side_condition.
Print Assumptions C11_example_history_covered.
Print Assumptions C11_example_cycle.
Print Assumptions C11_routes_match_specification.
Print Assumptions C11_routes_boxes_match_specification.
Print Assumptions C11_routes_creation_is_owning.
Print Assumptions C11_routes_creation_is_fresh.
Print Assumptions C11_routes_only_references_do_not_own.
Print Assumptions C11_routes_only_reference_boxes_do_not_own.
Print Assumptions C11_routes_mechanism_is_specification.
