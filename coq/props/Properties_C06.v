(* C06 — C++ functions are only ever entered with correctly typed arguments.
   Property theorems only; each is closed by `exact`/`apply` of lemmas proved in DispatchProofs.v for every rule set
   satisfying [rules_ok], instantiated with the rules regenerated from /repo's working tree on every run
   (coq/gen/G_CastRules.v, tools/translate/t_CastRules.py) through DispatchTheorems.gen_rules_ok.

   Quantification: every overload list [fs] (any number of overloads, any registration order: a list is an order, and
   [register_all] - function_less_than + std::stable_sort - is shown to keep exactly the registered overloads), every
   argument tuple [args], every conversion table / user conversion functions / guards / callee bodies [E].
   Standing hypotheses, all satisfiable (see the Examples):
     env_ok E   - conversions do not involve Boxed_Value / Boxed_Number / Proxy_Function_Base and relate distinct types
     func_wf f  - the parameter list has the declared arity; a parameter's Type_Info and form belong together
     body_ok E  - the known caveat: callee bodies never themselves throw bad_boxed_cast / arity_error / guard_error
                  (dispatch cannot tell those from "did not match") *)
(* Rules the oracle (DispatchSpecRun.spec_d, independent of gen/) applies, and how they relate to the theorems here:
     - "an exactly matching overload exists => one is entered" (the strong half of C06_exact_preferred): oracle only;
     - ERRS: a call fails only with dispatch_error / bad_boxed_cast / arity_error / guard_error (eval_error from a script),
       std::runtime_error for a null object, or the entered body's own exception - no internal exception escapes:
       C06_no_internal_exception (for the internal detail::exception::bad_any_cast);
     - PREF: within an overload set whose members all have the same parameter types up to const and form, an exactly matching
       overload with less const parameters is entered first: C06_nonconst_twin_first for pairs f(T&) / f(const T&) in both
       registration orders, whatever the return types (C06_order_ignores_return_types); across types the comparator is not a
       strict weak order and nothing is claimed;
     - two-step histories: after a std::shared_ptr<T>& callee re-seated a variable, the case is judged for the object it holds
       now: C06_reseat_history (any number of re-seats). *)
From Coq Require Import ZArith List Bool.
From ChaiV Require Import DispatchDefs DispatchProofs DispatchMore DispatchTheorems DispatchTheorems2.
From ChaiV.Gen Require Import G_CastRules.
Import ListNotations.

(* if a call enters overload i with values rs then i is one of the overloads and every received value is: the
   argument itself (same identity; mutable access only to a non-const one; null only through pointer-like forms), its
   arithmetic conversion, its image under a registered conversion, or the box itself for a Boxed_Value / Boxed_Number /
   untyped script parameter  (entry_ok = recv_ok on every parameter) *)
Theorem C06_sound :
  forall E fs args i rs,
    env_ok E = true -> (forall f, In f fs -> func_wf f = true) -> body_ok E ->
    In (Enter i rs) (o_trace (dispatch gen_rules E fs args)) ->
    exists f, In f fs /\ f_id f = i /\ entry_ok E f args rs = true.
Proof.
  intros E fs args i rs HE Hwf Hb Hin.
  eapply final_ok_sound; [| exact Hin].
  apply dispatch_final; auto using gen_rules_ok. apply body_ok_retries; auto using gen_rules_ok.
Qed.
Print Assumptions C06_sound.

(* the same through registration (sorted by function_less_than on every add) and the function object stored under the name *)
Theorem C06_sound_registered :
  forall E fs args i rs,
    env_ok E = true -> (forall f, In f fs -> func_wf f = true) -> body_ok E ->
    In (Enter i rs) (o_trace (call_named gen_rules E (register_all gen_rules fs) args)) ->
    exists f, In f fs /\ f_id f = i /\ entry_ok E f args rs = true.
Proof.
  intros E fs args i rs HE Hwf Hb Hin.
  assert (Hwf' : forall f, In f (register_all gen_rules fs) -> func_wf f = true) by (intros f Hf; apply Hwf; apply (register_all_in gen_rules); exact Hf).
  destruct (final_ok_sound E (register_all gen_rules fs) args _ i rs
              (call_named_final gen_rules E (register_all gen_rules fs) args gen_rules_ok HE Hwf' (body_ok_retries _ _ gen_rules_ok Hb)) Hin)
    as (f & Hf & Hi & Hok).
  exists f. split; [apply (register_all_in gen_rules); exact Hf | auto].
Qed.
Print Assumptions C06_sound_registered.

(* at most one overload is entered, at most once; when an error is returned nothing was entered, unless the error is
   the entered body's own exception (a body is reached only after all its unboxings succeeded) *)
Theorem C06_single_entry :
  forall E fs args,
    env_ok E = true -> (forall f, In f fs -> func_wf f = true) -> body_ok E ->
    let o := call_named gen_rules E (register_all gen_rules fs) args in
    length (o_trace o) <= 1
    /\ (forall e, o_res o = Some e ->
          o_trace o = [] \/ exists f rs, In f fs /\ o_trace o = [Enter (f_id f) rs] /\ e_body E (f_id f) = Some e)
    /\ (o_res o = None -> exists f rs, In f fs /\ o_trace o = [Enter (f_id f) rs]).
Proof.
  intros E fs args HE Hwf Hb o.
  assert (Hwf' : forall f, In f (register_all gen_rules fs) -> func_wf f = true) by (intros f Hf; apply Hwf; apply (register_all_in gen_rules); exact Hf).
  pose proof (call_named_final gen_rules E (register_all gen_rules fs) args gen_rules_ok HE Hwf' (body_ok_retries _ _ gen_rules_ok Hb)) as Hfin.
  fold o in Hfin. split; [eapply final_ok_single_entry; eauto|]. split.
  - intros e He. destruct (final_ok_error_none _ _ _ _ e Hfin He) as [H|(f & rs & Hf & Ht & Hbd)]; [left; auto|].
    right. exists f, rs. repeat split; auto. apply (register_all_in gen_rules); exact Hf.
  - intros Hn. destruct Hfin as [[_ [e He]]|(f & rs & Hf & Ht & _)]; [congruence|].
    exists f, rs. split; [apply (register_all_in gen_rules); exact Hf | exact Ht].
Qed.
Print Assumptions C06_single_entry.

(* if an overload whose parameter types all equal the argument types accepts the arguments as they are, then whatever
   is entered is an overload whose parameter types all equal the argument types *)
Theorem C06_exact_preferred :
  forall E fs args g rs0,
    env_ok E = true -> (forall f, In f fs -> func_wf f = true) -> body_ok E ->
    In g fs -> bare_exact g args = true -> call_one gen_rules E g args = enter E g rs0 ->
    let o := dispatch gen_rules E fs args in
    (o_trace o = [] /\ exists e, o_res o = Some e /\ e <> EBadCast /\ e <> EArity /\ e <> EGuard)
    \/ (exists f rs, In f fs /\ bare_exact f args = true /\ o_trace o = [Enter (f_id f) rs]).
Proof.
  intros E fs args g rs0 HE Hwf Hb Hg Hbe Hcall o.
  destruct (dispatch_exact gen_rules E fs args (body_ok_retries _ _ gen_rules_ok Hb) g rs0 Hg Hbe Hcall)
    as [(Ht & e & He & Hr)|H]; [left | right; exact H].
  split; [exact Ht|]. exists e. split; [exact He|].
  repeat split; intros ->; vm_compute in Hr; discriminate.
Qed.
Print Assumptions C06_exact_preferred.

(* no overload of matching arity: an error, nothing entered *)
Theorem C06_arity_none :
  forall E fs args,
    (forall f, In f fs -> (f_arity f <? 0)%Z = false /\ (f_arity f =? Z.of_nat (length args))%Z = false) ->
    let o := call_named gen_rules E (register_all gen_rules fs) args in
    o_trace o = [] /\ (o_res o = Some EArity \/ o_res o = Some EDispatch).
Proof.
  intros E fs args Hno. apply call_named_arity_none; [exact gen_rules_ok|].
  intros f Hf. apply Hno. apply (register_all_in gen_rules). exact Hf.
Qed.
Print Assumptions C06_arity_none.

(* the C++-receives direction: boxed_cast<T> (with or without the engine's conversions), hence eval<T>, succeeds only
   with the value's own object const-compatibly, or a registered conversion; a script function's result is handed to
   C++ as an arithmetic Ret only through Boxed_Number (call_out) *)
Theorem C06_cast_out :
  forall E wc p b r,
    env_ok E = true -> param_wf p = true ->
    boxed_cast_gen gen_rules E wc p b = COk r -> recv_ok E p b r = true.
Proof. intros. eapply boxed_cast_sound; eauto using gen_rules_ok. Qed.
Print Assumptions C06_cast_out.

Theorem C06_call_out :
  forall E p b r,
    env_ok E = true -> param_wf p = true -> call_out gen_rules E p b = COk r ->
    (ti_arith (p_ti p) = true /\ b_arith b = true /\ r_acc r = AcCopy
     /\ r_pay r = PZ (arith_convert (e_akind E (p_bare p)) (e_akind E (b_ty b)) (pay_z (b_pay b))))
    \/ recv_ok E p b r = true.
Proof.
  intros E p b r HE Hwf H. unfold call_out in H.
  destruct (ti_arith (p_ti p)) eqn:Ea.
  - left. destruct (b_arith b && negb (b_undef b)) eqn:Eb; try discriminate.
    destruct (b_null b); try discriminate. injection H as <-. cbn.
    apply andb_true_iff in Eb. destruct Eb as [Eb _]. auto.
  - right. eapply boxed_cast_sound; eauto using gen_rules_ok.
Qed.
Print Assumptions C06_call_out.

(* a data member is never read through a null object: the call ends in an error (the std::runtime_error of throw_if_null,
   unless the unboxing of the object already failed), nothing is entered *)
Theorem C06_attr_null :
  forall E f a, func_wf f = true -> f_kind f = KAttr -> b_null a = true ->
    o_trace (call_one gen_rules E f [a]) = []
    /\ (o_res (call_one gen_rules E f [a]) = Some ENull \/ o_res (call_one gen_rules E f [a]) = Some EArity
        \/ exists p e, f_params f = [p] /\ boxed_cast gen_rules E (mkparam (p_ti p) (if b_const a then FCPtr else FPtr) 0) a = CErr e
                       /\ o_res (call_one gen_rules E f [a]) = Some e).
Proof. intros. apply attr_null_no_entry; auto using gen_rules_ok. Qed.
Print Assumptions C06_attr_null.

(* registration keeps exactly the registered overloads, whatever the order of registration *)
Theorem C06_registration :
  forall fs f, In f (register_all gen_rules fs) <-> In f fs.
Proof. exact (register_all_in gen_rules). Qed.
Print Assumptions C06_registration.

(* no internal exception (detail::exception::bad_any_cast) leaves a call or a boxed_cast: a call with no compatible overload,
   or one whose registered conversion yields something the parameter form cannot take, ends in one of the declared errors *)
Theorem C06_no_internal_exception :
  forall E fs args wc p b,
    (forall id, e_body E id <> Some EBadAny) ->
    o_res (call_named gen_rules E (register_all gen_rules fs) args) <> Some EBadAny
    /\ boxed_cast_gen gen_rules E wc p b <> CErr EBadAny.
Proof.
  intros E fs args wc p b Hb.
  split; [apply call_named_no_internal; auto using gen_flow_ok | apply boxed_cast_no_internal; apply gen_flow_ok].
Qed.
Print Assumptions C06_no_internal_exception.

(* registering the same overloads with any other return types (g changes nothing but f_ret) gives the same stored order and
   every call does the same: the return type plays no part in overload resolution *)
Theorem C06_order_ignores_return_types :
  forall (g : func -> func) E fs args,
    (forall f, ret_variant f (g f)) ->
    map f_id (register_all gen_rules (map g fs)) = map f_id (register_all gen_rules fs)
    /\ call_named gen_rules E (register_all gen_rules (map g fs)) args = call_named gen_rules E (register_all gen_rules fs) args.
Proof.
  intros g E fs args Hg. split.
  - apply registered_order_ret_irrelevant; auto using gen_order_ok.
  - apply registered_call_ret_irrelevant; auto using gen_order_ok.
Qed.
Print Assumptions C06_order_ignores_return_types.

(* overloads f(T&) / f(const T&) (any return types), registered in either order: an argument that f(T&) accepts as it is
   (a mutable T) enters f(T&) *)
Theorem C06_nonconst_twin_first :
  forall E l r args rs,
    twins l r -> func_wf l = true -> func_wf r = true -> body_ok E ->
    bare_exact l args = true -> call_one gen_rules E l args = enter E l rs ->
    call_named gen_rules E (register_all gen_rules [l; r]) args = mkout [Enter (f_id l) rs] (e_body E (f_id l))
    /\ call_named gen_rules E (register_all gen_rules [r; l]) args = mkout [Enter (f_id l) rs] (e_body E (f_id l)).
Proof.
  intros E l r args rs Ht Hl Hr Hb Hbe Hc.
  apply twins_nonconst_first; auto using gen_rules_ok, gen_order_ok.
  intros id e He. apply (body_ok_retries gen_rules E gen_rules_ok Hb id e He).
Qed.
Print Assumptions C06_nonconst_twin_first.

(* a C++ function is never entered with a const script value bound to a parameter form that permits mutation (T&, T*,
   shared_ptr<T>, reference_wrapper<T>, T&&...): what such a parameter receives for a const argument is another object
   (its arithmetic or user conversion) *)
Theorem C06_const_never_mutable :
  forall E fs args i rs,
    env_ok E = true -> (forall f, In f fs -> func_wf f = true) -> body_ok E ->
    In (Enter i rs) (o_trace (call_named gen_rules E (register_all gen_rules fs) args)) ->
    exists f, In f fs /\ f_id f = i /\
      (f_kind f = KNative -> forall j p a r,
         nth_error (f_params f) j = Some p -> nth_error args j = Some a -> nth_error rs j = Some r ->
         form_mutable (p_form p) = true -> b_const a = true -> r_id r <> b_id a).
Proof.
  intros E fs args i rs HE Hwf Hb Hin.
  destruct (C06_sound_registered E fs args i rs HE Hwf Hb Hin) as (f & Hf & Hi & Hok).
  exists f. repeat split; auto. intros Hk j p a r Hp Ha Hr Hm Hc.
  eapply entry_const_not_mutable; eauto.
Qed.
Print Assumptions C06_const_never_mutable.

(* histories: a script variable holding [b] is passed any number of times to C++ functions taking std::shared_ptr<T>& that
   re-seat it (to the objects in [h]); whatever boxed_cast then hands to C++ - as const T&, const T*, T, T&, shared_ptr<T>... -
   is a rendering of the object the variable holds now (the last one of [h]), its type and constness unchanged *)
Theorem C06_reseat_history :
  forall E wc p b h v r,
    env_ok E = true -> param_wf p = true ->
    history gen_rules (vbox_of b) h = inl v -> boxed_cast_v gen_rules E wc p v = COk r ->
    recv_ok E p (v_box v) r = true /\ place_of (v_box v) = last_place h (place_of b)
    /\ b_ty (v_box v) = b_ty b /\ b_const (v_box v) = b_const b.
Proof. intros. eapply history_cast_sound; eauto using gen_rules_ok, gen_sentinel_ok. Qed.
Print Assumptions C06_reseat_history.

(* ---- the hypotheses are satisfiable by non-trivial concrete states, and the conclusions are witnessed ---- *)
Definition ex_E : env :=
  mkenv [mkconv 17 18 CDyn; mkconv 16 19 (CUser 1)]
        (fun t => match t with 10 => AkInt 32 true | 12 => AkInt 64 true | 13 => AkDouble | _ => AkNone end)
        (fun uid p => match p with PObj _ tag => Some (PZ (tag + 100)) | _ => None end)
        (fun _ _ => true) (fun id => if Nat.eqb id 3 then Some EBody else None) true.
Definition ex_ti (bare : nat) (c ar : bool) : tinfo := mkti bare c ar false true bare.
Definition ex_void : tinfo := mkti 98 false false false true 98.
Definition ex_f_ref : func := mkfunc 1 1 [mkparam (ex_ti 17 false false) FRef 0] KNative None ex_void.       (* void(Base&) *)
Definition ex_f_cref : func := mkfunc 2 1 [mkparam (ex_ti 17 true false) FCRef 0] KNative None ex_void.     (* void(const Base&) *)
Definition ex_f_long : func := mkfunc 4 1 [mkparam (ex_ti 12 false true) FVal 0] KNative None ex_void.      (* void(long) *)
Definition ex_f_two : func := mkfunc 5 2 [mkparam (ex_ti 10 false true) FVal 0; mkparam (ex_ti 10 false true) FVal 0] KNative None ex_void.
Definition ex_cderived : box := mkbox 18 true false false SRef false (IdObj 0) (PObj 18 7) false.     (* a const Derived& *)
Definition ex_int : box := mkbox 10 false true false SShared false (IdObj 0) (PZ 5) false.

Example C06_hypotheses_satisfiable :
  env_ok ex_E = true /\ func_wf ex_f_ref = true /\ func_wf ex_f_cref = true /\ func_wf ex_f_long = true /\ body_ok ex_E
  (* a const Derived passed to {f(Base&), f(const Base&)}: only the const overload is entered, with the same object *)
  /\ call_named gen_rules ex_E (register_all gen_rules [ex_f_cref; ex_f_ref]) [ex_cderived]
     = mkout [Enter 2 [mkrecv 17 (IdObj 0) (PObj 18 7) AcConst false false]] None
  (* an int passed to f(long): entered through the arithmetic conversion, with a fresh value *)
  /\ call_named gen_rules ex_E (register_all gen_rules [ex_f_long]) [ex_int]
     = mkout [Enter 4 [mkrecv 12 (IdArith (IdObj 0)) (PZ 5) AcCopy false false]] None
  (* one argument for a two-parameter function: arity_error, nothing entered *)
  /\ call_named gen_rules ex_E (register_all gen_rules [ex_f_two]) [ex_int] = mkout [] (Some EArity)
  (* the const Derived cannot be handed out as a Base& *)
  /\ boxed_cast gen_rules ex_E (mkparam (ex_ti 17 false false) FRef 0) ex_cderived = CErr EBadCast
  /\ bare_exact ex_f_long [ex_int] = false /\ bare_exact ex_f_two [ex_int; ex_int] = true.
Proof.
  split; [vm_compute; reflexivity|]. split; [vm_compute; reflexivity|]. split; [vm_compute; reflexivity|]. split; [vm_compute; reflexivity|].
  split; [intros id; cbn; destruct (Nat.eqb id 3); repeat split; discriminate|].
  repeat split; vm_compute; reflexivity.
Qed.

(* twins with different return types; a variable re-seated twice; a rule set whose Sentinel forgets m_const_data_ptr *)
Definition ex_f_ref_int : func := mkfunc 90 1 [mkparam (ex_ti 17 false false) FRef 0] KNative None (ex_ti 10 false true).       (* int(Base&) *)
Definition ex_f_cref_str : func := mkfunc 91 1 [mkparam (ex_ti 17 true false) FCRef 0] KNative None (mkti 16 false false false true 3).   (* std::string(const Base&); typeid(std::string).before(typeid(int)) *)
Definition ex_base_sp : box := mkbox 17 false false false SShared false (IdObj 0) (PObj 17 3) false.
Definition ex_hist : list (ident * pay) := [(IdObj 100, PObj 17 53); (IdObj 101, PObj 17 103)].
Definition stale_rules : rules :=
  mkrules (r_verify gen_rules) (r_cast gen_rules) (r_null_when_const gen_rules) (r_direct_when gen_rules) (r_direct_catch gen_rules) (r_up_catch gen_rules)
          (r_down_catch gen_rules) (r_arity_check gen_rules) (r_ctp gen_rules) (r_dispatch_retry gen_rules) (r_dwc_retry gen_rules) (r_attr_nullcheck gen_rules)
          (r_dwc_only_converted gen_rules) (r_flt_start gen_rules) true false.
Definition ret_first_rules : rules :=
  mkrules (r_verify gen_rules) (r_cast gen_rules) (r_null_when_const gen_rules) (r_direct_when gen_rules) (r_direct_catch gen_rules) (r_up_catch gen_rules)
          (r_down_catch gen_rules) (r_arity_check gen_rules) (r_ctp gen_rules) (r_dispatch_retry gen_rules) (r_dwc_retry gen_rules) (r_attr_nullcheck gen_rules)
          (r_dwc_only_converted gen_rules) 0 true true.
Definition narrow_rules : rules :=
  mkrules (r_verify gen_rules) (r_cast gen_rules) (r_null_when_const gen_rules) (r_direct_when gen_rules) (r_direct_catch gen_rules) CatchBadCast
          (r_down_catch gen_rules) (r_arity_check gen_rules) (r_ctp gen_rules) (r_dispatch_retry gen_rules) (r_dwc_retry gen_rules) (r_attr_nullcheck gen_rules)
          (r_dwc_only_converted gen_rules) (r_flt_start gen_rules) true true.
Definition ex_cderived_val : box := mkbox 18 true false false SShared false (IdObj 0) (PObj 18 3) false.   (* a const Derived the script owns *)

Example C06_new_hypotheses_satisfiable :
  twins ex_f_ref_int ex_f_cref_str /\ func_wf ex_f_ref_int = true /\ func_wf ex_f_cref_str = true
  (* both registration orders store int(Base&) first and a mutable Base enters it *)
  /\ map f_id (register_all gen_rules [ex_f_cref_str; ex_f_ref_int]) = [90; 91]
  /\ call_named gen_rules ex_E (register_all gen_rules [ex_f_cref_str; ex_f_ref_int]) [ex_base_sp]
     = mkout [Enter 90 [mkrecv 17 (IdObj 0) (PObj 17 3) AcMut false false]] None
  (* the hypotheses of the ordering theorems are needed: a comparator that starts at the return-type slot stores
     std::string(const Base&) first (std::string sorts before int here) and a mutable Base enters the const overload *)
  /\ map f_id (register_all ret_first_rules [ex_f_ref_int; ex_f_cref_str]) = [91; 90]
  /\ o_trace (call_named ret_first_rules ex_E (register_all ret_first_rules [ex_f_ref_int; ex_f_cref_str]) [ex_base_sp])
     = [Enter 91 [mkrecv 17 (IdObj 0) (PObj 17 3) AcConst false false]]
  (* a history of two re-seats: every form then receives the last object *)
  /\ (exists v, history gen_rules (vbox_of ex_base_sp) ex_hist = inl v /\ coherent v = true
       /\ boxed_cast_v gen_rules ex_E true (mkparam (ex_ti 17 true false) FCRef 0) v = COk (mkrecv 17 (IdObj 101) (PObj 17 103) AcConst false false)
       /\ boxed_cast_v gen_rules ex_E true (mkparam (ex_ti 17 false false) FRef 0) v = COk (mkrecv 17 (IdObj 101) (PObj 17 103) AcMut false false))
  (* ... and sentinel_ok is needed: if ~Sentinel forgets m_const_data_ptr, const T& receives the object held before *)
  /\ (exists v, history stale_rules (vbox_of ex_base_sp) ex_hist = inl v /\ coherent v = false
       /\ boxed_cast_v stale_rules ex_E true (mkparam (ex_ti 17 true false) FCRef 0) v = COk (mkrecv 17 (IdObj 0) (PObj 17 3) AcConst false false)
       /\ boxed_cast_v stale_rules ex_E true (mkparam (ex_ti 17 false false) FRef 0) v = COk (mkrecv 17 (IdObj 101) (PObj 17 103) AcMut false false))
  (* a const Derived passed to {f(Base&), f(const Base&)} and to f(Base&) alone: the const overload / a clean dispatch error;
     flow_ok is needed: with the up-conversion handler narrowed to bad_boxed_cast the internal exception escapes *)
  /\ o_res (call_named gen_rules ex_E (register_all gen_rules [ex_f_ref]) [ex_cderived_val]) = Some EBadCast
  /\ o_res (call_named narrow_rules ex_E (register_all narrow_rules [ex_f_ref; ex_f_cref]) [ex_cderived_val]) = Some EBadAny
  /\ (forall id, e_body ex_E id <> Some EBadAny).
Proof.
  split.
  { unfold twins. repeat split. exists (mkparam (ex_ti 17 false false) FRef 0), (mkparam (ex_ti 17 true false) FCRef 0). repeat split. }
  repeat match goal with |- _ /\ _ => split end; try (vm_compute; reflexivity).
  - eexists. split; [vm_compute; reflexivity|]. repeat split; vm_compute; reflexivity.
  - eexists. split; [vm_compute; reflexivity|]. repeat split; vm_compute; reflexivity.
  - intros id. cbn. destruct (Nat.eqb id 3); discriminate.
Qed.
