(* C10 — Exceptions are delivered, not lost or altered.
   The Try node of the evaluator model (a port of the repaired Try_AST_Node) satisfies the
   specification of try/catch/finally given as inference rules in TrySpec.v, for every sub-term
   evaluator (hence at every fuel and nesting), every tree and every state:
   first accepting clause wins and later ones are not looked at; at most one catch block runs;
   an exception no clause accepts continues as the *same* exception; the finally block runs
   exactly once on every path; foreign (non-std) C++ exceptions are never seen by a clause. *)
From Coq Require Import List String.
From ChaiV Require Import Ast EvalDefs Eval EvalMeta TrySpec.

Theorem C10_try_refines_spec :
  forall (ev : ast -> M dloc) k n s r s',
    run ev k (eval_try n) s = (r, s') -> r <> RFuel -> (forall w, r <> RFail (FUnsup w)) ->
    try_spec ev k n s r s'.
Proof. exact eval_try_refines_spec. Qed.
Print Assumptions C10_try_refines_spec.

(* propagation through frames: a function call, a block or a loop intercept nothing but their own
   control flow — a throw passes through `Framed`/`Scoped`/`InCall` unchanged *)
Theorem C10_brackets_do_not_intercept :
  forall (ev : ast -> M dloc) k A (p : prog A) s e s1,
    run ev k p (push_frame s) = (RFail (FThrow e), s1) ->
    run ev k (Framed p) s = (RFail (FThrow e), pop_frame s1).
Proof. intros ev k A p s e s1 H. cbn [run]. unfold bracket. rewrite H. reflexivity. Qed.
Print Assumptions C10_brackets_do_not_intercept.

Theorem C10_scope_does_not_intercept :
  forall (ev : ast -> M dloc) k A (p : prog A) s e s1,
    run ev k p (push_scope s) = (RFail (FThrow e), s1) ->
    run ev k (Scoped p) s = (RFail (FThrow e), pop_scope s1).
Proof. intros ev k A p s e s1 H. cbn [run]. unfold bracket. rewrite H. reflexivity. Qed.
Print Assumptions C10_scope_does_not_intercept.

(* statements after the throw point do not run: sequencing stops at the first failure *)
Theorem C10_sequence_stops :
  forall (ev : ast -> M dloc) k x rest s f s1,
    rest <> nil -> ev x s = (RFail f, s1) -> run ev k (eval_seq (x :: rest)) s = (RFail f, s1).
Proof.
  intros ev k x rest s f s1 Hne H. destruct rest as [|y r]; [contradiction|].
  cbn [eval_seq]. rewrite run_bind. cbn [run]. rewrite H. reflexivity.
Qed.
Print Assumptions C10_sequence_stops.
