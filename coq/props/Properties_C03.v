(* C03 — Core language semantics match the documented (C++-like) model.
   The property is a conformance statement against a reference interpreter: the Coq evaluator
   (Eval.v with the specification arithmetic) *is* that reference, and conformance of the
   implementation is translation validation (tools/p_C03.py). The theorems below are laws of the
   reference that make it recognisably the documented semantics; each holds for every sub-term
   evaluator `ev`, hence at every fuel. *)
From Coq Require Import List Bool String.
From ChaiV Require Import Ast EvalDefs Eval EvalMeta EvalLaws EvalClassLaws.
Import ListNotations.
Local Open Scope string_scope.

Theorem C03_and_short_circuit :
  forall (ev : ast -> M dloc) k n s l s1,
    ev (child 0 n) s = (RVal l, s1) -> run ev k (get_bool l) s1 = (RVal false, s1) ->
    run ev k (eval_logical true n) s = run ev k (new_value (OBool false) true false) s1.
Proof. exact and_short_circuit. Qed.
Print Assumptions C03_and_short_circuit.

Theorem C03_or_short_circuit :
  forall (ev : ast -> M dloc) k n s l s1,
    ev (child 0 n) s = (RVal l, s1) -> run ev k (get_bool l) s1 = (RVal true, s1) ->
    run ev k (eval_logical false n) s = run ev k (new_value (OBool true) true false) s1.
Proof. exact or_short_circuit. Qed.
Print Assumptions C03_or_short_circuit.

Theorem C03_if_true :
  forall (ev : ast -> M dloc) k n s cd s1,
    ev (child 0 n) s = (RVal cd, s1) -> run ev k (get_bool cd) s1 = (RVal true, s1) -> run ev k (eval_if n) s = ev (child 1 n) s1.
Proof. exact if_true. Qed.
Print Assumptions C03_if_true.

Theorem C03_if_false :
  forall (ev : ast -> M dloc) k n s cd s1,
    ev (child 0 n) s = (RVal cd, s1) -> run ev k (get_bool cd) s1 = (RVal false, s1) -> run ev k (eval_if n) s = ev (child 2 n) s1.
Proof. exact if_false. Qed.
Print Assumptions C03_if_false.

Theorem C03_break_continue_return :
  forall (ev : ast -> M dloc) k body s s1,
    (run ev k body s = (RFail FBreak, s1) -> run ev k (loop_body body) s = (RVal false, s1)) /\
    (run ev k body s = (RFail FCont, s1) -> run ev k (loop_body body) s = (RVal true, s1)) /\
    (forall d, run ev k body s = (RFail (FRet d), s1) -> run ev k (loop_body body) s = (RFail (FRet d), s1)).
Proof. intros. split; [apply loop_body_break | split; [apply loop_body_continue | intros; apply loop_body_return; assumption]]. Qed.
Print Assumptions C03_break_continue_return.

(* block scoping: names declared in a block, loop, case, try or function body are gone afterwards and
   outer bindings are intact (shadowing ends with the block) *)
Theorem C03_block_scope :
  forall c ops f k A (p : prog A) s r s', run (eval c ops f) k (Scoped p) s = (r, s') -> s_stacks s' = s_stacks s.
Proof. exact scoped_leaves_no_names. Qed.
Print Assumptions C03_block_scope.

Theorem C03_function_scope :
  forall c ops f k A (p : prog A) s r s', run (eval c ops f) k (Framed p) s = (r, s') -> s_stacks s' = s_stacks s.
Proof. exact framed_leaves_no_names. Qed.
Print Assumptions C03_function_scope.

(* ---- script-defined classes *)
(* a parameter typed with a class name (any name that is not a registered type) accepts exactly the objects of that class:
   not numbers, strings, containers, functions, and not the objects of another class *)
Theorem C03_class_typed_parameter :
  forall cls o, is_class_name cls ->
    (param_match cls o = PMYes <-> exists attrs, o = Some (ODyn cls attrs)) /\
    (param_match cls o = PMYes \/ param_match cls o = PMNo).
Proof. exact class_param_accepts_only_its_objects. Qed.
Print Assumptions C03_class_typed_parameter.
Example C03_class_name_example : is_class_name "Point" /\ param_match "Point" (Some (OStr "s")) = PMNo
                                 /\ param_match "Point" (Some (ODyn "Point" [])) = PMYes /\ param_match "Point" (Some (ODyn "Other" [])) = PMNo.
Proof. repeat split; try reflexivity. discriminate. Qed.

(* a method of one class is not entered with anything but an object of that class as `this`; nothing is evaluated and nothing changes *)
Theorem C03_method_refuses_other_classes :
  forall (ev : ast -> M dloc) k cl cls pts a args s o os,
    is_class_name cls -> cl_ptypes cl = cls :: pts -> List.length (a :: args) = List.length (cl_params cl) ->
    run ev k (objs_of (a :: args)) s = (RVal (o :: os), s) -> (forall attrs, o <> Some (ODyn cls attrs)) ->
    run ev k (try_plain cl (a :: args)) s = (RVal None, s).
Proof. exact method_refuses_other_classes. Qed.
Print Assumptions C03_method_refuses_other_classes.

(* a constructor call answers the object made for it, whatever the body's last value or `return` was *)
Theorem C03_constructor_answers_its_object :
  forall (ev : ast -> M dloc) k cl cls args s d s',
    cl_kind cl = CKCtor cls -> run ev k (try_closure cl args) s = (RVal (Some d), s') ->
    d = DL (List.length (s_data s)) /\ S (List.length args) = List.length (cl_params cl).
Proof. exact constructor_answers_its_object. Qed.
Print Assumptions C03_constructor_answers_its_object.

(* reading an existing attribute answers the attribute's own Boxed_Value (so `o.x = v`, `o.x += 1` reach the object) and changes nothing *)
Theorem C03_attribute_identity :
  forall (ev : ast -> M dloc) k o cn attrs name d s,
    run ev k (obj_of o) s = (RVal (Some (ODyn cn attrs)), s) -> assoc attrs name = Some d ->
    run ev k (get_attr o name) s = (RVal d, s).
Proof. exact attribute_identity. Qed.
Print Assumptions C03_attribute_identity.

(* `o.fresh` on a mutable object without that attribute enters it (undefined); the same Boxed_Value is what every later read answers *)
Theorem C03_attribute_created_once :
  forall (ev : ast -> M dloc) k o cn attrs name s dat l,
    nth_error (s_data s) (dl o) = Some dat -> d_const dat = false -> d_obj dat = Some l ->
    nth_error (s_objs s) (ol l) = Some (ODyn cn attrs) -> assoc attrs name = None ->
    exists s', run ev k (get_attr o name) s = (RVal (DL (List.length (s_data s))), s')
               /\ run ev k (get_attr o name) s' = (RVal (DL (List.length (s_data s))), s').
Proof. exact attribute_created_once. Qed.
Print Assumptions C03_attribute_created_once.
