(* C03 — Core language semantics match the documented (C++-like) model.
   The property is a conformance statement against a reference interpreter: the Coq evaluator
   (Eval.v with the specification arithmetic) *is* that reference, and conformance of the
   implementation is translation validation (tools/p_C03.py). The theorems below are laws of the
   reference that make it recognisably the documented semantics; each holds for every sub-term
   evaluator `ev`, hence at every fuel. *)
From Coq Require Import List Bool String.
From ChaiV Require Import Ast EvalDefs Eval EvalLaws.

Theorem C03_and_short_circuit :
  forall (ev : ast -> M nat) n s l s1,
    ev (child 0 n) s = (RVal l, s1) -> get_bool l s1 = (RVal false, s1) ->
    eval_logical ev true n s = new_value (OBool false) true false s1.
Proof. exact and_short_circuit. Qed.
Print Assumptions C03_and_short_circuit.

Theorem C03_or_short_circuit :
  forall (ev : ast -> M nat) n s l s1,
    ev (child 0 n) s = (RVal l, s1) -> get_bool l s1 = (RVal true, s1) ->
    eval_logical ev false n s = new_value (OBool true) true false s1.
Proof. exact or_short_circuit. Qed.
Print Assumptions C03_or_short_circuit.

Theorem C03_if_true :
  forall (ev : ast -> M nat) n s cd s1,
    ev (child 0 n) s = (RVal cd, s1) -> get_bool cd s1 = (RVal true, s1) -> eval_if ev n s = ev (child 1 n) s1.
Proof. exact if_true. Qed.
Print Assumptions C03_if_true.

Theorem C03_if_false :
  forall (ev : ast -> M nat) n s cd s1,
    ev (child 0 n) s = (RVal cd, s1) -> get_bool cd s1 = (RVal false, s1) -> eval_if ev n s = ev (child 2 n) s1.
Proof. exact if_false. Qed.
Print Assumptions C03_if_false.

Theorem C03_while_zero_iterations :
  forall (ev : ast -> M nat) k cnd body s s1,
    scoped_cond ev cnd s = (RVal false, s1) -> while_loop ev (S k) cnd body s = (RVal tt, s1).
Proof. exact while_zero. Qed.
Print Assumptions C03_while_zero_iterations.
