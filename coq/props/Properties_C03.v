(* C03 — Core language semantics match the documented (C++-like) model.
   The property is a conformance statement against a reference interpreter: the Coq evaluator
   (Eval.v with the specification arithmetic) *is* that reference, and conformance of the
   implementation is translation validation (tools/p_C03.py). The theorems below are laws of the
   reference that make it recognisably the documented semantics; each holds for every sub-term
   evaluator `ev`, hence at every fuel. *)
From Coq Require Import List Bool String.
From ChaiV Require Import Ast EvalDefs Eval EvalMeta EvalLaws.

Theorem C03_and_short_circuit :
  forall (ev : ast -> M dloc) k n s l s1,
    ev (child 0 n) s = (RVal l, s1) -> run ev k (get_bool l) s1 = (RVal false, s1) ->
    run ev k (eval_logical true n) s = run ev k (new_value (OBool false) true false) s1.
Proof. exact and_short_circuit. Qed.
Print Assumptions C03_and_short_circuit.

Theorem C03_or_short_circuit :
  forall (ev : ast -> M dloc) k n s l s1,
    ev (child 0 n) s = (RVal l, s1) -> run ev k (get_bool l) s1 = (RVal true, s1) ->
    run ev k (eval_logical false n) s = run ev k (new_value (OBool true) true false) s1.
Proof. exact or_short_circuit. Qed.
Print Assumptions C03_or_short_circuit.

Theorem C03_if_true :
  forall (ev : ast -> M dloc) k n s cd s1,
    ev (child 0 n) s = (RVal cd, s1) -> run ev k (get_bool cd) s1 = (RVal true, s1) -> run ev k (eval_if n) s = ev (child 1 n) s1.
Proof. exact if_true. Qed.
Print Assumptions C03_if_true.

Theorem C03_if_false :
  forall (ev : ast -> M dloc) k n s cd s1,
    ev (child 0 n) s = (RVal cd, s1) -> run ev k (get_bool cd) s1 = (RVal false, s1) -> run ev k (eval_if n) s = ev (child 2 n) s1.
Proof. exact if_false. Qed.
Print Assumptions C03_if_false.

Theorem C03_break_continue_return :
  forall (ev : ast -> M dloc) k body s s1,
    (run ev k body s = (RFail FBreak, s1) -> run ev k (loop_body body) s = (RVal false, s1)) /\
    (run ev k body s = (RFail FCont, s1) -> run ev k (loop_body body) s = (RVal true, s1)) /\
    (forall d, run ev k body s = (RFail (FRet d), s1) -> run ev k (loop_body body) s = (RFail (FRet d), s1)).
Proof. intros. split; [apply loop_body_break | split; [apply loop_body_continue | intros; apply loop_body_return; assumption]]. Qed.
Print Assumptions C03_break_continue_return.

(* block scoping: names declared in a block, loop, case, try or function body are gone afterwards and
   outer bindings are intact (shadowing ends with the block) *)
Theorem C03_block_scope :
  forall c ops f k A (p : prog A) s r s', run (eval c ops f) k (Scoped p) s = (r, s') -> s_stacks s' = s_stacks s.
Proof. exact scoped_leaves_no_names. Qed.
Print Assumptions C03_block_scope.

Theorem C03_function_scope :
  forall c ops f k A (p : prog A) s r s', run (eval c ops f) k (Framed p) s = (r, s') -> s_stacks s' = s_stacks s.
Proof. exact framed_leaves_no_names. Qed.
Print Assumptions C03_function_scope.
