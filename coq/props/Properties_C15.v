(* C15 — get_state / set_state restore the global environment exactly.
   Property theorems only; each is closed by `exact` of a lemma proved in EngineProofs / EngineTheorems.

   M h  is the mechanism state after history h: three function tables over a heap of shared overload
   vectors, globals, types, used files, active modules, the snapshots taken so far, and (outside any State)
   the objects globals are bound to, the thread's locals and the file-evaluation log.  The mechanism's
   add_function / get_state / set_state are interpreted from gen_desc, the description regenerated from
   dispatchkit.hpp and chaiscript_engine.hpp on every run (tools/translate/t_EngineState.py).
   menv st  is the dictionary (name -> overload list, globals, types, used files, modules) a state denotes;
   msnap_env st k  the dictionary the k-th saved State denotes in st. *)
From Coq Require Import List Bool String Arith.
From ChaiV Require Import EngineDefs EngineProofs EngineSpecRun EngineRun EngineTheorems.
From ChaiV.Gen Require Import G_EngineState.
Import ListNotations.

Definition M (w : world) (h : list op) : mstate := mrun gen_desc w m_init h.

(* --- about the source as it is now *)
Theorem C15_fields_complete :
  fields_complete engine_state_fields engine_members engine_get_copies engine_set_copies
                  chai_state_fields chai_members chai_get_copies chai_set_copies = true.
Proof. exact gen_fields_complete. Qed.
Print Assumptions C15_fields_complete.

Theorem C15_cow :
  d_exists_branch gen_desc = canonical_exists_branch /\
  hasE EBoxed (d_tail gen_desc) = true /\ hasE EFunctionObjects (d_tail gen_desc) = true.
Proof. exact gen_cow. Qed.
Print Assumptions C15_cow.

(* --- for all histories *)
(* m_functions, m_function_objects and m_boxed_functions have the same names in the same order, each function
   object is the wrapper of exactly the overloads listed (live tables and every saved State), no dangling or
   empty vector, no duplicate name *)
Theorem C15_tables_in_step : forall w h,
  tabs_in_step (m_heap (M w h)) (es_tabs (sn_engine (m_live (M w h)))) /\
  Forall (fun s => tabs_in_step (m_heap (M w h)) (es_tabs (sn_engine s))) (m_snaps (M w h)).
Proof. exact (tables_in_step_thm gen_desc gen_desc_ok). Qed.
Print Assumptions C15_tables_in_step.

(* the mechanism denotes, after every history, the state of the dictionary specification *)
Theorem C15_simulation : forall w h, abs (M w h) = srun w s_init h.
Proof. exact (simulation_thm gen_desc gen_desc_ok). Qed.
Print Assumptions C15_simulation.

(* after set_state(s) the environment is the one at the time s was taken, whatever happened in between
   (h2 is arbitrary: additions, other get_state/set_state, use); objects, locals and file effects are untouched *)
Theorem C15_restore : forall w h1 h2,
  let k := List.length (m_snaps (M w h1)) in
  let before := M w (h1 ++ OGet :: h2) in
  let after := M w (h1 ++ OGet :: h2 ++ [OSet k]) in
  menv after = menv (M w h1) /\ m_amb after = m_amb before /\ moutcome gen_desc w before (OSet k) = Ok.
Proof. exact (restore_thm gen_desc gen_desc_ok). Qed.
Print Assumptions C15_restore.

Theorem C15_added_gone : forall w h1 h2 n,
  let k := List.length (m_snaps (M w h1)) in
  lookup n (e_funs (menv (M w h1))) = None ->
  lookup n (e_funs (menv (M w (h1 ++ OGet :: h2 ++ [OSet k])))) = None.
Proof. exact (added_gone_thm gen_desc gen_desc_ok). Qed.
Print Assumptions C15_added_gone.

(* an addition (function, global, type) has after the restore the outcome it had when the snapshot was taken;
   in particular a name that was free then can be defined again *)
Theorem C15_readd : forall w h1 h2 s,
  let k := List.length (m_snaps (M w h1)) in
  is_add s = true ->
  moutcome gen_desc w (M w (h1 ++ OGet :: h2 ++ [OSet k])) (OScript [s]) = moutcome gen_desc w (M w h1) (OScript [s]).
Proof. exact (readd_thm gen_desc gen_desc_ok). Qed.
Print Assumptions C15_readd.

Theorem C15_readd_fresh : forall w h1 h2 n f,
  let k := List.length (m_snaps (M w h1)) in
  lookup n (e_funs (menv (M w h1))) = None ->
  moutcome gen_desc w (M w (h1 ++ OGet :: h2 ++ [OSet k])) (OScript [SDef n f]) = Ok.
Proof. exact (readd_fresh_thm gen_desc gen_desc_ok). Qed.
Print Assumptions C15_readd_fresh.

(* later operations never change what an earlier saved State denotes, and it denotes the environment of its time *)
Theorem C15_snapshot_stable : forall w h1 h2 k,
  k < List.length (m_snaps (M w h1)) -> msnap_env (M w (h1 ++ h2)) k = msnap_env (M w h1) k.
Proof. exact (snapshot_stable_thm gen_desc gen_desc_ok). Qed.
Print Assumptions C15_snapshot_stable.

Theorem C15_snapshot_is_env : forall w h1 h2,
  msnap_env (M w (h1 ++ OGet :: h2)) (List.length (m_snaps (M w h1))) = Some (menv (M w h1)).
Proof. exact (snapshot_is_env_thm gen_desc gen_desc_ok). Qed.
Print Assumptions C15_snapshot_is_env.

Theorem C15_locals_untouched : forall w st k, m_amb (fst (mstep gen_desc w st (OSet k))) = m_amb st.
Proof. exact (locals_untouched_thm gen_desc). Qed.
Print Assumptions C15_locals_untouched.

(* the model's explicit "dangling object id" outcome (a global bound to an object that does not exist) is never
   produced: no theorem above holds because of a totalised lookup *)
Theorem C15_no_dangling : forall w h o, moutcome gen_desc w (M w h) o <> Dangling.
Proof. exact (no_dangling_thm gen_desc gen_desc_ok). Qed.
Print Assumptions C15_no_dangling.

(* cached positions are validated by name: whatever hint an AST node holds, lookup finds the named entry *)
Theorem C15_hints_safe : forall w h n hint,
  let t := es_tabs (sn_engine (m_live (M w h))) in
  find_hint hint_bounds_checked hint_key_compared hint_falls_back_to_find n hint (t_functions t) = Some (lookup n (t_functions t)) /\
  find_hint hint_bounds_checked hint_key_compared hint_falls_back_to_find n hint (t_boxed t) = Some (lookup n (t_boxed t)).
Proof. exact gen_hints_safe. Qed.
Print Assumptions C15_hints_safe.

(* --- the hypotheses are satisfiable and the theorems are not vacuous *)
Local Open Scope string_scope.
Example C15_example :
  let h1 := [OScript [SDef "f" (F0 1 0)]; OScript [SDef "f" (F0 2 1)]] in
  let h2 := [OScript [SDef "f" (F0 3 2)]; OScript [SAddGlobal "g" 5]; OScript [SAddType "T" 1]] in
  let st1 := mrun desc_canonical w0 m_init h1 in
  let st2 := mrun desc_canonical w0 m_init (h1 ++ OGet :: h2)%list in
  let st3 := mrun desc_canonical w0 m_init (h1 ++ OGet :: h2 ++ [OSet 0])%list in
  List.length (m_snaps st1) = 0 /\
  option_map (@List.length _) (lookup "f" (e_funs (menv st2))) = Some 3 /\
  lookup "g" (r_globals (e_rest (menv st2))) = Some 0 /\
  menv st3 = menv st1 /\
  option_map (@List.length _) (lookup "f" (e_funs (menv st3))) = Some 2 /\
  moutcome desc_canonical w0 st3 (OScript [SDef "f" (F0 3 2)]) = Ok /\
  moutcome desc_canonical w0 st2 (OScript [SDef "f" (F0 4 2)]) = Conflict.
Proof. exact restore_example. Qed.

(* the mechanism matters: pushing into the published vector changes a saved State; a set_state that forgets
   m_boxed_functions leaves a function callable; a hint that is not compared by name finds another entry *)
Example C15_refuted_in_place :
  let h1 := [OScript [SDef "f" (F0 1 0)]; OGet] in
  msnap_env (mrun desc_inplace w0 m_init h1) 0 <> msnap_env (mrun desc_inplace w0 m_init (h1 ++ [OScript [SDef "f" (F0 2 1)]])%list) 0.
Proof. exact inplace_changes_a_snapshot. Qed.
Example C15_refuted_partial_restore :
  let st := mrun desc_no_boxed_restore w0 m_init [OGet; OScript [SDef "f" (F0 1 0)]; OSet 0] in
  lookup "f" (t_functions (es_tabs (sn_engine (m_live st)))) = None /\
  lookup "f" (t_boxed (es_tabs (sn_engine (m_live st)))) = Some (FSingle (F0 1 0)).
Proof. exact partial_restore_leaves_a_function_behind. Qed.
Example C15_refuted_unchecked_hint :
  find_hint true false true "g" 0 [("f", 1); ("g", 2)] = Some (Some 1) /\ lookup "g" [("f", 1); ("g", 2)] = Some 2.
Proof. exact unchecked_hint_is_wrong. Qed.
