(* C20 — Run-time errors point at the construct that failed: the PARSER side (positions and file names recorded in the tree).
   Property theorems only; proofs in LexProofs (Position arithmetic), ParserLexProofs (token coordinates, the decrement side condition),
   ParserProofs / ParserBodies (build_match, the grammar layer).  `parse A T K G` is the model over the tables regenerated from the source.

   (line, col) are DEFINED from the byte index by LexDefs.wf_pos:  line = 1 + number of LF bytes before the index,
   col = 1 + number of bytes since the last LF.  *)
From Coq Require Import ZArith NArith List Bool String.
From ChaiV Require Import NumDefs Ast LexDefs LexProofs LexLitProofs ParserLexProofs ParserDefs ParserProofs ParserBodies ParserTheorems.
From ChaiV.Gen Require Import G_IntLadder G_Keywords G_OperatorTable.
Import ListNotations.
Local Open Scope string_scope.

(* ---------------------------------------------------------------- C20_inc / C20_dec (cited from Properties_Lex) *)
Theorem C20_inc : forall p, wf_pos p -> wf_pos (pos_inc p).
Proof. exact wf_pos_inc. Qed.
Theorem C20_dec : forall p q,
  wf_pos p -> pos_dec p = Some q ->
  (nth (Nat.pred (idx p)) (buf p) 0%N <> NL \/ last_col p = (1 + Z.of_nat (since_nl (firstn (Nat.pred (idx p)) (buf p))))%Z) ->
  wf_pos q.
Proof. exact wf_pos_dec. Qed.

(* ---------------------------------------------------------------- C20_dec_sites
   The grammar layer decrements m_position at two sites, both in Dot_Fun_Array: `auto start = --m_position;` right after Eol() returned true,
   and `--m_position;` right after Symbol(".") returned true.  At both, the cursor is not at `begin` and the side condition of C20_dec holds
   (the decrement undoes the `++` the match ended with: if that `++` crossed a LF, m_last_col is the column it left), so line/col stay right.
   (The lexer-level sites -- SkipComment x4, Float_, Hex_, Binary_, `m_position - 1` in the string scanners and Id -- are Properties_Lex.)
   That the model applies `dec` in exactly these two states is the text of ParserDefs.Dot_Fun_Array_b; that no input makes ANY decrement leave
   the buffer is C01_safe (Crash OOB_dec is one of the excluded outcomes). *)
Theorem C20_dec_sites :
  (forall (s s' : state pstate), wf_pos (pos s) -> Eol A s = Ok (true, s') -> idx (pos s') <> 0%nat /\ dec_side (pos s') /\ wf_pos (pos s'))
  /\ (forall (s s' : state pstate), wf_pos (pos s) -> Symbol A G (bos ".") false s = Ok (true, s') ->
        idx (pos s') <> 0%nat /\ dec_side (pos s') /\ wf_pos (pos s')).
Proof. exact (dec_sites_ok A G). Qed.
Print Assumptions C20_dec_sites.

(* ---------------------------------------------------------------- C20_node_start
   FULL STATEMENT: every Id, Fun_Call, Dot_Access, Array_Call node of the tree `parse bytes fname` returns starts at the (line, col) of its first
   byte -- for Fun_Call / Dot_Access / Array_Call: of the first byte of the expression they are built around, which after the re-parenting of a
   method call `a.b(x)` into Dot_Access[a, Fun_Call[b, x]] is still the first byte of `a` for BOTH nodes -- and carries the file name given to
   parse (nodes below an in-string eval carry "instr eval" and the coordinates of the interpolated text).
   PROVED (`_partial`), the three facts the statement is made of:
     (a) tokens: an identifier token records line/col of a well-formed position st between the entry cursor and the final cursor, i.e. exactly the
         (line, col) of byte index idx st, and its text is the bytes from there to the cursor (back-quoted names: minus the quotes);
     (b) build_match<K>(start, text): the node built has the start of the first collected child (the current position if there is none), the
         end at the current position, the current file name, and exactly the collected children;
     (c) every state reached by the grammar layer has line/col right (wf_pos is part of `gext`, C01's invariant) and the file name the parse
         started with (`fname` is part of `gext`); the final cursor is well-formed (C01_accounts_partial).
   MISSING for the full statement: the tree-wide induction that composes (a)-(c) ("every node on the match stack starts at a token start"):
   one more conjunct in each of the 45 specs of ParserProofs / ParserBodies; the only non-mechanical cases are build_match (take the first
   child's start) and the Arg_List built around an in-string eval, whose start is in the coordinates of the interpolated text.
   The statement as a whole is checked on every run by tools/p_C20.py against generator ground truth. *)
Theorem C20_node_start_partial :
  (* (a) *)
  (forall (validate : bool) (s s' : state pstate) text l1 c1,
     wf_pos (pos s) -> Id A K validate s = Ok (Some (TId text l1 c1), s') ->
     exists st, wf_pos st /\ buf st = buf (pos s) /\ (idx (pos s) <= idx st)%nat /\ (idx st <= idx (pos s'))%nat /\
                l1 = (1 + count_nl (firstn (idx st) (buf st)))%Z /\ c1 = (1 + Z.of_nat (since_nl (firstn (idx st) (buf st))))%Z /\
                ((deref st =? 96)%N = false -> text = pos_str st (pos s')))
  (* (b) *)
  /\ (forall k start text (s : state pstate),
        (start <= len s)%nat -> ctor_check k (len s - start) = None ->
        build_match k start text s =
        Ok (tt, mkState (pos s) (depth s) (mkPS (firstn start (stack s) ++ [bm_node k text s start]) (fname (user s)) (ticks (user s)))))
  /\ (forall k text (s : state pstate) start,
        pn_file (bm_node k text s start) = fname (user s) /\ pn_children (bm_node k text s start) = skipn start (stack s) /\
        (l_eline (pn_loc (bm_node k text s start)), l_ecol (pn_loc (bm_node k text s start))) = (line (pos s), col (pos s)) /\
        match skipn start (stack s) with
        | c :: _ => (l_line (pn_loc (bm_node k text s start)), l_col (pn_loc (bm_node k text s start))) = (l_line (pn_loc c), l_col (pn_loc c))
        | [] => (l_line (pn_loc (bm_node k text s start)), l_col (pn_loc (bm_node k text s start))) = (line (pos s), col (pos s))
        end)
  (* (c) *)
  /\ (forall f nt d, valid_nt G nt -> need nt d <= f -> spec d (P A T K G f nt) (Rnt nt)).
Proof. exact (node_start_facts A T K G id_sub_keyword_gen tables_gen_ok). Qed.
Print Assumptions C20_node_start_partial.

(* the hypotheses are satisfiable: a method call continued on the next line -- both decrements happen, and the re-parented nodes start at `a` *)
Example C20_method_chain :
  exists t, parse A T K G (bos ("a" ++ String (Ascii.ascii_of_nat 10) "  .b(1)")) "F" = Ok t /\
            map (fun n => (pn_kind n, l_line (pn_loc n), l_col (pn_loc n), pn_file n)) (pn_children t) = [(KDot_Access, 1%Z, 1%Z, "F")] /\
            map (fun n => (pn_kind n, l_line (pn_loc n), l_col (pn_loc n))) (flat_map pn_children (pn_children t)) = [(KId, 1%Z, 1%Z); (KFun_Call, 1%Z, 1%Z)].
Proof. vm_compute. eexists. split; [reflexivity|]. split; reflexivity. Qed.

(* evaluator side: call_stack — added by the coordinator *)

From ChaiV Require Import EvalDefs Eval EvalTrace.

(* AST_Node_Impl::eval around a node's own semantics p: an eval_error leaving p gets this node appended to its call stack;
   every other outcome (value, return/break/continue, other exceptions, fuel) passes unchanged *)
Theorem C20_wrapper_appends_the_node :
  forall ev k n p s,
    run ev k (with_trace n p) s =
      match run ev k p s with
      | (RFail (FThrow (EEval r st)), s') => (RFail (FThrow (EEval r (app st [TE (a_kind n) (a_loc n)]))), s')
      | x => x
      end.
Proof. exact with_trace_spec. Qed.
Print Assumptions C20_wrapper_appends_the_node.

(* every node, every tree, every state, every depth: an eval_error that leaves the evaluation of n has n (its kind and its own
   start position) as newest entry; applied at each enclosing node in turn, the stack lists the active constructs innermost first *)
Theorem C20_call_stack_innermost_first :
  forall c ops fuel n s r st s',
    eval c ops fuel n s = (RFail (FThrow (EEval r st)), s') ->
    exists st0, st = app st0 [TE (a_kind n) (a_loc n)].
Proof. exact eval_error_records_node. Qed.
Print Assumptions C20_call_stack_innermost_first.

(* an identifier that resolves to nothing (no local, no global, no function): the error is raised at the Id node itself and its only
   entry is the identifier's own position *)
Theorem C20_unresolved_identifier_points_at_itself :
  forall ops fuel n s,
    a_kind n = KId ->
    run_prim (PFindLocal (a_text n)) s = (RVal None, s) ->
    assoc (s_globals s) (a_text n) = None -> assoc (s_funcs s) (a_text n) = None ->
    existsb (String.eqb (a_text n)) builtin_names = false ->
    existsb (String.eqb (a_text n)) unmodelled_names = false ->     (* not one of the engine functions the model leaves out *)
    eval (mkcfg false) ops (S fuel) n s =
      (RFail (FThrow (EEval ("Can not find object: " ++ a_text n) [TE KId (a_loc n)])), s).
Proof. exact unresolved_id_points_at_itself. Qed.
Print Assumptions C20_unresolved_identifier_points_at_itself.
