(* C12 — Built-in containers/strings are bounds-safe and match their C++ models.
   Property theorems only; each is closed by `exact` of a lemma proved in ContProofs / ContTheorems.
   stl_table is regenerated from /repo's working tree on every run (tools/translate/t_StlWrappers.py):
   one row per function registered by bootstrap_stl.hpp for Vector, List, string, Map, Pair, Map_Pair and
   the eight Bidir_Range view types, plus the prelude's script-level forwards. *)
From Coq Require Import ZArith NArith String List Bool.
From ChaiV Require Import ContDefs ContProofs ContTheorems.
From ChaiV.Gen Require Import G_StlWrappers.
Import ListNotations.
Local Open Scope Z_scope.

(* for every row, every well-formed container state and every argument list: the wrapper never leaves the
   std:: operation's standard precondition unchecked (UB), and where its guard fires it raises *)
Theorem C12_guarded :
  forall w, In w stl_table -> forall st args, wf st = true ->
    run_wrapper w st args <> UB
    /\ (forall cargs, state_matches (w_kind w) st = true -> conv_all (w_kind w) (w_params w) args = Some cargs ->
          guard_fires (w_guard w) st cargs = true -> run_wrapper w st args = Raised XRange).
Proof. exact guarded_thm. Qed.
Print Assumptions C12_guarded.

(* every row's effect and result equal the list-function specification of its name
   (insert_at = firstn ++ [v] ++ skipn, erase_at, push/pop, resize, clear, [] / at, front/back, find family, substr,
   map lookup/insert/erase, pair members, range front/back/pop/empty), including which arguments raise *)
Theorem C12_functional :
  forall w, In w stl_table -> forall st args, wf st = true -> length args = length (w_params w) ->
    run_wrapper w st args = spec_call (w_kind w) (w_const w) (w_name w) st args.
Proof. exact functional_thm. Qed.
Print Assumptions C12_functional.

(* the functions the property names are present in the table, so the two theorems above speak about them *)
Theorem C12_table_complete :
  forallb (fun e => match lookup stl_table (fst (fst e)) false (snd (fst e)) (snd e) with Some _ => true | None => false end)
          required_entries = true.
Proof. exact table_complete. Qed.
Print Assumptions C12_table_complete.

(* what the specification's string searches mean: least / greatest qualifying position, npos when there is none *)
Theorem C12_find_meaning :
  (forall s f pos, 0 <= pos ->
     (str_find s f pos = npos /\ forall j, pos <= j <= zlen s -> prefix_eqb f (skipn (Z.to_nat j) s) = false)
     \/ (pos <= str_find s f pos <= zlen s /\ prefix_eqb f (skipn (Z.to_nat (str_find s f pos)) s) = true
         /\ forall j, pos <= j < str_find s f pos -> prefix_eqb f (skipn (Z.to_nat j) s) = false))
  /\ (forall P s pos, 0 <= pos ->
     (str_first_of P s pos = npos /\ forall j, pos <= j < zlen s -> P (nth (Z.to_nat j) s 0%N) = false)
     \/ (pos <= str_first_of P s pos < zlen s /\ P (nth (Z.to_nat (str_first_of P s pos)) s 0%N) = true
         /\ forall j, pos <= j < str_first_of P s pos -> P (nth (Z.to_nat j) s 0%N) = false))
  /\ (forall P s pos, 0 <= pos ->
     (str_last_of P s pos = npos /\ forall j, 0 <= j <= pos -> j < zlen s -> P (nth (Z.to_nat j) s 0%N) = false)
     \/ (0 <= str_last_of P s pos <= pos /\ str_last_of P s pos < zlen s /\ P (nth (Z.to_nat (str_last_of P s pos)) s 0%N) = true
         /\ forall j, str_last_of P s pos < j <= pos -> j < zlen s -> P (nth (Z.to_nat j) s 0%N) = false)).
Proof. exact (conj str_find_spec (conj str_first_of_spec str_last_of_spec)). Qed.
Print Assumptions C12_find_meaning.

(* any operation sequence, of any length, on any container type and its range views, from the empty container:
   no step is UB and the abstract invariant (size bound, strictly key-sorted map, 0 <= begin <= end <= size of every
   live view) holds at the end.  Views are dropped by every step whose std:: operation is not a const observer
   (the property's hypothesis "not structurally modified while viewed"). *)
Theorem C12_sequences :
  forall ty k steps,
    exists w', wrun_all (table_call stl_table) (table_keeps stl_table) ty k (init_world k) steps = Some w'
               /\ world_wf k w' = true.
Proof. exact sequences_thm. Qed.
Print Assumptions C12_sequences.

(* non-vacuity: a concrete history with real effects, guards that fire, and results of the string searches *)
Example C12_hypotheses_satisfiable :
  wrun_all (table_call stl_table) (table_keeps stl_table) "Vector" KVector (init_world KVector) (firstn 9 example_steps)
    = Some (mkworld (SVec [VInt 3; VInt 7]) (Some (2, 2)%nat) None)
  /\ wrun_all (table_call stl_table) (table_keeps stl_table) "Vector" KVector (init_world KVector) example_steps
    = Some (mkworld (SVec []) None None)
  /\ call stl_table "Vector" false "pop_back" (SVec []) [] = Raised XRange
  /\ call stl_table "Vector" false "erase_at" (SVec [VInt 1]) [VInt 1] = Raised XRange
  /\ call stl_table "Vector" false "insert_at" (SVec [VInt 1]) [VInt 1; VInt 2] = Ok (SVec [VInt 1; VInt 2]) VUnit
  /\ call stl_table "string" true "find" (SStr [97; 98; 99; 98]%N) [VStr [98]%N] = Ok (SStr [97; 98; 99; 98]%N) (VInt 1)
  /\ call stl_table "string" true "rfind" (SStr [97; 98; 99; 98]%N) [VStr [98]%N] = Ok (SStr [97; 98; 99; 98]%N) (VInt 3)
  /\ call stl_table "string" true "find" (SStr [97]%N) [VStr [98]%N] = Ok (SStr [97]%N) (VInt npos)
  /\ call stl_table "string" true "substr" (SStr [97]%N) [VInt 2; VInt 1] = Raised XOutOfRange.
Proof. exact example_run. Qed.

(* the model is able to express the failures the theorems exclude: the unguarded / mis-compared variants reach UB *)
Example C12_model_expresses_UB :
  mech GNone [] OPopBack (SVec []) [] = UB
  /\ mech (GPos true CLt) [AP 0] OAdvErase (SVec [VInt 1]) [VInt 1] = UB
  /\ mech GNone [AP 0] OIndexCast (SVec [VInt 1]) [VInt 1] = UB
  /\ mech GNone [] RIncBegin (SRange [] 0 0) [] = UB.
Proof. exact (conj unguarded_pop_back_is_UB (conj erase_at_lt_is_UB (conj unchecked_index_is_UB unguarded_range_pop_is_UB))). Qed.
