(* C14 — Engine instances are isolated from one another.
   Property theorems only; each is closed by `exact` of a lemma proved in ThreadStoreProofs / ThreadStoreTheorems.
   thread_storage_policy is what tools/translate/t_ThreadStorage.py extracts from class Thread_Storage on every
   run: the expression that keys the thread_local map in every accessor and in the destructor, and where it comes from.
   observe p b w h  = the results of the operations of history h that are applied to engine b;
   proj b h         = those operations alone.  Histories range over any number of engines (created at addresses the
   history chooses, so an address can be handed out again), any number of threads, create / eval on thread t /
   destroy on thread t in any order. *)
From Coq Require Import List Bool String Arith.
From ChaiV Require Import ThreadStoreDefs ThreadStoreProofs ThreadStoreTheorems.
From ChaiV.Gen Require Import G_ThreadStorage.
Import ListNotations.

(* about the source as it is now *)
Theorem C14_key_policy : thread_storage_policy_opt = Some ByFreshId /\ same_key_everywhere = true.
Proof. exact (conj gen_policy gen_same_key). Qed.
Print Assumptions C14_key_policy.

Theorem C14_state_is_per_engine :
  forallb (fun s => smem (snd s) static_data_known) static_data = true /\
  forallb (fun s => smem (snd s) storage_members_known) storage_members = true /\
  forallb (fun m => existsb (fun s => String.eqb (snd s) m) storage_members) storage_members_known = true.
Proof. exact gen_statics_known. Qed.
Print Assumptions C14_state_is_per_engine.

(* noninterference, with the extracted policy, for every history *)
Theorem C14_isolated : forall h b,
  observe thread_storage_policy b w_init h = observe thread_storage_policy b w_init (proj b h).
Proof. exact gen_isolated. Qed.
Print Assumptions C14_isolated.

(* and the observations are those of the specification in which per-thread state simply belongs to the engine *)
Theorem C14_matches_spec : forall h b, observe thread_storage_policy b w_init h = observe ByEngine b w_init h.
Proof. exact gen_is_spec. Qed.
Print Assumptions C14_matches_spec.

(* the general statement the two above instantiate *)
Theorem C14_isolated_any_sound_policy : forall p, p <> ByAddress -> forall h b,
  observe p b w_init h = observe p b w_init (proj b h).
Proof. exact isolated_thm. Qed.
Print Assumptions C14_isolated_any_sound_policy.

(* keyed by the address of the member: an engine constructed where a dead one was reads the dead one's locals on a
   thread that outlived it *)
Theorem C14_refuted_by_address : exists h b, observe ByAddress b w_init h <> observe ByAddress b w_init (proj b h).
Proof. exact refuted_by_address. Qed.
Print Assumptions C14_refuted_by_address.

Local Open Scope string_scope.
Example C14_leak_witness :
  observe ByAddress 1 w_init leak_history = [ROk; RValue (Some 42); RNames ["secret"]] /\
  observe ByAddress 1 w_init (proj 1 leak_history) = [ROk; RValue None; RNames []] /\
  observe ByFreshId 1 w_init leak_history = [ROk; RValue None; RNames []].
Proof. exact address_leaks. Qed.

Example C14_example :
  let h := [Create 0 7 0; Create 1 8 1; Eval 0 0 (SetLocal "a" 1); Eval 1 0 (SetLocal "a" 2); Eval 0 2 (AddGlobal "g" 3);
            Eval 1 0 (Read "a"); Eval 1 2 (Read "g"); Destroy 0 1; Create 2 7 2; Eval 2 0 (Read "a"); Eval 1 0 Locals] in
  observe ByFreshId 1 w_init h = [ROk; ROk; RValue (Some 2); RValue None; RNames ["a"]] /\
  observe ByFreshId 2 w_init h = [ROk; RValue None] /\
  proj 1 h = [Create 1 8 1; Eval 1 0 (SetLocal "a" 2); Eval 1 0 (Read "a"); Eval 1 2 (Read "g"); Eval 1 0 Locals].
Proof. exact isolation_example. Qed.
