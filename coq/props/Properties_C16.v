(* C16 — Literals denote the values and types they denote in C++.
   Property theorems only; each is closed by `exact` of a lemma proved in LexLitProofs / LexTheorems / LexNumProofs /
   LexFloatProofs.  `int_tables_gen`, `kw_tables_gen`, `alphabets_gen` are regenerated from /repo's working tree on every
   run (tools/translate/t_IntLadder.py, t_Keywords.py); CxxLiteral.v is the C++ side, written independently of the parser. *)
From Coq Require Import ZArith NArith List Bool String Floats.SpecFloat.
From ChaiV Require Import NumDefs LexDefs CxxLiteral LexProofs LexLitProofs LexTheorems LexNumProofs LexFloatProofs.
From ChaiV.Gen Require Import G_IntLadder G_Keywords.
Import ListNotations.
Local Open Scope Z_scope.

(* ---------------------------------------------------------------- integers *)
(* EVERY well-formed integer literal (base 2/8/10/16 with its prefix, any non-empty digit string of the base, any of the
   23 C++ suffix spellings) whose value fits some type of its [lex.icon] sequence: running Num() of the model — SkipWS,
   Hex_, Binary_, Float_, IntSuffix_, buildInt over the regenerated suffix scan and ladders, stoll/stoull — on a buffer
   holding exactly that literal yields one Constant token with the literal's text, the first type of the sequence that
   can hold the value and exactly that value, and leaves the cursor at the end of the buffer.  (Literals no type of
   the sequence can represent are outside the statement.) *)
Theorem C16_int : forall (U : Type) (d : nat) (u : U) base pre ds sfx t v,
  int_prefix_ok base pre ds -> int_literal base ds sfx = IntLit t v ->
  let text := pre ++ ds ++ sfx in
  @Num U alphabets_gen int_tables_gen (mkState (pos_begin text) d u) =
  Ok (Some (TConstant text 1 1 (KInt t v)),
      mkState (mkPos text (List.length text) 1 (1 + Z.of_nat (List.length text)) 1) d u).
Proof. exact num_int_thm. Qed.
Print Assumptions C16_int.

(* the same at the level of buildInt alone (any 2-byte prefix / no prefix) *)
Theorem C16_int_buildInt : forall base pre ds sfx t v,
  ((base = 16 \/ base = 2) /\ List.length pre = 2%nat) \/ ((base = 8 \/ base = 10) /\ pre = []) ->
  int_literal base ds sfx = IntLit t v ->
  buildInt int_tables_gen base (pre ++ ds ++ sfx) (negb (Nat.eqb (List.length pre) 0)) = BI t v.
Proof. exact buildInt_thm. Qed.
Print Assumptions C16_int_buildInt.

Example C16_int_hypotheses_satisfiable :
  int_prefix_ok 16 [48; 120]%N [102; 102]%N /\ int_literal 16 [102; 102]%N [85; 76]%N = IntLit IULong 255
  /\ int_prefix_ok 10 [] [50; 49; 52; 55; 52; 56; 51; 54; 52; 56]%N
  /\ int_literal 10 [50; 49; 52; 55; 52; 56; 51; 54; 52; 56]%N [] = IntLit ILong 2147483648
  /\ int_prefix_ok 8 [] [48; 50; 48; 48; 48; 48; 48; 48; 48; 48; 48; 48]%N
  /\ int_literal 8 [48; 50; 48; 48; 48; 48; 48; 48; 48; 48; 48; 48]%N [] = IntLit IUInt 2147483648
  /\ int_literal 2 [49]%N [108; 108; 85]%N = IntLit IULLong 1.
Proof.
  repeat split; try reflexivity.
  - left. split; [reflexivity|left; reflexivity].
  - right; right; right. repeat split. discriminate.
  - right; right; left. repeat split.
Qed.

(* ---------------------------------------------------------------- strings and characters *)
(* "…" without the `${` marker: the loop of Quoted_String over the bytes between the quotes (Char_Parser::parse per byte,
   the pending `$` logic, finish()) yields exactly CxxLiteral.decode: the same bytes, and an error exactly where the
   literal is ill-formed.  `closed_content 34 body`: body can stand between two double quotes. *)
Theorem C16_escape : forall body l c,
  closed_content 34 body = true -> has_dollar_brace body = false ->
  exists q, qs_scan (2 * List.length body + 2) l c cp_init [] body = QS q /\ qs_segs q = [] /\
            match decode body with
            | Some bs => qs_final q = QFin bs
            | None => exists r l' c', qs_final q = QErr r l' c'
            end.
Proof. exact escape_thm. Qed.
Print Assumptions C16_escape.

(* '…': exactly one decoded byte, otherwise an error (Single_Quoted_String's feed / finish / size test) *)
Theorem C16_char : forall body,
  closed_content 39 body = true ->
  match cp_feed false cp_init body with
  | CPOk c1 =>
      match cp_finish c1 with
      | CPOk c2 => match char_literal body with Some ch => cp_match c2 = [ch] | None => List.length (cp_match c2) <> 1%nat end
      | CPErr _ _ => char_literal body = None
      | CPCrash _ => False
      end
  | CPErr _ _ => char_literal body = None
  | CPCrash _ => False
  end.
Proof. exact char_thm. Qed.
Print Assumptions C16_char.

(* the Char_Parser with interpolation off, on any closed content *)
Theorem C16_escape_plain : forall body,
  closed_content 34 body = true \/ closed_content 39 body = true ->
  match cp_run false body with
  | CPOk c => decode body = Some (cp_match c)
  | CPErr _ _ => decode body = None
  | CPCrash _ => False
  end.
Proof. exact feed_thm. Qed.
Print Assumptions C16_escape_plain.

Example C16_escape_hypotheses_satisfiable :
  closed_content 34 [97; 92; 120; 52; 49; 92; 117; 48; 48; 101; 57; 36]%N = true
  /\ has_dollar_brace [97; 92; 120; 52; 49; 92; 117; 48; 48; 101; 57; 36]%N = false
  /\ decode [97; 92; 120; 52; 49; 92; 117; 48; 48; 101; 57; 36]%N = Some [97; 65; 195; 169; 36]%N
  /\ decode [92; 117; 49; 50]%N = None /\ decode [92; 85; 70; 70; 70; 70; 70; 70; 70; 70]%N = None
  /\ char_literal [92; 110]%N = Some 10%N.
Proof. repeat split; vm_compute; reflexivity. Qed.

(* ---------------------------------------------------------------- floating literals *)
(* the suffix picks float / double / long double, and parse_num sees exactly the text without the suffix *)
Theorem C16_float_type : forall b d sfx k,
  (48 <=? d)%N && (d <=? 57)%N = true -> float_suffix_type sfx = Some k ->
  buildFloat int_tables_gen ((b ++ [d]) ++ sfx) = (k, parse_num_float k (b ++ [d])).
Proof. exact float_type_thm. Qed.
Print Assumptions C16_float_type.

(* FULL STATEMENT (not proved): for every floating literal the value is within a few ulp of the correctly rounded
   decimal value.  PROVED PART: the spellings  <digits> . 0…0  (and, by C16_float_type, with f/F/l/L suffix) whose integer
   value is below 2^24 (float), 2^53 (double), 2^64 (long double) evaluate EXACTLY to that integer — no operation of
   parse_num<T> rounds.  MISSING: fractional digits (each `digit / decimal_place` and each `+=` rounds) and exponents
   (std::pow is libm; the model's pow10_model is the correctly rounded power, which libm only guarantees when 10^e is
   representable).  Those spellings are covered by the correspondence (bit-exact against the model for exponent-free
   spellings) and by a tolerance TEST against the correctly rounded value, see tools/p_C16.py. *)
Theorem C16_float_value_partial : forall k ip zeros,
  all_dec ip -> dval ip 0 < 2 ^ fprec k -> Forall (fun c => c = 48%N) zeros ->
  parse_num_float k (ip ++ [46%N] ++ zeros) = f_of_Z k (dval ip 0).
Proof. exact float_int_exact. Qed.
Print Assumptions C16_float_value_partial.

Example C16_float_hypotheses_satisfiable :
  all_dec [57; 48; 48; 55; 49; 57; 57; 50; 53; 52; 55; 52; 48; 57; 57; 49]%N
  /\ dval [57; 48; 48; 55; 49; 57; 57; 50; 53; 52; 55; 52; 48; 57; 57; 49]%N 0 = 9007199254740991
  /\ 9007199254740991 < 2 ^ fprec F64.
Proof. split; [repeat constructor; discriminate|split; reflexivity]. Qed.

(* ---------------------------------------------------------------- word literals and reserved words *)
(* over the regenerated guard list and switch labels: an identifier is classified as the word literal K exactly when it
   is spelled K — true now that Id() compares the spelling before switching on the hash *)
Theorem C16_keywords : forall text k, classify kw_tables_gen text = Some k <-> text = kw_spelling k.
Proof. exact keywords_thm. Qed.
Print Assumptions C16_keywords.

Theorem C16_reserved : forall s, is_reserved_word kw_tables_gen s = true <-> In s (rw_spellings kw_tables_gen).
Proof. exact reserved_thm. Qed.
Print Assumptions C16_reserved.
(* ... and both of Name_Validator's lists are the documented reserved words *)
Theorem C16_reserved_list : rw_spellings kw_tables_gen = reserved_words /\ rw_hashed kw_tables_gen = reserved_words.
Proof. exact reserved_list_ok. Qed.

(* a recogniser that looks at the FNV-1a hash alone (the code before fix 70706ab) is wrong: `njMQdv` would be `true`,
   `nKXl50` would be __LINE__, `njdmKm` could not be declared; the current recogniser treats all three as plain names *)
Theorem C16_hash_only_refuted :
  classify_hash_only kw_tables_gen w_njMQdv = Some KW_true /\ w_njMQdv <> kw_spelling KW_true
  /\ classify_hash_only kw_tables_gen w_nKXl50 = Some KW_LINE /\ w_nKXl50 <> kw_spelling KW_LINE
  /\ is_reserved_hash_only kw_tables_gen w_njdmKm = true /\ ~ In w_njdmKm (rw_spellings kw_tables_gen)
  /\ classify kw_tables_gen w_njMQdv = None /\ classify kw_tables_gen w_nKXl50 = None /\ is_reserved_word kw_tables_gen w_njdmKm = false.
Proof. exact hash_only_refuted. Qed.
Print Assumptions C16_hash_only_refuted.

(* the hand-written constants of the model are the ones in the source *)
Theorem C16_static_strings : static_strings_gen = [s_ml_end; s_ml_begin; s_sl_comment; s_annotation; s_cr_lf].
Proof. exact static_strings_ok. Qed.
