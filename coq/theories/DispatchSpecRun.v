(* C06 — executable specification (oracle side). Independent of coq/gen: uses only the specification part of
   DispatchDefs (recv_ok, entry_ok, exact_overload) plus the I/O glue shared with DispatchRun.
   Case lines are sequences of decimal integers (built by tools/p_C06.py from the harness' own catalogue dump
   and from the box descriptions the harness prints):
     D rtl wc nconv {to from kind uid} nfunc {id arity kind throws guard retbare retconst retundef retrank nparams {bare const arith undef fullbare rank form fnar named}}
       nargs {ty const arith undef stor null ret paykind payload..}
     C rtl wc nconv {..} {param} {arg}
     R rtl wc nconv {..} {param} {arg}          (value returned by a script function, handed to C++ as Ret)
     H rtl wc nconv {..} {param} {arg} n {paykind payload..}   (history: the variable [arg] is re-seated n times through a std::shared_ptr<T>&
                                                               parameter, to objects with the given contents; then boxed_cast<param>) *)
From Coq Require Import ZArith List Bool String Ascii Arith.
From ChaiV Require Import StrUtil DispatchDefs.
Import ListNotations.
Local Open Scope string_scope.

(* ---------- catalogue environment (mirrors harness/h_dispatch.cpp) ---------- *)
Definition cat_akind (t : tyid) : akind :=
  match t with
  | 10 => AkInt 32 true | 11 => AkInt 32 false | 12 => AkInt 64 true | 13 => AkDouble | 15 => AkInt 8 true
  | _ => AkNone
  end.
Definition cat_ufun (uid : nat) (p : pay) : option pay :=
  match uid, p with
  | 1, PObj _ tag => Some (PZ (tag + 100))                       (* Other -> std::string *)
  | 2, PVec el => if forallb (fun e => Nat.eqb (fst e) 10) el then Some (PVec el) else None   (* vector_conversion<vector<int>> *)
  | 3, PZ z => Some (PObj 19 (z + 200))                          (* int -> Other *)
  | _, _ => None
  end.
Definition cat_guard (gid : nat) (args : list box) : bool :=
  match gid, args with
  | 0, a :: _ => negb (b_undef a) && Nat.eqb (b_ty a) 10         (* is_type(x, "int") *)
  | _, _ => true
  end.

(* ---------- token parsers ---------- *)
Definition toks (s : string) : option (list Z) :=
  fold_right (fun w acc => match acc, z_of_dec w with
                           | Some l, Some z => Some (z :: l)
                           | _, _ => None end) (Some []) (filter (fun w => negb (String.eqb w "")) (words s)).
Definition zb (z : Z) : bool := negb (Z.eqb z 0).
Definition zn (z : Z) : nat := Z.to_nat z.

Definition all_forms : list form :=
  [FVal; FCVal; FCPtr; FPtr; FPtrCRef; FCPtrCRef; FCRef; FRef; FRRef; FUniqRRef; FUniqRef; FUniqCRef; FSh; FShC; FCSh; FShCRef; FShRef; FCShC; FShCCRef;
   FBV; FBVRef; FCBV; FBVCRef; FRw; FCRw; FRwCRef; FRwC; FCRwC; FRwCCRef; FBN; FFn].
Definition form_of_nat (n : nat) : form := nth n all_forms FVal.

Fixpoint take_n {A} (n : nat) (one : list Z -> option (A * list Z)) (l : list Z) : option (list A * list Z) :=
  match n with
  | O => Some ([], l)
  | S k => match one l with
           | None => None
           | Some (x, r) => match take_n k one r with Some (xs, r') => Some (x :: xs, r') | None => None end
           end
  end.

Definition p_conv (l : list Z) : option (conv * list Z) :=
  match l with
  | to :: from :: k :: uid :: r =>
      Some (mkconv (zn to) (zn from) (match k with 0%Z => CDyn | 1%Z => CStatic | _ => CUser (zn uid) end), r)
  | _ => None
  end.
(* parameter + whether it was declared with a type name (script functions) *)
Definition p_param (l : list Z) : option ((param * bool) * list Z) :=
  match l with
  | bare :: c :: ar :: un :: fb :: rk :: fm :: fnar :: named :: r =>
      Some ((mkparam (mkti (zn bare) (zb c) (zb ar) (zb un) (zb fb) (zn rk)) (form_of_nat (zn fm)) fnar, zb named), r)
  | _ => None
  end.
Record cfunc := mkcfunc { cf_f : func; cf_throws : bool }.
Definition p_func (l : list Z) : option (cfunc * list Z) :=
  match l with
  | id :: arity :: kind :: throws :: guard :: rbare :: rconst :: rundef :: rrank :: np :: r =>
      match take_n (zn np) p_param r with
      | None => None
      | Some (ps, r') =>
          let k := match kind with 0%Z => KNative | 2%Z => KAttr | _ => KDyn (map snd ps) end in
          Some (mkcfunc (mkfunc (zn id) arity (map fst ps) k (if (guard <? 0)%Z then None else Some (zn guard))
                                (mkti (zn rbare) (zb rconst) false (zb rundef) true (zn rrank))) (zb throws), r')
      end
  | _ => None
  end.
Definition p_elem (l : list Z) : option ((tyid * Z) * list Z) :=
  match l with t :: z :: r => Some ((zn t, z), r) | _ => None end.
Definition p_pay (l : list Z) : option (pay * list Z) :=
  match l with
  | 0%Z :: z :: r => Some (PZ z, r)
  | 1%Z :: d :: t :: r => Some (PObj (zn d) t, r)
  | 2%Z :: n :: r => match take_n (zn n) p_elem r with Some (es, r') => Some (PVec es, r') | None => None end
  | 3%Z :: a :: k :: r => Some (PFn a (zn k), r)
  | 4%Z :: r => Some (PNone, r)
  | _ => None
  end.
Definition stor_of (z : Z) : stor := match z with 0%Z => SShared | 1%Z => SRef | 2%Z => SUnique | _ => SEmpty end.
(* arguments are numbered: argument j is object IdObj j *)
Definition p_arg (j : nat) (l : list Z) : option (box * list Z) :=
  match l with
  | ty :: c :: ar :: un :: st :: nl :: rt :: r =>
      match p_pay r with
      | Some (p, r') => Some (mkbox (zn ty) (zb c) (zb ar) (zb un) (stor_of st) (zb nl) (IdObj j) p (zb rt), r')
      | None => None
      end
  | _ => None
  end.
Fixpoint p_args (n j : nat) (l : list Z) : option (list box * list Z) :=
  match n with
  | O => Some ([], l)
  | S k => match p_arg j l with
           | None => None
           | Some (a, r) => match p_args k (S j) r with Some (xs, r') => Some (a :: xs, r') | None => None end
           end
  end.

Record dcase := mkdcase { dc_rtl : bool; dc_wc : bool; dc_convs : list conv; dc_funcs : list cfunc; dc_args : list box }.
Definition p_head (l : list Z) : option ((bool * bool * list conv) * list Z) :=
  match l with
  | rtl :: wc :: nc :: r =>
      match take_n (zn nc) p_conv r with
      | Some (cs, r') => Some ((zb rtl, zb wc, cs), r')
      | None => None
      end
  | _ => None
  end.
Definition p_dcase (l : list Z) : option dcase :=
  match p_head l with
  | Some ((rtl, wc, cs), nf :: r) =>
      match take_n (zn nf) p_func r with
      | Some (fs, na :: r') =>
          match p_args (zn na) 0 r' with
          | Some (args, []) => Some (mkdcase rtl wc cs fs args)
          | _ => None
          end
      | _ => None
      end
  | _ => None
  end.
Definition p_ccase (l : list Z) : option (bool * bool * list conv * param * box) :=
  match p_head l with
  | Some ((rtl, wc, cs), r) =>
      match p_param r with
      | Some ((p, _), r') => match p_arg 0 r' with Some (a, []) => Some (rtl, wc, cs, p, a) | _ => None end
      | None => None
      end
  | None => None
  end.

(* history case: the k-th re-seat installs object IdObj (100 + k) *)
Fixpoint p_pays (n k : nat) (l : list Z) : option (list (ident * pay) * list Z) :=
  match n with
  | O => Some ([], l)
  | S n' => match p_pay l with
            | Some (p, r) => match p_pays n' (S k) r with Some (xs, r') => Some ((IdObj (100 + k), p) :: xs, r') | None => None end
            | None => None
            end
  end.
Definition p_hcase (l : list Z) : option (bool * bool * list conv * param * box * list (ident * pay)) :=
  match p_head l with
  | Some ((rtl, wc, cs), r) =>
      match p_param r with
      | Some ((p, _), r') =>
          match p_arg 0 r' with
          | Some (a, n :: r'') => match p_pays (zn n) 0 r'' with Some (h, []) => Some (rtl, wc, cs, p, a, h) | _ => None end
          | _ => None
          end
      | None => None
      end
  | None => None
  end.
(* specification of a history: the variable holds the object of the last re-seat, with its type and flags unchanged *)
Definition spec_after (a : box) (h : list (ident * pay)) : box :=
  match rev h with
  | [] => a
  | (i, py) :: _ => mkbox (b_ty a) (b_const a) (b_arith a) (b_undef a) (b_stor a) false i py (b_ret a)
  end.

Definition mk_env (cs : list conv) (fs : list cfunc) (rtl : bool) : env :=
  mkenv cs cat_akind cat_ufun cat_guard
        (fun id => if existsb (fun c => Nat.eqb (f_id (cf_f c)) id && cf_throws c) fs then Some EBody else None) rtl.

(* ---------- rendering ---------- *)
Definition show_nat (n : nat) : string := dec_of_nat n.
Fixpoint show_elems (l : list (tyid * Z)) : string :=
  match l with
  | [] => ""
  | [(t, z)] => show_nat t ++ ":" ++ dec_of_z z
  | (t, z) :: r => show_nat t ++ ":" ++ dec_of_z z ++ "," ++ show_elems r
  end.
Definition show_pay (p : pay) : string :=
  match p with
  | PZ z => dec_of_z z
  | PObj d t => show_nat d ++ "." ++ dec_of_z t
  | PVec el => "[" ++ show_elems el ++ "]"
  | PFn _ _ => "fn"
  | PNone => "none"
  end.
(* [a] is the script value in the position of the parameter that received [r] *)
Definition show_recv (fm : form) (a : box) (r : recv) : string :=
  let same := if ident_eqb (r_id r) (b_id a) then "S" else "D" in
  match r_acc r with
  | AcHandle =>
      match fm with
      | FFn => "2:fn@-:h?"
      | _ => if r_isnull r then show_nat (r_ty r) ++ ":null@N:h" ++ (if r_hconst r then "1" else "0")
             else match r_pay r with
                  | PNone => show_nat (r_ty r) ++ ":none@U:h" ++ (if r_hconst r then "1" else "0")
                  | _ => show_nat (r_ty r) ++ ":" ++ show_pay (r_pay r) ++ "@" ++ same ++ ":h" ++ (if r_hconst r then "1" else "0")
                  end
      end
  | AcCopy => show_nat (r_ty r) ++ ":" ++ show_pay (r_pay r) ++ "@-"
  | _ => if r_isnull r then show_nat (r_ty r) ++ ":null@N" else show_nat (r_ty r) ++ ":" ++ show_pay (r_pay r) ++ "@" ++ same
  end.
Definition show_eclass (e : eclass) : string :=
  match e with
  | EBadCast => "bad_boxed_cast" | EArity => "arity_error" | EGuard => "guard_error" | EDispatch => "dispatch_error"
  | ENull => "std:runtime_error" | EBody => "std:runtime_error" | EBadAny => "bad_any_cast" | ECrash => "UB" | EStuck => "STUCK"
  end.
Fixpoint show_recvs (fms : list form) (args : list box) (rs : list recv) : string :=
  match rs with
  | [] => ""
  | r :: rs' =>
      let fm := hd FBV fms in
      let a := hd (mkbox 99 false false true SEmpty false (IdObj 99) PNone false) args in
      show_recv fm a r ++ (match rs' with [] => "" | _ => ";" end) ++ show_recvs (tl fms) (tl args) rs'
  end.

(* ---------- the specification as an oracle ---------- *)
Definition dedup (l : list string) : list string :=
  fold_right (fun s acc => if existsb (String.eqb s) acc then acc else s :: acc) [] l.

(* every value a parameter may legitimately receive for the argument, rendered; candidates are generated
   liberally and filtered by the specification predicate recv_ok *)
Definition candidates (E : env) (p : param) (a : box) : list recv :=
  let t := p_bare p in
  let acc := form_access (p_form p) in
  let self := mkrecv t (b_id a) (copy_pay acc t (b_pay a)) acc (b_null a) false in
  let ar := mkrecv t (IdArith (b_id a)) (PZ (arith_convert (e_akind E t) (e_akind E (b_ty a)) (pay_z (b_pay a)))) acc false false in
  let cv := flat_map (fun c => match cv_kind c with
                               | CUser uid => match e_ufun E uid (b_pay a) with
                                              | Some p' => [mkrecv t (IdConv uid (b_id a)) p' acc false false]
                                              | None => [] end
                               | _ => [mkrecv t (b_id a) (copy_pay acc t (b_pay a)) acc false false]
                               end) (e_convs E) in
  handle_of a :: self :: ar :: cv.
Definition allowed (E : env) (p : param) (a : box) : list string :=
  dedup (List.map (show_recv (p_form p) a) (List.filter (recv_ok E p a) (candidates E p a))).

Definition cand_dyn (E : env) (p : param) (a : box) : list recv :=
  let t := p_bare p in
  handle_of a
  :: mkrecv t (IdArith (b_id a)) (PZ (arith_convert (e_akind E t) (e_akind E (b_ty a)) (pay_z (b_pay a)))) AcHandle false false
  :: flat_map (fun c => match cv_kind c with
                        | CUser uid => match e_ufun E uid (b_pay a) with
                                       | Some p' => [mkrecv t (IdConv uid (b_id a)) p' AcHandle false false]
                                       | None => [] end
                        | _ => [mkrecv t (b_id a) (b_pay a) AcHandle false (b_const a)]
                        end) (e_convs E).
Definition allowed_dyn (E : env) (named : bool) (p : param) (a : box) : list string :=
  dedup (List.map (show_recv FBV a) (List.filter (recv_ok_dyn E named p a) (cand_dyn E p a))).

Fixpoint alts3 {A B} (f : A -> B -> list string) (ps : list A) (args : list B) : option (list (list string)) :=
  match ps, args with
  | [], [] => Some []
  | p :: ps', a :: args' =>
      match f p a, alts3 f ps' args' with
      | [], _ => None
      | x, Some r => Some (x :: r)
      | _, None => None
      end
  | _, _ => None
  end.
(* what each parameter of [f] may receive for [args] (None: f must not be entered with these arguments) *)
Definition allow_direct (E : env) (f : func) (args : list box) : option (list (list string)) :=
  match f_kind f with
  | KNative => alts3 (allowed E) (f_params f) args
  | KDyn named =>
      if (f_arity f <? 0)%Z then Some (List.map (fun a => [show_recv FBV a (handle_of a)]) args)
      else alts3 (fun np a => allowed_dyn E (fst np) (snd np) a) (combine (pad_named named (List.length args)) (f_params f)) args
  | KAttr =>
      match f_params f, args with
      | [p], [a] => match List.filter (fun s => negb (String.eqb s (show_nat (p_bare p) ++ ":null@N")))
                                      (allowed E (mkparam (p_ti p) (if b_const a then FCPtr else FPtr) 0) a) with
                    | [] => None | x => Some [x] end
      | _, _ => None
      end
  end.
Definition allow_f := allow_direct.

Definition join_alts (l : list (list string)) : string := join ";" (List.map (join "/") l).
Definition show_ids (l : list nat) : string := join "," (List.map show_nat l).

(* the only ways a call may fail: no compatible overload or a wrong number of arguments (dispatch_error, bad_boxed_cast, arity_error,
   guard_error; eval_error when a script makes the call), a null object where an object is required (std::runtime_error), or the
   entered body's own exception (the catalogue's throwing body throws std::runtime_error); boxed_cast fails with bad_boxed_cast
   (or the null-object error). Internal exceptions such as detail::exception::bad_any_cast must not escape. *)
Definition call_errors : list string := ["dispatch_error"; "bad_boxed_cast"; "arity_error"; "guard_error"; "eval_error"; "std:runtime_error"].
Definition cast_errors : list string := ["bad_boxed_cast"; "std:runtime_error"].

(* among the C++ overloads that match the arguments exactly, the one whose parameters are "less const" goes first
   (function_less_than: for the same type the non-const parameter sorts before the const one) *)
Fixpoint vec_ltb (a b : list bool) : bool :=
  match a, b with
  | x :: a', y :: b' => if Bool.eqb x y then vec_ltb a' b' else negb x
  | _, _ => false
  end.
Definition const_vec (f : func) : list bool := List.map (fun p => ti_const (p_ti p)) (f_params f).
Definition bare_vec (f : func) : list tyid := List.map p_bare (f_params f).
Fixpoint tys_eqb (a b : list tyid) : bool :=
  match a, b with
  | [], [] => true
  | x :: a', y :: b' => Nat.eqb x y && tys_eqb a' b'
  | _, _ => false
  end.
(* the rule is only claimed for overload sets whose members all have the same parameter types up to const and form:
   across different types function_less_than orders by std::type_info::before of the full types, which is not a
   strict weak order together with the const rule (e.g. pointer-to-const-int < std::function < int < pointer-to-const-int) *)
Definition preferred (E : env) (fs : list func) (args : list box) : list func :=
  let ex := List.filter (fun f => match f_kind f with KNative => exact_overload E f args | _ => false end) fs in
  let uniform := match fs with
                 | [] => true
                 | f0 :: _ => forallb (fun f => match f_kind f with KNative => tys_eqb (bare_vec f) (bare_vec f0) | _ => false end) fs
                 end in
  if uniform then List.filter (fun f => negb (existsb (fun g => vec_ltb (const_vec g) (const_vec f)) ex)) ex else ex.

Definition spec_d (c : dcase) : string :=
  let E := mk_env (dc_convs c) (dc_funcs c) (dc_rtl c) in
  let fs := List.map cf_f (dc_funcs c) in
  let args := dc_args c in
  let n := Z.of_nat (List.length args) in
  let arity_ok := existsb (fun f => (f_arity f <? 0)%Z || (f_arity f =? n)%Z) fs in
  let exact := List.map f_id (List.filter (fun f => exact_overload E f args) fs) in
  "ARITY " ++ (if arity_ok then "1" else "0") ++ " | EXACT " ++ show_ids exact
  ++ " | PREF " ++ show_ids (List.map f_id (preferred E fs args)) ++ " | ERRS " ++ join "," call_errors
  ++ fold_right (fun f acc =>
       if (f_arity f <? 0)%Z || (f_arity f =? n)%Z then
         match allow_f E f args with
         | Some alts => " | ALLOW " ++ show_nat (f_id f) ++ " [" ++ join_alts alts ++ "]" ++ acc
         | None => acc
         end
       else acc) "" fs.

Definition spec_line (line : string) : string :=
  match words line with
  | kind :: _ =>
      match toks (join " " (tl (words line))) with
      | None => "BADCASE"
      | Some l =>
          if String.eqb kind "D" then match p_dcase l with Some c => spec_d c | None => "BADCASE" end
          else if String.eqb kind "H" then
            match p_hcase l with
            | Some (rtl, wc, cs, p, a, h) =>
                let E := mk_env cs [] rtl in
                "ALLOW " ++ join "/" (allowed E p (spec_after a h)) ++ " | ERRS " ++ join "," cast_errors
            | None => "BADCASE"
            end
          else match p_ccase l with
               | None => "BADCASE"
               | Some (rtl, wc, cs, p, a) =>
                   let E := mk_env cs [] rtl in
                   if String.eqb kind "C" then "ALLOW " ++ join "/" (allowed E p a) ++ " | ERRS " ++ join "," cast_errors
                   else (* R: the value a script function returned, handed to C++ as Ret *)
                     if ti_arith (p_ti p) then
                       (if b_arith a && negb (b_undef a) && negb (b_null a)
                        then "ALLOW " ++ show_nat (p_bare p) ++ ":" ++ dec_of_z (arith_convert (cat_akind (p_bare p)) (cat_akind (b_ty a)) (pay_z (b_pay a))) ++ "@-"
                        else "ALLOW ")
                     else "ALLOW " ++ join "/" (allowed E p a)
               end
      end
  | [] => "BADCASE"
  end.
