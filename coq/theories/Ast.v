(* The ChaiScript syntax tree as dumped by harness/astdump.hpp, and a reader for that dump.
   A node is (kind, class, text, location, constant payload, children); the bodies that
   Def/Method/Lambda nodes detach are re-attached as trailing children (…, guard?, body). *)
From Coq Require Import ZArith NArith List Bool String Ascii Floats.SpecFloat.
From ChaiV Require Import StrUtil NumDefs NumSpecRun.
Import ListNotations.
Local Open Scope string_scope.

Inductive kind :=
| KId | KFun_Call | KUnused_Return_Fun_Call | KArg_List | KEquation | KVar_Decl | KAssign_Decl | KArray_Call | KDot_Access
| KLambda | KBlock | KScopeless_Block | KDef | KWhile | KIf | KFor | KRanged_For | KInline_Array | KInline_Map | KReturn | KFile
| KPrefix | KBreak | KContinue | KMap_Pair | KValue_Range | KInline_Range | KTry | KCatch | KFinally | KMethod | KAttr_Decl
| KLogical_And | KLogical_Or | KReference | KSwitch | KCase | KDefault | KNoop | KClass | KBinary | KArg | KGlobal_Decl
| KConstant | KCompiled | KNull.

Definition kind_eq_dec (a b : kind) : {a = b} + {a <> b}.
Proof. decide equality. Defined.
Definition kind_eqb a b := if kind_eq_dec a b then true else false.

Definition kind_names : list (string * kind) :=
  [("Id", KId); ("Fun_Call", KFun_Call); ("Unused_Return_Fun_Call", KUnused_Return_Fun_Call); ("Arg_List", KArg_List);
   ("Equation", KEquation); ("Var_Decl", KVar_Decl); ("Assign_Decl", KAssign_Decl); ("Array_Call", KArray_Call);
   ("Dot_Access", KDot_Access); ("Lambda", KLambda); ("Block", KBlock); ("Scopeless_Block", KScopeless_Block); ("Def", KDef);
   ("While", KWhile); ("If", KIf); ("For", KFor); ("Ranged_For", KRanged_For); ("Inline_Array", KInline_Array);
   ("Inline_Map", KInline_Map); ("Return", KReturn); ("File", KFile); ("Prefix", KPrefix); ("Break", KBreak);
   ("Continue", KContinue); ("Map_Pair", KMap_Pair); ("Value_Range", KValue_Range); ("Inline_Range", KInline_Range);
   ("Try", KTry); ("Catch", KCatch); ("Finally", KFinally); ("Method", KMethod); ("Attr_Decl", KAttr_Decl);
   ("Logical_And", KLogical_And); ("Logical_Or", KLogical_Or); ("Reference", KReference); ("Switch", KSwitch); ("Case", KCase);
   ("Default", KDefault); ("Noop", KNoop); ("Class", KClass); ("Binary", KBinary); ("Arg", KArg); ("Global_Decl", KGlobal_Decl);
   ("Constant", KConstant); ("Compiled", KCompiled); ("Null", KNull)].

Definition kind_of_name (s : string) : option kind :=
  match find (fun e => String.eqb (fst e) s) kind_names with Some (_, k) => Some k | None => None end.
Definition name_of_kind (k : kind) : string :=
  match find (fun e => kind_eqb (snd e) k) kind_names with Some (n, _) => n | None => "?" end.

Record srcloc := mkloc { l_line : Z; l_col : Z; l_eline : Z; l_ecol : Z }.

(* constant payloads of Constant nodes *)
Inductive cval :=
| CNum (tyname : string) (t : nty) (v : nval)    (* tyname: the C++ type (int, uint, long, …, char); t its width/sign/float class *)
| CBool (b : bool)
| CStr (s : string)
| CPlaceholder
| COther (s : string).

Inductive ast := Node (k : kind) (cls : string) (text : string) (l : srcloc) (c : option (bool * cval)) (children : list ast).

Definition a_kind (a : ast) := let 'Node k _ _ _ _ _ := a in k.
Definition a_cls (a : ast) := let 'Node _ c _ _ _ _ := a in c.
Definition a_text (a : ast) := let 'Node _ _ t _ _ _ := a in t.
Definition a_loc (a : ast) := let 'Node _ _ _ l _ _ := a in l.
Definition a_const (a : ast) := let 'Node _ _ _ _ c _ := a in c.
Definition a_children (a : ast) := let 'Node _ _ _ _ _ ch := a in ch.
Definition child (n : nat) (a : ast) : ast := nth n (a_children a) (Node KNull "" "" (mkloc 0 0 0 0) None []).
Definition null_ast := Node KNull "" "" (mkloc 0 0 0 0) None [].

(* ---------------------------------------------------------------- reader *)
Definition string_of_hex (h : string) : option string :=
  option_map string_of_bytes (bytes_of_hex h).

Definition split2 (sep : ascii) (s : string) : string * string :=
  match split_on sep s "" with
  | a :: rest => (a, join (String sep "") rest)
  | [] => ("", "")
  end.

Definition parse_loc (s : string) : option srcloc :=
  let '(a, b) := split2 "-"%char s in
  let '(l1, c1) := split2 ":"%char a in
  let '(l2, c2) := split2 ":"%char b in
  match z_of_dec l1, z_of_dec c1, z_of_dec l2, z_of_dec c2 with
  | Some x1, Some y1, Some x2, Some y2 => Some (mkloc x1 y1 x2 y2)
  | _, _, _, _ => None
  end.

(* k=c,int:i32:5 | k=c,string:<hex> | k=m,bool:bool:1 | k=c,placeholder *)
Definition parse_const (s : string) : option (bool * cval) :=
  let '(cm, rest) := split2 ","%char s in
  let isc := String.eqb cm "c" in
  let parts := split_on ":"%char rest "" in
  match parts with
  | ["placeholder"] => Some (isc, CPlaceholder)
  | ["string"; h] => option_map (fun x => (isc, CStr x)) (string_of_hex h)
  | ["bool"; _; v] => Some (isc, CBool (String.eqb v "1"))
  | [tyname; _; v] =>
      match cxx_type_info tyname with
      | Some t => match parse_val t v with Some x => Some (isc, CNum tyname t x) | None => None end
      | None => Some (isc, COther rest)
      end
  | _ => Some (isc, COther rest)
  end.

Definition has_prefix (p s : string) : bool := String.eqb (substring 0 (String.length p) s) p.
Definition drop_prefix (p s : string) : string := substring (String.length p) (String.length s - String.length p) s.

(* tokens: "(" Kind[:Class] attr* child* ")" *)
Fixpoint read_node (fuel : nat) (toks : list string) : option (ast * list string) :=
  match fuel with
  | O => None
  | S f =>
      match toks with
      | "(" :: head :: rest =>
          let '(kn, cls) := split2 ":"%char head in
          match kind_of_name kn with
          | None => None
          | Some k =>
              (* attributes *)
              let fix attrs (fa : nat) (ts : list string) (text : string) (l : srcloc) (c : option (bool * cval))
                  : option (string * srcloc * option (bool * cval) * list string) :=
                  match fa with
                  | O => None
                  | S fa' =>
                      match ts with
                      | t :: ts' =>
                          if has_prefix "t=" t then
                            match string_of_hex (drop_prefix "t=" t) with Some x => attrs fa' ts' x l c | None => None end
                          else if has_prefix "l=" t then
                            match parse_loc (drop_prefix "l=" t) with Some x => attrs fa' ts' text x c | None => None end
                          else if has_prefix "k=" t then
                            match parse_const (drop_prefix "k=" t) with Some x => attrs fa' ts' text l (Some x) | None => None end
                          else Some (text, l, c, ts)
                      | [] => None
                      end
                  end in
              match attrs 8%nat rest "" (mkloc 0 0 0 0) None with
              | None => None
              | Some (text, l, c, ts) =>
                  let fix kids (fk : nat) (ts : list string) (acc : list ast) : option (list ast * list string) :=
                      match fk with
                      | O => None
                      | S fk' =>
                          match ts with
                          | ")" :: ts' => Some (rev acc, ts')
                          | _ => match read_node f ts with
                                 | Some (a, ts') => kids fk' ts' (a :: acc)
                                 | None => None
                                 end
                          end
                      end in
                  match kids (S (List.length ts)) ts [] with
                  | Some (ch, ts') => Some (Node k cls text l c ch, ts')
                  | None => None
                  end
              end
          end
      | _ => None
      end
  end.

Definition read_ast (dump : string) : option ast :=
  let toks := filter (fun s => negb (String.eqb s "")) (words dump) in
  match read_node (S (List.length toks)) toks with
  | Some (a, []) => Some a
  | _ => None
  end.

(* ---------------------------------------------------------------- printer (same format) *)
Definition show_loc (l : srcloc) : string :=
  dec_of_z (l_line l) ++ ":" ++ dec_of_z (l_col l) ++ "-" ++ dec_of_z (l_eline l) ++ ":" ++ dec_of_z (l_ecol l).
Definition hex_of_string (s : string) : string := hex_of_bytes (bytes_of_string s).
Definition show_const (c : bool * cval) : string :=
  (if fst c then "c," else "m,") ++
  match snd c with
  | CNum tn t v => tn ++ ":" ++ show_val t v
  | CBool b => "bool:bool:" ++ (if b then "1" else "0")
  | CStr s => "string:" ++ hex_of_string s
  | CPlaceholder => "placeholder"
  | COther s => s
  end.
Fixpoint show_ast (a : ast) : string :=
  let 'Node k cls text l c ch := a in
  "( " ++ name_of_kind k ++ (if String.eqb cls "" then "" else ":" ++ cls) ++
  (match k with KNull => "" | _ => " t=" ++ hex_of_string text ++ " l=" ++ show_loc l end) ++
  (match c with Some x => " k=" ++ show_const x | None => "" end) ++
  fold_right (fun x acc => " " ++ show_ast x ++ acc) "" ch ++ " )".
