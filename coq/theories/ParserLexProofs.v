(* Lexer-level lemmas the grammar-layer proofs need in addition to LexProofs / LexLitProofs (which prove safety of every scanner
   but state progress only for Char / Eol / Eos): a scanner that reports a match has moved the cursor forward.  Stated with the
   rules of LexProofs (`fine`, `ext`, `post`), for an arbitrary grammar-layer state type U.  LexDefs.v is not modified. *)
From Coq Require Import ZArith NArith List Bool String Lia Arith.
From ChaiV Require Import NumDefs LexDefs LexProofs LexLitProofs.
Import ListNotations.
Local Open Scope nat_scope.

Ltac step_at F := step F; match goal with R : _ = _ /\ _ = _ |- _ => destruct R as [? ?]; subst end.
Ltac ifd := match goal with |- context [if ?c then _ else _] => destruct c eqn:? end.
(* arithmetic over cursor indices: every `ext a b` gives idx a <= idx b *)
Ltac ext_lia :=
  repeat match goal with H : ext ?a ?b |- _ => let H' := fresh "Hi" in pose proof (ext_idx _ _ H) as H'; clear H end; lia.

Section More.
  Context {U : Type}.
  Variable A : alphabets.
  Variable T : int_tables.
  Variable K : kw_tables.
  Local Notation ST := (state U).

  Lemma ext_user (s s' : ST) : ext s s' -> user s' = user s.
  Proof. intros (_ & _ & _ & _ & H). exact H. Qed.
  Lemma ext_depth (s s' : ST) : ext s s' -> depth s' = depth s.
  Proof. intros (_ & _ & _ & H & _). exact H. Qed.

  (* ---------------------------------------------------------------- Keyword_ / Keyword: a match consumes the keyword *)
  Lemma kw_match_len t : forall p q, kw_match t p = Some q -> List.length t <= remaining p -> idx q = idx p + List.length t.
  Proof.
    induction t as [|c r IH]; intros p q H L; simpl in *.
    - inversion H; subst. lia.
    - assert (Hm : has_more p = true) by (apply has_more_lt; unfold remaining in L; lia).
      rewrite Hm in H. destruct (N.eqb (deref p) c); [|discriminate].
      apply IH in H.
      + rewrite H, pos_inc_idx, Hm. lia.
      + unfold remaining in *. rewrite pos_inc_buf, pos_inc_idx, Hm. lia.
  Qed.

  Lemma fine_Keyword_strong t :
    fine (@Keyword_ U t) (fun b s s' => (b = false -> s' = s) /\ (b = true -> idx (pos s') = idx (pos s) + List.length t)).
  Proof.
    intros s W. pose proof (ext_refl s W) as E. unfold Keyword_. step_pos.
    destruct (Nat.leb (List.length t) (remaining (pos s))) eqn:L; [|done_ret; split; [auto|discriminate]].
    apply Nat.leb_le in L.
    destruct (kw_match t (pos s)) as [q|] eqn:M; [|done_ret; split; [auto|discriminate]].
    destruct (kw_match_ok _ _ _ M W) as (Wq & Bq & Iq).
    apply post_bind. simpl. split; [apply ext_intro; simpl; auto|]. split; [discriminate|]. intros _.
    apply (kw_match_len _ _ _ M L).
  Qed.

  Lemma fine_Keyword_progress t :
    t <> [] -> fine (@Keyword U A t) (fun b s s' => progress_if b (pos s) (pos s')).
  Proof.
    intros Hne. unfold Keyword. apply (fine_with_depth _ progress_if). apply (fine_ws_then A _ progress_if); [|apply progress_mono].
    intros s W. pose proof (ext_refl s W) as E. step_pos. step (fine_Keyword_strong t).
    step_at (fine_at_alpha (U:=U) (a_keyword A)).
    ifd.
    - apply post_bind. simpl. split; [apply ext_intro; simpl; auto; exts|]. unfold progress_if. discriminate.
    - done_ret. unfold progress_if. intros ->. destruct R as [_ R]. specialize (R eq_refl).
      destruct t; [contradiction|]. simpl in R. lia.
  Qed.

  (* ---------------------------------------------------------------- skip_while consumes the byte it starts on *)
  Lemma skip_while_progress a :
    fine (@skip_while U a) (fun _ s s' => has_more (pos s) = true -> in_alpha a (deref (pos s)) = true -> idx (pos s) < idx (pos s')).
  Proof.
    intros s W. unfold skip_while, loop.
    destruct (has_more (pos s)) eqn:Hm.
    2:{ eapply post_mono; [apply (fine_skip_while a s W)|]. intros ? s' [E' _]. split; [exact E'|discriminate]. }
    destruct (in_alpha a (deref (pos s))) eqn:Ia.
    2:{ eapply post_mono; [apply (fine_skip_while a s W)|]. intros ? s' [E' _]. split; [exact E'|discriminate]. }
    cbn [while_]. apply post_bind. unfold skip_while_body at 1. apply post_bind. simpl. rewrite Hm, Ia. cbn [andb].
    apply post_bind. simpl.
    set (s1 := mkState (pos_inc (pos s)) (depth s) (user s)).
    assert (E1 : ext s s1).
    { apply ext_intro; simpl; auto using pos_inc_buf, wf_pos_inc. rewrite pos_inc_idx, Hm. lia. }
    eapply post_mono.
    - apply (while_ok (skip_while_body a) (fun _ s' => ext s1 s')).
      + intros [] sx Ex. pose proof (ext_wf _ _ Ex) as Wx. pose proof (ext_refl sx Wx) as Exx.
        unfold skip_while_body. step_pos.
        destruct (has_more (pos sx)) eqn:Hx; cbn [andb]; [destruct (in_alpha a (deref (pos sx)))|].
        * apply (inc_go (X:=unit)); auto.
        * apply (iter_stop (X:=unit)); auto.
        * apply (iter_stop (X:=unit)); auto.
      + apply ext_refl. apply (ext_wf _ _ E1).
      + unfold remaining, s1. simpl. rewrite pos_inc_buf, pos_inc_idx, Hm. apply has_more_lt in Hm. lia.
    - intros ? s' E'. split; [eapply ext_trans; eauto|]. intros _ _.
      pose proof (ext_idx _ _ E') as H1. unfold s1 in H1. simpl in H1. rewrite pos_inc_idx, Hm in H1. lia.
  Qed.

  (* ---------------------------------------------------------------- Id_ / Id *)
  Hypothesis id_sub_keyword : forall c, in_alpha (a_id A) c = true -> in_alpha (a_keyword A) c = true.

  Lemma fine_Id_progress : fine (@Id_ U A) (fun b s s' => b = true -> idx (pos s) < idx (pos s')).
  Proof.
    intros s W. pose proof (ext_refl s W) as E. unfold Id_.
    step_at (fine_at_alpha (U:=U) (a_id A)).
    destruct (has_more (pos s)) eqn:Hm; cbn [andb].
    2:{ step_at (fine_at_char (U:=U) (fun c => (c =? 96)%N)). rewrite Hm. cbn [andb]. done_ret. discriminate. }
    destruct (in_alpha (a_id A) (deref (pos s))) eqn:Ia.
    { step (skip_while_progress (a_keyword A)). done_ret. intros _. apply R; auto. }
    step_at (fine_at_char (U:=U) (fun c => (c =? 96)%N)). rewrite Hm. cbn [andb].
    destruct (deref (pos s) =? 96)%N; [|done_ret; discriminate].
    step (fine_inc (U:=U)). step_pos.
    apply post_bind. eapply post_mono.
    { apply (loop_ok (backtick_body A) (fun _ s' => ext s0 s')); [|apply ext_refl; eapply ext_wf; eassumption].
      intros [] sx Ex. apply (backtick_iter A), Ex. }
    intros ? s1 E1'. cbv beta in E1' |- *. assert (Es : ext s s1) by (eapply ext_trans; [|exact E1']; assumption).
    step_pos.
    destruct (pos_eqb (pos s0) (pos s1)); [exact I|].
    destruct (negb (has_more (pos s1))); [exact I|].
    step (fine_inc (U:=U)). done_ret. intros _.
    match goal with H : ext s1 s2 |- _ => pose proof (ext_idx _ _ H) as H12 end.
    pose proof (ext_idx _ _ E1') as H01. rewrite R, pos_inc_idx, Hm in H01. lia.
  Qed.

  Lemma fine_Id_strong validate :
    fine (@Id U A K validate) (fun o s s' => o <> None -> idx (pos s) < idx (pos s')).
  Proof.
    intros s W. pose proof (ext_refl s W) as E. unfold Id.
    step (fine_SkipWS (U:=U) A false). step_pos. step fine_Id_progress. destruct a0; [|done_ret; congruence].
    specialize (R0 eq_refl).
    assert (Hlt : idx (pos s) < idx (pos s1)).
    { match goal with H : ext s s0 |- _ => pose proof (ext_idx _ _ H) end. lia. }
    step_pos. apply post_bind.
    match goal with |- context [if ?c then throw_at _ else ret tt] => destruct c end; [exact I|].
    apply post_ret.
    destruct (classify K _); [done_ret; auto|].
    destruct (deref (pos s0) =? 96)%N eqn:Eq; [|done_ret; auto].
    cbn [pos_sub]. destruct (pos_dec (pos s1)) eqn:Ed.
    - done_ret. auto.
    - apply pos_dec_none in Ed. lia.
  Qed.

  (* ---------------------------------------------------------------- Float_ / Num: a token has at least one byte *)
  Lemma fine_res_progress :
    fine (@read_exponent_and_suffix U A)
         (fun b s s' => b = true -> (has_more (pos s) && (tolower (deref (pos s)) =? 101)%N)%bool = true -> idx (pos s) < idx (pos s')).
  Proof.
    intros s W. pose proof (ext_refl s W) as E. unfold read_exponent_and_suffix.
    step_at (fine_at_char (U:=U) (fun c => (tolower c =? 101)%N)).
    destruct (has_more (pos s) && (tolower (deref (pos s)) =? 101)%N)%bool eqn:C.
    - assert (Hm : has_more (pos s) = true) by (apply andb_prop in C; tauto).
      apply post_bind. step (fine_inc (U:=U)).
      assert (L0 : idx (pos s) < idx (pos s0)) by (rewrite R, pos_inc_idx, Hm; lia).
      step_at (fine_at_char (U:=U) (fun c => (c =? 45)%N || (c =? 43)%N)).
      assert (Rest : forall sx : ST, ext s sx -> idx (pos s) < idx (pos sx) ->
                post ((exponent_pos <- get_pos ;; skip_while (a_int A) ;;; p <- get_pos ;; ret (negb (pos_eqb p exponent_pos))) sx)
                     (fun ok s3 => post ((if ok then skip_while (a_float_suffix A) ;;; ret true else ret false) s3)
                                        (fun a s' => ext s s' /\ (a = true -> true = true -> idx (pos s) < idx (pos s'))))).
      { intros sx Ex Lx. clear E0 E1. step_pos. step (fine_skip_while (U:=U) (a_int A)). step_pos. apply post_ret.
        destruct (negb _).
        - step (fine_skip_while (U:=U) (a_float_suffix A)). done_ret. intros _ _. clear Ex E0 E2. ext_lia.
        - done_ret. discriminate. }
      match goal with |- context [if ?c then inc else ret tt] => destruct c end.
      + step (fine_inc (U:=U)). apply Rest; [assumption|]. clear E0 E2. ext_lia.
      + apply post_bind. apply post_ret. apply Rest; assumption.
    - apply post_bind. apply post_ret. step (fine_skip_while (U:=U) (a_float_suffix A)). done_ret. intros _. discriminate.
  Qed.

  Lemma fine_Float_progress : fine (@Float_ U A) (fun b s s' => b = true -> idx (pos s) < idx (pos s')).
  Proof.
    intros s W. pose proof (ext_refl s W) as E. unfold Float_.
    step_at (fine_at_alpha (U:=U) (a_float A)).
    ifd; [|done_ret; discriminate].
    step (fine_skip_while (U:=U) (a_int A)).
    step_at (fine_at_char (U:=U) (fun c => (tolower c =? 101)%N)).
    ifd.
    { eapply post_mono; [apply fine_res_progress; eapply ext_wf; eassumption|].
      intros b s' [E' Rr]. split; [eapply ext_trans; eauto|]. intros Hb. specialize (Rr Hb ltac:(assumption)). clear E0. ext_lia. }
    step_at (fine_at_char (U:=U) (fun c => (c =? 46)%N)).
    destruct (has_more (pos s0)) eqn:Hm; cbn [andb]; [|done_ret; discriminate].
    ifd; [|done_ret; discriminate].
    step (fine_inc (U:=U)).
    assert (L1 : idx (pos s0) < idx (pos s1)) by (rewrite R0, pos_inc_idx, Hm; lia).
    step_at (fine_at_alpha (U:=U) (a_int A)).
    ifd.
    - step (fine_skip_while (U:=U) (a_int A)).
      eapply post_mono; [apply (fine_read_exponent_and_suffix A); eapply ext_wf; eassumption|].
      intros b s' [E' _]. split; [eapply ext_trans; eauto|]. intros _. clear E0 E2 E3. ext_lia.
    - apply post_bind. eapply post_mono.
      + apply (dec_undo s0 s1); auto; try exts. eapply ext_wf; eassumption.
      + intros ? s2 [EE _]. apply post_ret. split; [eapply ext_trans; [|exact EE]; assumption|discriminate].
  Qed.

  Lemma pos_str_nonempty a b : pos_str a b <> [] -> idx a < idx b.
  Proof.
    unfold pos_str. intros H. destruct (idx b - idx a) eqn:D; [simpl in H; congruence|lia].
  Qed.

  Lemma buildInt_empty base prefixed : buildInt T base [] prefixed = BI_invalid.
  Proof. unfold buildInt. cbn [rev scan_suffix]. destruct prefixed; reflexivity. Qed.

  (* int_token from a state sx of the scan that started at s0: a token has at least one byte; no token: the cursor is back at s0 *)
  Lemma int_token_strong base prefixed (s0 sx : ST) :
    wf_pos (pos s0) -> ext s0 sx ->
    post (int_token T (pos s0) base prefixed sx)
         (fun o s' => ext s0 s' /\ (o <> None -> idx (pos s0) < idx (pos s')) /\ (o = None -> idx (pos s') = idx (pos s0))).
  Proof.
    intros W0 Ex. unfold int_token. step_pos.
    destruct (buildInt T base (pos_str (pos s0) (pos sx)) prefixed) eqn:Hb.
    - apply post_ret. split; [exact Ex|]. split; [|discriminate]. intros _. apply pos_str_nonempty. intros Hn. rewrite Hn, buildInt_empty in Hb. discriminate.
    - apply post_bind. simpl. split; [apply ext_intro; simpl; auto; [apply (ext_depth' _ _ Ex)|apply (ext_user' _ _ Ex)]|].
      split; [congruence|reflexivity].
  Qed.

  (* Num() after its SkipWS() *)
  Definition Num_inner : M U (option token) :=
    start <- get_pos ;;
    f <- at_alpha (a_float A) ;;
    if f then
      h <- Hex_ A ;;
      if h then int_token T start 16 true
      else b <- Binary_ A ;;
           if b then int_token T start 2 true
           else fl <- Float_ A ;;
                if fl then
                  p <- get_pos ;;
                  let m := pos_str start p in
                  let '(k, v) := buildFloat T m in
                  ret (Some (TConstant m (line start) (col start) (KFloat k v)))
                else
                  set_pos start ;;;
                  skip_while (a_int A) ;;;
                  IntSuffix_ A ;;;
                  p <- get_pos ;;
                  let m := pos_str start p in
                  match m with
                  | [] => ret None
                  | c :: _ => if (c =? 48)%N then int_token T start 8 false else int_token T start 10 false
                  end
    else ret None.
  Lemma Num_unfold : @Num U A T = (SkipWS A false ;;; Num_inner).
  Proof. reflexivity. Qed.

  Lemma fine_Num_inner :
    fine Num_inner (fun o s s' => (o <> None -> idx (pos s) < idx (pos s')) /\ (o = None -> idx (pos s') = idx (pos s))).
  Proof.
    intros s W. pose proof (ext_refl s W) as E. unfold Num_inner. step_pos.
    step_at (fine_at_alpha (U:=U) (a_float A)).
    ifd; [|done_ret; split; [congruence|reflexivity]].
    assert (Fin : forall base prefixed (sx : ST), ext s sx ->
              post (int_token T (pos s) base prefixed sx)
                   (fun o s' => ext s s' /\ ((o <> None -> idx (pos s) < idx (pos s')) /\ (o = None -> idx (pos s') = idx (pos s))))).
    { intros base prefixed sx Ex. apply (int_token_strong base prefixed s sx W Ex). }
    step (fine_Hex_ (U:=U) A). destruct a; [apply Fin; assumption|].
    step (fine_Binary_ (U:=U) A). destruct a; [apply Fin; assumption|].
    step fine_Float_progress. destruct a.
    - match goal with H : true = true -> _ < _ |- _ => specialize (H eq_refl) end.
      step_pos. destruct (buildFloat T _). done_ret. split; [|discriminate]. intros _. clear E0. ext_lia.
    - assert (E03 : ext s s2) by assumption.
      apply post_bind. simpl.
      set (sr := mkState (pos s) (depth s2) (user s2)).
      assert (Er : ext s sr).
      { apply ext_intro; simpl; auto; [apply (ext_depth' _ _ E03)|apply (ext_user' _ _ E03)]. }
      clear - W Er Fin.
      step (fine_skip_while (U:=U) (a_int A)). step (fine_IntSuffix_ (U:=U) A). step_pos.
      destruct (pos_str (pos s) (pos s1)) as [|c r] eqn:Ps.
      + done_ret. split; [congruence|]. intros _.
        assert (Hle : idx (pos s1) <= idx (pos s)).
        { unfold pos_str in Ps. destruct (Nat.le_gt_cases (idx (pos s1)) (idx (pos s))) as [L|L]; [exact L|exfalso].
          assert (Hlen : List.length (firstn (idx (pos s1) - idx (pos s)) (skipn (idx (pos s)) (buf (pos s)))) = 0) by (rewrite Ps; reflexivity).
          rewrite firstn_length, skipn_length in Hlen.
          match goal with H : ext s s1 |- _ => pose proof (ext_len _ _ H) as HL; rewrite (ext_buf _ _ H) in HL end. lia. }
        match goal with H : ext s s1 |- _ => pose proof (ext_idx _ _ H) end. lia.
      + destruct (c =? 48)%N; apply Fin; assumption.
  Qed.

  Lemma fine_Num_strong : fine (@Num U A T) (fun o s s' => o <> None -> idx (pos s) < idx (pos s')).
  Proof.
    rewrite Num_unfold. apply (fine_ws_then A _ (fun o p p' => o <> None -> idx p < idx p')).
    - intros s W. eapply post_mono; [apply fine_Num_inner, W|]. intros o s' [E' [H1 _]]. split; [exact E'|exact H1].
    - intros a p p' p'' L H Ha. specialize (H Ha). lia.
  Qed.

  (* ---------------------------------------------------------------- the two string scanners *)
  Lemma fine_Quoted_String_strong : fine (@Quoted_String U A) (fun o s s' => o <> None -> idx (pos s) < idx (pos s')).
  Proof.
    set (P := fun (o : option qstring) (p p' : Position) => o <> None -> idx p < idx p').
    unfold Quoted_String. apply (fine_with_depth _ P). apply (fine_ws_then A _ P); [|unfold P; intros; specialize (H0 H1); lia].
    intros s W. pose proof (ext_refl s W) as E. step_pos. step (@fine_Quoted_String_ U). destruct a; [|done_ret; unfold P; congruence].
    specialize (R eq_refl).
    destruct (between_ok (pos s) s0 ltac:(lia)) as [content Hb].
    apply post_bind. rewrite Hb. cbn [post].
    destruct (qs_scan_safe (line (pos s)) (col (pos s)) (2 * List.length content + 2) content (mkCst [] false false Plain) [] I) as [q Hq]; [cbn [c_k]; lia|].
    rewrite cp_init_inj, Hq. done_ret. unfold P. intros _. lia.
  Qed.

  Lemma fine_Single_Quoted_String_strong : fine (@Single_Quoted_String U A) (fun o s s' => o <> None -> idx (pos s) < idx (pos s')).
  Proof.
    set (P := fun (o : option token) (p p' : Position) => o <> None -> idx p < idx p').
    unfold Single_Quoted_String. apply (fine_with_depth _ P). apply (fine_ws_then A _ P); [|unfold P; intros; specialize (H0 H1); lia].
    intros s W. pose proof (ext_refl s W) as E. step_pos. step (@fine_Single_Quoted_String_ U). destruct a; [|done_ret; unfold P; congruence].
    specialize (R eq_refl).
    destruct (between_ok (pos s) s0 ltac:(lia)) as [content Hb].
    apply post_bind. rewrite Hb. cbn [post].
    rewrite cp_init_inj, cp_feed_inj by exact I.
    destruct (cfeed false _ content) as [s'|r p] eqn:Ef; cbn [lift].
    - rewrite cp_finish_inj by (eapply cfeed_valid; [|exact Ef]; exact I).
      destruct (cfinish s') as [s2|]; cbn [lift]; [|exact I].
      destruct (cp_match (inj s2)) as [|ch [|]]; try exact I. done_ret. unfold P. intros _. lia.
    - destruct p; exact I.
  Qed.

  (* ---------------------------------------------------------------- Eol_ / Eol: a match ends with a `++` over a line end or `;`
     (what the `--m_position` of Dot_Fun_Array relies on: C20_dec_sites) *)
  Definition just_inc (p p' : Position) (ok : N -> Prop) : Prop :=
    exists p1, wf_pos p1 /\ has_more p1 = true /\ idx p <= idx p1 /\ p' = pos_inc p1 /\ ok (deref p1).
  Definition eol_byte (c : N) : Prop := c = NL \/ c = 59%N.

  Lemma just_inc_mono p p' p'' ok : idx p <= idx p' -> just_inc p' p'' ok -> just_inc p p'' ok.
  Proof. intros L (p1 & W & Hm & I1 & E1 & O). exists p1. split; [exact W|]. split; [exact Hm|]. split; [lia|]. split; [exact E1|exact O]. Qed.

  Lemma fine_Eol_strong t_eos :
    fine (@Eol_ U t_eos) (fun b s s' => if b then just_inc (pos s) (pos s') eol_byte else s' = s).
  Proof.
    intros s W. pose proof (ext_refl s W) as E. unfold Eol_. step_pos.
    assert (Tail : post ((p <- get_pos ;; if has_more p && negb t_eos then Char_ 59%N else ret false) s)
                        (fun b s' => ext s s' /\ (if b then just_inc (pos s) (pos s') eol_byte else s' = s))).
    { step_pos. destruct (has_more (pos s) && negb t_eos)%bool.
      - eapply post_mono; [apply fine_Char_, W|]. intros b s' [E' R]. split; [exact E'|].
        destruct b; [|exact R]. destruct R as ((Rp & _) & Rc & Rm).
        exists (pos s). split; [exact W|]. split; [exact Rm|]. split; [lia|]. split; [exact Rp|right; exact Rc].
      - done_ret. reflexivity. }
    destruct (has_more (pos s)) eqn:Hm.
    - apply post_bind. apply post_bind.
      eapply post_mono; [apply fine_Symbol_, W|]. intros b1 s1 [E1 R1]. destruct b1.
      + destruct R1 as ((Rp & Ri) & Rb). apply post_ret. cbv beta.
        cbn [List.length s_cr_lf] in Ri, Rp.
        assert (Hm1 : has_more (pos_inc (pos s)) = true).
        { apply has_more_lt. rewrite pos_inc_buf, pos_inc_idx, Hm. destruct E1 as (B1 & _ & (W1 & _) & _). rewrite B1 in W1. lia. }
        assert (N1 : List.nth (idx (pos_inc (pos s))) (buf (pos_inc (pos s))) 0%N = NL).
        { rewrite pos_inc_buf, pos_inc_idx, Hm. specialize (Rb 1). cbn [List.length s_cr_lf List.nth] in Rb.
          replace (S (idx (pos s))) with (idx (pos s) + 1) by lia. apply Rb. lia. }
        assert (C1 : col (pos s1) = 1%Z).
        { rewrite Rp. cbn [pos_add]. apply pos_inc_nl; assumption. }
        apply post_bind. eapply post_mono; [apply fine_set_col_1; [apply (ext_wf _ _ E1)|exact C1]|].
        intros _ s2 [E2 P2]. apply post_ret. split; [eapply ext_trans; eauto|]. rewrite P2, Rp. cbn [pos_add].
        exists (pos_inc (pos s)). split; [apply wf_pos_inc, W|]. split; [exact Hm1|]. split; [rewrite pos_inc_idx, Hm; lia|]. split; [reflexivity|].
        left. rewrite deref_nth by exact Hm1. exact N1.
      + subst s1. eapply post_mono; [apply fine_Char_, W|]. intros b2 s2 [E2 R2]. destruct b2.
        * destruct R2 as ((Rp & Ri) & Rc & _).
          assert (C1 : col (pos s2) = 1%Z).
          { rewrite Rp. cbn [pos_add]. apply pos_inc_nl; [exact Hm|]. rewrite <- deref_nth; assumption. }
          apply post_bind. eapply post_mono; [apply fine_set_col_1; [apply (ext_wf _ _ E2)|exact C1]|].
          intros _ s3 [E3 P3]. apply post_ret. split; [eapply ext_trans; eauto|]. rewrite P3, Rp. cbn [pos_add].
          exists (pos s). split; [exact W|]. split; [exact Hm|]. split; [lia|]. split; [reflexivity|left; exact Rc].
        * subst s2. exact Tail.
    - apply post_bind. apply post_ret. exact Tail.
  Qed.

  Lemma fine_Eol_just : fine (@Eol U A) (fun b s s' => b = true -> just_inc (pos s) (pos s') eol_byte).
  Proof.
    set (P := fun (b : bool) (p p' : Position) => b = true -> just_inc p p' eol_byte).
    unfold Eol. apply (fine_with_depth _ P). apply (fine_ws_then A _ P).
    - intros s W. eapply post_mono; [apply fine_Eol_strong, W|]. intros b s' [E' R]. split; [exact E'|].
      unfold P. intros ->. exact R.
    - unfold P. intros a p p' p'' L H Ha. eapply just_inc_mono; eauto.
  Qed.

  (* what `--m_position` does right after such a match *)
  Lemma dec_after_just_inc (s0 s1 : ST) ok :
    wf_pos (pos s0) -> buf (pos s1) = buf (pos s0) -> just_inc (pos s0) (pos s1) ok ->
    exists q, pos_dec (pos s1) = Some q /\ wf_pos q /\ buf q = buf (pos s0) /\ idx (pos s0) <= idx q /\ S (idx q) = idx (pos s1) /\
              has_more q = true /\ ok (deref q).
  Proof.
    intros W B (p1 & W1 & Hm & I1 & E1 & O).
    rewrite E1, (pos_dec_inc _ Hm). eexists. split; [reflexivity|].
    assert (B1 : buf p1 = buf (pos s0)) by (rewrite <- B, E1, pos_inc_buf; reflexivity).
    split; [apply wf_set_last_col, W1|]. split; [exact B1|]. split; [exact I1|].
    split; [cbn [set_last_col idx]; rewrite pos_inc_idx, Hm; reflexivity|]. split; [exact Hm|exact O].
  Qed.
  (* ---------------------------------------------------------------- positions recorded in tokens (C20) *)
  (* the side condition of Lex_dec_wf at a position reached by `++` from a well-formed one *)
  Definition dec_side (p : Position) : Prop :=
    List.nth (Nat.pred (idx p)) (buf p) 0%N <> NL \/ last_col p = (1 + Z.of_nat (since_nl (firstn (Nat.pred (idx p)) (buf p))))%Z.
  Lemma just_inc_dec_side p p' ok : just_inc p p' ok -> idx p' <> 0 /\ dec_side p'.
  Proof.
    intros (p1 & W1 & Hm & I1 & E1 & O). subst p'. rewrite pos_inc_idx, Hm. split; [lia|].
    unfold dec_side. rewrite pos_inc_buf, pos_inc_idx, Hm. cbn [Nat.pred].
    destruct (N.eqb (List.nth (idx p1) (buf p1) 0%N) NL) eqn:E.
    - right. unfold pos_inc. rewrite Hm, E. cbn [last_col]. destruct W1 as (_ & _ & Wc). exact Wc.
    - left. apply N.eqb_neq. exact E.
  Qed.

  (* an identifier token carries the line/col of the well-formed position it starts at, and (unless back-quoted) its text is the
     bytes from there to the cursor *)
  Lemma fine_Id_token validate :
    fine (@Id U A K validate)
         (fun o s s' => forall text l1 c1, o = Some (TId text l1 c1) ->
            exists st, wf_pos st /\ buf st = buf (pos s) /\ idx (pos s) <= idx st /\ idx st <= idx (pos s') /\ l1 = line st /\ c1 = col st /\
                       ((deref st =? 96)%N = false -> text = pos_str st (pos s'))).
  Proof.
    intros s W. pose proof (ext_refl s W) as E. unfold Id.
    step (fine_SkipWS (U:=U) A false). step_pos. step fine_Id_progress. destruct a0; [|done_ret; congruence].
    specialize (R0 eq_refl).
    assert (Hst : wf_pos (pos s0) /\ buf (pos s0) = buf (pos s) /\ idx (pos s) <= idx (pos s0)).
    { match goal with H : ext s s0 |- _ => split; [apply (ext_wf _ _ H)|split; [apply (ext_buf _ _ H)|apply (ext_idx _ _ H)]] end. }
    step_pos. apply post_bind.
    match goal with |- context [if ?c then throw_at _ else ret tt] => destruct c end; [exact I|].
    apply post_ret.
    destruct (classify K _); [done_ret; congruence|].
    destruct (deref (pos s0) =? 96)%N eqn:Eq.
    - cbn [pos_sub]. destruct (pos_dec (pos s1)) eqn:Ed; [|apply pos_dec_none in Ed; lia].
      done_ret. intros text l1 c1 Ht. inversion Ht; subst. exists (pos s0). destruct Hst as (Hw & Hb & Hi).
      split; [exact Hw|]. split; [exact Hb|]. split; [exact Hi|]. split; [lia|]. split; [reflexivity|]. split; [reflexivity|]. congruence.
    - done_ret. intros text l1 c1 Ht. inversion Ht; subst. exists (pos s0). destruct Hst as (Hw & Hb & Hi).
      split; [exact Hw|]. split; [exact Hb|]. split; [exact Hi|]. split; [lia|]. split; [reflexivity|]. split; [reflexivity|]. reflexivity.
  Qed.
End More.
