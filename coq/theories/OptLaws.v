(* C02 — laws of the optimizer passes that hold for every tree. *)
From Coq Require Import ZArith NArith List Bool String Lia.
From ChaiV Require Import StrUtil NumDefs Ast EvalDefs Eval Optimizer.
Import ListNotations.

Lemma pass_return_id n : pass_return n = n.
Proof.
  unfold pass_return. destruct (a_kind n); try reflexivity;
  destruct (rev (seen_children n)) as [|[k ? ? ? ? ?] ?]; try reflexivity; destruct k; reflexivity.
Qed.

Lemma partial_fold_same_program c ops n : node_prog c ops (pass_partial_fold ops n) = node_prog c ops n.
Proof.
  destruct n as [k cls text l cst ch]. destruct k; try reflexivity.
  destruct ch as [|a [|b [|x r]]]; try reflexivity.
  cbn [pass_partial_fold].
  destruct (negb (is_constant a) && is_constant b); [|reflexivity].
  destruct (const_num b) as [[[tn t] v]|]; [|reflexivity].
  destruct (n_bin ops text false t v t v); reflexivity.
Qed.

Lemma binary_fold_value ops fc cls text l c a b tn1 t1 v1 tn2 t2 v2 :
  const_num a = Some (tn1, t1, v1) -> const_num b = Some (tn2, t2, v2) ->
  match n_bin ops text false t1 v1 t2 v2 with
  | Some (Val t' v', _) => pass_constant_fold ops fc (Node KBinary cls text l c [a; b]) = folded (a_text a ++ " " ++ text ++ " " ++ a_text b) l t' v'
  | _ => pass_constant_fold ops fc (Node KBinary cls text l c [a; b]) = Node KBinary cls text l c [a; b]
  end.
Proof.
  intros Ha Hb. cbn [pass_constant_fold]. rewrite Ha, Hb.
  destruct (n_bin ops text false t1 v1 t2 v2) as [[r fl]|]; [destruct r|]; reflexivity.
Qed.

Lemma passes_are_local ops fc n :
  (a_kind n <> KBinary -> pass_partial_fold ops n = n) /\
  (a_kind n <> KIf -> pass_if n = n) /\
  (a_kind n <> KBlock -> pass_dead_code n = n /\ pass_block n = n) /\
  (a_kind n <> KFor -> pass_for_loop n = n) /\
  (a_kind n <> KEquation -> pass_assign_decl n = n) /\
  (a_kind n <> KBinary -> a_kind n <> KPrefix -> a_kind n <> KLogical_And -> a_kind n <> KLogical_Or -> a_kind n <> KFun_Call -> pass_constant_fold ops fc n = n).
Proof.
  destruct n as [k cls text l cst ch]. cbn [a_kind].
  repeat match goal with |- _ /\ _ => split end; intros; destruct k; try congruence; try split; reflexivity.
Qed.

Lemma if_picks_branch cls text l c cnd th rest b :
  const_bool cnd = Some b ->
  pass_if (Node KIf cls text l c (cnd :: th :: rest)) =
    if b then th else match rest with [el] => el | _ => Node KIf cls text l c (cnd :: th :: rest) end.
Proof. intros H. cbn [pass_if]. rewrite H. destruct b; reflexivity. Qed.

Definition dead (x : ast) := kind_eqb (a_kind x) KConstant || kind_eqb (a_kind x) KNoop.

Lemma keepers_cons2 y z zs : keepers (y :: z :: zs) = if dead y then keepers (z :: zs) else y :: keepers (z :: zs).
Proof. reflexivity. Qed.

Lemma keepers_snoc l x : keepers (l ++ [x]) = filter (fun y => negb (dead y)) l ++ [x].
Proof.
  induction l as [|y r IH]; [reflexivity|].
  cbn [app filter]. destruct (r ++ [x]) as [|z zs] eqn:E; [destruct r; discriminate|].
  rewrite keepers_cons2, IH. destruct (dead y); reflexivity.
Qed.

Lemma keepers_spec l :
  keepers l = match rev l with
              | [] => []
              | last :: front => filter (fun x => negb (kind_eqb (a_kind x) KConstant || kind_eqb (a_kind x) KNoop)) (rev front) ++ [last]
              end.
Proof.
  destruct (rev l) as [|last front] eqn:E.
  - apply (f_equal (@rev ast)) in E. rewrite rev_involutive in E. subst. reflexivity.
  - apply (f_equal (@rev ast)) in E. rewrite rev_involutive in E. cbn [rev] in E. subst. apply keepers_snoc.
Qed.
