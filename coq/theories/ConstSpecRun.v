(* C07 — executable specification (oracle side), independent of coq/gen.
   line:  <source is const> <some route copies> <the mutator is an attempt> <errored> <object changed> <binding changed>
          (six 0/1 flags; the first three describe the case, the last three what the implementation did)
      or  src <way the object was shared> <its C++ type is const> <some route copies> <attempt> <errored> <object changed> <binding changed>
          (the specification decides whether the source is const: source_const)
      or  reg <way the object was shared> <its C++ type is const> <registration function insists on const> <the registration was refused> *)
From Coq Require Import ZArith List Bool String.
From ChaiV Require Import StrUtil.
Import ListNotations.
Local Open Scope string_scope.

(* a const object keeps its value, and the value its name evaluates to, whatever the script does; every attempt that
   reaches the object itself (no copying route in between) ends in an error *)
Definition const_verdict (is_const copied attempt errored objchg bindchg : bool) : string :=
  if negb is_const then "OK"
  else if objchg then "VIOLATION the const object changed"
  else if bindchg then "VIOLATION the value the const source evaluates to changed"
  else if attempt && negb copied && negb errored then "VIOLATION a mutation attempt on a const object did not end in an error"
  else "OK".

(* which ways of sharing an object with the engine make it const: every host entry point named const_* (chaiscript::const_var of
   anything), any other entry point given an object whose C++ type is const (var(std::cref(x)), var of a const T pointer, a shared_ptr<const T>,
   a const T& / const T* return or callback argument), literals, and function objects reached by name *)
Definition source_const (way : string) (tconst : bool) : bool :=
  prefix "const_" way || tconst || String.eqb way "literal" || String.eqb way "function".

(* registration: a function for const values must take every const value and refuse every other; the others take everything *)
Definition reg_verdict (is_const requires_const refused : bool) : string :=
  if requires_const then
    if is_const && refused then "VIOLATION a const value was refused by a registration function for const values"
    else if negb is_const && negb refused then "VIOLATION a registration function for const values accepted a value that is not const"
    else "OK"
  else if refused then "VIOLATION a registration function without a constness requirement refused a value" else "OK".

Definition flag (s : string) : bool := String.eqb s "1".
Definition spec_line (line : string) : string :=
  match words line with
  | [a; b; c; d; e; f] => const_verdict (flag a) (flag b) (flag c) (flag d) (flag e) (flag f)
  | ["src"; way; tc; b; c; d; e; f] => const_verdict (source_const way (flag tc)) (flag b) (flag c) (flag d) (flag e) (flag f)
  | ["reg"; way; tc; rq; rf] => reg_verdict (source_const way (flag tc)) (flag rq) (flag rf)
  | _ => "BADCASE"
  end.
