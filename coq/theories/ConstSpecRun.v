(* C07 — executable specification (oracle side), independent of coq/gen.
   line:  <source is const> <some route copies> <the mutator is an attempt> <errored> <object changed> <binding changed>
   (six 0/1 flags; the first three describe the case, the last three what the implementation did) *)
From Coq Require Import ZArith List Bool String.
From ChaiV Require Import StrUtil.
Import ListNotations.
Local Open Scope string_scope.

(* a const object keeps its value, and the value its name evaluates to, whatever the script does; every attempt that
   reaches the object itself (no copying route in between) ends in an error *)
Definition const_verdict (is_const copied attempt errored objchg bindchg : bool) : string :=
  if negb is_const then "OK"
  else if objchg then "VIOLATION the const object changed"
  else if bindchg then "VIOLATION the value the const source evaluates to changed"
  else if attempt && negb copied && negb errored then "VIOLATION a mutation attempt on a const object did not end in an error"
  else "OK".

Definition flag (s : string) : bool := String.eqb s "1".
Definition spec_line (line : string) : string :=
  match words line with
  | [a; b; c; d; e; f] => const_verdict (flag a) (flag b) (flag c) (flag d) (flag e) (flag f)
  | _ => "BADCASE"
  end.
