(* C14 — executable SPECIFICATION (per-thread state keyed by the engine itself; independent of gen/) and the I/O
   glue shared with the mechanism run.  Same line format as harness/h_iso.cpp. *)
From Coq Require Import ZArith List Bool String Ascii Arith.
From ChaiV Require Import StrUtil ThreadStoreDefs.
Import ListNotations.
Local Open Scope string_scope.

Definition nat_of_dec (s : string) : option nat := option_map Z.to_nat (z_of_dec s).

Fixpoint split_bar (ws cur : list string) : list (list string) :=
  match ws with
  | [] => [rev cur]
  | w :: r => if String.eqb w "|" then rev cur :: split_bar r [] else split_bar r (w :: cur)
  end.

Definition parse_op (w : list string) : option op :=
  match w with
  | ["C"; e; a; t] => match nat_of_dec e, nat_of_dec a, nat_of_dec t with Some e', Some a', Some t' => Some (Create e' a' t') | _, _, _ => None end
  | ["S"; e; t; n; v] => match nat_of_dec e, nat_of_dec t, nat_of_dec v with Some e', Some t', Some v' => Some (Eval e' t' (SetLocal n v')) | _, _, _ => None end
  | ["R"; e; t; n] => match nat_of_dec e, nat_of_dec t with Some e', Some t' => Some (Eval e' t' (Read n)) | _, _ => None end
  | ["L"; e; t] => match nat_of_dec e, nat_of_dec t with Some e', Some t' => Some (Eval e' t' Locals) | _, _ => None end
  | ["G"; e; t; n; v] => match nat_of_dec e, nat_of_dec t, nat_of_dec v with Some e', Some t', Some v' => Some (Eval e' t' (AddGlobal n v')) | _, _, _ => None end
  | ["D"; e; t] => match nat_of_dec e, nat_of_dec t with Some e', Some t' => Some (Destroy e' t') | _, _ => None end
  | _ => None
  end.
Fixpoint parse_ops (l : list (list string)) : option (list op) :=
  match l with
  | [] => Some []
  | w :: r => match parse_op w, parse_ops r with Some o, Some t => Some (o :: t) | _, _ => None end
  end.

Definition show_result (r : result) : string :=
  match r with
  | ROk => "ok"
  | RValue (Some v) => dec_of_nat v
  | RValue None => "-"
  | RNames l => "[" ++ join "," l ++ "]"
  | RConflict => "conflict"
  | RInvalid => "INVALID"
  end.

Fixpoint results (p : policy) (w : world) (h : list op) : list string :=
  match h with
  | [] => []
  | o :: r => let (w', res) := step p w o in show_result res :: results p w' r
  end.

Definition run_with (p : policy) (line : string) : string :=
  match parse_ops (split_bar (words line) []) with
  | Some h => join " | " (results p w_init h)
  | None => "BADCASE"
  end.

Definition spec_line (line : string) : string := run_with ByEngine line.
