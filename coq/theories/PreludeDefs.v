(* C17 — the "range monad" that tools/translate/t_Prelude.py targets, and the functional
   specification of every prelude algorithm over Coq lists.  Definitions only (no proofs).

   Mechanism side (used by the regenerated coq/gen/G_Prelude.v):
     M E A            writer-with-failure monad: (callback trace, outcome)
     range V          the remaining elements of a range view (front = head, back = last)
     while_/while_ret fuelled loops; running out of fuel is the explicit outcome OutOfFuel
     push_back        back_inserter / push_back as accumulation at the end
     logged f         a callback that computes f and records its argument(s) in the trace
   Reference parameters (containers, inserters, `this`) are returned next to the result, so
   "the input is unmodified" is a statement about the second component of the outcome.

   Specification side: spec_* (independent of gen/). *)
From Coq Require Import ZArith List Bool String Ascii.
Import ListNotations.
Local Open Scope Z_scope.

(* ------------------------------------------------------------------ monad *)
Inductive err := RangeEmpty | GuardFailed.
Inductive res (A : Type) := Ok (a : A) | Err (e : err) | OutOfFuel.
Arguments Ok {A} a.
Arguments Err {A} e.
Arguments OutOfFuel {A}.

Definition M (E A : Type) : Type := (list E * res A)%type.

Definition ret {E A} (a : A) : M E A := ([], Ok a).
Definition fail {E A} (e : err) : M E A := ([], Err e).
Definition out_of_fuel {E A} : M E A := ([], OutOfFuel).
Definition bind {E A B} (m : M E A) (k : A -> M E B) : M E B :=
  match snd m with
  | Ok a => (fst m ++ fst (k a), snd (k a))
  | Err e => (fst m, Err e)
  | OutOfFuel => (fst m, OutOfFuel)
  end.

Declare Scope pm_scope.
Delimit Scope pm_scope with pm.
Notation "x <- m ;; k" := (bind m (fun x => k)) (at level 61, m at next level, right associativity) : pm_scope.
Notation "' p <- m ;; k" := (bind m (fun x => match x with p => k end))
  (at level 61, p pattern, m at next level, right associativity) : pm_scope.
Open Scope pm_scope.

Definition andM {E} (a b : M E bool) : M E bool := x <- a ;; if x then b else ret false.
Definition orM {E} (a b : M E bool) : M E bool := x <- a ;; if x then ret true else b.

(* callbacks: total functions whose every call is recorded *)
Definition logged {V W} (f : V -> W) : V -> M V W := fun x => ([x], Ok (f x)).
Definition logged2 {A B C} (f : A -> B -> C) : A -> B -> M (A * B) C := fun a b => ([(a, b)], Ok (f a b)).
(* builtin operator functions passed as callbacks (`+`, `*`): no trace *)
Definition pure2 {E A B C} (f : A -> B -> C) : A -> B -> M E C := fun a b => ret (f a b).

(* ------------------------------------------------------------------ loops *)
Inductive ctl (S R : Type) := Continue (s : S) | Return (r : R).
Arguments Continue {S R} s.
Arguments Return {S R} r.

Fixpoint while_ {E S} (fuel : nat) (s : S) (cond : S -> M E bool) (body : S -> M E S) : M E S :=
  match fuel with
  | O => out_of_fuel
  | S n => b <- cond s ;; if b then (s' <- body s ;; while_ n s' cond body) else ret s
  end.

Fixpoint while_ret {E S R} (fuel : nat) (s : S) (cond : S -> M E bool) (body : S -> M E (ctl S R)) : M E (ctl S R) :=
  match fuel with
  | O => out_of_fuel
  | S n => b <- cond s ;;
           if b then (c <- body s ;; match c with Continue s' => while_ret n s' cond body | Return r => ret (Return r) end)
           else ret (Continue s)
  end.

(* ------------------------------------------------------------------ ranges and containers *)
Inductive range (V : Type) := Rng (items : list V).
Arguments Rng {V} items.
Definition r_items {V} (r : range V) := match r with Rng l => l end.
Definition mk_range {V} (c : list V) : range V := Rng c.
Definition r_len {V} (r : range V) : nat := List.length (r_items r).
Definition r_empty {V} (r : range V) : bool := match r_items r with [] => true | _ => false end.
Definition r_front {E V} (r : range V) : M E V := match r_items r with [] => fail RangeEmpty | x :: _ => ret x end.
Definition r_pop_front {E V} (r : range V) : M E (range V) :=
  match r_items r with [] => fail RangeEmpty | _ :: t => ret (Rng t) end.
Definition r_back {E V} (r : range V) : M E V := match rev (r_items r) with [] => fail RangeEmpty | x :: _ => ret x end.
Definition r_pop_back {E V} (r : range V) : M E (range V) :=
  match r_items r with [] => fail RangeEmpty | _ => ret (Rng (removelast (r_items r))) end.

Definition new_like {V} (c : list V) : list V := [].
Definition vector_new {V} : list V := [].
Definition push_back {V} (c : list V) (x : V) : list V := c ++ [x].
Definition clone_val {A} (a : A) : A := a.
Definition c_size {V} (c : list V) : Z := Z.of_nat (List.length c).
Definition inline_vec2 {A B} (a : A) (b : B) : A * B := (a, b).
Definition guard {E} (b : bool) : M E unit := if b then ret tt else fail GuardFailed.

(* C++ int arithmetic as far as the prelude uses it (no overflow is reachable from the
   operand ranges of the check: |x| small, ++/-- on counters bounded by the container size) *)
Definition c_gt (a b : Z) := a >? b.
Definition c_lt (a b : Z) := a <? b.
Definition c_le (a b : Z) := a <=? b.
Definition c_ge (a b : Z) := a >=? b.
Definition c_eq (a b : Z) := a =? b.
Definition c_ne (a b : Z) := negb (a =? b).
Definition c_rem (a b : Z) := Z.rem a b.   (* C++ % truncates towards zero *)
Definition c_add (a b : Z) := a + b.
Definition c_sub (a b : Z) := a - b.
Definition ch_eq (a b : ascii) := Ascii.eqb a b.
Definition ch (n : nat) : ascii := ascii_of_nat n.
Definition str_app (a b : string) : string := (a ++ b)%string.

(* operations that depend on the dynamic type of the elements *)
Class Ops (V : Type) := {
  op_eq_exists : V -> V -> bool;     (* call_exists(`==`, l, r) *)
  op_eq : V -> V -> bool;            (* l == r *)
  op_add : V -> V -> V;              (* `+` *)
  op_mul : V -> V -> V;              (* `*` *)
  lit_d : Z -> V;                    (* the double literal n.0 *)
  op_to_string : V -> string         (* to_string(x) *)
}.

(* ------------------------------------------------------------------ specification *)
Section Spec.
  Context {V W : Type}.

  (* elements visited by a search that stops at the first x with p x = true (inclusive) *)
  Fixpoint upto_first (p : V -> bool) (l : list V) : list V :=
    match l with [] => [] | x :: t => if p x then [x] else x :: upto_first p t end.
  Fixpoint take_while_l (p : V -> bool) (l : list V) : list V :=
    match l with [] => [] | x :: t => if p x then x :: take_while_l p t else [] end.
  Fixpoint drop_while_l (p : V -> bool) (l : list V) : list V :=
    match l with [] => [] | x :: t => if p x then drop_while_l p t else l end.
  (* suffix starting at the first match *)
  Fixpoint find_suffix (p : V -> bool) (l : list V) : list V :=
    match l with [] => [] | x :: t => if p x then l else find_suffix p t end.

  Definition spec_foldl {A} (f : V -> A -> A) (z : A) (l : list V) : A := fold_left (fun a x => f x a) l z.
  Fixpoint spec_foldl_trace {A} (f : V -> A -> A) (z : A) (l : list V) : list (V * A) :=
    match l with [] => [] | x :: t => (x, z) :: spec_foldl_trace f (f x z) t end.

  Definition spec_take (n : Z) (l : list V) := firstn (Z.to_nat n) l.
  Definition spec_drop (n : Z) (l : list V) := skipn (Z.to_nat n) l.

  Definition spec_zip_with {B C} (f : V -> B -> C) (x : list V) (y : list B) : list C :=
    map (fun p => f (fst p) (snd p)) (combine x y).

  (* reduce: defined for >= 2 elements *)
  Definition spec_reduce (f : V -> V -> V) (l : list V) : option V :=
    match l with x :: y :: t => Some (fold_left f (y :: t) x) | _ => None end.
  Fixpoint spec_reduce_trace (f : V -> V -> V) (acc : V) (l : list V) : list (V * V) :=
    match l with [] => [] | x :: t => (acc, x) :: spec_reduce_trace f (f acc x) t end.

  Definition spec_join (ts : V -> string) (delim : string) (l : list V) : string := String.concat delim (map ts l).
  Definition spec_to_string_container (ts : V -> string) (l : list V) : string :=
    ("[" ++ spec_join ts ", " l ++ "]")%string.
  Definition spec_to_string_pair (ta : V -> string) (tb : W -> string) (p : V * W) : string :=
    ("<" ++ ta (fst p) ++ ", " ++ tb (snd p) ++ ">")%string.
End Spec.

Definition spec_generate_range (x y : Z) : list Z := map (fun k => x + Z.of_nat k) (seq 0 (Z.to_nat (y + 1 - x))).

Definition is_ws (c : ascii) : bool :=
  Ascii.eqb c " " || Ascii.eqb c (ascii_of_nat 9) || Ascii.eqb c (ascii_of_nat 13) || Ascii.eqb c (ascii_of_nat 10).
Definition spec_ltrim (s : list ascii) := drop_while_l is_ws s.
Definition spec_rtrim (s : list ascii) := rev (drop_while_l is_ws (rev s)).
Definition spec_trim (s : list ascii) := spec_ltrim (spec_rtrim s).

(* eq(l, r): == where it exists, false otherwise *)
Definition spec_eq {V} {O : Ops V} (l r : V) : bool := if op_eq_exists l r then op_eq l r else false.
