(* Grammar-layer proofs for C01 / C20: every grammar function of ParserDefs is safe (no Crash, no OutOfFuel), keeps the buffer,
   never moves the cursor back, keeps line/col right (wf_pos), restores the depth counter, keeps the file name, has the stated effect
   on the height of the match stack (which is what makes every build_match / node constructor precondition hold), and a reported
   match has consumed input (which is what makes every loop end within its fuel).  One induction on the call-depth fuel of
   ParserDefs.P closes the mutual recursion (`P_ok`). *)
From Coq Require Import ZArith NArith List Bool String Lia Arith.
From ChaiV Require Import StrUtil NumDefs Ast LexDefs LexProofs LexLitProofs ParserLexProofs ParserDefs.
Import ListNotations.
Local Open Scope nat_scope.

Notation ST := (state pstate).
Definition stack (s : ST) : list pnode := stk (user s).
Definition len (s : ST) : nat := List.length (stk (user s)).

(* ------------------------------------------------------------------ rules *)
(* s' is a later state of the same parse: same buffer, cursor not moved back, line/col still right, depth counter and file name restored *)
Definition gext (s s' : ST) : Prop :=
  buf (pos s') = buf (pos s) /\ idx (pos s) <= idx (pos s') /\ wf_pos (pos s') /\ depth s' = depth s /\ fname (user s') = fname (user s).
Lemma gext_refl s : wf_pos (pos s) -> gext s s.
Proof. intros W. repeat split; auto; apply W. Qed.
Lemma gext_trans a b c : gext a b -> gext b c -> gext a c.
Proof. intros (B1 & I1 & W1 & D1 & F1) (B2 & I2 & W2 & D2 & F2). repeat split; try congruence; try lia; apply W2. Qed.
Lemma ext_gext (s s' : ST) : ext s s' -> gext s s'.
Proof. intros (B & I & W & D & Us). repeat split; auto; try apply W. rewrite Us. reflexivity. Qed.
Lemma gext_wf a b : gext a b -> wf_pos (pos b).
Proof. intros (_ & _ & W & _). exact W. Qed.
Lemma gext_idx a b : gext a b -> idx (pos a) <= idx (pos b).
Proof. intros (_ & I & _). exact I. Qed.
Lemma gext_buf a b : gext a b -> buf (pos b) = buf (pos a).
Proof. intros (B & _). exact B. Qed.
Lemma gext_depth a b : gext a b -> depth b = depth a.
Proof. intros (_ & _ & _ & D & _). exact D. Qed.
Lemma gext_fname a b : gext a b -> fname (user b) = fname (user a).
Proof. intros (_ & _ & _ & _ & F). exact F. Qed.
Lemma gext_len_buf a b : gext a b -> idx (pos b) <= List.length (buf (pos b)).
Proof. intros (_ & _ & (W & _) & _). exact W. Qed.

(* the states a grammar function may be entered from at nesting level >= d *)
Definition okst (d : nat) (s : ST) : Prop := wf_pos (pos s) /\ d <= depth s /\ depth s <= max_parse_depth.
Lemma okst_gext d s s' : okst d s -> gext s s' -> okst d s'.
Proof. intros (W & D1 & D2) G. pose proof (gext_depth _ _ G). split; [eapply gext_wf; eauto|]. lia. Qed.
Lemma okst_le d d' s : d' <= d -> okst d s -> okst d' s.
Proof. intros L (W & D1 & D2). split; [exact W|]. lia. Qed.

(* a relation between result, (position, match stack) before and after *)
Definition Rel (A : Type) := A -> Position -> list pnode -> Position -> list pnode -> Prop.
Definition spec {A} (d : nat) (m : PM A) (R : Rel A) : Prop :=
  forall s, okst d s -> post (m s) (fun a s' => gext s s' /\ R a (pos s) (stack s) (pos s') (stack s')).

Lemma spec_le {A} d d' (m : PM A) R : d' <= d -> spec d' m R -> spec d m R.
Proof. intros L H s Hs. apply H. eapply okst_le; eauto. Qed.
Lemma spec_weaken {A} d (m : PM A) (R R' : Rel A) : spec d m R -> (forall a p st p' st', R a p st p' st' -> R' a p st p' st') -> spec d m R'.
Proof. intros H Hi s Hs. eapply post_mono; [apply H, Hs|]. intros a s' [G HR]. split; [exact G|]. apply Hi, HR. Qed.

Lemma use_spec {A B} d (m : PM A) R (k : A -> PM B) (s0 s : ST) (Q : B -> ST -> Prop) :
  spec d m R -> okst d s0 -> gext s0 s ->
  (forall a s', gext s0 s' -> gext s s' -> R a (pos s) (stack s) (pos s') (stack s') -> post (k a s') Q) ->
  post (bind m k s) Q.
Proof.
  intros F O E H. apply post_bind. eapply post_mono; [apply F; eapply okst_gext; eauto|].
  intros a s' [E' HR]. apply H; auto. eapply gext_trans; eauto.
Qed.

(* lexer lemmas (which leave the grammar-layer state alone) as specs *)
Lemma fine_spec {A} d (m : PM A) (P : A -> Position -> Position -> Prop) :
  fine m (fun a s s' => P a (pos s) (pos s')) -> spec d m (fun a p st p' st' => P a p p' /\ st' = st).
Proof.
  intros F s (W & _). eapply post_mono; [apply F, W|]. intros a s' [E HP]. split; [apply ext_gext, E|]. split; [exact HP|].
  unfold stack. rewrite (ext_user _ _ E). reflexivity.
Qed.

(* Depth_Counter *)
Lemma spec_with_depth {A} d (m : PM A) (R : Rel A) : spec (S d) m R -> spec d (with_depth m) R.
Proof.
  intros F s (W & D1 & D2). unfold with_depth.
  destruct (Nat.ltb max_parse_depth (depth (mkState (pos s) (S (depth s)) (user s)))) eqn:L; [exact I|].
  apply Nat.ltb_ge in L. cbn [depth] in L.
  set (s1 := mkState (pos s) (S (depth s)) (user s)) in *.
  assert (O1 : okst (S d) s1) by (split; [exact W|]; cbn [depth s1]; lia).
  specialize (F s1 O1). destruct (m s1) as [[a s2]| | |]; cbn [post] in *; auto.
  destruct F as ((B & I' & W' & D & Fn) & HR). split; [|exact HR].
  repeat split; cbn [pos depth user]; auto; try apply W'. rewrite D. reflexivity.
Qed.

(* loops: invariant `gext s0` plus a user invariant J; every continuing iteration moves the cursor forward *)
Lemma spec_loop {X} (body : X -> PM (X * bool)) (J : X -> ST -> Prop) (s0 : ST) (x0 : X) :
  (forall x s, gext s0 s -> J x s ->
     post (body x s) (fun r s' => gext s s' /\ J (fst r) s' /\ (snd r = true -> idx (pos s) < idx (pos s')))) ->
  wf_pos (pos s0) -> J x0 s0 ->
  post (loop body x0 s0) (fun x s' => gext s0 s' /\ J x s').
Proof.
  intros Hb W HJ. apply (loop_ok body (fun x s => gext s0 s /\ J x s)).
  - intros x s [G HJx]. eapply post_mono; [apply Hb; assumption|].
    intros r s' (G' & HJ' & Hp). split; [split; [eapply gext_trans; eauto|exact HJ']|].
    split; [apply (gext_buf _ _ G')|]. intros Hs. split; [apply Hp, Hs|apply (gext_len_buf _ _ G')].
  - split; [apply gext_refl, W|exact HJ].
Qed.

(* the chain from the entry state (the one with the `okst` hypothesis) to the current state *)
Ltac pick_gext :=
  match goal with
  | Hs : okst _ ?e |- gext _ ?cur => match goal with H : gext e cur |- _ => exact H end
  end.
Tactic Notation "gstep" uconstr(F) :=
  eapply (use_spec _ _ _ _ _ _ _ F); [eassumption | pick_gext |
    let a := fresh "a" in let s := fresh "s" in let E0 := fresh "G0" in let E1 := fresh "G1" in let R := fresh "R" in
    intros a s E0 E1 R; cbv beta in R |- *; move E0 at bottom].
Ltac gdone := apply post_ret; split; [assumption|].
(* case split on the boolean an `if` at the head of the computation tests *)
Ltac ifb := match goal with |- post ((if ?b then _ else _) _) _ => destruct b end.
(* the last computation of a sequence (tail position) *)
Tactic Notation "gtail" uconstr(F) :=
  match goal with
  | |- post (_ ?sc) _ =>
      eapply post_mono; [apply F; eapply okst_gext; eassumption |
        let a := fresh "a" in let s := fresh "s" in let G := fresh "Gt" in let R := fresh "R" in
        intros a s [G R]; cbv beta in R |- *; split; [apply (gext_trans _ sc); [eassumption|exact G]|]]
  end.
(* arithmetic over cursor indices / depths *)
Ltac gx_lia :=
  repeat match goal with
         | H : gext ?a ?b |- _ =>
             let H1 := fresh "Hi" in let H2 := fresh "Hd" in
             pose proof (gext_idx _ _ H) as H1; pose proof (gext_depth _ _ H) as H2; clear H
         end; unfold len in *; lia.

(* ------------------------------------------------------------------ primitives of the grammar layer *)
Lemma spec_get_stack d : spec d get_stack (fun st p s p' s' => p' = p /\ s' = s /\ st = s).
Proof. intros s (W & _). simpl. split; [apply gext_refl, W|auto]. Qed.
Lemma spec_stack_size d : spec d stack_size (fun n p s p' s' => p' = p /\ s' = s /\ n = List.length s).
Proof. intros s (W & _). simpl. split; [apply gext_refl, W|auto]. Qed.
Lemma spec_get_pos d : spec d (@get_pos pstate) (fun q p s p' s' => p' = p /\ s' = s /\ q = p).
Proof. intros s (W & _). simpl. split; [apply gext_refl, W|auto]. Qed.
Lemma spec_get_fname d : spec d get_fname (fun _ p s p' s' => p' = p /\ s' = s).
Proof. intros s (W & _). simpl. split; [apply gext_refl, W|auto]. Qed.
Lemma spec_ret {A} d (a : A) : spec d (ret a) (fun b p s p' s' => p' = p /\ s' = s /\ b = a).
Proof. intros s (W & _). simpl. split; [apply gext_refl, W|auto]. Qed.
Lemma spec_set_stack d l : spec d (set_stack l) (fun _ p s p' s' => p' = p /\ s' = l).
Proof. intros s (W & _). simpl. split; [repeat split; simpl; auto; apply W|auto]. Qed.
Lemma spec_inc d : spec d (@inc pstate) (fun _ p s p' s' => p' = pos_inc p /\ s' = s).
Proof. apply (fine_spec d _ (fun _ p p' => p' = pos_inc p)), fine_inc. Qed.
Lemma spec_vacuous {A} d (m : PM A) R : max_parse_depth < d -> spec d m R.
Proof. intros L s (_ & D1 & D2). lia. Qed.
Lemma spec_tick {A} d (m : PM A) R : spec d m R -> spec d (fun s => m (tick s)) R.
Proof.
  intros H s Hs. assert (Ht : okst d (tick s)) by exact Hs. specialize (H _ Ht).
  destruct (m (tick s)) as [[a s']| | |]; simpl in *; auto.
Qed.
Lemma spec_truncate d n :
  spec d (st <- get_stack ;; set_stack (firstn n st)) (fun _ p s p' s' => p' = p /\ List.length s' = Nat.min n (List.length s)).
Proof. intros s (W & _). simpl. split; [repeat split; simpl; auto; apply W|]. split; [reflexivity|]. unfold stack. simpl. apply firstn_length. Qed.
Lemma spec_push d n : spec d (push n) (fun _ p s p' s' => p' = p /\ s' = s ++ [n]).
Proof. intros s (W & _). simpl. split; [repeat split; simpl; auto; apply W|auto]. Qed.
Lemma spec_make_node d k text l1 c1 c :
  spec d (make_node k text l1 c1 c) (fun n p s p' s' => p' = p /\ s' = s /\ pn_kind n = k /\ pn_children n = []).
Proof. intros s (W & _). simpl. split; [apply gext_refl, W|auto]. Qed.
Lemma spec_unless d b r : spec d (unless b r) (fun _ p s p' s' => p' = p /\ s' = s /\ b = true).
Proof. intros s (W & _). destruct b; simpl; [|exact I]. split; [apply gext_refl, W|auto]. Qed.

(* the catch-and-rethrow around parse_instr_eval only rewrites an eval_error *)
Lemma spec_catch_instr {A} d (m : PM A) R l c : spec d m R -> spec d (catch_instr m l c) R.
Proof. intros H s Hs. specialize (H s Hs). unfold catch_instr. destruct (m s) as [[a s']| | |]; simpl in *; auto. Qed.

Definition sym_at (sym : list N) (p p' : Position) : Prop :=
  exists p1, wf_pos p1 /\ idx p <= idx p1 /\ p' = pos_add p1 (List.length sym) /\ idx p' = idx p1 + List.length sym /\
             (forall j, j < List.length sym -> nth (idx p1 + j) (buf p1) 0%N = nth j sym 0%N).

(* the two `--m_position` of Dot_Fun_Array: each directly undoes the `++` a successful Eol() / Symbol(".") ended with *)
Lemma use_dec_just {B} (k : unit -> PM B) (s0 sk se : ST) ok (Q : B -> ST -> Prop) :
  gext s0 sk -> gext sk se -> just_inc (pos sk) (pos se) ok ->
  (forall sd, gext s0 sd -> gext sk sd -> user sd = user se -> S (idx (pos sd)) = idx (pos se) -> has_more (pos sd) = true -> ok (deref (pos sd)) ->
              post (k tt sd) Q) ->
  post (bind dec k se) Q.
Proof.
  intros G0 G1 J H. apply post_bind. unfold dec.
  destruct (dec_after_just_inc sk se ok (gext_wf _ _ G0) (gext_buf _ _ G1) J) as (q & Eq & Wq & Bq & Iq & Sq & Hq & Oq).
  rewrite Eq. cbn [post].
  assert (Gd : gext sk (mkState q (depth se) (user se))).
  { unfold gext. cbn [pos depth user]. split; [exact Bq|]. split; [exact Iq|]. split; [exact Wq|].
    split; [apply (gext_depth _ _ G1)|apply (gext_fname _ _ G1)]. }
  apply H; auto. eapply gext_trans; eauto.
Qed.
Lemma sym_at_just c p p' : sym_at [c] p p' -> buf p' = buf p -> wf_pos p' -> just_inc p p' (fun x => x = c).
Proof.
  intros (p1 & W1 & I1 & E1 & E2 & C1) B W'. cbn [List.length pos_add] in *.
  assert (Hm : has_more p1 = true).
  { apply has_more_lt. destruct W' as (Wl & _). assert (Bp : buf p' = buf p1) by (rewrite E1; apply pos_inc_buf). rewrite Bp, E2 in Wl. lia. }
  exists p1. split; [exact W1|]. split; [exact Hm|]. split; [exact I1|]. split; [exact E1|].
  rewrite deref_nth by exact Hm. specialize (C1 0 ltac:(lia)). rewrite Nat.add_0_r in C1. exact C1.
Qed.

(* build_match: when the start index is inside the match stack and the node constructor's precondition holds *)
Definition bm_node (k : kind) (text : string) (s : ST) (start : nat) : pnode :=
  PN k text
     (match skipn start (stack s) with
      | c :: _ => mkloc (l_line (pn_loc c)) (l_col (pn_loc c)) (line (pos s)) (col (pos s))
      | [] => mkloc (line (pos s)) (col (pos s)) (line (pos s)) (col (pos s))
      end) (fname (user s)) None (skipn start (stack s)).
Lemma build_match_ok k start text (s : ST) :
  start <= len s -> ctor_check k (len s - start) = None ->
  build_match k start text s =
  Ok (tt, mkState (pos s) (depth s) (mkPS (firstn start (stack s) ++ [bm_node k text s start]) (fname (user s)) (ticks (user s)))).
Proof.
  intros L C. unfold build_match, bind, get_stack, get_pos, get_fname, len, stack in *.
  destruct (Nat.ltb (List.length (stk (user s))) start) eqn:E; [apply Nat.ltb_lt in E; lia|].
  rewrite skipn_length, C. reflexivity.
Qed.
Lemma use_build_match {B} k start text (kont : unit -> PM B) (s0 s : ST) (Q : B -> ST -> Prop) :
  gext s0 s -> start <= len s -> ctor_check k (len s - start) = None ->
  (forall s', gext s0 s' -> gext s s' -> pos s' = pos s -> stack s' = firstn start (stack s) ++ [bm_node k text s start] -> len s' = S start ->
              post (kont tt s') Q) ->
  post (bind (build_match k start text) kont s) Q.
Proof.
  intros G L C H. apply post_bind. rewrite (build_match_ok _ _ _ _ L C). cbn [post].
  assert (G1 : gext s (mkState (pos s) (depth s) (mkPS (firstn start (stack s) ++ [bm_node k text s start]) (fname (user s)) (ticks (user s))))).
  { repeat split; cbn [pos depth user fname]; auto; apply (gext_wf _ _ G). }
  apply H; [eapply gext_trans; eauto|exact G1|reflexivity|reflexivity|].
  unfold len, stack in *. cbn [user stk]. rewrite app_length, firstn_length. cbn [List.length]. lia.
Qed.

(* a loop whose body never asks for another iteration *)
Lemma loop_once {X} (body : X -> PM (X * bool)) (x : X) (s : ST) (Q : X -> ST -> Prop) :
  post (body x s) (fun r s' => snd r = false /\ Q (fst r) s') -> post (loop body x s) Q.
Proof.
  intros H. unfold loop. cbn [while_]. apply post_bind. eapply post_mono; [exact H|].
  intros [x' b] s' [Hb HQ]. cbn [snd fst] in *. subst b. apply post_ret. exact HQ.
Qed.

(* ------------------------------------------------------------------ the relations the grammar functions satisfy *)
Definition Rgen (f : bool -> nat -> nat -> Prop) : Rel bool :=
  fun b p st p' st' => (b = true -> idx p < idx p') /\ f b (List.length st) (List.length st').
(* a match pushes exactly one node, a failure leaves the match stack alone *)
Definition Rexpr : Rel bool := Rgen (fun b n n' => n' = n + (if b then 1 else 0)).
(* always one node (the Arg_List family builds its node even when empty) *)
Definition Rone : Rel bool := Rgen (fun _ n n' => n' = n + 1).
(* Statements / Class_Statements *)
Definition Rgrow : Rel bool := Rgen (fun b n n' => n <= n' /\ (b = false -> n' = n)).
(* For_Guards *)
Definition Rany : Rel bool := Rgen (fun _ n n' => n <= n').
(* m_match_stack.push_back(parse_instr_eval(..)) *)
Definition Rinstr : Rel bool := fun _ p st p' st' => p' = p /\ List.length st' = List.length st + 1.
(* lexer-level scanners: the match stack is untouched *)
Definition Rlex : Rel bool := fun b p st p' st' => (b = true -> idx p < idx p') /\ st' = st.
Definition Rkeep {A} : Rel A := fun _ p st p' st' => st' = st.
Definition Ropt {X} : Rel (option X) := fun o p st p' st' => (o <> None -> idx p < idx p') /\ st' = st.
Definition Rup {X} : Rel X := fun _ p st p' st' => List.length st <= List.length st'.

Definition Rnt (nt : NT) : Rel bool :=
  match nt with
  | NArg_List => Rone
  | NFor_Guards => Rany
  | NStatements _ | NClass_Statements _ => Rgrow
  | NInstr _ => Rinstr
  | _ => Rexpr
  end.

Ltac unfoldR := unfold Rlex, Rexpr, Rone, Rgrow, Rany, Rinstr, Rkeep, Ropt, Rup, Rgen in *.
Ltac stk_len :=
  repeat match goal with
         | H : stack ?a = stack ?b |- _ =>
             lazymatch goal with
             | _ : List.length (stack a) = List.length (stack b) |- _ => fail
             | _ => let H' := fresh "Hl" in pose proof (f_equal (@List.length pnode) H) as H'
             end
         | H : stack ?a = stack ?b ++ [?n] |- _ =>
             lazymatch goal with
             | _ : List.length (stack a) = List.length (stack b) + 1 |- _ => fail
             | _ => let H' := fresh "Hl" in
                    assert (H' : List.length (stack a) = List.length (stack b) + 1) by (rewrite H, app_length; reflexivity)
             end
         end.
Ltac use_true :=
  repeat match goal with
         | H : true = true -> _ |- _ => specialize (H eq_refl)
         | H : false = true -> _ |- _ => clear H
         | H : false = false -> _ |- _ => specialize (H eq_refl)
         | H : Some _ <> None -> _ |- _ => specialize (H ltac:(discriminate))
         | H : None <> None -> _ |- _ => clear H
         | H : ?P -> _, H' : ?P |- _ => specialize (H H')
         | H : _ /\ _ |- _ => destruct H
         end.
(* close a goal about cursor indices / stack heights from the accumulated facts *)
Ltac fin :=
  unfoldR; cbv beta in *; use_true; subst; stk_len;
  repeat match goal with
         | H : gext ?a ?b |- _ =>
             let H1 := fresh "Hi" in let H2 := fresh "Hd" in
             pose proof (gext_idx _ _ H) as H1; pose proof (gext_depth _ _ H) as H2; clear H
         end;
  unfold len, stack in *; repeat split; intros; subst; use_true; try discriminate; try congruence; try lia.


(* the same rules for a computation that is not followed by a bind (any continuation Q') *)
Lemma use_spec_q {A} d (m : PM A) R (s0 s : ST) (Q' : A -> ST -> Prop) :
  spec d m R -> okst d s0 -> gext s0 s ->
  (forall a s', gext s0 s' -> gext s s' -> R a (pos s) (stack s) (pos s') (stack s') -> Q' a s') ->
  post (m s) Q'.
Proof.
  intros F O E H. eapply post_mono; [apply F; eapply okst_gext; eauto|].
  intros a s' [E' HR]. apply H; auto. eapply gext_trans; eauto.
Qed.
Lemma use_build_match_q k start text (s0 s : ST) (Q' : unit -> ST -> Prop) :
  gext s0 s -> start <= len s -> ctor_check k (len s - start) = None ->
  (forall s', gext s0 s' -> gext s s' -> pos s' = pos s -> stack s' = firstn start (stack s) ++ [bm_node k text s start] -> len s' = S start -> Q' tt s') ->
  post (build_match k start text s) Q'.
Proof.
  intros G L C H. rewrite (build_match_ok _ _ _ _ L C). cbn [post].
  assert (G1 : gext s (mkState (pos s) (depth s) (mkPS (firstn start (stack s) ++ [bm_node k text s start]) (fname (user s)) (ticks (user s))))).
  { repeat split; cbn [pos depth user fname]; auto; apply (gext_wf _ _ G). }
  apply H; [eapply gext_trans; eauto|exact G1|reflexivity|reflexivity|].
  unfold len, stack in *. cbn [user stk]. rewrite app_length, firstn_length. cbn [List.length]. lia.
Qed.
Tactic Notation "gq" uconstr(F) :=
  eapply (use_spec_q _ _ _ _ _ _ F); [eassumption | pick_gext |
    let a := fresh "a" in let s := fresh "s" in let E0 := fresh "G0" in let E1 := fresh "G1" in let R := fresh "R" in
    intros a s E0 E1 R; cbv beta in R |- *; move E0 at bottom].
Ltac start := let s := fresh "s" in let Hs := fresh "Hs" in let Gr := fresh "Gr" in
              intros s Hs; pose proof (gext_refl s (proj1 Hs)) as Gr.
Ltac gbuild := eapply use_build_match; [pick_gext | try solve [fin] | try reflexivity |
                 let s := fresh "s" in let G0 := fresh "G0" in let G1 := fresh "G1" in let Bp := fresh "Bp" in let Bs := fresh "Bs" in let Bl := fresh "Bl" in
                 intros s G0 G1 Bp Bs Bl; clear Bs; cbv beta].

  (* build_match<K> whose constructor checks the number of children: n is that number *)
Ltac gbuildn n := eapply use_build_match; [pick_gext | solve [fin] |
                 match goal with |- ctor_check _ ?e = None => replace e with n by fin; reflexivity end |
                 let s := fresh "s" in let G0 := fresh "G0" in let G1 := fresh "G1" in let Bp := fresh "Bp" in let Bs := fresh "Bs" in let Bl := fresh "Bl" in
                 intros s G0 G1 Bp Bs Bl; clear Bs; cbv beta].

  (* entering a loop body: make the iteration's start state the reference state of the following steps *)
Ltac enter_iter sx Gx :=
  match goal with
  | Hs : okst ?d ?s |- _ =>
      let Ox := fresh "Ox" in let Grx := fresh "Grx" in
      assert (Ox : okst d sx) by (eapply okst_gext; [exact Hs|repeat (first [exact Gx | eassumption | eapply gext_trans; [eassumption|]])]);
      pose proof (gext_refl sx (proj1 Ox)) as Grx; clear Hs
  end.
Ltac iter_ret := apply post_ret; cbn [fst snd]; split; [assumption|]; split; [fin|fin].


Ltac gfin := split; [assumption|fin].
Ltac gbuildqn n := eapply use_build_match_q; [pick_gext | solve [fin] |
                 match goal with |- ctor_check _ ?e = None => replace e with n by fin; reflexivity end |
                 let s := fresh "s" in let G0 := fresh "G0" in let G1 := fresh "G1" in let Bp := fresh "Bp" in let Bs := fresh "Bs" in let Bl := fresh "Bl" in
                 intros s G0 G1 Bp Bs Bl; clear Bs; cbv beta].
(* build_match<Def|Method|Fun_Call>: at least one child *)
Ltac gbuildq_ge1 := eapply use_build_match_q; [pick_gext | solve [fin] |
                 match goal with |- ctor_check _ ?e = None => let E := fresh "E" in destruct e eqn:E; [exfalso; fin|reflexivity] end |
                 let s := fresh "s" in let G0 := fresh "G0" in let G1 := fresh "G1" in let Bp := fresh "Bp" in let Bs := fresh "Bs" in let Bl := fresh "Bl" in
                 intros s G0 G1 Bp Bs Bl; clear Bs; cbv beta].
Ltac gbuildq := eapply use_build_match_q; [pick_gext | try solve [fin] | try reflexivity |
                 let s := fresh "s" in let G0 := fresh "G0" in let G1 := fresh "G1" in let Bp := fresh "Bp" in let Bs := fresh "Bs" in let Bl := fresh "Bl" in
                 intros s G0 G1 Bp Bs Bl; clear Bs; cbv beta].

(* ------------------------------------------------------------------ side conditions on the regenerated tables (decidable; ParserTheorems
   checks them on Gen/G_OperatorTable.v by computation) *)
Definition used_kw : list (string * nat) :=
  [("Lambda", 0); ("Def", 0); ("Try", 0); ("Try", 1); ("Try", 2); ("If", 0); ("If", 1); ("Class", 0); ("While", 0); ("For", 0);
   ("Case", 0); ("Case", 1); ("Switch", 0); ("Return", 0); ("Break", 0); ("Continue", 0);
   ("Var_Decl", 0); ("Var_Decl", 1); ("Var_Decl", 2); ("Var_Decl", 3); ("Var_Decl", 4); ("Var_Decl", 5); ("Var_Decl", 6)]%string.
Definition nonempty (l : list N) : bool := negb (Nat.eqb (List.length l) 0).
(* every Keyword("...") the model looks up exists and is not the empty string *)
Definition kws_ok (G : gtables) : bool := forallb (fun e => nonempty (lookup_kw (g_kw G) (fst e) (snd e))) used_kw.
(* no symbol of a precedence group, of Equation or of Prefix is empty: a successful Symbol() consumes input *)
Definition symbols_nonempty (G : gtables) : bool :=
  forallb (forallb nonempty) (g_matches G) && forallb nonempty (g_equation G) && forallb nonempty (g_prefix G).
(* the ladder ends in Prefix and has no Prefix before: Operator(k) recurses exactly to k = length - 1 *)
Definition ladder_ok (G : gtables) : bool :=
  match rev (g_operators G) with
  | Prefix :: r => forallb (fun o => negb (op_prec_eqb o Prefix)) r
  | _ => false
  end.
(* no precedence level below Prefix is left without an action, and a level that builds a node builds one whose constructor
   accepts two children *)
Definition actions_ok (G : gtables) : bool :=
  forallb (fun o => op_prec_eqb o Prefix ||
                    match find (fun e => op_prec_eqb (fst e) o) (g_actions G) with
                    | Some (_, OA_Unreachable) | None => false
                    | Some (_, OA_Build k) => match ctor_check k 2 with None => true | Some _ => false end
                    | Some (_, OA_Ternary) => true
                    end) (g_operators G).
Definition tables_ok (G : gtables) : bool := kws_ok G && symbols_nonempty G && ladder_ok G && actions_ok G.

Lemma nonempty_ne l : nonempty l = true -> l <> [].
Proof. destruct l; [discriminate|congruence]. Qed.

Section GrammarProofs.
  Variable A : alphabets.
  Variable T : int_tables.
  Variable K : kw_tables.
  Variable G : gtables.
  Hypothesis id_sub_keyword : forall c, in_alpha (a_id A) c = true -> in_alpha (a_keyword A) c = true.
  Hypothesis Htables : tables_ok G = true.

  Lemma Htables4 : kws_ok G = true /\ symbols_nonempty G = true /\ ladder_ok G = true /\ actions_ok G = true.
  Proof.
    pose proof Htables as H. unfold tables_ok in H.
    apply andb_prop in H. destruct H as [H H4]. apply andb_prop in H. destruct H as [H H3]. apply andb_prop in H. destruct H as [H1 H2]. auto.
  Qed.
  Lemma Hkws : kws_ok G = true. Proof. apply Htables4. Qed.
  Lemma Hsyms : symbols_nonempty G = true. Proof. apply Htables4. Qed.
  Lemma Hladder : ladder_ok G = true. Proof. apply Htables4. Qed.
  Lemma Hactions : actions_ok G = true. Proof. apply Htables4. Qed.

  Lemma kw_ne fn i : In (fn, i) used_kw -> kw G fn i <> [].
  Proof.
    intros Hin. pose proof Hkws as H. unfold kws_ok in H. rewrite forallb_forall in H. specialize (H _ Hin). apply nonempty_ne, H.
  Qed.

  (* ---------------------------------------------------------------- lexer-level scanners as specs *)
  Lemma spec_SkipWS d sc : spec d (SkipWS A sc) Rkeep.
  Proof. eapply spec_weaken; [apply (fine_spec d _ (fun _ _ _ => True)), fine_SkipWS|]. unfold Rkeep. tauto. Qed.
  Lemma spec_Char d c : spec d (Char A c) Rlex.
  Proof. eapply spec_weaken; [apply (fine_spec d _ progress_if), fine_Char|]. unfold Rlex, progress_if. tauto. Qed.
  Lemma spec_Eol d : spec d (Eol A) Rlex.
  Proof. eapply spec_weaken; [apply (fine_spec d _ progress_if), fine_Eol|]. unfold Rlex, progress_if. tauto. Qed.
  Lemma spec_Eos d : spec d (Eos A) Rlex.
  Proof. eapply spec_weaken; [apply (fine_spec d _ progress_if), fine_Eos|]. unfold Rlex, progress_if. tauto. Qed.
  Lemma spec_Eol_just d : spec d (Eol A) (fun b p st p' st' => (b = true -> just_inc p p' eol_byte) /\ st' = st).
  Proof. apply (fine_spec d _ (fun b p p' => b = true -> just_inc p p' eol_byte)), fine_Eol_just. Qed.
  Lemma spec_Keyword d t : t <> [] -> spec d (Keyword A t) Rlex.
  Proof. intros H. eapply spec_weaken; [apply (fine_spec d _ progress_if), fine_Keyword_progress, H|]. unfold Rlex, progress_if. tauto. Qed.
  Lemma spec_kw d fn i : In (fn, i) used_kw -> spec d (Keyword A (kw G fn i)) Rlex.
  Proof. intros H. apply spec_Keyword, kw_ne, H. Qed.

  Lemma spec_Id d v : spec d (Id A K v) Ropt.
  Proof. apply (fine_spec d _ (fun o p p' => o <> None -> idx p < idx p')), fine_Id_strong; assumption. Qed.
  Lemma spec_Num d : spec d (Num A T) Ropt.
  Proof. apply (fine_spec d _ (fun o p p' => o <> None -> idx p < idx p')), fine_Num_strong. Qed.
  Lemma spec_Quoted_String d : spec d (Quoted_String A) Ropt.
  Proof. apply (fine_spec d _ (fun o p p' => o <> None -> idx p < idx p')), fine_Quoted_String_strong. Qed.
  Lemma spec_Single_Quoted_String d : spec d (Single_Quoted_String A) Ropt.
  Proof. apply (fine_spec d _ (fun o p p' => o <> None -> idx p < idx p')), fine_Single_Quoted_String_strong. Qed.

  (* while (Eol()) {} / while (Eos()) {} *)
  Lemma spec_eat (m : PM bool) d : spec d m Rlex -> spec d (loop (fun _ : unit => e <- m ;; ret (tt, e)) tt) Rkeep.
  Proof.
    intros Hm s Hs. eapply post_mono.
    - apply (spec_loop _ (fun _ sx => stack sx = stack s) s tt); [|apply Hs|reflexivity].
      intros [] sx Gx Jx. pose proof (okst_gext _ _ _ Hs Gx) as Ox. pose proof (gext_refl sx (proj1 Ox)) as Gr.
      gstep Hm. destruct R as [Rp Rs]. apply post_ret. cbn [fst snd]. split; [assumption|]. split; [congruence|exact Rp].
    - intros [] s' [Gs Js]. split; [exact Gs|]. exact Js.
  Qed.
  Lemma spec_eat_eols d : spec d (eat_eols A) Rkeep.
  Proof. apply spec_eat, spec_Eol. Qed.
  Lemma spec_eat_eoss d : spec d (eat_eoss A) Rkeep.
  Proof. apply spec_eat, spec_Eos. Qed.

  (* ---------------------------------------------------------------- Symbol *)
  Lemma fine_Symbol sym dp : fine (Symbol A G sym dp) (fun b s s' => b = true -> sym_at sym (pos s) (pos s')).
  Proof.
    set (P := fun (b : bool) (p p' : Position) => b = true -> sym_at sym p p').
    unfold Symbol. apply (fine_with_depth _ P). apply (fine_ws_then A _ P).
    2:{ unfold P. intros a p p' p'' L H Ha. destruct (H Ha) as (p1 & W1 & I1 & E1 & E2 & C1). exists p1. split; [exact W1|]. split; [lia|]. split; [exact E1|]. split; [exact E2|exact C1]. }
    intros s W. pose proof (ext_refl s W) as E. step_pos. step (fine_Symbol_ (U:=pstate) sym). step_pos.
    destruct a.
    - destruct R as ((Rp & Ri) & Rb).
      assert (Hyes : P true (pos s) (pos s0)).
      { intros _. exists (pos s). split; [exact W|]. split; [lia|]. split; [exact Rp|]. split; [exact Ri|exact Rb]. }
      ifd.
      + ifd.
        * done_ret. exact Hyes.
        * apply post_bind. simpl. split; [apply ext_intro; simpl; auto; exts|]. unfold P. discriminate.
      + done_ret. exact Hyes.
    - cbn [andb]. done_ret. unfold P. discriminate.
  Qed.
  Lemma spec_Symbol_at d sym dp : spec d (Symbol A G sym dp) (fun b p st p' st' => (b = true -> sym_at sym p p') /\ st' = st).
  Proof. apply (fine_spec d _ (fun b p p' => b = true -> sym_at sym p p')), fine_Symbol. Qed.
  Lemma spec_Symbol d sym dp : sym <> [] -> spec d (Symbol A G sym dp) Rlex.
  Proof.
    intros Hn. eapply spec_weaken; [apply spec_Symbol_at|]. intros b p st p' st' [H1 H2]. split; [|exact H2].
    intros Hb. destruct (H1 Hb) as (p1 & _ & I1 & _ & E2 & _). destruct sym; [contradiction|]. simpl in E2. lia.
  Qed.
  Lemma bos_ne s0 : s0 <> EmptyString -> bos s0 <> [].
  Proof. destruct s0; [contradiction|]. intros _. unfold bos. simpl. discriminate. Qed.

  (* ---------------------------------------------------------------- tokens onto the match stack *)
  Lemma spec_push_token d t : spec d (push_token t) (fun _ p st p' st' => p' = p /\ List.length st' = List.length st + 1).
  Proof.
    intros s Hs. pose proof (gext_refl s (proj1 Hs)) as Gr. destruct t as [text l1 c1 v|text l1 c1]; unfold push_token.
    - assert (Hc : spec d (const_of v) (fun _ p st p' st' => p' = p /\ st' = st)).
      { destruct v; cbn [const_of]; try (eapply spec_weaken; [apply spec_ret|]; intros ? ? ? ? ? (? & ? & _); auto).
        - intros sx Hx. pose proof (gext_refl sx (proj1 Hx)) as Gx. gstep (spec_get_fname d). destruct R as [Rp Rs]. gdone. auto.
        - intros sx Hx. pose proof (gext_refl sx (proj1 Hx)) as Gx. gstep (spec_get_stack d). destruct R as (Rp & Rs & _). gdone. auto.
        - intros sx Hx. pose proof (gext_refl sx (proj1 Hx)) as Gx. gstep (spec_get_stack d). destruct R as (Rp & Rs & _). gdone. auto. }
      gstep Hc. destruct R as [Rp Rs]. gstep (spec_make_node d KConstant (sob text) l1 c1 (Some a)). destruct R as (Rp0 & Rs0 & _).
      eapply post_mono; [apply (spec_push d a0); eapply okst_gext; eauto|]. intros [] s' [G' [Rp1 Rs1]].
      split; [eapply gext_trans; eauto|]. split; [congruence|]. rewrite Rs1, app_length, Rs0, Rs. simpl. reflexivity.
    - gstep (spec_make_node d KId (sob text) l1 c1 None). destruct R as (Rp0 & Rs0 & _).
      eapply post_mono; [apply (spec_push d a); eapply okst_gext; eauto|]. intros [] s' [G' [Rp1 Rs1]].
      split; [eapply gext_trans; eauto|]. split; [congruence|]. rewrite Rs1, app_length, Rs0. simpl. reflexivity.
  Qed.
  Lemma spec_push_opt d o :
    spec d (push_opt o) (fun b p st p' st' => p' = p /\ b = (match o with Some _ => true | None => false end) /\
                                              List.length st' = List.length st + (if b then 1 else 0)).
  Proof.
    intros s Hs. pose proof (gext_refl s (proj1 Hs)) as Gr. destruct o as [t|]; unfold push_opt.
    - gstep (spec_push_token d t). destruct R as [Rp Rs]. gdone. auto.
    - gdone. repeat split; auto; lia.
  Qed.
  Lemma spec_tok_g d (m : PM (option token)) : spec d m Ropt -> spec d (t <- m ;; push_opt t) Rexpr.
  Proof.
    intros Hm s Hs. pose proof (gext_refl s (proj1 Hs)) as Gr. gstep Hm. destruct R as [Rp Rs].
    eapply post_mono; [apply (spec_push_opt d a); eapply okst_gext; eauto|]. intros b s' [G' (Rp1 & Rb & Rl)].
    split; [eapply gext_trans; eauto|]. split.
    - intros ->. destruct a; [|discriminate]. rewrite Rp1. apply Rp. discriminate.
    - rewrite Rl, Rs. reflexivity.
  Qed.
  Lemma spec_Id_g d v : spec d (Id_g A K v) Rexpr.
  Proof. apply spec_tok_g, spec_Id. Qed.
  Lemma spec_Num_g d : spec d (Num_g A T) Rexpr.
  Proof. apply spec_tok_g, spec_Num. Qed.
  Lemma spec_Single_Quoted_String_g d : spec d (Single_Quoted_String_g A) Rexpr.
  Proof. apply spec_tok_g, spec_Single_Quoted_String. Qed.

  (* ---------------------------------------------------------------- the non-recursive grammar functions *)
  Lemma spec_Arg d ta : spec d (Arg A K ta) Rexpr.
  Proof.
    start. unfold Arg.
    gstep (spec_stack_size d). gstep (spec_SkipWS d false). gstep (spec_Id_g d true). destruct a1.
    - gstep (spec_SkipWS d false). destruct ta.
      + gstep (spec_Id_g d true). gbuild. gdone. fin.
      + gstep (spec_ret d false). gbuild. gdone. fin.
    - gdone. fin.
  Qed.

  Lemma spec_comma_items d item reason : spec d item Rexpr -> spec d (comma_items A item reason) Rup.
  Proof.
    intros Hi. start. unfold comma_items. gstep (spec_eat_eols d).
    eapply post_mono.
    - apply (spec_loop _ (fun _ sx => len s <= len sx) s0 tt); [|eapply gext_wf; eassumption|fin].
      intros [] sx Gx Jx. cbv beta in Jx. enter_iter sx Gx.
      gstep (spec_Char d 44%N). destruct a0.
      + gstep (spec_eat_eols d). gstep Hi. gstep (spec_unless d a1 reason). iter_ret.
      + iter_ret.
    - intros [] s' [Gl Jl]. split; [eapply gext_trans; eauto|]. unfold Rup. fin.
  Qed.

  Lemma spec_arg_list_of d item : spec (S d) item Rexpr -> spec d (arg_list_of A item) Rone.
  Proof.
    intros Hi. unfold arg_list_of. apply spec_with_depth. start.
    gstep (spec_SkipWS (S d) true). gstep (spec_stack_size (S d)). gstep Hi. destruct a1.
    - gstep (spec_comma_items (S d) item "Unexpected value in parameter list" Hi). unfold Rup in R2.
      gbuild. gstep (spec_SkipWS (S d) true). gdone. fin.
    - gstep (spec_ret (S d) tt). gbuild. gstep (spec_SkipWS (S d) true). gdone. fin.
  Qed.
  Lemma spec_Id_Arg_List d : spec d (Id_Arg_List A K) Rone.
  Proof. apply spec_arg_list_of, spec_Arg. Qed.
  Lemma spec_Decl_Arg_List d : spec d (Decl_Arg_List A K) Rone.
  Proof. apply spec_arg_list_of, spec_Arg. Qed.

  Lemma spec_Reference d : spec d (Reference A K G) Rexpr.
  Proof.
    unfold Reference. apply spec_with_depth. start.
    gstep (spec_stack_size (S d)). gstep (spec_Symbol (S d) (bos "&") false ltac:(discriminate)). destruct a0.
    - gstep (spec_Id_g (S d) true). gstep (spec_unless (S d) _ _). gbuildn 1. gdone. fin.
    - gdone. fin.
  Qed.

  Lemma spec_keyword_node d fn k : In (fn, 0) used_kw -> ctor_check k 0 = None -> spec d (keyword_node A G fn k) Rexpr.
  Proof.
    intros Hin Hc. unfold keyword_node. apply spec_with_depth. start.
    gstep (spec_stack_size (S d)). gstep (spec_kw (S d) fn 0 Hin). destruct a0.
    - eapply use_build_match; [eassumption|fin| |].
      + replace (len s1 - a) with 0 by fin. exact Hc.
      + intros s2 G4 G5 Bp _ Bl. cbv beta. gdone. fin.
    - gdone. fin.
  Qed.
  Lemma spec_Break d : spec d (Break A G) Rexpr.
  Proof. apply spec_keyword_node; [simpl; tauto|reflexivity]. Qed.
  Lemma spec_Continue d : spec d (Continue A G) Rexpr.
  Proof. apply spec_keyword_node; [simpl; tauto|reflexivity]. Qed.

  Lemma spec_class_id_node d cn : spec d (class_id_node cn) (fun _ p st p' st' => p' = p /\ List.length st' = List.length st + 1).
  Proof.
    start. unfold class_id_node. gstep (spec_get_pos d). gstep (spec_make_node d KId cn (line a) (col a) None).
    eapply post_mono; [apply (spec_push d a0); eapply okst_gext; eauto|]. intros [] s' [G' [Rp1 Rs1]].
    split; [eapply gext_trans; eauto|]. destruct R as (? & ? & ?). destruct R0 as (? & ? & ?).
    split; [congruence|]. rewrite Rs1, app_length. simpl. congruence.
  Qed.

  Lemma spec_ret_false d : spec d (ret false) Rlex.
  Proof. start. gdone. fin. Qed.
  Lemma spec_or d (m1 m2 : PM bool) : spec d m1 Rlex -> spec d m2 Rlex -> spec d (a <- m1 ;; if a then ret true else m2) Rlex.
  Proof.
    intros H1 H2. start. gstep H1. destruct a.
    - gdone. fin.
    - gtail H2. fin.
  Qed.
  Lemma Rlex_Rexpr_Rgrow d (m : PM bool) : spec d m Rlex \/ spec d m Rexpr -> spec d m Rgrow.
  Proof. intros [H|H]; eapply spec_weaken; try exact H; intros; fin. Qed.

  Lemma spec_Var_Decl d cc cn : spec d (Var_Decl A K G cc cn) Rexpr.
  Proof.
    unfold Var_Decl. apply spec_with_depth. start.
    gstep (spec_stack_size (S d)).
    assert (H1 : spec (S d) (if cc then
               a <- Keyword A (kw G "Var_Decl" 0) ;;
               if a then ret true else b <- Keyword A (kw G "Var_Decl" 1) ;; if b then ret true else Keyword A (kw G "Var_Decl" 2)
             else ret false) Rlex).
    { destruct cc; [|apply spec_ret_false]. apply spec_or; [apply spec_kw; simpl; tauto|]. apply spec_or; apply spec_kw; simpl; tauto. }
    gstep H1. destruct a0.
    { gstep (spec_class_id_node (S d) cn). gstep (spec_Id_g (S d) true). gstep (spec_unless (S d) _ _).
      gbuild. gdone. fin. }
    assert (H2 : spec (S d) (a <- Keyword A (kw G "Var_Decl" 3) ;; if a then ret true else Keyword A (kw G "Var_Decl" 4)) Rlex).
    { apply spec_or; apply spec_kw; simpl; tauto. }
    gstep H2. destruct a0.
    { gstep (spec_Reference (S d)). destruct a0; [gdone; fin|].
      gstep (spec_Id_g (S d) true). destruct a0; [|exact I]. gbuild. gdone. fin. }
    gstep (spec_kw (S d) "Var_Decl" 5 ltac:(simpl; tauto)). destruct a0.
    { gstep (spec_Reference (S d)). destruct a0.
      - gstep (spec_ret (S d) true). gstep (spec_unless (S d) _ _). gbuild. gdone. fin.
      - gstep (spec_Id_g (S d) true). gstep (spec_unless (S d) _ _). gbuild. gdone. fin. }
    gstep (spec_kw (S d) "Var_Decl" 6 ltac:(simpl; tauto)). destruct a0.
    { gstep (spec_Id_g (S d) true). gstep (spec_unless (S d) _ _).
      gstep (spec_Symbol (S d) (bos "::") false ltac:(discriminate)). gstep (spec_unless (S d) _ _).
      gstep (spec_Id_g (S d) true). gstep (spec_unless (S d) _ _). gbuild. gdone. fin. }
    gdone. fin.
  Qed.

  (* Operator_Helper *)
  Lemma spec_first_symbol d syms : forallb nonempty syms = true -> spec d (first_symbol A G syms) Ropt.
  Proof.
    induction syms as [|e r IH]; intros Hn; simpl in Hn |- *.
    - start. gdone. unfold Ropt. split; [congruence|reflexivity].
    - apply andb_prop in Hn. destruct Hn as [He Hr]. start.
      gstep (spec_Symbol d e false (nonempty_ne _ He)). destruct a.
      + gdone. fin.
      + gtail (IH Hr). fin.
  Qed.
  Lemma spec_Operator_Helper d prec : spec d (Operator_Helper A G prec) Ropt.
  Proof.
    unfold Operator_Helper. destruct (nth_error (g_matches G) prec) as [grp|] eqn:E.
    - apply spec_first_symbol. pose proof Hsyms as H. unfold symbols_nonempty in H.
      apply andb_prop in H. destruct H as [H _]. apply andb_prop in H. destruct H as [H _].
      rewrite forallb_forall in H. apply H. eapply nth_error_In; eauto.
    - start. gdone. unfold Ropt. split; [congruence|reflexivity].
  Qed.

  Lemma spec_method_call_fixup d : spec d method_call_fixup (fun _ p st p' st' => p' = p /\ List.length st' = List.length st).
  Proof.
    start. unfold method_call_fixup. gstep (spec_get_stack d). destruct R as (Rp & Rs & Ra). subst a.
    assert (Hrev : List.length (rev (stack s)) = List.length (stack s)) by apply rev_length.
    destruct (rev (stack s)) as [|f below] eqn:Er; [gdone; split; congruence|].
    destruct f as [fk ft fl ff fc fch]. destruct fch as [|dn frest]; [gdone; split; congruence|].
    destruct dn as [dk dt dl df dc dch].
    destruct dk; try (gdone; split; congruence).
    destruct (rev dch) as [|dlast dinit_rev]; [exact I|].
    match goal with |- context [if ?c then _ else _] => destruct c end; [|exact I].
    eapply post_mono; [apply (spec_set_stack d); eapply okst_gext; eauto|]. intros [] s' [G' [Rp1 Rs1]].
    split; [eapply gext_trans; eauto|]. split; [congruence|]. rewrite Rs1, app_length, rev_length. simpl in Hrev |- *. lia.
  Qed.

  Lemma spec_any_of d l : Forall (fun m => spec d m Rgrow) l -> spec d (any_of l) Rgrow.
  Proof.
    induction 1 as [|m r Hm Hr IH]; unfold any_of; cbn [fold_right].
    - start. gdone. fin.
    - fold (any_of r). start. gstep Hm. destruct a.
      + gdone. fin.
      + gtail IH. fin.
  Qed.
End GrammarProofs.
