(* C06 / C07 — model of ChaiScript's unboxing (boxed_cast), overload dispatch and registration order,
   and the specification the property theorems and the oracle use.
   Total computable Gallina only; proofs live in DispatchProofs.v.

   Sources modelled (include/chaiscript/dispatchkit): boxed_cast_helper.hpp (Cast_Helper_Inner and the verify_type functions),
   boxed_cast.hpp, boxed_value.hpp (Data, Object_Data::get), type_conversions.hpp, proxy_functions.hpp
   (Proxy_Function_Base::operator(), filter, compare_type_to_param, Param_Types, Dynamic_Proxy_Function,
   Attribute_Access, dispatch, dispatch_with_conversions), proxy_functions_detail.hpp (call_func),
   dispatchkit.hpp (function_less_than, add_function, Dispatch_Function), boxed_number.hpp (Cast_Helper<Boxed_Number>),
   function_call.hpp (Cast_Helper<std::function<..>>).
   Everything that the translator t_CastRules.py reads from the source is a field of [rules]. *)
From Coq Require Import ZArith List Bool Arith Lia.
Import ListNotations.

(* ------------------------------------------------------------------------------------------ *)
(** * Vocabulary of the regenerated tables *)

(* the parameter / result forms for which Cast_Helper_Inner is specialised, plus the two Cast_Helper overrides *)
Inductive form :=
  | FVal | FCVal | FCPtr | FPtr | FPtrCRef | FCPtrCRef | FCRef | FRef | FRRef
  | FUniqRRef | FUniqRef | FUniqCRef
  | FSh | FShC | FCSh | FShCRef | FShRef | FCShC | FShCCRef
  | FBV | FBVRef | FCBV | FBVCRef
  | FRw | FCRw | FRwCRef | FRwC | FCRwC | FRwCCRef
  | FBN   (* Boxed_Number / const Boxed_Number / const Boxed_Number & : Cast_Helper<Boxed_Number> *)
  | FFn.  (* std::function<Sig> / const std::function<Sig> [&] : Cast_Helper<std::function<Sig>> *)
Scheme Equality for form.

Inductive verify := VThrow | VNoThrow.            (* verify_type / verify_type_no_throw *)
Inductive accessor := AGetPtr | AGetConstPtr.      (* ob.get_ptr() : void* / ob.get_const_ptr() : const void* *)
Inductive deref := DValue | DRef | DPtr | DMove.   (* what cast() does with the verified pointer *)
Inductive anyty := AnyShared | AnyUnique.          (* ob.get().cast<std::shared_ptr<Result>> / <std::shared_ptr<std::unique_ptr<Result>>> *)
Inductive cmp := CmpBare | CmpType.                (* bare_equal_type_info(ti) / get_type_info() == ti *)
Record vrule := mkvrule { vr_nonconst : bool; vr_cmp : cmp; vr_nullthrow : bool }.
Inductive crule :=
  | RInherit (f : form)
  | RVerify (v : verify) (a : accessor) (d : deref) (mutres : bool)
  | RAny (t : anyty)
  | RAnySplit                                      (* shared_ptr<const Result>: by the box's const flag *)
  | RSelf (constcast : bool).                      (* the Boxed_Value itself *)
Inductive direct_cond := DcNoConversions | DcBareEqual | DcNotConvertible.
Inductive catch_kind := CatchBadAny | CatchAll | CatchBadCast.   (* bad_any_cast / ... / exception::bad_boxed_cast (and classes derived from it) *)
Inductive ctp_cond := CtUndefParam | CtBoxedValue | CtBoxedNumberArith | CtBareEqual | CtArgIsFunction | CtConverts | CtAlways.
Inductive retry_class := RcBadCast | RcArity | RcGuard | RcAnyStd | RcAnything.

Record rules := mkrules {
  r_verify : list (verify * bool * vrule);
  r_cast : list (form * crule);
  r_null_when_const : bool;
  r_direct_when : list direct_cond;
  r_direct_catch : catch_kind;
  r_up_catch : catch_kind;
  r_down_catch : catch_kind;
  r_arity_check : bool;
  r_ctp : list ctp_cond;
  r_dispatch_retry : list retry_class;
  r_dwc_retry : list retry_class;
  r_attr_nullcheck : bool;     (* Attribute_Access::do_call passes the object pointer through throw_if_null *)
  r_dwc_only_converted : bool;     (* dispatch_with_conversions calls the chosen overload only if it converted an argument *)
  r_flt_start : nat;               (* function_less_than: first slot of get_param_types() it compares (slot 0 is the return type) *)
  r_sentinel_mut : bool;           (* Boxed_Value::pointer_sentinel: ~Sentinel refreshes m_data_ptr from the (re-seated) shared_ptr *)
  r_sentinel_const : bool }.       (* ... and m_const_data_ptr *)

(* ------------------------------------------------------------------------------------------ *)
(** * Types, boxes, received values *)

Definition tyid := nat.
Definition T_BV : tyid := 0.     (* Boxed_Value *)
Definition T_BN : tyid := 1.     (* Boxed_Number *)
Definition T_FUN : tyid := 2.    (* dispatch::Proxy_Function_Base *)

(* chaiscript::Type_Info of a parameter *)
Record tinfo := mkti {
  ti_bare : tyid; ti_const : bool; ti_arith : bool; ti_undef : bool;
  ti_fullbare : bool;   (* typeid(full type) == typeid(bare type): true for T, const T, T&, const T&, T&& *)
  ti_rank : nat }.      (* position of the full type in std::type_info::before order (input table) *)
Record param := mkparam { p_ti : tinfo; p_form : form; p_fnar : Z (* arity of Sig for FFn *) }.
Definition p_bare (p : param) : tyid := ti_bare (p_ti p).

(* identity of the C++ object a box or a received value refers to *)
Inductive ident := IdObj (n : nat) | IdArith (src : ident) | IdConv (uid : nat) (src : ident).
Fixpoint ident_eqb (a b : ident) : bool :=
  match a, b with
  | IdObj n, IdObj m => Nat.eqb n m
  | IdArith x, IdArith y => ident_eqb x y
  | IdConv u x, IdConv v y => Nat.eqb u v && ident_eqb x y
  | _, _ => false
  end.

Inductive pay :=
  | PZ (z : Z)                       (* arithmetic / bool / string tag; a double carries twice its value *)
  | PObj (dyn : tyid) (tag : Z)      (* class object: dynamic type and a field *)
  | PVec (elems : list (tyid * Z))   (* std::vector<Boxed_Value>: element types and values *)
  | PFn (arity : Z) (k : nat)        (* function object *)
  | PNone.
Fixpoint elems_eqb (a b : list (tyid * Z)) : bool :=
  match a, b with
  | [], [] => true
  | (t, z) :: a', (u, w) :: b' => Nat.eqb t u && Z.eqb z w && elems_eqb a' b'
  | _, _ => false
  end.
Definition pay_eqb (a b : pay) : bool :=
  match a, b with
  | PZ x, PZ y => Z.eqb x y
  | PObj d x, PObj e y => Nat.eqb d e && Z.eqb x y
  | PVec x, PVec y => elems_eqb x y
  | PFn x k, PFn y l => Z.eqb x y && Nat.eqb k l
  | PNone, PNone => true
  | _, _ => false
  end.

(* what the Any inside Boxed_Value::Data holds (Object_Data::get): shared_ptr<[const] T>, reference_wrapper<[const] T>,
   shared_ptr<unique_ptr<T>>, nothing; the const is the box's const flag *)
Inductive stor := SShared | SRef | SUnique | SEmpty.
Record box := mkbox {
  b_ty : tyid; b_const : bool; b_arith : bool; b_undef : bool; b_stor : stor; b_null : bool;
  b_id : ident; b_pay : pay; b_ret : bool }.

(* how a C++ parameter (or the caller of boxed_cast) holds what it received *)
Inductive access := AcCopy | AcConst | AcMut | AcHandle.
Scheme Equality for access.
Record recv := mkrecv { r_ty : tyid; r_id : ident; r_pay : pay; r_acc : access; r_isnull : bool; r_hconst : bool }.
Definition recv_eqb (a b : recv) : bool :=
  Nat.eqb (r_ty a) (r_ty b) && ident_eqb (r_id a) (r_id b) && pay_eqb (r_pay a) (r_pay b) && access_beq (r_acc a) (r_acc b)
  && Bool.eqb (r_isnull a) (r_isnull b) && Bool.eqb (r_hconst a) (r_hconst b).
Definition handle_of (b : box) : recv := mkrecv (b_ty b) (b_id b) (b_pay b) AcHandle (b_null b) (b_const b).

(* error classes; ECrash = undefined behaviour reached, EStuck = the model has no rule (table incomplete) *)
Inductive eclass := EBadCast | EArity | EGuard | EDispatch | ENull | EBody | EBadAny | ECrash | EStuck.
Scheme Equality for eclass.

(* ------------------------------------------------------------------------------------------ *)
(** * Environment: conversions, arithmetic kinds, user functions, bodies *)

Inductive ckind := CDyn | CStatic | CUser (uid : nat).
Record conv := mkconv { cv_to : tyid; cv_from : tyid; cv_kind : ckind }.
Definition cv_bidir (c : conv) : bool := match cv_kind c with CDyn => true | _ => false end.
Definition cv_base (c : conv) : bool := match cv_kind c with CUser _ => false | _ => true end.

Inductive akind := AkInt (bits : Z) (signed : bool) | AkDouble | AkNone.

Record env := mkenv {
  e_convs : list conv;
  e_akind : tyid -> akind;
  e_ufun : nat -> pay -> option pay;     (* user conversion functions: None = the function throws *)
  e_guard : nat -> list box -> bool;     (* guards of script functions *)
  e_body : nat -> option eclass;         (* what a function body does once entered: None = returns *)
  e_rtl : bool }.                        (* the compiler evaluates call arguments right to left *)

Definition convertible (cs : list conv) (t : tyid) : bool :=
  existsb (fun c => Nat.eqb (cv_to c) t || Nat.eqb (cv_from c) t) cs.
Definition has_conversion (cs : list conv) (to from : tyid) : bool :=
  existsb (fun c => (Nat.eqb (cv_to c) to && Nat.eqb (cv_from c) from)
                    || (cv_bidir c && Nat.eqb (cv_from c) to && Nat.eqb (cv_to c) from)) cs.
Definition converts (cs : list conv) (to from : tyid) : bool :=
  convertible cs to && convertible cs from && has_conversion cs to from.
Definition get_conversion (cs : list conv) (to from : tyid) : option conv :=
  find (fun c => Nat.eqb (cv_to c) to && Nat.eqb (cv_from c) from) cs.
(* dynamic type d is-a t (one inheritance level is all the catalogue has) *)
Definition isa (cs : list conv) (d t : tyid) : bool :=
  Nat.eqb d t || existsb (fun c => cv_base c && Nat.eqb (cv_to c) t && Nat.eqb (cv_from c) d) cs.

(* C++ arithmetic conversion static_cast<To>(from); double->integer out of range is undefined in C++ and
   not exercised (the generator keeps doubles small) *)
Definition wrap (bits : Z) (signed : bool) (z : Z) : Z :=
  let m := (2 ^ bits)%Z in
  let r := (z mod m)%Z in
  if signed && (2 ^ (bits - 1) <=? r)%Z then (r - m)%Z else r.
Definition arith_convert (kt kf : akind) (z : Z) : Z :=
  match kt, kf with
  | AkInt b s, AkInt _ _ => wrap b s z
  | AkInt b s, AkDouble => wrap b s (Z.quot z 2)
  | AkDouble, AkInt _ _ => (2 * z)%Z
  | _, _ => z
  end.
Definition pay_z (p : pay) : Z := match p with PZ z => z | _ => 0%Z end.
(* copying a class object into a by-value parameter of type t slices it to t *)
Definition slice (t : tyid) (p : pay) : pay := match p with PObj _ tag => PObj t tag | x => x end.

(* ------------------------------------------------------------------------------------------ *)
(** * Cast_Helper_Inner<Form>::cast by the regenerated rule *)

Inductive dres := DOk (r : recv) | DThrow (e : eclass).

Fixpoint lookup_rule (tbl : list (form * crule)) (f : form) : option crule :=
  match tbl with
  | [] => None
  | (g, r) :: t => if form_beq f g then Some r else lookup_rule t f
  end.
Fixpoint resolve (fuel : nat) (tbl : list (form * crule)) (f : form) : option crule :=
  match fuel with
  | O => None
  | S k => match lookup_rule tbl f with
           | Some (RInherit g) => resolve k tbl g
           | x => x
           end
  end.
Definition verify_eqb (a b : verify) : bool := match a, b with VThrow, VThrow | VNoThrow, VNoThrow => true | _, _ => false end.
Fixpoint lookup_vrule (vt : list (verify * bool * vrule)) (v : verify) (cptr : bool) : option vrule :=
  match vt with
  | [] => None
  | (w, c, r) :: t => if verify_eqb v w && Bool.eqb c cptr then Some r else lookup_vrule t v cptr
  end.
Definition acc_const (a : accessor) : bool := match a with AGetPtr => false | AGetConstPtr => true end.
(* the pointer the accessor yields is null *)
Definition ptr_null (R : rules) (a : accessor) (b : box) : bool :=
  match a with
  | AGetPtr => (r_null_when_const R && b_const b) || b_null b
  | AGetConstPtr => b_null b
  end.
(* Any::cast<ToType> is exact on the held type *)
Definition any_holds (b : box) (s : stor) (target : tyid) (c : bool) : bool :=
  negb (b_undef b) && Nat.eqb (b_ty b) target && Bool.eqb (b_const b) c
  && match b_stor b, s with SShared, SShared | SUnique, SUnique => true | _, _ => false end.

Definition eval_crule (R : rules) (r : crule) (target : tyid) (b : box) : dres :=
  match r with
  | RInherit _ => DThrow EStuck
  | RVerify v a d m =>
      match lookup_vrule (r_verify R) v (acc_const a) with
      | None => DThrow EStuck
      | Some vr =>
          (* both comparisons need a defined box whose (bare = full) type is the requested one *)
          if (vr_nonconst vr && b_const b) || b_undef b || negb (Nat.eqb (b_ty b) target) then DThrow EBadAny
          else if vr_nullthrow vr && ptr_null R a b then DThrow ENull
          else
            let isnull := ptr_null R a b in
            let acc := if m then AcMut else AcConst in
            match d with
            | DPtr => DOk (mkrecv target (b_id b) (b_pay b) acc isnull false)
            | DValue => if isnull then DThrow ECrash else DOk (mkrecv target (b_id b) (slice target (b_pay b)) AcCopy false false)
            | DRef | DMove => if isnull then DThrow ECrash else DOk (mkrecv target (b_id b) (b_pay b) acc false false)
            end
      end
  | RAny AnyShared =>
      if any_holds b SShared target false then DOk (mkrecv target (b_id b) (b_pay b) AcMut (b_null b) false) else DThrow EBadAny
  | RAny AnyUnique =>
      if any_holds b SUnique target false then DOk (mkrecv target (b_id b) (b_pay b) AcMut (b_null b) false) else DThrow EBadAny
  | RAnySplit =>
      if any_holds b SShared target (b_const b) then DOk (mkrecv target (b_id b) (b_pay b) AcConst (b_null b) false) else DThrow EBadAny
  | RSelf _ => DOk (handle_of b)
  end.

Definition inner_cast (R : rules) (f : form) (target : tyid) (b : box) : dres :=
  match resolve 8 (r_cast R) f with
  | Some r => eval_crule R r target b
  | None => DThrow EStuck
  end.

(* Cast_Helper<T>::cast : the two overrides, else Cast_Helper_Inner *)
Definition cast_helper (R : rules) (p : param) (b : box) : dres :=
  match p_form p with
  | FBN => if b_arith b && negb (b_undef b) then DOk (handle_of b) else DThrow EBadAny
  | FFn =>
      if negb (b_undef b) && Nat.eqb (b_ty b) T_FUN then
        (* dispatch::functor: boxed_cast<Const_Proxy_Function>, then the arity test *)
        match inner_cast R FShC T_FUN b with
        | DOk _ =>
            match b_pay b with
            | PFn ar _ => if (ar <? 0)%Z || (ar =? p_fnar p)%Z then DOk (handle_of b) else DThrow EBadCast
            | _ => DThrow EStuck
            end
        | DThrow EBadAny => DThrow EBadCast
        | DThrow e => DThrow e
        end
      else inner_cast R FVal (p_bare p) b
  | f => inner_cast R f (p_bare p) b
  end.

(* ------------------------------------------------------------------------------------------ *)
(** * Registered conversions applied to a box (Static_Caster / Dynamic_Caster / Type_Conversion_Impl) *)

Definition is_exception (e : eclass) : bool := match e with ECrash | EStuck => false | _ => true end.
(* boxed_type_conversion / boxed_type_down_conversion turn std::bad_cast (bad_any_cast, bad_boxed_cast) into
   bad_boxed_dynamic_cast, itself a bad_boxed_cast; everything else passes through *)
Definition through_conversion (e : eclass) : eclass := match e with EBadAny => EBadCast | x => x end.

Definition is_pointer_box (b : box) : bool := match b_stor b with SRef | SUnique => false | _ => true end.

(* Static_Caster<From,To>::cast / Dynamic_Caster (checked = dynamic_cast) *)
Definition base_cast (R : rules) (cs : list conv) (from to : tyid) (checked : bool) (b : box) : box + eclass :=
  let ok := if checked then match b_pay b with PObj d _ => isa cs d to | _ => false end else true in
  if is_pointer_box b then
    match inner_cast R (if b_const b then FShC else FSh) from b with
    | DOk r => if r_isnull r || negb ok then inr EBadCast
               else inl (mkbox to (b_const b) false false SShared false (b_id b) (b_pay b) false)
    | DThrow e => inr (through_conversion e)
    end
  else
    match inner_cast R (if b_const b then FCRef else FRef) from b with
    | DOk r => if negb ok then inr EBadCast else inl (mkbox to (b_const b) false false SRef false (b_id b) (b_pay b) false)
    | DThrow e => inr (through_conversion e)
    end.

Definition is_arith_kind (k : akind) : bool := match k with AkNone => false | _ => true end.

(* boxed_type_conversion(to, from-box) *)
Definition conv_up (R : rules) (E : env) (to : tyid) (b : box) : box + eclass :=
  if b_undef b then inr EBadCast else
  match get_conversion (e_convs E) to (b_ty b) with
  | None => inr EBadCast
  | Some c =>
      match cv_kind c with
      | CDyn | CStatic => base_cast R (e_convs E) (cv_from c) (cv_to c) false b
      | CUser uid =>
          match inner_cast R FCRef (cv_from c) b with
          | DOk _ =>
              match e_ufun E uid (b_pay b) with
              | Some p' => inl (mkbox to false (is_arith_kind (e_akind E to)) false SShared false (IdConv uid (b_id b)) p' false)
              | None => inr EBadCast
              end
          | DThrow e => inr (through_conversion e)
          end
      end
  end.
(* boxed_type_down_conversion(from = requested type, to-box) *)
Definition conv_down (R : rules) (E : env) (want : tyid) (b : box) : box + eclass :=
  if b_undef b then inr EBadCast else
  match get_conversion (e_convs E) (b_ty b) want with
  | None => inr EBadCast
  | Some c =>
      match cv_kind c with
      | CDyn => base_cast R (e_convs E) (cv_to c) (cv_from c) true b
      | _ => inr EBadCast
      end
  end.

(* ------------------------------------------------------------------------------------------ *)
(** * boxed_cast<Type>(bv, &conversions) *)

Inductive cres := COk (r : recv) | CErr (e : eclass).
Definition catches (c : catch_kind) (e : eclass) : bool :=
  match c with
  | CatchAll => is_exception e
  | CatchBadAny => match e with EBadAny => true | _ => false end
  | CatchBadCast => match e with EBadCast => true | _ => false end
  end.
Definition on_box (R : rules) (p : param) (x : box + eclass) : dres :=
  match x with inl b' => cast_helper R p b' | inr e => DThrow e end.

Definition boxed_cast_gen (R : rules) (E : env) (wc : bool) (p : param) (b : box) : cres :=
  let t := p_bare p in
  let convt := convertible (e_convs E) t in
  let direct_on := existsb (fun c => match c with
                                     | DcNoConversions => negb wc
                                     | DcBareEqual => negb (b_undef b) && Nat.eqb (b_ty b) t
                                     | DcNotConvertible => wc && negb convt
                                     end) (r_direct_when R) in
  let first := if direct_on then
                 match cast_helper R p b with
                 | DOk r => Some (COk r)
                 | DThrow e => if catches (r_direct_catch R) e then None else Some (CErr e)
                 end
               else None in
  match first with
  | Some x => x
  | None =>
      if wc && convt then
        match on_box R p (conv_up R E t b) with
        | DOk r => COk r
        | DThrow e =>
            if catches (r_up_catch R) e then
              match on_box R p (conv_down R E t b) with
              | DOk r => COk r
              | DThrow e2 => if catches (r_down_catch R) e2 then CErr EBadCast else CErr e2
              end
            else CErr e
        end
      else CErr EBadCast
  end.

(* with the engine's conversions (dispatch, ChaiScript::boxed_cast, eval<T>) *)
Definition boxed_cast (R : rules) (E : env) (p : param) (b : box) : cres := boxed_cast_gen R E true p b.

(* Build_Function_Caller_Helper::call: the value a script function returned is handed to C++ as Ret *)
Definition call_out (R : rules) (E : env) (p : param) (b : box) : cres :=
  if ti_arith (p_ti p) then
    (* Boxed_Number(ret).get_as<Ret>() *)
    if b_arith b && negb (b_undef b) then
      if b_null b then CErr ECrash
      else COk (mkrecv (p_bare p) (IdArith (b_id b)) (PZ (arith_convert (e_akind E (p_bare p)) (e_akind E (b_ty b)) (pay_z (b_pay b)))) AcCopy false false)
    else CErr EBadAny
  else boxed_cast R E p b.

Definition form_handle_b (f : form) : bool := match f with FBV | FBVRef | FCBV | FBVCRef => true | _ => false end.

(* ------------------------------------------------------------------------------------------ *)
(** * Script variables over time: the three places Boxed_Value::Data keeps its object, and re-seating callees *)

(* Data holds the object in the Any (a shared_ptr for a value the script owns) and caches two raw pointers,
   m_data_ptr (read by get_ptr()) and m_const_data_ptr (read by get_const_ptr()). A C++ function whose parameter is
   std::shared_ptr<T>& receives a reference to the shared_ptr inside the Any (Boxed_Value::pointer_sentinel); it may
   re-seat it; when the call returns ~Sentinel copies the new raw pointer into the cached ones. *)
Record place := mkplace { pl_id : ident; pl_pay : pay; pl_null : bool }.
Definition place_eqb (a b : place) : bool :=
  ident_eqb (pl_id a) (pl_id b) && pay_eqb (pl_pay a) (pl_pay b) && Bool.eqb (pl_null a) (pl_null b).
Definition place_of (b : box) : place := mkplace (b_id b) (b_pay b) (b_null b).
Definition with_place (b : box) (pl : place) : box :=
  mkbox (b_ty b) (b_const b) (b_arith b) (b_undef b) (b_stor b) (pl_null pl) (pl_id pl) (pl_pay pl) (b_ret b).
Record vbox := mkvbox { v_box : box (* type, flags and what the Any holds *); v_m : place (* m_data_ptr *); v_c : place (* m_const_data_ptr *) }.
Definition vbox_of (b : box) : vbox := mkvbox b (place_of b) (place_of b).
(* all three places name the same object *)
Definition coherent (v : vbox) : bool := place_eqb (v_m v) (place_of (v_box v)) && place_eqb (v_c v) (place_of (v_box v)).

(* the box as seen from the place the Cast_Helper_Inner of form [f] reads *)
Definition view (R : rules) (f : form) (v : vbox) : box :=
  match resolve 8 (r_cast R) f with
  | Some (RVerify _ AGetPtr _ _) => with_place (v_box v) (v_m v)
  | Some (RVerify _ AGetConstPtr _ _) => with_place (v_box v) (v_c v)
  | _ => v_box v
  end.
(* one step of a history: the variable is passed to a callee taking std::shared_ptr<T>& which re-seats it to the
   (non-null) object [i] with content [py]; the cached pointers follow as the Sentinel destructor says *)
Definition reseat (R : rules) (v : vbox) (i : ident) (py : pay) : vbox + eclass :=
  match inner_cast R FShRef (b_ty (v_box v)) (v_box v) with
  | DOk _ =>
      let pl := mkplace i py false in
      inl (mkvbox (with_place (v_box v) pl) (if r_sentinel_mut R then pl else v_m v) (if r_sentinel_const R then pl else v_c v))
  | DThrow e => inr e
  end.
Fixpoint history (R : rules) (v : vbox) (h : list (ident * pay)) : vbox + eclass :=
  match h with
  | [] => inl v
  | (i, py) :: h' => match reseat R v i py with inl v' => history R v' h' | inr e => inr e end
  end.
(* boxed_cast<Param>(variable): a direct cast reads the place its form names; a registered conversion of a
   script-owned value goes through the Any (Static_Caster / Dynamic_Caster cast the shared_ptr) *)
Definition boxed_cast_v (R : rules) (E : env) (wc : bool) (p : param) (v : vbox) : cres :=
  let b := v_box v in
  if negb (b_undef b) && Nat.eqb (b_ty b) (p_bare p) then boxed_cast_gen R E wc p (view R (p_form p) v)
  else if form_handle_b (p_form p) || form_beq (p_form p) FBN
       then boxed_cast_gen R E wc p (with_place b (v_c v))    (* the box itself: its value is read later, through get_const_ptr() *)
       else boxed_cast_gen R E wc p b.

(* ------------------------------------------------------------------------------------------ *)
(** * Functions and calls *)

Inductive fkind :=
  | KNative                       (* Proxy_Function_Callable_Impl: call_func unboxes every argument *)
  | KDyn (named : list bool)      (* Dynamic_Proxy_Function: per parameter, whether it was declared with a type *)
  | KAttr.                        (* Attribute_Access<T, Class> *)
Record func := mkfunc {
  f_id : nat; f_arity : Z; f_params : list param; f_kind : fkind; f_guard : option nat;
  f_ret : tinfo }.                (* slot 0 of get_param_types(): the return type; only registration could look at it *)

Inductive event := Enter (fid : nat) (rs : list recv).
Record outcome := mkout { o_trace : list event; o_res : option eclass }.
Definition fail (e : eclass) : outcome := mkout [] (Some e).
Definition enter (E : env) (f : func) (rs : list recv) : outcome := mkout [Enter (f_id f) rs] (e_body E (f_id f)).

(* f(boxed_cast<Params>(params[I], &conv)...): all arguments are unboxed before the call; the first failure in
   the compiler's evaluation order is the exception that propagates *)
Fixpoint unbox_seq (R : rules) (E : env) (ps : list param) (args : list box) : list recv + eclass :=
  match ps, args with
  | [], [] => inl []
  | p :: ps', a :: args' =>
      match boxed_cast R E p a with
      | CErr e => inr e
      | COk r => match unbox_seq R E ps' args' with inl rs => inl (r :: rs) | inr e => inr e end
      end
  | _, _ => inr ECrash
  end.
(* right to left: the tail is unboxed first, its failure is the one that propagates *)
Fixpoint unbox_rtl (R : rules) (E : env) (ps : list param) (args : list box) : list recv + eclass :=
  match ps, args with
  | [], [] => inl []
  | p :: ps', a :: args' =>
      match unbox_rtl R E ps' args' with
      | inr e => inr e
      | inl rs => match boxed_cast R E p a with CErr e => inr e | COk r => inl (r :: rs) end
      end
  | _, _ => inr ECrash
  end.
Definition unbox_all (R : rules) (E : env) (ps : list param) (args : list box) : list recv + eclass :=
  if e_rtl E then unbox_rtl R E ps args else unbox_seq R E ps args.

(* Param_Types::match -> (is a match, needs conversions) *)
Fixpoint dyn_match (cs : list conv) (named : list bool) (ps : list param) (args : list box) : bool * bool :=
  match named, ps, args with
  | n :: named', p :: ps', a :: args' =>
      let '(m, c) := dyn_match cs named' ps' args' in
      if n then
        if ti_undef (p_ti p) then (false, false)
        else if negb (b_undef a) && Nat.eqb (b_ty a) (p_bare p) then (m, c)
        else if converts cs (p_bare p) (b_ty a) && negb (b_undef a) then (m, true) else (false, false)
      else (m, c)
  | _, _, _ => (true, false)
  end.
(* Param_Types::convert *)
Fixpoint dyn_convert (R : rules) (E : env) (named : list bool) (ps : list param) (args : list box) : list box + eclass :=
  match named, ps, args with
  | n :: named', p :: ps', a :: args' =>
      let a' := if n && negb (ti_undef (p_ti p)) && negb (negb (b_undef a) && Nat.eqb (b_ty a) (p_bare p))
                     && converts (e_convs E) (p_bare p) (b_ty a) then
                  match conv_up R E (p_bare p) a with
                  | inl x => inl x
                  | inr e => if is_exception e then
                               match conv_down R E (p_bare p) a with
                               | inl x => inl x
                               | inr EBadAny => inr EBadCast
                               | inr e2 => inr e2
                               end
                             else inr e
                  end
                else inl a in
      match a', dyn_convert R E named' ps' args' with
      | inl x, inl xs => inl (x :: xs)
      | inr e, _ => inr e
      | _, inr e => inr e
      end
  | _, _, _ => inl args
  end.

Definition call_one (R : rules) (E : env) (f : func) (args : list box) : outcome :=
  let n := Z.of_nat (length args) in
  if r_arity_check R && negb (f_arity f <? 0)%Z && negb (f_arity f =? n)%Z then fail EArity
  else
    match f_kind f with
    | KNative =>
        match unbox_all R E (f_params f) args with
        | inl rs => enter E f rs
        | inr e => fail e
        end
    | KDyn named =>
        let '(m, c) := if (f_arity f <? 0)%Z then (true, false)
                       else if (f_arity f =? n)%Z then
                              (if existsb (fun x => x) named then dyn_match (e_convs E) named (f_params f) args else (true, false))
                            else (false, false) in
        let g := match f_guard f with Some gid => e_guard E gid args | None => true end in
        if m && g then
          if c then match dyn_convert R E named (f_params f) args with
                    | inl vals => enter E f (map handle_of vals)
                    | inr e => fail e
                    end
          else enter E f (map handle_of args)
        else fail EGuard
    | KAttr =>
        match f_params f, args with
        | [p], [a] =>
            match boxed_cast R E (mkparam (p_ti p) (if b_const a then FCPtr else FPtr) 0) a with
            | COk r => if r_isnull r then (if r_attr_nullcheck R then fail ENull else fail ECrash) else enter E f [r]
            | CErr e => fail e
            end
        | _, _ => fail ECrash
        end
    end.

(* ------------------------------------------------------------------------------------------ *)
(** * compare_type_to_param, filter, dispatch, dispatch_with_conversions *)

Definition compare_type_to_param (R : rules) (cs : list conv) (ti : tinfo) (b : box) : bool :=
  let pre c := match c with CtUndefParam => ti_undef ti | CtBoxedValue => negb (ti_undef ti) && Nat.eqb (ti_bare ti) T_BV
                        | CtAlways => true | _ => false end in
  let post c := match c with
                | CtBoxedNumberArith => negb (ti_undef ti) && Nat.eqb (ti_bare ti) T_BN && b_arith b
                | CtBareEqual => negb (ti_undef ti) && Nat.eqb (ti_bare ti) (b_ty b)
                | CtArgIsFunction => Nat.eqb (b_ty b) T_FUN
                | CtConverts => negb (ti_undef ti) && converts cs (ti_bare ti) (b_ty b)
                | _ => false end in
  existsb pre (r_ctp R) || (negb (b_undef b) && existsb post (r_ctp R)).

Definition nth_ti (f : func) (i : nat) : option tinfo := option_map p_ti (nth_error (f_params f) i).
(* Proxy_Function_Base::filter: only the first two parameters are looked at; out-of-range reads are a crash *)
Definition fn_filter (R : rules) (cs : list conv) (f : func) (args : list box) : option bool :=
  if (f_arity f <? 0)%Z then Some true
  else if (1 <? f_arity f)%Z then
    match nth_ti f 0, nth_ti f 1, args with
    | Some t0, Some t1, a0 :: a1 :: _ => Some (compare_type_to_param R cs t0 a0 && compare_type_to_param R cs t1 a1)
    | _, _, _ => None
    end
  else
    match nth_ti f 0, args with
    | Some t0, a0 :: _ => Some (compare_type_to_param R cs t0 a0)
    | _, _ => None
    end.

Fixpoint numdiffs (ps : list param) (args : list box) : nat :=
  match ps, args with
  | p :: ps', a :: args' =>
      (if negb (b_undef a) && negb (ti_undef (p_ti p)) && Nat.eqb (p_bare p) (b_ty a) then 0 else 1) + numdiffs ps' args'
  | _, _ => 0
  end.
Fixpoint order_funcs (fs : list func) (args : list box) : list (nat * func) :=
  match fs with
  | [] => []
  | f :: t =>
      if (f_arity f =? -1)%Z then (length args, f) :: order_funcs t args
      else if (f_arity f =? Z.of_nat (length args))%Z then (numdiffs (f_params f) args, f) :: order_funcs t args
      else order_funcs t args
  end.

Definition rc_matches (c : retry_class) (e : eclass) : bool :=
  match c, e with
  | RcBadCast, EBadCast | RcArity, EArity | RcGuard, EGuard => true
  | RcAnyStd, (EBadCast | EArity | EGuard | EDispatch | ENull | EBody | EBadAny) => true
  | RcAnything, x => is_exception x
  | _, _ => false
  end.
Definition retries (l : list retry_class) (e : eclass) : bool := existsb (fun c => rc_matches c e) l.

Inductive step := Done (o : outcome) | Next (tr : list event).
Fixpoint bucket (R : rules) (E : env) (i : nat) (ofs : list (nat * func)) (args : list box) (tr : list event) : step :=
  match ofs with
  | [] => Next tr
  | (n, f) :: rest =>
      if Nat.eqb n i then
        match (if Nat.eqb i 0 then Some true else fn_filter R (e_convs E) f args) with
        | None => Done (mkout tr (Some ECrash))
        | Some false => bucket R E i rest args tr
        | Some true =>
            let o := call_one R E f args in
            match o_res o with
            | None => Done (mkout (tr ++ o_trace o) None)
            | Some e => if retries (r_dispatch_retry R) e then bucket R E i rest args (tr ++ o_trace o)
                        else Done (mkout (tr ++ o_trace o) (Some e))
            end
        end
      else bucket R E i rest args tr
  end.
Fixpoint buckets (R : rules) (E : env) (k : nat) (i : nat) (ofs : list (nat * func)) (args : list box) (tr : list event) : step :=
  match k with
  | O => Next tr
  | S k' => match bucket R E i ofs args tr with
            | Done o => Done o
            | Next tr' => buckets R E k' (S i) ofs args tr'
            end
  end.

Definition types_match_except_for_arithmetic (R : rules) (cs : list conv) (f : func) (args : list box) : bool :=
  if (f_arity f =? -1)%Z then false
  else Nat.eqb (length (f_params f)) (length args)
       && forallb (fun pa => compare_type_to_param R cs (p_ti (fst pa)) (snd pa) || (b_arith (snd pa) && ti_arith (p_ti (fst pa))))
                  (combine (f_params f) args).

Inductive pick := PNone' | POne (f : func) | PAmbiguous | PCrash.
Definition first_const (f : func) : option bool := option_map ti_const (nth_ti f 0).
Fixpoint pick_conv (R : rules) (cs : list conv) (ofs : list (nat * func)) (args : list box) (cur : pick) : pick :=
  match ofs with
  | [] => cur
  | (_, f) :: rest =>
      if types_match_except_for_arithmetic R cs f args then
        match cur with
        | PNone' => pick_conv R cs rest args (POne f)
        | POne m =>
            match args, first_const m, first_const f with
            | a0 :: _, Some mc, Some nc =>
                if b_const a0 && negb mc && nc then pick_conv R cs rest args (POne f)
                else if negb (b_const a0) && negb mc && nc then pick_conv R cs rest args (POne m)
                else PAmbiguous
            | _, _, _ => PCrash
            end
        | x => x
        end
      else pick_conv R cs rest args cur
  end.
(* Boxed_Number(param).get_as(ti).bv for arithmetic parameter / arithmetic argument of a different type_info *)
Definition arith_box (E : env) (ti : tinfo) (a : box) : box :=
  mkbox (ti_bare ti) false true false SShared false (IdArith (b_id a))
        (PZ (arith_convert (e_akind E (ti_bare ti)) (e_akind E (b_ty a)) (pay_z (b_pay a)))) false.
Definition needs_arith (ti : tinfo) (a : box) : bool :=
  ti_arith ti && b_arith a && negb (b_undef a) && negb (ti_fullbare ti && Nat.eqb (b_ty a) (ti_bare ti)).
Fixpoint new_plist (E : env) (ps : list param) (args : list box) : option (list box) :=
  match ps, args with
  | p :: ps', a :: args' =>
      match new_plist E ps' args' with
      | None => None
      | Some r => if needs_arith (p_ti p) a then (if b_null a then None else Some (arith_box E (p_ti p) a :: r)) else Some (a :: r)
      end
  | _, _ => Some []
  end.

Fixpoint any_needs_arith (ps : list param) (args : list box) : bool :=
  match ps, args with
  | p :: ps', a :: args' => needs_arith (p_ti p) a || any_needs_arith ps' args'
  | _, _ => false
  end.

Definition dispatch_with_conversions (R : rules) (E : env) (ofs : list (nat * func)) (args : list box) (tr : list event) : outcome :=
  match pick_conv R (e_convs E) ofs args PNone' with
  | PNone' | PAmbiguous => mkout tr (Some EDispatch)
  | PCrash => mkout tr (Some ECrash)
  | POne f =>
      if r_dwc_only_converted R && negb (any_needs_arith (f_params f) args) then mkout tr (Some EDispatch) else
      match new_plist E (f_params f) args with
      | None => mkout tr (Some ECrash)
      | Some args' =>
          let o := call_one R E f args' in
          match o_res o with
          | None => mkout (tr ++ o_trace o) None
          | Some e => mkout (tr ++ o_trace o) (Some (if retries (r_dwc_retry R) e then EDispatch else e))
          end
      end
  end.

Definition dispatch (R : rules) (E : env) (fs : list func) (args : list box) : outcome :=
  let ofs := order_funcs fs args in
  match buckets R E (S (length args)) 0 ofs args [] with
  | Done o => o
  | Next tr => dispatch_with_conversions R E ofs args tr
  end.

(* ------------------------------------------------------------------------------------------ *)
(** * Registration: function_less_than, libstdc++ std::stable_sort, add_function *)

Definition is_dyn (f : func) : bool := match f_kind f with KDyn _ => true | _ => false end.
Definition has_guard (f : func) : bool := match f_guard f with Some _ => true | None => false end.
Definition ti_bare_equal (a b : tinfo) : bool :=
  (ti_undef a && ti_undef b) || (negb (ti_undef a) && negb (ti_undef b) && Nat.eqb (ti_bare a) (ti_bare b)).
Fixpoint flt_tis (l r : list tinfo) : bool :=
  match l, r with
  | lt :: l', rt :: r' =>
      let be := ti_bare_equal lt rt in
      if be && Bool.eqb (ti_const lt) (ti_const rt) then flt_tis l' r'
      else if be && ti_const lt && negb (ti_const rt) then false
      else if be && negb (ti_const lt) then true
      else if negb (ti_undef lt) && Nat.eqb (ti_bare lt) T_BV then false
      else if negb (ti_undef rt) && Nat.eqb (ti_bare rt) T_BV then true
      else if negb (ti_undef lt) && Nat.eqb (ti_bare lt) T_BN then false
      else if negb (ti_undef rt) && Nat.eqb (ti_bare rt) T_BN then true
      else Nat.ltb (ti_rank lt) (ti_rank rt)
  | _, _ => false
  end.
(* get_param_types(): the return type, then the parameters *)
Definition f_types (f : func) : list tinfo := f_ret f :: map p_ti (f_params f).
Definition function_less_than (R : rules) (l r : func) : bool :=
  if is_dyn l && is_dyn r then (if has_guard l then negb (has_guard r) else false)
  else if is_dyn l then false
  else if is_dyn r then true
  else flt_tis (skipn (r_flt_start R) (f_types l)) (skipn (r_flt_start R) (f_types r)).

Section Sort.
  Variable A : Type.
  Variable lt : A -> A -> bool.
  (* std::__unguarded_linear_insert, on the reversed sorted prefix *)
  Fixpoint linear_insert (rprefix : list A) (x : A) (after : list A) : list A :=
    match rprefix with
    | [] => x :: after
    | y :: r => if lt x y then linear_insert r x (y :: after) else rev (y :: r) ++ x :: after
    end.
  (* one step of std::__insertion_sort *)
  Definition insert_one (sorted : list A) (x : A) : list A :=
    match sorted with
    | [] => [x]
    | h :: _ => if lt x h then x :: sorted else linear_insert (rev sorted) x []
    end.
  Definition insertion_sort (l : list A) : list A := fold_left insert_one l [].
  (* std::__move_merge_adaptive *)
  Fixpoint merge_fwd (a : list A) : list A -> list A :=
    fix inner (b : list A) : list A :=
      match a, b with
      | [], _ => b
      | _, [] => a
      | x :: a', y :: b' => if lt y x then y :: inner b' else x :: merge_fwd a' b
      end.
  (* std::__move_merge_adaptive_backward, on reversed inputs; produces the merged list reversed *)
  Fixpoint merge_bwd (ra : list A) : list A -> list A :=
    fix inner (rb : list A) : list A :=
      match ra, rb with
      | [], _ => rb
      | _, [] => ra
      | x :: ra', y :: rb' => if lt y x then x :: merge_bwd ra' rb else y :: inner rb'
      end.
  (* std::stable_sort of libstdc++ (GCC 12) for at most 14 elements: halves of at most _S_chunk_size = 7 are
     insertion-sorted, then merged forward (len1 <= len2) or backward *)
  Definition stable_sort (l : list A) : list A :=
    let n := length l in
    if Nat.leb n 14 then
      let h := Nat.div (n + 1) 2 in
      let a := insertion_sort (firstn h l) in
      let b := insertion_sort (skipn h l) in
      if Nat.leb (length a) (length b) then merge_fwd a b else rev (merge_bwd (rev a) (rev b))
    else insertion_sort l.
End Sort.
Arguments stable_sort {A}.
Arguments insertion_sort {A}.

Definition register (R : rules) (fs : list func) (f : func) : list func := stable_sort (function_less_than R) (fs ++ [f]).
Definition register_all (R : rules) (fs : list func) : list func := fold_left (register R) fs [].

Definition has_arith_param (f : func) : bool := existsb (fun p => ti_arith (p_ti p)) (f_params f).
Definition common_arity (fs : list func) : Z :=
  match fs with
  | [] => (-1)%Z
  | f :: _ => if forallb (fun g => (f_arity g =? f_arity f)%Z) fs then f_arity f else (-1)%Z
  end.
(* calling the function object add_function stored under the name: the function itself when it is the only
   overload and has no arithmetic parameter, a Dispatch_Function otherwise *)
Definition call_named (R : rules) (E : env) (sorted : list func) (args : list box) : outcome :=
  match sorted with
  | [f] => if has_arith_param f then
             (if r_arity_check R && negb (f_arity f <? 0)%Z && negb (f_arity f =? Z.of_nat (length args))%Z then fail EArity
              else dispatch R E sorted args)
           else call_one R E f args
  | _ =>
      let ar := common_arity sorted in
      if r_arity_check R && negb (ar <? 0)%Z && negb (ar =? Z.of_nat (length args))%Z then fail EArity
      else dispatch R E sorted args
  end.

(* ------------------------------------------------------------------------------------------ *)
(** * Specification (independent of the regenerated rules) *)

(* forms through which C++ can modify the object it is handed *)
Definition form_mutable (f : form) : bool :=
  match f with
  | FPtr | FPtrCRef | FRef | FRRef | FUniqRRef | FUniqRef | FUniqCRef | FSh | FCSh | FShCRef | FShRef | FRw | FCRw | FRwCRef => true
  | _ => false
  end.
Definition form_by_value (f : form) : bool := match f with FVal | FCVal | FFn => true | _ => false end.
Definition form_pointer_like (f : form) : bool :=
  match f with
  | FCPtr | FPtr | FPtrCRef | FCPtrCRef | FSh | FShC | FCSh | FShCRef | FShRef | FCShC | FShCCRef | FUniqRRef | FUniqRef | FUniqCRef => true
  | _ => false
  end.
Definition form_handle (f : form) : bool := match f with FBV | FBVRef | FCBV | FBVCRef => true | _ => false end.
(* the access a parameter of this form has to the object *)
Definition form_access (f : form) : access :=
  if form_handle f then AcHandle else if form_by_value f then AcCopy else if form_mutable f then AcMut else AcConst.

Definition is_handle_of (r : recv) (a : box) : bool := recv_eqb r (handle_of a).
Definition copy_pay (ac : access) (t : tyid) (p : pay) : pay := match ac with AcCopy => slice t p | _ => p end.
Definition acc_ok (r : recv) (a : box) : bool :=
  match r_acc r with AcMut => negb (b_const a) | _ => true end.

(* the value [r] handed to a parameter [p] is an acceptable rendering of the script value [a]:
   the argument itself (same identity; never mutable access to a const one; null only through pointer-like forms),
   its arithmetic conversion, its image under a registered conversion, or the box itself for a catch-all *)
Definition recv_ok (E : env) (p : param) (a : box) (r : recv) : bool :=
  let t := p_bare p in
  let f := p_form p in
  (* Boxed_Value catch-all *)
  (form_handle f && is_handle_of r a)
  (* Boxed_Number catch-all: arithmetic values only *)
  || (form_beq f FBN && b_arith a && negb (b_undef a) && is_handle_of r a)
  (* std::function wrapper around a function value of suitable arity *)
  || (form_beq f FFn && Nat.eqb (b_ty a) T_FUN && negb (b_undef a) && is_handle_of r a
      && match b_pay a with PFn ar _ => (ar <? 0)%Z || (ar =? p_fnar p)%Z | _ => false end)
  || (negb (form_handle f) && negb (form_beq f FBN) && negb (b_undef a) && Nat.eqb (r_ty r) t
      && access_beq (r_acc r) (form_access f)
      && (implb (r_isnull r) (form_pointer_like f))
      && (
        (* the argument itself *)
        (Nat.eqb (b_ty a) t && ident_eqb (r_id r) (b_id a) && pay_eqb (r_pay r) (copy_pay (r_acc r) t (b_pay a)) && acc_ok r a
         && Bool.eqb (r_isnull r) (b_null a && form_pointer_like f) && implb (b_null a) (form_pointer_like f))
        (* arithmetic conversion: a fresh value *)
        || (ti_arith (p_ti p) && b_arith a && negb (b_null a) && negb (r_isnull r)
            && ident_eqb (r_id r) (IdArith (b_id a))
            && pay_eqb (r_pay r) (PZ (arith_convert (e_akind E t) (e_akind E (b_ty a)) (pay_z (b_pay a)))))
        (* registered conversion *)
        || existsb (fun c =>
             match cv_kind c with
             | CUser uid =>
                 Nat.eqb (cv_to c) t && Nat.eqb (cv_from c) (b_ty a) && negb (b_null a) && negb (r_isnull r)
                 && ident_eqb (r_id r) (IdConv uid (b_id a))
                 && match e_ufun E uid (b_pay a) with Some p' => pay_eqb (r_pay r) (copy_pay (r_acc r) t p') | None => false end
             | _ =>
                 (* up: Derived passed for Base; down: a Base-typed box whose object really is a Derived *)
                 ((Nat.eqb (cv_to c) t && Nat.eqb (cv_from c) (b_ty a))
                  || (cv_bidir c && Nat.eqb (cv_from c) t && Nat.eqb (cv_to c) (b_ty a)
                      && match b_pay a with PObj d _ => isa (e_convs E) d t | _ => false end))
                 && negb (b_null a) && negb (r_isnull r)
                 && ident_eqb (r_id r) (b_id a) && pay_eqb (r_pay r) (copy_pay (r_acc r) t (b_pay a)) && acc_ok r a
             end) (e_convs E))).

(* Dynamic (script) functions receive boxes: the argument's own box, the box of its arithmetic conversion
   (typed arithmetic parameter, through dispatch_with_conversions), or the box of its converted image *)
Definition recv_ok_dyn (E : env) (named : bool) (p : param) (a : box) (r : recv) : bool :=
  is_handle_of r a
  || (named && negb (b_undef a) && Nat.eqb (r_ty r) (p_bare p) && access_beq (r_acc r) AcHandle
      && ((ti_arith (p_ti p) && b_arith a && negb (b_null a) && negb (r_isnull r) && negb (r_hconst r)
           && ident_eqb (r_id r) (IdArith (b_id a))
           && pay_eqb (r_pay r) (PZ (arith_convert (e_akind E (p_bare p)) (e_akind E (b_ty a)) (pay_z (b_pay a)))))
          || existsb (fun c =>
           match cv_kind c with
           | CUser uid => Nat.eqb (cv_to c) (p_bare p) && Nat.eqb (cv_from c) (b_ty a) && ident_eqb (r_id r) (IdConv uid (b_id a))
                          && match e_ufun E uid (b_pay a) with Some p' => pay_eqb (r_pay r) p' | None => false end
                          && negb (r_hconst r) && negb (r_isnull r)
           | _ => ((Nat.eqb (cv_to c) (p_bare p) && Nat.eqb (cv_from c) (b_ty a))
                   || (cv_bidir c && Nat.eqb (cv_from c) (p_bare p) && Nat.eqb (cv_to c) (b_ty a)
                       && match b_pay a with PObj d _ => isa (e_convs E) d (p_bare p) | _ => false end))
                  && ident_eqb (r_id r) (b_id a) && pay_eqb (r_pay r) (b_pay a) && Bool.eqb (r_hconst r) (b_const a) && negb (r_isnull r)
           end) (e_convs E))).

Fixpoint forall2b {A B} (P : A -> B -> bool) (l : list A) (m : list B) : bool :=
  match l, m with
  | [], [] => true
  | x :: l', y :: m' => P x y && forall2b P l' m'
  | _, _ => false
  end.
Fixpoint forall3b {A B C} (P : A -> B -> C -> bool) (l : list A) (m : list B) (n : list C) : bool :=
  match l, m, n with
  | [], [], [] => true
  | x :: l', y :: m', z :: n' => P x y z && forall3b P l' m' n'
  | _, _, _ => false
  end.
Fixpoint pad_named (named : list bool) (n : nat) : list bool :=
  match n with
  | O => []
  | S k => match named with [] => false :: pad_named [] k | x :: t => x :: pad_named t k end
  end.

(* entering [f] with [rs] is type-correct for the script values [args] *)
Definition entry_ok (E : env) (f : func) (args : list box) (rs : list recv) : bool :=
  match f_kind f with
  | KNative => Nat.eqb (length (f_params f)) (length args) && forall3b (recv_ok E) (f_params f) args rs
  | KDyn named =>
      ((f_arity f <? 0)%Z || Nat.eqb (length (f_params f)) (length args))
      && if (f_arity f <? 0)%Z then forall2b (fun a r => is_handle_of r a) args rs
         else forall3b (fun np a r => recv_ok_dyn E (fst np) (snd np) a r) (combine (pad_named named (length args)) (f_params f)) args rs
  | KAttr =>
      match f_params f, args, rs with
      | [p], [a], [r] => recv_ok E (mkparam (p_ti p) (if b_const a then FCPtr else FPtr) 0) a r && negb (r_isnull r)
      | _, _, _ => false
      end
  end.

Definition entered (o : outcome) : list (nat * list recv) := map (fun e => match e with Enter i rs => (i, rs) end) (o_trace o).

(* an overload that matches the arguments exactly: same arity, every bare type equal, and every argument
   can be handed over as itself *)
Definition exact_param (p : param) (a : box) : bool :=
  negb (b_undef a) && negb (ti_undef (p_ti p)) && Nat.eqb (p_bare p) (b_ty a) && negb (b_null a)
  && negb (form_handle (p_form p)) && negb (form_beq (p_form p) FBN) && negb (form_beq (p_form p) FFn)
  && (negb (form_mutable (p_form p)) || negb (b_const a))
  (* shared_ptr / unique_ptr parameters need a box that owns its object that way *)
  && match p_form p with
     | FSh | FCSh | FShCRef | FShRef | FShC | FCShC | FShCCRef => match b_stor a with SShared => true | _ => false end
     | FUniqRRef | FUniqRef | FUniqCRef => match b_stor a with SUnique => true | _ => false end
     | _ => true
     end.
Definition exact_overload (E : env) (f : func) (args : list box) : bool :=
  match f_kind f with
  | KNative => (f_arity f =? Z.of_nat (length args))%Z && forall2b exact_param (f_params f) args
  | KDyn named =>
      (f_arity f =? Z.of_nat (length args))%Z && Nat.eqb (length named) (length args) && forallb (fun x => x) named
      && forall2b (fun p a => negb (b_undef a) && negb (ti_undef (p_ti p)) && Nat.eqb (p_bare p) (b_ty a) && negb (b_null a)) (f_params f) args
      && match f_guard f with Some g => e_guard E g args | None => true end
  | KAttr =>
      match f_params f, args with
      | [p], [a] => negb (b_undef a) && negb (ti_undef (p_ti p)) && Nat.eqb (p_bare p) (b_ty a) && negb (b_null a)
      | _, _ => false
      end
  end.

(* all argument bare types equal the parameter types: what dispatch() counts as zero differences
   (a variadic function qualifies only for an empty argument list) *)
Definition bare_exact (f : func) (args : list box) : bool :=
  if (f_arity f =? -1)%Z then Nat.eqb (length args) 0
  else (f_arity f =? Z.of_nat (length args))%Z && Nat.eqb (numdiffs (f_params f) args) 0.

(* ------------------------------------------------------------------------------------------ *)
(** * Conditions on the regenerated rules under which the theorems hold (checked by computation on the
      generated table in DispatchTheorems.v) *)

Definition rule_access (d : deref) (m : bool) : access := match d with DValue => AcCopy | _ => if m then AcMut else AcConst end.
Definition inner_forms : list form :=
  [FVal; FCVal; FCPtr; FPtr; FPtrCRef; FCPtrCRef; FCRef; FRef; FRRef; FUniqRRef; FUniqRef; FUniqCRef; FSh; FShC; FCSh; FShCRef; FShRef; FCShC; FShCCRef;
   FBV; FBVRef; FCBV; FBVCRef; FRw; FCRw; FRwCRef; FRwC; FCRwC; FRwCCRef].
Definition access_of_form_inner (f : form) : access :=
  match f with FVal | FCVal => AcCopy | _ => form_access f end.
Definition form_rule_ok (R : rules) (f : form) : bool :=
  match resolve 8 (r_cast R) f with
  | Some (RVerify v a d m) =>
      match lookup_vrule (r_verify R) v (acc_const a) with
      | Some vr =>
          access_beq (rule_access d m) (access_of_form_inner f)
          && Bool.eqb m (vr_nonconst vr)                               (* mutable access <-> the !is_const() test *)
          && Bool.eqb m (negb (acc_const a))                           (* mutable access <-> get_ptr() *)
          && (match d with DPtr => true | _ => vr_nullthrow vr end)    (* what is dereferenced was null-checked *)
          && Bool.eqb (match d with DPtr => true | _ => false end) (form_pointer_like f)
      | None => false
      end
  | Some (RAny AnyShared) | Some (RAny AnyUnique) => access_beq AcMut (form_access f) && form_pointer_like f && negb (form_handle f)
  | Some RAnySplit => access_beq AcConst (form_access f) && form_pointer_like f && negb (form_handle f)
  | Some (RSelf _) => form_handle f
  | _ => false
  end.
Definition rules_ok (R : rules) : bool :=
  forallb (form_rule_ok R) inner_forms
  && r_arity_check R
  && forallb (fun c => match c with RcBadCast | RcArity | RcGuard => true | _ => false end) (r_dispatch_retry R)
  && forallb (fun c => match c with RcBadCast | RcArity | RcGuard => true | _ => false end) (r_dwc_retry R)
  && r_attr_nullcheck R.

(* boxed_cast lets no internal exception out: the direct attempt and the down-conversion attempt swallow bad_any_cast,
   the up-conversion attempt swallows every exception *)
Definition flow_ok (R : rules) : bool :=
  match r_direct_catch R, r_up_catch R, r_down_catch R with
  | (CatchBadAny | CatchAll), CatchAll, (CatchBadAny | CatchAll) => true
  | _, _, _ => false
  end.
(* function_less_than starts at the first parameter: the return type plays no part in the order of overloads *)
Definition order_ok (R : rules) : bool := Nat.eqb (r_flt_start R) 1.
(* after a std::shared_ptr<T>& parameter both cached pointers follow the shared_ptr *)
Definition sentinel_ok (R : rules) : bool := r_sentinel_mut R && r_sentinel_const R.

(* the conversion table does not mention the catch-all types nor the function type, and converts between
   distinct types *)
Definition env_ok (E : env) : bool :=
  forallb (fun c => negb (Nat.eqb (cv_to c) T_BV) && negb (Nat.eqb (cv_to c) T_BN) && negb (Nat.eqb (cv_to c) T_FUN)
                    && negb (Nat.eqb (cv_from c) T_BV) && negb (Nat.eqb (cv_from c) T_BN) && negb (Nat.eqb (cv_from c) T_FUN)
                    && negb (Nat.eqb (cv_to c) (cv_from c))) (e_convs E).
(* Type_Info and form of a parameter belong together; the parameter list has the declared arity *)
Definition param_wf (p : param) : bool :=
  negb (ti_undef (p_ti p))
  && (if form_handle (p_form p) then Nat.eqb (p_bare p) T_BV && negb (ti_arith (p_ti p))
      else if form_beq (p_form p) FBN then Nat.eqb (p_bare p) T_BN && negb (ti_arith (p_ti p))
      else if form_beq (p_form p) FFn then negb (ti_arith (p_ti p)) && negb (Nat.eqb (p_bare p) T_FUN) && negb (Nat.eqb (p_bare p) T_BV) && negb (Nat.eqb (p_bare p) T_BN)
      else negb (Nat.eqb (p_bare p) T_BV) && negb (Nat.eqb (p_bare p) T_BN)).
Definition func_wf (f : func) : bool :=
  ((f_arity f <? 0)%Z || (f_arity f =? Z.of_nat (length (f_params f)))%Z)
  && match f_kind f with
     | KNative => forallb param_wf (f_params f) && negb (f_arity f <? 0)%Z
     | KDyn named => if (f_arity f <? 0)%Z then true
                     else forall2b (fun n p => n || negb (ti_arith (p_ti p))) named (f_params f)   (* untyped parameters are Boxed_Value *)
     | KAttr => forallb param_wf (f_params f) && (f_arity f =? 1)%Z
                && forallb (fun p => negb (form_handle (p_form p)) && negb (form_beq (p_form p) FBN) && negb (form_beq (p_form p) FFn) && negb (ti_arith (p_ti p))) (f_params f)
     end.
(* script values: a box never holds a Boxed_Value / Boxed_Number; function values carry their arity *)
Definition box_wf (b : box) : bool :=
  negb (Nat.eqb (b_ty b) T_BV) && negb (Nat.eqb (b_ty b) T_BN)
  && implb (Nat.eqb (b_ty b) T_FUN && negb (b_undef b)) (match b_pay b with PFn _ _ => true | _ => false end).
