(* Evaluator model, part 2: the semantics of every node as a program (EvalDefs.prog) over the
   primitive effects; `eval` ties the knot with fuel. A node's program mentions its sub-terms only
   through `Ev`, so every statement about programs is parametric in the sub-term evaluator. *)
From Coq Require Import ZArith NArith List Bool String Ascii Floats.SpecFloat.
From ChaiV Require Import StrUtil NumDefs NumSpecRun Ast EvalDefs.
Import ListNotations.
Local Open Scope string_scope.

(* how operator texts are executed on arithmetic operands: instantiated with the regenerated tables
   (mechanism model) or with the specification *)
Record numops := mknumops {
  n_bin : string -> bool -> nty -> nval -> nty -> nval -> option (outcome * nval);   (* None: text is not an arithmetic operator *)
  n_un : string -> bool -> nty -> nval -> option (outcome * nval);
  n_fn_bin : string -> bool -> nty -> nval -> nty -> nval -> option (outcome * nval) }.  (* the same operator called as a function *)

(* continue on a failure only; values pass through *)
Definition on_fail {A} (p : prog A) (h : fail -> prog A) : prog A :=
  Handle p (fun r => match r with inl a => Ret a | inr f => h f end).

Section EVAL.
  Variable c : cfg.
  Variable ops : numops.

  Definition arith_error {A} : prog A := throw (EStd "arithmetic_error" "Arithmetic error: divide by zero").

  (* wrap the outcome of Boxed_Number::go into Boxed_Values *)
  Definition box_outcome (o : outcome) (lhs : dloc) (inplace : bool) (on_reject : string) : prog dloc :=
    match o with
    | Val TBool (VI z) => new_value (OBool (negb (Z.eqb z 0))) true false
    | Val t v => if inplace then Ret lhs else new_value (ONum (tyname_of_nty t) t v) true false
    | ArithErr => arith_error
    | UB => unsup "UB: arithmetic undefined in C++ (signed overflow, over-wide shift, ...)"
    | _ => eval_error on_reject
    end.

  Definition is_assign_text (t : string) : bool :=
    existsb (String.eqb t) ["="; "+="; "-="; "*="; "/="; "%="; "<<="; ">>="; "&="; "|="; "^="].

  (* Boxed_Number::do_oper on two arithmetic Boxed_Values; None: not an arithmetic operation *)
  Definition num_binary (via_fn : bool) (text : string) (l r : dloc) (on_reject : string) : prog (option dloc) :=
    lo <- obj_of l ;; ro <- obj_of r ;;
    match lo, ro with
    | Some (ONum tn1 t1 v1), Some (ONum _ t2 v2) =>
        dat <- Prim (PGetData l) ;;
        let mutable_lhs := negb (d_const dat) && negb (d_ret dat) in
        match (if via_fn then n_fn_bin ops else n_bin ops) text mutable_lhs t1 v1 t2 v2 with
        | None => Ret None
        | Some (o, v1') =>
            let inplace := is_assign_text text in
            (* the in-place operators write through t_lhs's mutable pointer, which is null for a const or returned value *)
            ok <- (if inplace && mutable_lhs then
                     match o with
                     | Val _ _ => Prim (PWrite l (ONum tn1 t1 v1'))
                     | _ => Ret true
                     end
                   else Ret (negb inplace || match o with Val _ _ => false | _ => true end)) ;;
            if ok : bool then d <- box_outcome o l inplace on_reject ;; Ret (Some d)
            else eval_error on_reject
        end
    | _, _ => Ret None
    end.

  (* ------------------------------------------------------------ non-arithmetic operators and builtins *)
  Definition dispatch_error {A} (what : string) : prog A := throw (EStd "dispatch_error" what).

  (* to_string: Boxed_Number::to_string / bool / string in C++, and the prelude's
     `def to_string(x) : call_exists(range, x) && !x.is_type("string") { "[" + x.join(", ") + "]" }` for containers *)
  Fixpoint join_strings (l : list string) : string :=
    match l with
    | [] => ""
    | [x] => x
    | x :: r => x ++ ", " ++ join_strings r
    end.

  Fixpoint to_string_deep (depth : nat) (d : dloc) : prog string :=
    o <- obj_of d ;;
    match o with
    | Some (ONum tn (TI _ _) (VI z)) =>
        (* to_string(char) is the one-character string; every other integer prints in decimal *)
        if String.eqb tn "char" then Ret (String (ascii_of_N (Z.to_N (Z.modulo z 256))) "") else Ret (dec_of_z z)
    | Some (OBool b) => Ret (if b then "true" else "false")
    | Some (OStr s) => Ret s
    | Some (OVec l) =>
        match depth with
        | O => unsup "to_string of a deeply nested container"
        | S depth' =>
            parts <- (fix go (l : list dloc) : prog (list string) :=
                        match l with
                        | [] => Ret []
                        | x :: r => sx <- to_string_deep depth' x ;; sr <- go r ;; Ret (sx :: sr)
                        end) l ;;
            Ret ("[" ++ join_strings parts ++ "]")
        end
    | None => dispatch_error "to_string"          (* an undefined value: no overload of to_string accepts it *)
    | _ => unsup "to_string of this kind of value"
    end.

  Definition string_of_value (d : dloc) : prog string := to_string_deep 6 d.

  Definition newline : string := String (ascii_of_nat 10) "".

  Definition str_cmp (op : string) (a b : string) : option bool :=
    if String.eqb op "==" then Some (String.eqb a b)
    else if String.eqb op "!=" then Some (negb (String.eqb a b))
    else if String.eqb op "<" then Some (string_lt a b)
    else if String.eqb op ">" then Some (string_lt b a)
    else if String.eqb op "<=" then Some (negb (string_lt b a))
    else if String.eqb op ">=" then Some (negb (string_lt a b))
    else None.

  (* std::map order: keys ascending by unsigned byte; an existing key keeps its entry (std::map::insert) *)
  Fixpoint map_insert (k : string) (v : dloc) (l : list (string * dloc)) : list (string * dloc) :=
    match l with
    | [] => [(k, v)]
    | (k', v') :: r => if String.eqb k k' then l else if string_lt k k' then (k, v) :: l else (k', v') :: map_insert k v r
    end.

  (* a reference to the object of `d` (Handle_Return<T&>): a new Boxed_Value aliasing the object *)
  Definition reference_to (d : dloc) : prog dloc := Prim (PAlias d true).

  (* overwrite the object of a non-const Boxed_Value in place *)
  Definition write_through (d : dloc) (o : obj) (opname : string) : prog unit :=
    ok <- Prim (PWrite d o) ;; if ok : bool then Ret tt else dispatch_error opname.

  Fixpoint add_captures (l : list (string * dloc)) : prog unit :=
    match l with [] => Ret tt | (k, v) :: r => add_object k v ;;; add_captures r end.
  Fixpoint add_params (ps : list string) (vs : list dloc) : prog unit :=
    match ps, vs with
    | p :: pr, v :: vr => (if String.eqb p "this" then Ret tt else add_object p v) ;;; add_params pr vr
    | _, _ => Ret tt
    end.

  (* detail::eval_function: new frame; this, captures, parameters in that order; `return` ends here *)
  Definition call_closure (cl : closure) (args : list dloc) (body : ast) : prog dloc :=
    cand <- Prim PThisCandidate ;;
    let this_obj := match cand with Some d => Some d | None => match args with a :: _ => Some a | [] => None end end in
    Framed (
      (match this_obj with
       | Some t => if cl_this_capture cl then Ret tt else add_object "this" t
       | None => Ret tt
       end) ;;;
      add_captures (cl_caps cl) ;;;
      add_params (cl_params cl) args ;;;
      on_fail (Ev body) (fun f => match f with FRet d => Ret d | _ => Fail f end)).

  (* ---- declared parameter types (Param_Types::match) *)
  Definition script_type_of (o : option obj) : string :=
    match o with
    | Some (ONum tn _ _) =>
        if String.eqb tn "uint" then "unsigned_int" else if String.eqb tn "ulong" then "unsigned_long" else if String.eqb tn "llong" then "long_long"
        else if String.eqb tn "ullong" then "unsigned_long_long" else if String.eqb tn "ldouble" then "long_double" else tn
    | Some (OBool _) => "bool" | Some (OStr _) => "string" | Some (OVec _) => "Vector" | Some (OMap _) => "Map"
    | Some (OFun _) => "Function" | Some (ODyn _ _) => "Dynamic_Object" | Some OVoid => "void" | Some (OExc st _ _) => st | None => ""
    end.
  Definition arith_type_names : list string :=
    ["int"; "double"; "float"; "long"; "long_double"; "unsigned_int"; "unsigned_long"; "long_long"; "unsigned_long_long"; "size_t"; "char";
     "int8_t"; "int16_t"; "int32_t"; "int64_t"; "uint8_t"; "uint16_t"; "uint32_t"; "uint64_t"; "wchar_t"; "char16_t"; "char32_t"].
  Definition known_type_names : list string :=
    app arith_type_names ["bool"; "string"; "Vector"; "Map"; "Function"; "Dynamic_Object"; "Object"; "Number"].
  Inductive pmatch := PMYes | PMNo | PMArith | PMUnsup.
  Definition param_match (ptype : string) (o : option obj) : pmatch :=
    if String.eqb ptype "" then PMYes
    else match o with
         | Some (ODyn cn _) => if String.eqb ptype "Dynamic_Object" || String.eqb ptype cn then PMYes else PMNo
         | _ =>
             if String.eqb ptype "Object" || String.eqb ptype "Number" || String.eqb ptype "size_t" then PMUnsup   (* Boxed_Value / Boxed_Number / a typedef: not modelled *)
             else if existsb (String.eqb ptype) known_type_names then
               if String.eqb (script_type_of o) ptype then PMYes
               else if existsb (String.eqb ptype) arith_type_names && (match o with Some (ONum _ _ _) => true | _ => false end) then PMArith
               else PMNo
             else PMNo      (* an unregistered name (a script class): only objects of that class *)
         end.
  Fixpoint params_match (ptypes : list string) (objs : list (option obj)) : pmatch :=
    match ptypes, objs with
    | t :: tr, o :: or =>
        match param_match t o, params_match tr or with
        | PMNo, _ | _, PMNo => PMNo
        | PMUnsup, _ | _, PMUnsup => PMUnsup
        | PMArith, _ | _, PMArith => PMArith
        | PMYes, PMYes => PMYes
        end
    | _, _ => PMYes
    end.
  (* dispatch(): the number of parameters whose declared Type_Info differs from the argument's (an untyped or class-typed parameter is a Boxed_Value) *)
  Fixpoint num_diffs (ptypes : list string) (objs : list (option obj)) : nat :=
    match ptypes, objs with
    | t :: tr, o :: or =>
        (if negb (String.eqb t "") && existsb (String.eqb t) known_type_names && String.eqb (script_type_of o) t then 0 else 1) + num_diffs tr or
    | _, _ => 0
    end.
  Fixpoint objs_of (l : list dloc) : prog (list (option obj)) :=
    match l with [] => Ret [] | d :: r => o <- obj_of d ;; os <- objs_of r ;; Ret (o :: os) end.

  Definition is_ctor (cl : closure) : bool := match cl_kind cl with CKCtor _ => true | _ => false end.
  Definition is_dynamic (cl : closure) : bool := match cl_kind cl with CKPlain => true | _ => false end.
  (* what a caller supplies: a constructor makes its own `this` (Dynamic_Object_Constructor: arity - 1, first type dropped) *)
  Definition cl_arity (cl : closure) : nat := List.length (cl_params cl) - (if is_ctor cl then 1 else 0).
  Definition cl_arg_ptypes (cl : closure) : list string := if is_ctor cl then tl (cl_ptypes cl) else cl_ptypes cl.

  Definition class_accepts (cls : string) (o : option obj) : bool :=
    match o with Some (ODyn cn _) => String.eqb cls "Dynamic_Object" || String.eqb cls cn | _ => false end.

  (* Dynamic_Object::get_attr on a mutable object: the attribute's own Boxed_Value, entered undefined when missing (std::map::operator[]) *)
  Definition get_attr (o : dloc) (name : string) : prog dloc :=
    oo <- obj_of o ;;
    match oo with
    | Some (ODyn cn attrs) =>
        match assoc attrs name with
        | Some d => Ret d
        | None => d <- new_undef ;; write_through o (ODyn cn (map_insert name d attrs)) "get_attr" ;;; Ret d
        end
    | _ => dispatch_error "get_attr"
    end.

  (* clone_if_necessary, script objects included. An object is cloned by the bootstrap's script function
       def Dynamic_Object::clone() { auto &new_o = Dynamic_Object(this.get_type_name());
                                     for_each(this.get_attrs(), fun[new_o](x) { new_o.get_attr(x.first) = x.second; } ); new_o; }
     i.e. every attribute (in key order) goes through the `=` of an undefined left-hand side: clone_if_necessary, then the slot takes
     the clone's data. `depth` bounds the nesting of objects inside attributes. *)
  Fixpoint clone_value (depth : nat) (d : dloc) : prog dloc :=
    x <- Prim (PGetData d) ;;
    if d_ret x then reset_ret d ;;; Ret d
    else
      o <- obj_of d ;;
      match o with
      | Some (ODyn cn attrs) =>
          match depth with
          | O => unsup "clone of deeply nested objects"
          | S depth' =>
              new_o <- new_value (ODyn cn []) false false ;;
              (fix go (l : list (string * dloc)) : prog unit :=
                 match l with
                 | [] => Ret tt
                 | (k, v) :: r =>
                     v' <- on_fail (clone_value depth' v)
                             (fun f => match f with
                                       | FThrow (EStd "dispatch_error" _) => eval_error "Missing clone or copy constructor for right hand side of equation"
                                       | _ => Fail f
                                       end) ;;
                     slot <- get_attr new_o k ;;
                     assign_data slot v' ;;; go r
                 end) attrs ;;;
              Ret new_o
          end
      | Some ob => c <- clone_obj ob ;; reset_ret c ;;; Ret c
      | None => unsup "clone of undefined value"
      end.
  Definition clone_if_needed (d : dloc) : prog dloc := clone_value 6 d.

  (* Dynamic_Proxy_Function::do_call for one overload: None = does not apply (arity / declared types / guard) *)
  Definition try_plain (cl : closure) (args : list dloc) : prog (option dloc) :=
    if negb (Nat.eqb (List.length args) (List.length (cl_params cl))) then Ret None
    else
      os <- objs_of args ;;
      match params_match (cl_ptypes cl) os with
      | PMNo => Ret None
      | PMArith => unsup "arithmetic conversion of an argument at dispatch"
      | PMUnsup => unsup "parameter declared Object/Number/size_t"
      | PMYes =>
      ok <- match cl_guard cl with
            | None => Ret true
            | Some g =>
                (* test_guard: only arity_error and bad_boxed_cast mean "does not apply" (so does a non-boolean
                   guard value, through boxed_cast<bool>); every other exception leaves the call *)
                Handle (call_closure cl args g)
                  (fun r => match r with
                            | inl d => o <- obj_of d ;; match o with Some (OBool b) => Ret b | _ => Ret false end
                            | inr (FThrow (EStd "bad_boxed_cast" _)) | inr (FThrow (EStd "arity_error" _)) => Ret false
                            | inr f => Fail f
                            end)
            end ;;
      if ok : bool then d <- call_closure cl args (cl_body cl) ;; Ret (Some d) else Ret None
      end.

  (* one overload of any kind. A method is a Dynamic_Proxy_Function whose first declared type is the class (Dynamic_Object_Function
     repeats that test); a constructor makes the object (a returned value), runs the body on it and answers the object whatever the
     body yields; an attribute accessor answers the attribute's own Boxed_Value *)
  Definition try_closure (cl : closure) (args : list dloc) : prog (option dloc) :=
    match cl_kind cl with
    | CKPlain | CKMethod _ => try_plain cl args
    | CKCtor cls =>
        if negb (Nat.eqb (S (List.length args)) (List.length (cl_params cl))) then Ret None
        else this <- new_value (ODyn cls []) false true ;;
             x <- try_plain cl (this :: args) ;;
             match x with Some _ => Ret (Some this) | None => Ret None end
    | CKAttr cls attr =>
        match args with
        | [o] => oo <- obj_of o ;;
                 if class_accepts cls oo then
                   dd <- Prim (PGetData o) ;;
                   if d_const dd then unsup "attribute of a const object" else d <- get_attr o attr ;; Ret (Some d)
                 else Ret None
        | _ => Ret None
        end
    end.

  Fixpoint dispatch_in_order (l : list closure) (args : list dloc) : prog (option dloc) :=
    match l with
    | [] => Ret None
    | cl :: r => x <- try_closure cl args ;; match x with Some d => Ret (Some d) | None => dispatch_in_order r args end
    end.
  (* function_less_than orders two non-dynamic functions by their parameter Type_Infos (ties by type_info::before); the model
     only follows it when those are pairwise equal, i.e. when the stable sort keeps registration order *)
  Definition norm_ptype (t : string) : string := if existsb (String.eqb t) known_type_names then t else "".
  Fixpoint same_prefix (a b : list string) : bool :=
    match a, b with
    | x :: a', y :: b' => String.eqb (norm_ptype x) (norm_ptype y) && same_prefix a' b'
    | _, _ => true
    end.
  Definition kind_tag (cl : closure) : nat := match cl_kind cl with CKPlain => 0 | CKMethod _ => 1 | CKCtor _ => 2 | CKAttr _ _ => 3 end.
  Definition order_known (grp : list closure) : bool :=
    forallb (fun a => forallb (fun b => is_dynamic a || is_dynamic b || (Nat.eqb (kind_tag a) (kind_tag b) && same_prefix (cl_ptypes a) (cl_ptypes b))) grp) grp.

  (* dispatch(): candidates of the right arity, those with fewer differing parameter types first, table order within a group *)
  Definition dispatch_closures (l : list closure) (args : list dloc) : prog (option dloc) :=
    os <- objs_of args ;;
    let right := filter (fun cl => Nat.eqb (cl_arity cl) (List.length args)) l in
    let group i := filter (fun cl => Nat.eqb (num_diffs (cl_arg_ptypes cl) os) i) right in
    let groups := map group (seq 0 (S (List.length args))) in
    if forallb order_known groups then dispatch_in_order (List.concat groups) args
    else unsup "overload order decided by type_info::before".

  (* an operator function defined by the script (def `-`(string a, string b) { … }): tried when no built-in overload applies *)
  Definition user_operator (text : string) (l r : dloc) (otherwise : prog dloc) : prog dloc :=
    fs <- Prim (PGetFuncs text) ;;
    match fs with
    | Some cls => x <- dispatch_closures cls [l; r] ;; match x with Some d => Ret d | None => otherwise end
    | None => otherwise
    end.

  (* operators that are not Boxed_Number operations: dispatch over the (modelled) registered functions *)
  Definition call_operator (text : string) (l r : dloc) : prog dloc :=
    lo <- obj_of l ;; ro <- obj_of r ;;
    match lo, ro with
    | Some (OStr a), Some (OStr b) =>
        if String.eqb text "+" then new_value (OStr (a ++ b)) false true
        else if String.eqb text "+=" then write_through l (OStr (a ++ b)) "+=" ;;; reference_to l
        else match str_cmp text a b with
             | Some x => new_value (OBool x) false true
             | None => user_operator text l r (dispatch_error text)
             end
    | Some (OStr a), Some (ONum _ t v) =>
        (* string += char is registered; any arithmetic right operand is converted to char at dispatch *)
        if String.eqb text "+=" then
          match convert t v (TI 8 true) with
          | Some (VI z) => write_through l (OStr (a ++ String (ascii_of_N (Z.to_N (Z.modulo z 256))) "")) "+=" ;;; reference_to l
          | _ => unsup "conversion of an out-of-range floating-point value"
          end
        else user_operator text l r (dispatch_error text)
    | Some (OBool a), Some (OBool b) =>
        if String.eqb text "==" then new_value (OBool (Bool.eqb a b)) false true
        else if String.eqb text "!=" then new_value (OBool (negb (Bool.eqb a b))) false true
        else dispatch_error text
    | Some (ONum _ _ _), Some (ONum _ _ _) => unsup ("operator " ++ text ++ " through dispatch")
    | Some (OVec _), _ | _, Some (OVec _) | Some (OMap _), _ | _, Some (OMap _) | Some (OFun _), _ | _, Some (OFun _)
    | Some (ODyn _ _), _ | _, Some (ODyn _ _) | Some (OExc _ _ _), _ | _, Some (OExc _ _ _) =>
        user_operator text l r (unsup ("operator " ++ text ++ " on containers/functions/objects"))
    | _, _ => user_operator text l r (dispatch_error text)
    end.

  (* typed `=` through dispatch (operators::assign<T>), ptr_assign for functions, unknown_assign *)
  Definition call_assign (l r : dloc) : prog dloc :=
    lo <- obj_of l ;; ro <- obj_of r ;;
    match lo, ro with
    | None, _ => assign_data l r ;;; Ret l                              (* unknown_assign *)
    | Some (OStr _), Some (OStr _) | Some (OBool _), Some (OBool _) | Some (OVec _), Some (OVec _) =>
        match ro with
        | Some rv => write_through l rv "=" ;;; reference_to l
        | None => dispatch_error "="
        end
    | Some (OFun _), Some (OFun _) =>
        (* ptr_assign<Proxy_Function_Base>: lhs.assign(Boxed_Value(rhs)) *)
        dl' <- Prim (PGetData l) ;;
        if d_const dl' then dispatch_error "=" else Prim (PRebindFun l r) ;;; Ret l
    | Some (OMap _), Some (OMap _) | Some (OFun _), _ | Some (ODyn _ _), _ => unsup "assignment of maps/objects"
    | _, _ => dispatch_error "="
    end.

  Definition size_value (n : nat) : prog dloc := new_value (ONum "ulong" (TI 64 false) (VI (Z.of_nat n))) false true.

  (* the arithmetic constructors int(x), long(x), … : a fresh mutable number of the target type *)
  Definition conversion_target (name : string) : option (string * nty) :=
    if String.eqb name "double" then Some ("double", TF F64)
    else if String.eqb name "int" then Some ("int", TI 32 true)
    else if String.eqb name "float" then Some ("float", TF F32)
    else if String.eqb name "long" then Some ("long", TI 64 true)
    else if String.eqb name "size_t" then Some ("ulong", TI 64 false)
    (* the remaining registered arithmetic types (LP64: the harness asserts the sizes): the C++ type behind each script name *)
    else if String.eqb name "long_double" then Some ("ldouble", TF F80)
    else if String.eqb name "unsigned_int" then Some ("uint", TI 32 false)
    else if String.eqb name "unsigned_long" then Some ("ulong", TI 64 false)
    else if String.eqb name "long_long" then Some ("llong", TI 64 true)
    else if String.eqb name "unsigned_long_long" then Some ("ullong", TI 64 false)
    else if String.eqb name "char" then Some ("char", TI 8 true)
    else if String.eqb name "wchar_t" then Some ("wchar", TI 32 true)
    else if String.eqb name "char16_t" then Some ("char16", TI 16 false)
    else if String.eqb name "char32_t" then Some ("char32", TI 32 false)
    else if String.eqb name "int8_t" then Some ("int8", TI 8 true)
    else if String.eqb name "int16_t" then Some ("int16", TI 16 true)
    else if String.eqb name "int32_t" then Some ("int", TI 32 true)
    else if String.eqb name "int64_t" then Some ("long", TI 64 true)
    else if String.eqb name "uint8_t" then Some ("uint8", TI 8 false)
    else if String.eqb name "uint16_t" then Some ("uint16", TI 16 false)
    else if String.eqb name "uint32_t" then Some ("uint", TI 32 false)
    else if String.eqb name "uint64_t" then Some ("ulong", TI 64 false)
    else None.

  Definition builtin_call (name : string) (args : list dloc) : prog dloc :=
    match args with
    | [a] =>
        o <- obj_of a ;;
        match conversion_target name with
        | Some (tn, tgt) =>
            match o with
            | Some (ONum _ t v) =>
                match convert t v tgt with
                | Some v' => new_value (ONum tn tgt v') false true
                | None => unsup "conversion of an out-of-range floating-point value"
                end
            | _ => dispatch_error name
            end
        | None =>
        if String.eqb name "print" then s <- string_of_value a ;; Prim (POut (s ++ newline)) ;;; void_var
        else if String.eqb name "puts" then s <- string_of_value a ;; Prim (POut s) ;;; void_var
        else if String.eqb name "to_string" then s <- string_of_value a ;; new_value (OStr s) false true
        else if String.eqb name "throw" then throw (EBoxed a)
        else if String.eqb name "clone" then match o with Some ob => clone_obj ob | None => dispatch_error "clone" end
        else if String.eqb name "size" then
          match o with
          | Some (OVec l) => size_value (List.length l)
          | Some (OStr s) => size_value (String.length s)
          | Some (OMap l) => size_value (List.length l)
          | _ => dispatch_error "size"
          end
        else if String.eqb name "empty" then
          match o with
          | Some (OVec l) => new_value (OBool (Nat.eqb (List.length l) 0)) false true
          | Some (OStr s) => new_value (OBool (Nat.eqb (String.length s) 0)) false true
          | Some (OMap l) => new_value (OBool (Nat.eqb (List.length l) 0)) false true
          | _ => dispatch_error "empty"
          end
        else if String.eqb name "front" then
          match o with
          | Some (OVec (x :: _)) => Ret x
          | Some (OVec []) => throw (EStd "range_error" "Container empty")
          | _ => unsup "front"
          end
        else if String.eqb name "back" then
          match o with
          | Some (OVec []) => throw (EStd "range_error" "Container empty")
          | Some (OVec l) => Ret (last l (DL 0))
          | _ => unsup "back"
          end
        else if String.eqb name "pop_back" then
          match o with
          | Some (OVec l) =>
              da <- Prim (PGetData a) ;;
              if d_const da then dispatch_error "pop_back"
              else match l with
                   | [] => throw (EStd "range_error" "Container empty")
                   | _ => write_through a (OVec (removelast l)) "pop_back" ;;; void_var
                   end
          | _ => unsup "pop_back"
          end
        else if String.eqb name "cb" then
          (* harness callback: returns its argument, or throws the configured exception on the n-th invocation *)
          t <- Prim PTick ;;
          match t with
          | None =>
              (* the callback is int(int): an arithmetic argument of another type is converted at dispatch *)
              match o with
              | Some (ONum _ t v) =>
                  match convert t v (TI 32 true) with
                  | Some v' => new_value (ONum "int" (TI 32 true) v') false true
                  | None => unsup "conversion of an out-of-range floating-point value"
                  end
              | _ => dispatch_error "cb"
              end
          | Some kd =>
              if String.eqb kd "boxed" then v <- new_value (ONum "int" (TI 32 true) (VI 77)) false false ;; throw (EBoxed v)
              else if String.eqb kd "eval_error" then eval_error "injected"
              else if String.eqb kd "foreign" then throw (EForeign "injected")
              else throw (EStd kd "injected")
          end
        else if String.eqb name "eval" then
          (* internal_eval -> do_eval: parse the text and evaluate it on the *current* stack; a Return_Value ends
             the evaluation with that value; an eval_error is handed to the script as a Boxed_Value *)
          match o with
          | Some (OStr text) =>
              t <- Prim (PEvalTree text) ;;
              match t with
              | None => unsup "eval of a text the harness did not pre-parse"
              | Some tree =>
                  Handle (Ev tree)
                    (fun r => match r with
                              | inl d => Ret d
                              | inr (FRet d) => Ret d
                              | inr (FThrow (EEval reason st)) =>
                                  ex <- new_value (OExc "eval_error" "eval_error" reason) false false ;; throw (EBoxed ex)
                              | inr f => Fail f
                              end)
              end
          | _ => dispatch_error "eval"
          end
        else if String.eqb name "what" then
          match o with
          | Some (OExc _ _ w) => new_value (OStr w) false true
          | _ => dispatch_error "what"
          end
        else dispatch_error name
        end
    | [a; b] =>
        if String.eqb name "push_back" then
          oa <- obj_of a ;;
          match oa with
          | Some (OVec _) =>
              (* prelude: def push_back(Vector container, x) — reuse a returned value, clone anything else *)
              db <- Prim (PGetData b) ;;
              e <- (if d_ret db then reset_ret b ;;; Ret b
                    else ob <- obj_of b ;;
                         match ob with Some x => clone_obj x | None => dispatch_error "clone" end) ;;
              oa' <- obj_of a ;;
              match oa' with
              | Some (OVec l') => write_through a (OVec (app l' [e])) "push_back_ref" ;;; void_var
              | _ => unsup "push_back"
              end
          | Some (OStr _) => unsup "push_back on string"
          | _ => dispatch_error "push_back"
          end
        else dispatch_error name
    | _ => dispatch_error name
    end.

  (* v[i]: call_function("[]") -> c.at(index) *)

  Definition array_call (v i : dloc) : prog dloc :=
    vo <- obj_of v ;; io <- obj_of i ;;
    match vo, z_of_index io with
    | Some (OVec l), Some z =>
        if (z <? 0)%Z then throw (EStd "out_of_range" "vector::_M_range_check")
        else match nth_error l (Z.to_nat z) with
             | Some d => Ret d
             | None => throw (EStd "out_of_range" "vector::_M_range_check")
             end
    | Some (OVec _), None => dispatch_error "[]"
    | Some (OMap l), _ =>
        (* std::map<std::string, Boxed_Value>: operator[] of a mutable map; a missing key is entered with an undefined value *)
        match io with
        | Some (OStr key) =>
            dv <- Prim (PGetData v) ;;
            if d_const dv then dispatch_error "[]"        (* only the non-const operator[] is registered for maps *)
            else match assoc l key with
                 | Some d => Ret d
                 | None => d <- new_undef ;; write_through v (OMap (map_insert key d l)) "[]" ;;; Ret d
                 end
        | _ => dispatch_error "[]"
        end
    | Some (OStr str), Some z =>
        (* string `[]` is registered as at(): a char (here: a fresh value; writing through it is not modelled) or out_of_range *)
        if (z <? 0)%Z then throw (EStd "out_of_range" "basic_string::at")
        else match get (Z.to_nat z) str with
             | Some ch => let b := Z.of_N (N_of_ascii ch) in
                          new_value (ONum "char" (TI 8 true) (VI (if (b <? 128)%Z then b else b - 256)%Z)) true true
             | None => throw (EStd "out_of_range" "basic_string::at")
             end
    | Some (OStr _), None => dispatch_error "[]"
    | _, _ => dispatch_error "[]"
    end.

  (* ------------------------------------------------------------ sequencing helpers *)
  Fixpoint eval_seq (l : list ast) : prog dloc :=
    match l with
    | [] => void_var
    | [x] => Ev x
    | x :: r => Ev x ;;; eval_seq r
    end.

  Fixpoint eval_list (l : list ast) : prog (list dloc) :=
    match l with
    | [] => Ret []
    | x :: r => d <- Ev x ;; ds <- eval_list r ;; Ret (d :: ds)
    end.

  (* Arg_List_AST_Node::get_arg_name / get_arg_type *)
  Definition arg_name (a : ast) : string :=
    match a_children a with
    | [] => a_text a
    | [x] => a_text x
    | _ :: y :: _ => a_text y
    end.
  Definition arg_type (a : ast) : string :=
    match a_children a with
    | t :: _ :: _ => a_text t
    | _ => ""
    end.

  (* AST_Node_Impl::eval: an eval_error passing through records this node in its call stack *)
  Definition with_trace (n : ast) (p : prog dloc) : prog dloc :=
    on_fail p (fun f => match f with
                        | FThrow (EEval r st) => Fail (FThrow (EEval r (app st [TE (a_kind n) (a_loc n)])))
                        | _ => Fail f
                        end).

  (* a dispatch_error leaving an operator node becomes an eval_error *)
  Definition catch_dispatch {A} (p : prog A) (reason : string) : prog A :=
    on_fail p (fun f => match f with
                        | FThrow (EStd "dispatch_error" _) => eval_error reason
                        | _ => Fail f
                        end).

  Definition do_binary (text : string) (l r : dloc) : prog dloc :=
    x <- num_binary false text l r ("Error with numeric operator calling: " ++ text) ;;
    match x with
    | Some d => Ret d
    | None => catch_dispatch (InCall (Prim (PSaveParams [l; r]) ;;; call_operator text l r)) ("Can not find appropriate '" ++ text ++ "' operator.")
    end.

  Definition eval_binary (n : ast) : prog dloc :=
    l <- Ev (child 0 n) ;; r <- Ev (child 1 n) ;; do_binary (a_text n) l r.

  Definition eval_logical (is_and : bool) (n : ast) : prog dloc :=
    l <- Ev (child 0 n) ;; lb <- get_bool l ;;
    if is_and then
      (if lb then r <- Ev (child 1 n) ;; rb <- get_bool r ;; new_value (OBool rb) true false
       else new_value (OBool false) true false)
    else
      (if lb then new_value (OBool true) true false
       else r <- Ev (child 1 n) ;; rb <- get_bool r ;; new_value (OBool rb) true false).

  Definition eval_prefix (n : ast) : prog dloc :=
    let text := a_text n in
    d <- Ev (child 0 n) ;; o <- obj_of d ;; dd <- Prim (PGetData d) ;;
    match o with
    | Some (ONum tn t v) =>
        if String.eqb text "&" then unsup "prefix &" else
        let incdec := String.eqb text "++" || String.eqb text "--" in
        if incdec && d_const dd then eval_error "Error with prefix operator evaluation: cannot modify constant value."
        else
          match n_un ops text (negb (d_const dd)) t v with
          | None => unsup ("prefix " ++ text)
          | Some (oc, v') =>
              (if incdec then match oc with Val _ _ => Prim (PWrite d (ONum tn t v')) ;;; Ret tt | _ => Ret tt end else Ret tt) ;;;
              match oc with
              | Val t' x => if incdec then Ret d else new_value (ONum (tyname_of_nty t') t' x) true false
              | ArithErr => arith_error
              | UB => unsup "UB: arithmetic undefined in C++"
              | _ => throw (EStd "bad_any_cast" "bad any cast")
              end
          end
    | Some (OBool b) =>
        if String.eqb text "!" then new_value (OBool (negb b)) false true
        else eval_error ("Error with prefix operator evaluation: '" ++ text ++ "'")
    | _ => unsup ("prefix " ++ text ++ " on non-arithmetic value")
    end.

  Definition is_reference_lhs (lhs : ast) : bool :=
    kind_eqb (a_kind lhs) KReference ||
    match a_children lhs with x :: _ => kind_eqb (a_kind x) KReference | [] => false end.

  (* Equation_AST_Node: exceptions of the arithmetic fast path become an eval_error *)
  Definition arith_assign (text : string) (l r : dloc) : prog dloc :=
    let reason := "Error with unsupported arithmetic assignment operation." in
    Handle (num_binary false text l r reason)
      (fun x => match x with
                | inl (Some d) => Ret d
                | inl None =>
                    (* to_operator does not know this text (e.g. "/="): the node calls the registered function instead *)
                    Handle (num_binary true text l r "bad_any_cast")
                      (fun y => match y with
                                | inl (Some d) => Ret d
                                | inl None => unsup "assignment operator"
                                | inr (FThrow (EEval _ _)) => eval_error ("Unable to find appropriate'" ++ text ++ "' operator.")
                                | inr f => Fail f
                                end)
                | inr (FThrow (EStd _ _)) => eval_error reason
                | inr f => Fail f
                end).

  Definition eval_equation (n : ast) : prog dloc :=
    let text := a_text n in
    InCall (
      r <- Ev (child 1 n) ;; l <- Ev (child 0 n) ;;
      dat <- Prim (PGetData l) ;;
      if d_ret dat then eval_error "Error, cannot assign to temporary value."
      else if d_const dat then eval_error "Error, cannot assign to constant value."
      else
        lo <- obj_of l ;; ro <- obj_of r ;;
        if is_arith lo && is_arith ro && is_assign_text text then arith_assign text l r
        else if String.eqb text "=" then
          match lo with
          | None =>
              if is_reference_lhs (child 0 n) then assign_data l r ;;; reset_ret l ;;; Ret r
              else r' <- catch_dispatch (clone_if_needed r) "Missing clone or copy constructor for right hand side of equation" ;;
                   catch_dispatch (call_assign l r') "Unable to find appropriate'=' operator."
          | Some _ => catch_dispatch (call_assign l r) "Unable to find appropriate'=' operator."
          end
        else if String.eqb text ":=" then
          match lo with
          | None => assign_data l r ;;; reset_ret l ;;; Ret r
          | Some _ => if String.eqb (type_name_of lo) (type_name_of ro) then assign_data l r ;;; reset_ret l ;;; Ret r
                      else eval_error "Mismatched types in equation"
          end
        else catch_dispatch (call_operator text l r) ("Unable to find appropriate'" ++ text ++ "' operator.")).

  (* declare `name` in the innermost scope; a clash is "Variable redefined" *)
  Definition declare (name : string) (d : dloc) : prog dloc :=
    ok <- Prim (PAddObject name d) ;;
    if ok : bool then Ret d else eval_error ("Variable redefined '" ++ name ++ "'").

  Definition eval_var_decl (n : ast) : prog dloc :=
    d <- new_undef ;; declare (a_text (child 0 n)) d.

  Definition eval_assign_decl (n : ast) : prog dloc :=
    v <- Ev (child 1 n) ;;
    d <- clone_if_needed v ;;
    reset_ret d ;;;
    declare (a_text (child 0 n)) d.

  (* Global_Decl_AST_Node: `global x` / `global &x`: the global of that name, created undefined when new *)
  Definition eval_global_decl (n : ast) : prog dloc :=
    let c0 := child 0 n in
    let name := match a_kind c0 with KReference => a_text (child 0 c0) | _ => a_text c0 end in
    d <- new_undef ;; Prim (PAddGlobal name d).

  Definition eval_reference (n : ast) : prog dloc :=
    d <- new_undef ;; add_object (a_text (child 0 n)) d ;;; Ret d.

  Definition eval_block (scoped : bool) (n : ast) : prog dloc :=
    if scoped then Scoped (eval_seq (a_children n)) else eval_seq (a_children n).

  Definition eval_if (n : ast) : prog dloc :=
    cnd <- Ev (child 0 n) ;; b <- get_bool cnd ;;
    if b then Ev (child 1 n) else Ev (child 2 n).

  (* ------------------------------------------------------------ loops *)
  Definition scoped_cond (cnd : ast) : prog bool := Scoped (d <- Ev cnd ;; get_bool d).

  (* body with `continue` absorbed; `break` reported as false *)
  Definition loop_body (body : prog dloc) : prog bool :=
    Handle body (fun r => match r with
                          | inl _ => Ret true
                          | inr FCont => Ret true
                          | inr FBreak => Ret false
                          | inr f => Fail f
                          end).

  Definition eval_while (n : ast) : prog dloc :=
    Scoped (Loop (b <- scoped_cond (child 0 n) ;; if b then loop_body (Ev (child 1 n)) else Ret false)) ;;; void_var.

  (* for (init; cond; step) body — the step runs before the next test, and not after a break *)
  Definition eval_for (n : ast) : prog dloc :=
    Scoped (Ev (child 0 n) ;;;
            b0 <- scoped_cond (child 1 n) ;;
            if b0 then
              Loop (go <- loop_body (Ev (child 3 n)) ;;
                    if go then Ev (child 2 n) ;;; scoped_cond (child 1 n) else Ret false)
            else Ret tt) ;;; void_var.

  (* the For_Loop optimizer's native closure: for (var i = C1; i < C2; ++i) with int constants *)
  Definition counter_below (counter : dloc) (hi : Z) : prog bool :=
    o <- obj_of counter ;;
    match o with
    | Some (ONum _ _ (VI i)) => Ret (i <? hi)%Z
    | _ => unsup "compiled loop counter"
    end.
  Definition counter_incr (counter : dloc) : prog unit :=
    o <- obj_of counter ;;
    match o with
    | Some (ONum tn t (VI j)) => Prim (PWrite counter (ONum tn t (VI (wrap 32 true (j + 1))))) ;;; Ret tt
    | _ => unsup "compiled loop counter"
    end.

  Definition const_int (a : ast) : option Z :=
    match a_const a with Some (_, CNum _ (TI 32 true) (VI z)) => Some z | _ => None end.

  Definition eval_compiled (n : ast) : prog dloc :=
    (* ( Compiled <original For without its body> <body> ) *)
    let orig := child 0 n in
    let body := child 1 n in
    let init := child 0 orig in
    match const_int (child 1 init), const_int (child 1 (child 1 orig)) with
    | Some lo, Some hi =>
        Scoped (
          (* the counter keeps its own handle on the int (the C++ closure's `int &i`): rebinding the
             loop variable from script does not redirect the loop *)
          d <- new_value (ONum "int" (TI 32 true) (VI lo)) false false ;;
          counter <- Prim (PAlias d false) ;;
          add_object (a_text (child 0 init)) d ;;;
          b0 <- counter_below counter hi ;;
          if b0 then
            Loop (go <- loop_body (Ev body) ;;
                  if go then counter_incr counter ;;; counter_below counter hi else Ret false)
          else Ret tt) ;;; void_var
    | _, _ => unsup "compiled node shape"
    end.

  Fixpoint ranged_loop (name : string) (elems : list dloc) (body : ast) : prog unit :=
    match elems with
    | [] => Ret tt
    | e :: r =>
        go <- Scoped (add_object name e ;;; loop_body (Ev body)) ;;
        if go then ranged_loop name r body else Ret tt
    end.

  Definition eval_ranged_for (n : ast) : prog dloc :=
    rng <- Ev (child 1 n) ;; o <- obj_of rng ;;
    match o with
    | Some (OVec l) => ranged_loop (a_text (child 0 n)) l (child 2 n) ;;; void_var
    | _ => unsup "ranged for over a non-vector"
    end.

  Fixpoint inline_items (l : list ast) (acc : list dloc) : prog dloc :=
    match l with
    | [] => new_value (OVec (rev acc)) true false
    | x :: r =>
        v <- Ev x ;;
        e <- catch_dispatch (clone_if_needed v) "Can not find appropriate 'clone' or copy constructor for vector elements" ;;
        inline_items r (e :: acc)
    end.
  Definition eval_inline_array (n : ast) : prog dloc :=
    inline_items (match a_children n with x :: _ => a_children x | [] => [] end) [].

  (* Inline_Map_AST_Node: keys must be strings; values are cloned; a repeated key keeps the first entry; the map value is const *)
  Fixpoint inline_pairs (l : list ast) (acc : list (string * dloc)) : prog dloc :=
    match l with
    | [] => new_value (OMap acc) true false
    | x :: r =>
        k <- Ev (child 0 x) ;; ko <- obj_of k ;;
        match ko with
        | Some (OStr key) =>
            v <- Ev (child 1 x) ;;
            e <- catch_dispatch (clone_if_needed v) "Can not find appropriate copy constructor or 'clone' while inserting into Map." ;;
            inline_pairs r (map_insert key e acc)
        | _ => throw (EStd "bad_boxed_cast" "Cannot perform boxed_cast")
        end
    end.
  Definition eval_inline_map (n : ast) : prog dloc :=
    inline_pairs (match a_children n with x :: _ => a_children x | [] => [] end) [].

  (* ------------------------------------------------------------ functions *)
  Definition has_guard (children : list ast) (offset : nat) : bool :=
    let n := List.length children in
    if Nat.ltb (2 + offset) n && kind_eqb (a_kind (nth (1 + offset) children null_ast)) KArg_List then Nat.ltb (3 + offset) n
    else Nat.ltb (2 + offset) n.

  Definition make_def_closure (n : ast) : closure :=
    let ch := a_children n in
    let guarded := has_guard ch 1 in
    let body := last ch null_ast in
    let guard := if guarded then Some (nth (List.length ch - 2) ch null_ast) else None in
    let kept := firstn (List.length ch - (if guarded then 2 else 1)) ch in
    let params := match kept with _ :: al :: _ => if kind_eqb (a_kind al) KArg_List then a_children al else [] | _ => [] end in
    mkclosure (a_text (child 0 n)) (map arg_name params) (map arg_type params) body guard [] false CKPlain.

  Definition same_kind_class (a b : closure) : bool :=
    match cl_kind a, cl_kind b with
    | CKPlain, CKPlain => true
    | CKMethod x, CKMethod y | CKCtor x, CKCtor y | CKAttr x _, CKAttr y _ => String.eqb x y
    | _, _ => false
    end.

  (* Proxy_Function_Base::operator== as add_function uses it on the overloads of one name: two attribute accessors of one class are
     equal (the same C++ lambda type); script functions are equal when unguarded with equal declared parameter lists *)
  Definition closure_sig_eq (a b : closure) : bool :=
    same_kind_class a b &&
    (match cl_kind a with
     | CKAttr _ _ => true
     | _ => Nat.eqb (List.length (cl_params a)) (List.length (cl_params b))
            && (match cl_guard a, cl_guard b with None, None => true | _, _ => false end)
            && forallb (fun p => String.eqb (fst p) (snd p)) (combine (cl_ptypes a) (cl_ptypes b))
     end).

  Definition is_guarded (x : closure) : bool := match cl_guard x with Some _ => true | None => false end.


  (* add_function: reject an equal signature, then stable-sort: wrappers (methods, constructors, attributes) first, then guarded
     script functions, then unguarded ones *)
  Definition add_function (cl : closure) (redefined : string) : prog dloc :=
    let name := cl_name cl in
    if negb (is_dynamic cl) && (existsb (String.eqb name) builtin_names || existsb (String.eqb name) unmodelled_names)
    then unsup "member named like an engine function" else
    fs <- Prim (PGetFuncs name) ;;
    match fs with
    | None => Prim (PSetFuncs name [cl]) ;;; void_var
    | Some l =>
        if existsb (closure_sig_eq cl) l then eval_error (redefined ++ " '" ++ name ++ "'")
        else let l' := app l [cl] in
             Prim (PSetFuncs name (app (filter (fun x => negb (is_dynamic x)) l')
                                  (app (filter (fun x => is_dynamic x && is_guarded x) l')
                                       (filter (fun x => is_dynamic x && negb (is_guarded x)) l')))) ;;; void_var
    end.

  Definition eval_def (n : ast) : prog dloc := add_function (make_def_closure n) "Function redefined".

  (* Method_AST_Node: ( Method class name [Arg_List] [guard] body ); `this` is the implied first parameter, typed with the class *)
  Definition eval_method (n : ast) : prog dloc :=
    let ch := a_children n in
    let guarded := has_guard ch 1 in
    let body := last ch null_ast in
    let guard := if guarded then Some (nth (List.length ch - 2) ch null_ast) else None in
    let kept := firstn (List.length ch - (if guarded then 2 else 1)) ch in
    let params := match kept with _ :: _ :: al :: _ => if kind_eqb (a_kind al) KArg_List then a_children al else [] | _ => [] end in
    let cls := a_text (child 0 n) in
    let name := a_text (child 1 n) in
    let is_c := String.eqb name cls in
    add_function (mkclosure name ("this" :: map arg_name params) (cls :: map arg_type params) body guard [] false
                            (if is_c then CKCtor cls else CKMethod cls))
                 "Method redefined".

  (* Attr_Decl_AST_Node: ( Attr_Decl class name ) *)
  Definition eval_attr_decl (n : ast) : prog dloc :=
    let cls := a_text (child 0 n) in
    let name := a_text (child 1 n) in
    add_function (mkclosure name ["this"] [cls] null_ast None [] false (CKAttr cls name)) "Attribute redefined".

  (* Class_AST_Node: the body runs in a scope that holds the class name *)
  Definition eval_class (n : ast) : prog dloc :=
    Scoped (v <- new_value (OStr (a_text (child 0 n))) true false ;;
            add_object "_current_class_name" v ;;;
            Ev (child 1 n)) ;;; void_var.

  Fixpoint insert_sorted (k : string) (v : dloc) (l : list (string * dloc)) : list (string * dloc) :=
    match l with
    | [] => [(k, v)]
    | (k', v') :: r => if String.eqb k k' then l else if string_lt k k' then (k, v) :: l else (k', v') :: insert_sorted k v r
    end.

  Fixpoint eval_captures (l : list ast) (acc : list (string * dloc)) : prog (list (string * dloc)) :=
    match l with
    | [] => Ret acc
    | x :: r => d <- Ev (child 0 x) ;; eval_captures r (insert_sorted (a_text (child 0 x)) d acc)
    end.

  Definition eval_lambda (n : ast) : prog dloc :=
    (* ( Lambda captures params body ) *)
    let caps := a_children (child 0 n) in
    let params := a_children (child 1 n) in
    cs <- eval_captures caps [] ;;
    let this_cap := existsb (fun x => String.eqb (a_text (child 0 x)) "this") caps in
    new_value (OFun (FClosure (mkclosure "" (map arg_name params) (map arg_type params) (child 2 n) None cs this_cap CKPlain))) false false.

  Definition call_single (cl : closure) (args : list dloc) (fname : string) : prog dloc :=
    if negb (Nat.eqb (List.length args) (cl_arity cl)) then
      eval_error ("Function dispatch arity mismatch with function '" ++ fname ++ "'")
    else x <- try_closure cl args ;;
         match x with
         | Some d => Ret d
         | None => eval_error ("Guard evaluation failed with function '" ++ fname ++ "'")
         end.

  Definition call_function_object (f : fnobj) (args : list dloc) (fname : string) : prog dloc :=
    match f with
    | FClosure cl => call_single cl args fname
    | FNamed name =>
        fs <- Prim (PGetFuncs name) ;;
        let builtin := existsb (String.eqb name) builtin_names in
        match fs, builtin with
        | Some [cl], false =>
            (* a single overload is called directly — unless it declares an arithmetic parameter: add_function then wraps it in a
               Dispatch_Function (for arithmetic conversions), and a refusal is a dispatch error *)
            if existsb (fun t => existsb (String.eqb t) arith_type_names) (cl_ptypes cl) then
              x <- dispatch_closures [cl] args ;;
              match x with
              | Some d => Ret d
              | None => eval_error ("Error with function dispatch for function '" ++ name ++ "' with function '" ++ fname ++ "'")
              end
            else call_single cl args fname
        | _, _ =>
            x <- dispatch_closures (match fs with Some l => l | None => [] end) args ;;
            match x with
            | Some d => Ret d
            | None =>
                let reason := "Error with function dispatch for function '" ++ name ++ "' with function '" ++ fname ++ "'" in
                if builtin then catch_dispatch (builtin_call name args) reason else eval_error reason
            end
        end
    end.

  Definition absorb_return (p : prog dloc) : prog dloc :=
    on_fail p (fun f => match f with FRet d => Ret d | _ => Fail f end).

  Definition eval_fun_call (save : bool) (n : ast) : prog dloc :=
    InCall (
      args <- eval_list (a_children (child 1 n)) ;;
      (if save then Prim (PSaveParams args) else Ret tt) ;;;
      f <- Ev (child 0 n) ;;
      fo <- obj_of f ;;
      match fo with
      | Some (OFun fn) => absorb_return (call_function_object fn args (a_text (child 0 n)))
      | _ => eval_error ("'" ++ a_text (child 0 n) ++ "' does not evaluate to a function.")
      end).

  (* calling a function *value* (what an attribute holds) with `args`: None = it refused them (arity_error, guard_error, bad_boxed_cast) *)
  Definition call_fn_value (f : fnobj) (args : list dloc) : prog (option dloc) :=
    match f with
    | FClosure cl => if Nat.eqb (List.length args) (cl_arity cl) then try_closure cl args else Ret None
    | FNamed name =>
        if existsb (String.eqb name) builtin_names then unsup "engine function held in an attribute" else
        fs <- Prim (PGetFuncs name) ;;
        match fs with
        | Some [cl] =>
            if existsb (fun t => existsb (String.eqb t) arith_type_names) (cl_ptypes cl) then
              x <- dispatch_closures [cl] args ;; match x with Some d => Ret (Some d) | None => dispatch_error name end
            else if Nat.eqb (List.length args) (cl_arity cl) then try_closure cl args else Ret None
        | Some l => x <- dispatch_closures l args ;; match x with Some d => Ret (Some d) | None => dispatch_error name end
        | None => dispatch_error name
        end
    end.

  (* Dispatch_Engine::call_member's do_attribute_call: the value `bv` found for the member; when arguments remain, or the value is
     a function, it is called with them in a scope holding `__this` (This_Foist) *)
  Definition attribute_call (this : dloc) (bv : dloc) (rest : list dloc) (name : string) : prog dloc :=
    bo <- obj_of bv ;;
    match bo, rest with
    | Some (OFun f), _ =>
        Scoped (add_object "__this" this ;;;
                x <- call_fn_value f rest ;;
                match x with Some d => Ret d | None => dispatch_error name end)
    | _, [] => Ret bv
    | _, _ => dispatch_error name            (* boxed_cast<const Proxy_Function_Base *> fails *)
    end.

  (* Dispatch_Engine::call_member for a script object as first parameter *)
  Definition call_member (name : string) (this : dloc) (args : list dloc) (has_params : bool) : prog dloc :=
    if existsb (String.eqb name) builtin_names || existsb (String.eqb name) unmodelled_names then unsup ("engine function " ++ name ++ " on a script object") else
    fs <- Prim (PGetFuncs name) ;;
    to <- obj_of this ;;
    let l := match fs with Some l => l | None => [] end in
    let is_attr_for cl := match cl_kind cl with CKAttr cls _ => class_accepts cls to | _ => false end in
    if has_params && existsb is_attr_for l then
      x <- dispatch_closures l [this] ;;
      match x with
      | Some bv => attribute_call this bv args name
      | None => dispatch_error name
      end
    else
      x <- dispatch_closures l (this :: args) ;;
      match x with
      | Some d => Ret d
      | None =>
          (* method_missing(Dynamic_Object &, name) = get_attr(name): an undeclared member is an attribute created on the spot *)
          dd <- Prim (PGetData this) ;;
          if d_const dd then unsup "member of a const object" else
          bv <- get_attr this name ;;
          attribute_call this bv args name
      end.

  (* Dot_Access_AST_Node: obj.f(args) / obj.a: the object is the first argument *)
  Definition eval_dot_access (n : ast) : prog dloc :=
    let rhs := child 1 n in
    let name := match a_kind rhs with KFun_Call => a_text (child 0 rhs) | _ => a_text rhs end in
    let reason := "Error with function dispatch for function '" ++ name ++ "'" in
    match a_kind rhs with
    | KFun_Call =>
        InCall (
          o <- Ev (child 0 n) ;;
          args <- eval_list (a_children (child 1 rhs)) ;;
          Prim (PSaveParams (o :: args)) ;;;
          oo <- obj_of o ;;
          match oo with
          | Some (ODyn _ _) => absorb_return (catch_dispatch (call_member name o args true) reason)
          | _ => absorb_return (call_function_object (FNamed name) (o :: args) name)
          end)
    | KId =>
        InCall (
          o <- Ev (child 0 n) ;;
          Prim (PSaveParams [o]) ;;;
          oo <- obj_of o ;;
          match oo with
          | Some (ODyn _ _) => absorb_return (catch_dispatch (call_member name o [] false) reason)
          | _ => unsup "attribute access on a built-in value"
          end)
    | _ => unsup "attribute access"
    end.

  Definition eval_array_call (n : ast) : prog dloc :=
    InCall (
      v <- Ev (child 0 n) ;; i <- Ev (child 1 n) ;;
      Prim (PSaveParams [v; i]) ;;;
      catch_dispatch (array_call v i) "Can not find appropriate array lookup operator '[]'.").

  (* ------------------------------------------------------------ switch *)
  (* one case: Some matched' to go on, None when a `break` left the switch *)
  Definition switch_case (cs : ast) (value : dloc) (matched : bool) : prog (option bool) :=
    let run :=
      match a_kind cs with
      | KCase =>
          cv <- Ev (child 0 cs) ;;
          hit <- (if matched then Ret true
                  else eq <- do_binary "==" value cv ;; eo <- obj_of eq ;;
                       match eo with Some (OBool b) => Ret b | _ => eval_error "Internal error: case guard evaluation not boolean" end) ;;
          (if hit : bool then Ev cs ;;; Ret true else Ret false)
      | KDefault => Ev cs ;;; Ret true
      | _ => Ret matched
      end in
    Handle run (fun r => match r with
                         | inl m => Ret (Some m)
                         | inr FBreak => Ret None
                         | inr f => Fail f
                         end).

  Fixpoint switch_cases (cases : list ast) (value : dloc) (matched : bool) : prog unit :=
    match cases with
    | [] => Ret tt
    | cs :: r =>
        go <- switch_case cs value matched ;;
        match go with
        | None => Ret tt
        | Some m => switch_cases r value (matched || m)
        end
    end.

  Definition eval_switch (n : ast) : prog dloc :=
    Scoped (v <- Ev (child 0 n) ;; switch_cases (tl (a_children n)) v false) ;;; void_var.

  (* ------------------------------------------------------------ try / catch / finally (as repaired) *)
  Definition exc_bases (ty : string) : list string :=
    if String.eqb ty "eval_error" then ["runtime_error"; "exception"]
    else if String.eqb ty "arithmetic_error" then ["runtime_error"; "exception"]
    else if String.eqb ty "runtime_error" then ["exception"]
    else if String.eqb ty "out_of_range" then ["logic_error"; "exception"]
    else if String.eqb ty "logic_error" then ["exception"]
    else [].

  (* does a clause typed `ty` accept the boxed exception? (Param_Types::match + the conversion attempt) *)
  Definition clause_accepts (ty : string) (o : option obj) : bool :=
    if String.eqb ty "" then true
    else match o with
         | Some (OExc st dyn _) =>
             String.eqb ty st
             || existsb (String.eqb ty) (exc_bases st)                                  (* up-cast *)
             || (existsb (String.eqb st) (exc_bases ty) && (String.eqb ty dyn || existsb (String.eqb ty) (exc_bases dyn)))  (* down-cast that succeeds *)
         | Some (ONum tn _ _) => String.eqb ty tn
         | _ => String.eqb ty (type_name_of o)
         end.

  Definition box_exception (e : exn) : prog dloc :=
    match e with
    | EBoxed d => Ret d
    | EEval r _ => new_value (OExc "eval_error" "eval_error" r) true false
    | EStd ty w =>
        let st := if String.eqb ty "arithmetic_error" || String.eqb ty "range_error" then "runtime_error"
                  else if String.eqb ty "out_of_range" then "out_of_range"
                  else if String.eqb ty "runtime_error" then "runtime_error" else "exception" in
        new_value (OExc st ty w) true false
    | EForeign w => new_value (OExc "foreign" "foreign" w) true false   (* never reached: eval_try does not box foreign exceptions *)
    end.

  Definition known_type (ty : string) : bool :=
    existsb (String.eqb ty) [""; "int"; "bool"; "string"; "Vector"; "Map"; "double"; "exception"; "runtime_error"; "eval_error";
                             "arithmetic_error"; "out_of_range"; "logic_error"].

  (* one clause, in its own scope: Some value if it accepted the exception *)
  Definition try_clause (cl : ast) (ex : dloc) : prog (option dloc) :=
    Scoped (
      match a_children cl with
      | [body] => d <- Ev body ;; Ret (Some d)
      | [arg; body] =>
          let ty := arg_type arg in
          if negb (known_type ty) then unsup "catch clause type" else
          o <- obj_of ex ;;
          if clause_accepts ty o then add_object (arg_name arg) ex ;;; d <- Ev body ;; Ret (Some d)
          else Ret None
      | _ => eval_error "Internal error: catch block size unrecognized"
      end).

  Fixpoint handle_exception (clauses : list ast) (ex : dloc) : prog (option dloc) :=
    match clauses with
    | [] => Ret None
    | cl :: r => x <- try_clause cl ex ;; match x with Some d => Ret (Some d) | None => handle_exception r ex end
    end.

  (* the finally block, then the pending outcome; the block's own value replaces a normal result *)
  Definition run_finally (fin : option ast) (pending : dloc + fail) : prog dloc :=
    match fin with
    | None => match pending with inl d => Ret d | inr f => Fail f end
    | Some b => d <- Ev b ;; match pending with inl _ => Ret d | inr f => Fail f end
    end.

  Definition try_parts (n : ast) : option ast * list ast :=
    let ch := a_children n in
    (match last ch null_ast with Node KFinally _ _ _ _ (b :: _) => Some b | _ => None end,
     filter (fun x => kind_eqb (a_kind x) KCatch) ch).

  Definition eval_try (n : ast) : prog dloc :=
    let '(fin, clauses) := try_parts n in
    Scoped (
      Handle (Ev (child 0 n))
        (fun r => match r with
                  | inr (FThrow (EForeign w)) => run_finally fin r      (* catch (...): finally, then rethrow *)
                  | inr (FThrow e) =>
                      Handle (ex <- box_exception e ;; handle_exception clauses ex)
                        (fun h => match h with
                                  | inl (Some d) => run_finally fin (inl d)
                                  | inl None => run_finally fin (inr (FThrow e))    (* no clause accepted it: it continues unchanged *)
                                  | inr (FUnsup w) => Fail (FUnsup w)
                                  | inr f => run_finally fin (inr f)                (* a catch block threw / returned / broke *)
                                  end)
                  | inr (FUnsup w) => Fail (FUnsup w)
                  | other => run_finally fin other
                  end)).

  (* ------------------------------------------------------------ one node *)
  (* Constant_AST_Node::eval_internal returns m_value: one Boxed_Value per node, created when the node is built
     (here: on its first evaluation) and shared by every evaluation *)
  Definition eval_constant (n : ast) : prog dloc :=
    cached <- Prim (PGetConst (hint_key n)) ;;
    match cached with
    | Some d => Ret d
    | None =>
        d <- match a_const n with
             | Some (isc, CNum tn t v) => new_value (ONum tn t v) isc false
             | Some (isc, CBool b) => new_value (OBool b) isc false
             | Some (isc, CStr s) => new_value (OStr s) isc false
             | _ => unsup "constant kind"
             end ;;
        Prim (PSetConst (hint_key n) d) ;;; Ret d
    end.

  Definition node_prog (n : ast) : prog dloc :=
    with_trace n (
    match a_kind n with
    | KConstant => eval_constant n
    | KId => lookup_id c n
    | KBinary => eval_binary n
    | KLogical_And => eval_logical true n
    | KLogical_Or => eval_logical false n
    | KPrefix => eval_prefix n
    | KEquation => eval_equation n
    | KVar_Decl => eval_var_decl n
    | KAssign_Decl => eval_assign_decl n
    | KReference => eval_reference n
    | KGlobal_Decl => eval_global_decl n
    | KBlock => eval_block true n
    | KScopeless_Block => eval_block false n
    | KIf => eval_if n
    | KWhile => eval_while n
    | KFor => eval_for n
    | KCompiled => eval_compiled n
    | KRanged_For => eval_ranged_for n
    | KInline_Array => eval_inline_array n
    | KInline_Map => eval_inline_map n
    | KDef => eval_def n
    | KMethod => eval_method n
    | KAttr_Decl => eval_attr_decl n
    | KClass => eval_class n
    | KLambda => eval_lambda n
    | KFun_Call => eval_fun_call (negb (String.eqb (a_cls n) "UnusedReturn")) n
    | KUnused_Return_Fun_Call => eval_fun_call false n
    | KDot_Access => eval_dot_access n
    | KArray_Call => eval_array_call n
    | KSwitch => eval_switch n
    | KCase => Scoped (Ev (child 1 n)) ;;; void_var
    | KDefault => Scoped (Ev (child 0 n)) ;;; void_var
    | KTry => eval_try n
    | KReturn => match a_children n with
                 | x :: _ => d <- Ev x ;; Fail (FRet d)
                 | [] => d <- void_var ;; Fail (FRet d)
                 end
    | KBreak => Fail FBreak
    | KContinue => Fail FCont
    | KNoop => void_var
    | KFile =>
        on_fail (eval_seq (a_children n))
          (fun f => match f with
                    | FCont => eval_error "Unexpected `continue` statement outside of a loop"
                    | FBreak => eval_error "Unexpected `break` statement outside of a loop"
                    | _ => Fail f
                    end)
    | k => unsup ("node " ++ name_of_kind k)
    end).
End EVAL.

Fixpoint eval (c : cfg) (ops : numops) (fuel : nat) (n : ast) : M dloc :=
  match fuel with
  | O => fun s => (RFuel, s)
  | S f => run (eval c ops f) f (node_prog c ops n)
  end.

(* ChaiScript_Basic::eval: a Return_Value reaching the top is the result *)
Definition run_program (c : cfg) (ops : numops) (fuel : nat) (n : ast) (s : state) : res dloc * state :=
  match eval c ops fuel n s with
  | (RFail (FRet d), s') => (RVal d, s')
  | x => x
  end.
