(* The interpreter proper. Every node's semantics is a function of `ev`, the evaluator for
   sub-terms with one unit of fuel less; `eval` ties the knot. Proofs quantify over `ev`. *)
From Coq Require Import ZArith NArith List Bool String Ascii Floats.SpecFloat.
From ChaiV Require Import StrUtil NumDefs NumSpecRun Ast EvalDefs.
Import ListNotations.
Local Open Scope string_scope.

(* how operator texts are executed on arithmetic operands: instantiated with the regenerated tables
   (mechanism model) or with the specification *)
Record numops := mknumops {
  n_bin : string -> bool -> nty -> nval -> nty -> nval -> option (outcome * nval);   (* None: text is not an arithmetic operator *)
  n_un : string -> bool -> nty -> nval -> option (outcome * nval);
  n_fn_bin : string -> bool -> nty -> nval -> nty -> nval -> option (outcome * nval) }.  (* the same operator called as a function *)

Section EVAL.
  Variable c : cfg.
  Variable ops : numops.

  Definition arith_error {A} : M A := throw (EStd "arithmetic_error" "Arithmetic error: divide by zero").

  (* wrap the outcome of Boxed_Number::go into Boxed_Values *)
  Definition box_outcome (o : outcome) (lhs : nat) (inplace : bool) (on_reject : string) : M nat :=
    match o with
    | Val TBool (VI z) => new_value (OBool (negb (Z.eqb z 0))) true false
    | Val t v => if inplace then ret lhs else new_value (ONum (tyname_of_nty t) t v) true false
    | ArithErr => arith_error
    | UB => unsup "UB: arithmetic undefined in C++ (signed overflow, over-wide shift, ...)"
    | _ => eval_error on_reject
    end.

  Definition is_assign_text (t : string) : bool :=
    existsb (String.eqb t) ["="; "+="; "-="; "*="; "/="; "%="; "<<="; ">>="; "&="; "|="; "^="].

  (* Boxed_Number::do_oper on two arithmetic Boxed_Values *)
  Definition num_binary (via_fn : bool) (text : string) (l r : nat) (on_reject : string) : M (option nat) :=
    lo <- obj_of l ;; ro <- obj_of r ;;
    match lo, ro with
    | Some (ONum tn1 t1 v1), Some (ONum _ t2 v2) =>
        dl <- get_data l ;;
        let mutable_lhs := negb (d_const dl) && negb (d_ret dl) in
        match (if via_fn then n_fn_bin ops else n_bin ops) text mutable_lhs t1 v1 t2 v2 with
        | None => ret None
        | Some (o, v1') =>
            let inplace := is_assign_text text in
            (if inplace then
               match o, d_obj dl with
               | Val _ _, Some ol => set_obj_at ol (ONum tn1 t1 v1')
               | _, _ => ret tt
               end
             else ret tt) ;;;
            d <- box_outcome o l inplace on_reject ;; ret (Some d)
        end
    | _, _ => ret None
    end.

  (* ------------------------------------------------------------ non-arithmetic operators and builtins *)
  Definition dispatch_error {A} (what : string) : M A := throw (EStd "dispatch_error" what).

  Definition string_of_value (o : option obj) : M string :=
    match o with
    | Some (ONum _ (TI _ _) (VI z)) => ret (dec_of_z z)
    | Some (OBool b) => ret (if b then "true" else "false")
    | Some (OStr s) => ret s
    | _ => unsup "to_string of this kind of value"
    end.

  Definition newline : string := String (ascii_of_nat 10) "".

  Definition str_cmp (op : string) (a b : string) : option bool :=
    if String.eqb op "==" then Some (String.eqb a b)
    else if String.eqb op "!=" then Some (negb (String.eqb a b))
    else if String.eqb op "<" then Some (string_lt a b)
    else if String.eqb op ">" then Some (string_lt b a)
    else if String.eqb op "<=" then Some (negb (string_lt b a))
    else if String.eqb op ">=" then Some (negb (string_lt a b))
    else None.

  (* operators that are not Boxed_Number operations: dispatch over the (modelled) registered functions *)
  Definition call_operator (text : string) (l r : nat) : M nat :=
    lo <- obj_of l ;; ro <- obj_of r ;;
    match lo, ro with
    | Some (OStr a), Some (OStr b) =>
        if String.eqb text "+" then new_value (OStr (a ++ b)) false true
        else if String.eqb text "+=" then
          dl <- get_data l ;;
          if d_const dl then dispatch_error "+=" else
          match d_obj dl with
          | Some ol => set_obj_at ol (OStr (a ++ b)) ;;; alloc_data (mkdata (Some ol) false true)
          | None => dispatch_error "+="
          end
        else match str_cmp text a b with
             | Some x => new_value (OBool x) false true
             | None => dispatch_error text
             end
    | Some (OBool a), Some (OBool b) =>
        if String.eqb text "==" then new_value (OBool (Bool.eqb a b)) false true
        else if String.eqb text "!=" then new_value (OBool (negb (Bool.eqb a b))) false true
        else dispatch_error text
    | Some (ONum _ _ _), Some (ONum _ _ _) => unsup ("operator " ++ text ++ " through dispatch")
    | Some (OVec _), _ | _, Some (OVec _) | Some (OMap _), _ | _, Some (OMap _) | Some (OFun _), _ | _, Some (OFun _)
    | Some (ODyn _ _), _ | _, Some (ODyn _ _) | Some (OExc _ _ _), _ | _, Some (OExc _ _ _) =>
        unsup ("operator " ++ text ++ " on containers/functions/objects")
    | _, _ => dispatch_error text
    end.

  (* typed `=` through dispatch (operators::assign<T>) and unknown_assign *)
  Definition call_assign (l r : nat) : M nat :=
    lo <- obj_of l ;; ro <- obj_of r ;; dl <- get_data l ;;
    match lo, ro with
    | None, Some _ => assign_data l r ;;; ret l                       (* unknown_assign *)
    | None, None => assign_data l r ;;; ret l
    | Some (OStr _), Some (OStr _) | Some (OBool _), Some (OBool _) =>
        (* equal kinds: the object is overwritten in place, a reference is returned *)
        if d_const dl then dispatch_error "=" else
        match d_obj dl, ro with
        | Some ol, Some rv => set_obj_at ol rv ;;; alloc_data (mkdata (Some ol) false true)
        | _, _ => dispatch_error "="
        end
    | Some (OVec _), Some (OVec b) =>
        if d_const dl then dispatch_error "=" else
        match d_obj dl with
        | Some ol => set_obj_at ol (OVec b) ;;; alloc_data (mkdata (Some ol) false true)
        | None => dispatch_error "="
        end
    | Some (OFun _), Some (OFun _) =>
        (* ptr_assign<Proxy_Function_Base>: lhs.assign(Boxed_Value(rhs)) *)
        dr <- get_data r ;;
        if d_const dl then dispatch_error "=" else set_data_at l (mkdata (d_obj dr) false false) ;;; ret l
    | Some (OMap _), Some (OMap _) | Some (OFun _), _ | Some (ODyn _ _), _ => unsup "assignment of maps/objects"
    | _, _ => dispatch_error "="
    end.

  Definition builtin_call (name : string) (args : list nat) : M nat :=
    match args with
    | [a] =>
        o <- obj_of a ;;
        if String.eqb name "print" then
          s <- string_of_value o ;; modify (fun st => set_out st (s_out st ++ s ++ newline)) ;;; void_var
        else if String.eqb name "puts" then
          s <- string_of_value o ;; modify (fun st => set_out st (s_out st ++ s)) ;;; void_var
        else if String.eqb name "to_string" then
          s <- string_of_value o ;; new_value (OStr s) false true
        else if String.eqb name "throw" then throw (EBoxed a)
        else if String.eqb name "clone" then
          match o with Some ob => clone_obj ob | None => dispatch_error "clone" end
        else if String.eqb name "size" then
          match o with
          | Some (OVec l) => new_value (ONum "ulong" (TI 64 false) (VI (Z.of_nat (List.length l)))) false true
          | Some (OStr s) => new_value (ONum "ulong" (TI 64 false) (VI (Z.of_nat (String.length s)))) false true
          | Some (OMap l) => new_value (ONum "ulong" (TI 64 false) (VI (Z.of_nat (List.length l)))) false true
          | _ => dispatch_error "size"
          end
        else if String.eqb name "empty" then
          match o with
          | Some (OVec l) => new_value (OBool (Nat.eqb (List.length l) 0)) false true
          | Some (OStr s) => new_value (OBool (Nat.eqb (String.length s) 0)) false true
          | Some (OMap l) => new_value (OBool (Nat.eqb (List.length l) 0)) false true
          | _ => dispatch_error "empty"
          end
        else if String.eqb name "front" then
          match o with
          | Some (OVec (x :: _)) => ret x
          | Some (OVec []) => throw (EStd "range_error" "Container empty")
          | _ => unsup "front"
          end
        else if String.eqb name "back" then
          match o with
          | Some (OVec []) => throw (EStd "range_error" "Container empty")
          | Some (OVec l) => ret (last l 0%nat)
          | _ => unsup "back"
          end
        else if String.eqb name "pop_back" then
          da <- get_data a ;;
          match o, d_obj da with
          | Some (OVec l), Some ol =>
              if d_const da then dispatch_error "pop_back"
              else match l with
                   | [] => throw (EStd "range_error" "Container empty")
                   | _ => set_obj_at ol (OVec (removelast l)) ;;; void_var
                   end
          | _, _ => unsup "pop_back"
          end
        else if String.eqb name "what" then
          match o with
          | Some (OExc _ _ w) => new_value (OStr w) false true
          | _ => dispatch_error "what"
          end
        else dispatch_error name
    | [a; b] =>
        if String.eqb name "push_back" then
          oa <- obj_of a ;; da <- get_data a ;;
          match oa, d_obj da with
          | Some (OVec l), Some ol =>
              (* prelude: def push_back(Vector container, x) — reuse a returned value, clone anything else *)
              db <- get_data b ;;
              e <- (if d_ret db then reset_ret b ;;; ret b
                    else ob <- obj_of b ;;
                         match ob with Some x => clone_obj x | None => dispatch_error "clone" end) ;;
              if d_const da then dispatch_error "push_back_ref"
              else oa' <- obj_of a ;;
                   match oa' with
                   | Some (OVec l') => set_obj_at ol (OVec (app l' [e])) ;;; void_var
                   | _ => unsup "push_back"
                   end
          | Some (OStr _), _ => unsup "push_back on string"
          | _, _ => dispatch_error "push_back"
          end
        else dispatch_error name
    | _ => dispatch_error name
    end.

  (* v[i]: call_function("[]") -> c.at(index) *)
  Definition array_call (v i : nat) : M nat :=
    vo <- obj_of v ;; io <- obj_of i ;;
    match vo, z_of_index io with
    | Some (OVec l), Some z =>
        if (z <? 0)%Z then throw (EStd "out_of_range" "vector::_M_range_check")
        else match nth_error l (Z.to_nat z) with
             | Some d => ret d
             | None => throw (EStd "out_of_range" "vector::_M_range_check")
             end
    | Some (OVec _), None => dispatch_error "[]"
    | Some (OStr _), _ | Some (OMap _), _ => unsup "[] on string/map"
    | _, _ => dispatch_error "[]"
    end.

  (* ------------------------------------------------------------ the evaluator for sub-terms *)
  Variable ev : ast -> M nat.

  Fixpoint eval_seq (l : list ast) : M nat :=
    match l with
    | [] => void_var
    | [x] => ev x
    | x :: r => ev x ;;; eval_seq r
    end.

  Fixpoint eval_list (l : list ast) : M (list nat) :=
    match l with
    | [] => ret []
    | x :: r => d <- ev x ;; ds <- eval_list r ;; ret (d :: ds)
    end.

  (* Arg_List_AST_Node::get_arg_name / get_arg_type *)
  Definition arg_name (a : ast) : string :=
    match a_children a with
    | [] => a_text a
    | [x] => a_text x
    | _ :: y :: _ => a_text y
    end.
  Definition arg_type (a : ast) : string :=
    match a_children a with
    | t :: _ :: _ => a_text t
    | _ => ""
    end.

  Definition with_trace (n : ast) (m : M nat) : M nat :=
    fun s => match m s with
             | (RThrow (EEval r st), s') => (RThrow (EEval r (app st [TE (a_kind n) (a_loc n)])), s')
             | x => x
             end.

  (* exceptions from Boxed_Number inside operator nodes *)
  Definition catch_dispatch {A} (m : M A) (reason : string) : M A :=
    fun s => match m s with
             | (RThrow (EStd "dispatch_error" _), s') => (RThrow (EEval reason []), s')
             | x => x
             end.

  Definition do_binary (text : string) (l r : nat) : M nat :=
    x <- num_binary false text l r ("Error with numeric operator calling: " ++ text) ;;
    match x with
    | Some d => ret d
    | None => catch_dispatch (with_call (save_params [l; r] ;;; call_operator text l r)) ("Can not find appropriate '" ++ text ++ "' operator.")
    end.

  Definition eval_binary (n : ast) : M nat :=
    l <- ev (child 0 n) ;; r <- ev (child 1 n) ;; do_binary (a_text n) l r.

  Definition eval_logical (is_and : bool) (n : ast) : M nat :=
    l <- ev (child 0 n) ;; lb <- get_bool l ;;
    if is_and then
      (if lb then r <- ev (child 1 n) ;; rb <- get_bool r ;; new_value (OBool rb) true false
       else new_value (OBool false) true false)
    else
      (if lb then new_value (OBool true) true false
       else r <- ev (child 1 n) ;; rb <- get_bool r ;; new_value (OBool rb) true false).

  Definition eval_prefix (n : ast) : M nat :=
    let text := a_text n in
    d <- ev (child 0 n) ;; o <- obj_of d ;; dd <- get_data d ;;
    match o with
    | Some (ONum tn t v) =>
        if String.eqb text "&" then unsup "prefix &" else
        let incdec := String.eqb text "++" || String.eqb text "--" in
        if incdec && d_const dd then eval_error "Error with prefix operator evaluation: cannot modify constant value."
        else
          match n_un ops text (negb (d_const dd)) t v with
          | None => unsup ("prefix " ++ text)
          | Some (oc, v') =>
              (if incdec then match oc, d_obj dd with Val _ _, Some ol => set_obj_at ol (ONum tn t v') | _, _ => ret tt end else ret tt) ;;;
              match oc with
              | Val t' x => if incdec then ret d else new_value (ONum (tyname_of_nty t') t' x) true false
              | ArithErr => arith_error
              | UB => unsup "UB: arithmetic undefined in C++"
              | _ => throw (EStd "bad_any_cast" "bad any cast")
              end
          end
    | Some (OBool b) =>
        if String.eqb text "!" then new_value (OBool (negb b)) false true
        else catch_dispatch (dispatch_error text) ("Error with prefix operator evaluation: '" ++ text ++ "'")
    | _ => unsup ("prefix " ++ text ++ " on non-arithmetic value")
    end.

  Definition is_reference_lhs (lhs : ast) : bool :=
    kind_eqb (a_kind lhs) KReference ||
    match a_children lhs with x :: _ => kind_eqb (a_kind x) KReference | [] => false end.

  Definition eval_equation (n : ast) : M nat :=
    let text := a_text n in
    with_call (
      r <- ev (child 1 n) ;; l <- ev (child 0 n) ;;
      dl <- get_data l ;;
      if d_ret dl then eval_error "Error, cannot assign to temporary value."
      else if d_const dl then eval_error "Error, cannot assign to constant value."
      else
        lo <- obj_of l ;; ro <- obj_of r ;;
        if is_arith lo && is_arith ro && is_assign_text text then
          fun s => match num_binary false text l r "Error with unsupported arithmetic assignment operation." s with
                   | (RVal (Some d), s') => (RVal d, s')
                   | (RVal None, s') =>
                       (* to_operator does not know this text (e.g. "/="): the node calls the registered function instead *)
                       (match num_binary true text l r "bad_any_cast" s' with
                        | (RVal (Some d), s'') => (RVal d, s'')
                        | (RVal None, s'') => (RUnsup "assignment operator", s'')
                        | (RThrow (EEval _ _), s'') => (RThrow (EEval ("Unable to find appropriate'" ++ text ++ "' operator.") []), s'')
                        | x => (match fst x with RVal _ => RUnsup "assignment" | RRet d => RRet d | RBreak => RBreak | RCont => RCont
                                            | RThrow e => RThrow e | RFuel => RFuel | RUnsup w => RUnsup w end, snd x)
                        end)
                   | (RThrow (EStd _ _), s') => (RThrow (EEval "Error with unsupported arithmetic assignment operation." []), s')
                   | (RThrow e, s') => (RThrow e, s')
                   | (RRet d, s') => (RRet d, s') | (RBreak, s') => (RBreak, s') | (RCont, s') => (RCont, s')
                   | (RFuel, s') => (RFuel, s') | (RUnsup w, s') => (RUnsup w, s')
                   end
        else if String.eqb text "=" then
          match lo with
          | None =>
              if is_reference_lhs (child 0 n) then assign_data l r ;;; reset_ret l ;;; ret r
              else r' <- catch_dispatch (clone_if_necessary r) "Missing clone or copy constructor for right hand side of equation" ;;
                   catch_dispatch (call_assign l r') "Unable to find appropriate'=' operator."
          | Some _ => catch_dispatch (call_assign l r) "Unable to find appropriate'=' operator."
          end
        else if String.eqb text ":=" then
          match lo with
          | None => assign_data l r ;;; reset_ret l ;;; ret r
          | Some _ => if String.eqb (type_name_of lo) (type_name_of ro) then assign_data l r ;;; reset_ret l ;;; ret r
                      else eval_error "Mismatched types in equation"
          end
        else catch_dispatch (call_operator text l r) ("Unable to find appropriate'" ++ text ++ "' operator.")).

  Definition eval_var_decl (n : ast) : M nat :=
    d <- new_undef ;;
    fun s => match add_object (a_text (child 0 n)) d s with
             | (RThrow (EStd "name_conflict_error" nm), s') => (RThrow (EEval ("Variable redefined '" ++ nm ++ "'") []), s')
             | (RVal _, s') => (RVal d, s')
             | (RUnsup w, s') => (RUnsup w, s')
             | (_, s') => (RUnsup "add_object", s')
             end.

  Definition eval_assign_decl (n : ast) : M nat :=
    v <- ev (child 1 n) ;;
    d <- clone_if_necessary v ;;
    reset_ret d ;;;
    fun s => match add_object (a_text (child 0 n)) d s with
             | (RThrow (EStd "name_conflict_error" nm), s') => (RThrow (EEval ("Variable redefined '" ++ nm ++ "'") []), s')
             | (RVal _, s') => (RVal d, s')
             | (RUnsup w, s') => (RUnsup w, s')
             | (_, s') => (RUnsup "add_object", s')
             end.

  Definition eval_reference (n : ast) : M nat :=
    d <- new_undef ;; add_object (a_text (child 0 n)) d ;;; ret d.

  Definition eval_block (scoped : bool) (n : ast) : M nat :=
    if scoped then with_scope (eval_seq (a_children n)) else eval_seq (a_children n).

  Definition eval_if (n : ast) : M nat :=
    cnd <- ev (child 0 n) ;; b <- get_bool cnd ;;
    if b then ev (child 1 n) else ev (child 2 n).

  (* loops: `k` bounds the number of iterations (it is the evaluator's fuel) *)
  Definition scoped_cond (cnd : ast) : M bool := with_scope (d <- ev cnd ;; get_bool d).

  (* body with `continue` absorbed; `break` reported as false *)
  Definition loop_body (body : M nat) : M bool :=
    fun s => match body s with
             | (RVal _, s') => (RVal true, s')
             | (RCont, s') => (RVal true, s')
             | (RBreak, s') => (RVal false, s')
             | (RRet d, s') => (RRet d, s')
             | (RThrow e, s') => (RThrow e, s')
             | (RFuel, s') => (RFuel, s')
             | (RUnsup w, s') => (RUnsup w, s')
             end.

  Fixpoint while_loop (k : nat) (cnd body : ast) : M unit :=
    match k with
    | O => fun s => (RFuel, s)
    | S k' =>
        b <- scoped_cond cnd ;;
        if b then go <- loop_body (ev body) ;; (if go then while_loop k' cnd body else ret tt)
        else ret tt
    end.

  Fixpoint for_loop (k : nat) (cnd step body : ast) : M unit :=
    match k with
    | O => fun s => (RFuel, s)
    | S k' =>
        b <- scoped_cond cnd ;;
        if b then go <- loop_body (ev body) ;; (if go then ev step ;;; for_loop k' cnd step body else ret tt)
        else ret tt
    end.

  Variable fuel : nat.

  Definition eval_while (n : ast) : M nat :=
    with_scope (while_loop fuel (child 0 n) (child 1 n)) ;;; void_var.

  Definition eval_for (n : ast) : M nat :=
    with_scope (ev (child 0 n) ;;; for_loop fuel (child 1 n) (child 2 n) (child 3 n)) ;;; void_var.

  (* the For_Loop optimizer's native closure: for (var i = C1; i < C2; ++i) with int constants *)
  Fixpoint compiled_loop (k : nat) (counter_obj : nat) (hi : Z) (body : ast) : M unit :=
    match k with
    | O => fun s => (RFuel, s)
    | S k' =>
        o <- get_obj_at counter_obj ;;
        match o with
        | ONum tn t (VI i) =>
            if (i <? hi)%Z then
              go <- loop_body (ev body) ;;
              if go then
                o' <- get_obj_at counter_obj ;;
                match o' with
                | ONum tn' t' (VI j) => set_obj_at counter_obj (ONum tn' t' (VI (wrap 32 true (j + 1)))) ;;; compiled_loop k' counter_obj hi body
                | _ => unsup "compiled loop counter"
                end
              else ret tt
            else ret tt
        | _ => unsup "compiled loop counter"
        end
    end.

  Definition const_int (a : ast) : option Z :=
    match a_const a with Some (_, CNum _ (TI 32 true) (VI z)) => Some z | _ => None end.

  Definition eval_compiled (n : ast) : M nat :=
    (* ( Compiled <original For without its body> <body> ) *)
    let orig := child 0 n in
    let body := child 1 n in
    let init := child 0 orig in
    match const_int (child 1 init), const_int (child 1 (child 1 orig)) with
    | Some lo, Some hi =>
        with_scope (
          ol <- alloc_obj (ONum "int" (TI 32 true) (VI lo)) ;;
          d <- alloc_data (mkdata (Some ol) false false) ;;
          add_object (a_text (child 0 init)) d ;;;
          compiled_loop fuel ol hi body) ;;; void_var
    | _, _ => unsup "compiled node shape"
    end.

  Fixpoint ranged_loop (name : string) (elems : list nat) (body : ast) : M unit :=
    match elems with
    | [] => ret tt
    | e :: r =>
        go <- with_scope (add_object name e ;;; loop_body (ev body)) ;;
        if go then ranged_loop name r body else ret tt
    end.

  Definition eval_ranged_for (n : ast) : M nat :=
    rng <- ev (child 1 n) ;; o <- obj_of rng ;;
    match o with
    | Some (OVec l) => ranged_loop (a_text (child 0 n)) l (child 2 n) ;;; void_var
    | _ => unsup "ranged for over a non-vector"
    end.

  Definition eval_inline_array (n : ast) : M nat :=
    let items := match a_children n with x :: _ => a_children x | [] => [] end in
    (fix go (l : list ast) (acc : list nat) : M nat :=
       match l with
       | [] => new_value (OVec (rev acc)) true false
       | x :: r => v <- ev x ;; e <- catch_dispatch (clone_if_necessary v) "Can not find appropriate 'clone' or copy constructor for vector elements" ;; go r (e :: acc)
       end) items [].

  (* ------------------------------------------------------------ functions *)
  Definition has_guard (children : list ast) (offset : nat) : bool :=
    let n := List.length children in
    if Nat.ltb (2 + offset) n && kind_eqb (a_kind (nth (1 + offset) children null_ast)) KArg_List then Nat.ltb (3 + offset) n
    else Nat.ltb (2 + offset) n.

  Definition make_def_closure (n : ast) : closure :=
    let ch := a_children n in
    let guarded := has_guard ch 1 in
    let body := last ch null_ast in
    let guard := if guarded then Some (nth (List.length ch - 2) ch null_ast) else None in
    let kept := firstn (List.length ch - (if guarded then 2 else 1)) ch in
    let params := match kept with _ :: al :: _ => if kind_eqb (a_kind al) KArg_List then a_children al else [] | _ => [] end in
    mkclosure (a_text (child 0 n)) (map arg_name params) (map arg_type params) body guard [] false.

  Definition closure_sig_eq (a b : closure) : bool :=
    Nat.eqb (List.length (cl_params a)) (List.length (cl_params b))
    && (match cl_guard a, cl_guard b with None, None => true | _, _ => false end)
    && forallb (fun p => String.eqb (fst p) (snd p)) (combine (cl_ptypes a) (cl_ptypes b)).

  (* add_function: reject an equal signature, then stable-sort guarded overloads first *)
  Definition add_function (cl : closure) : M unit :=
    s <- get_state ;;
    let name := cl_name cl in
    match assoc (s_funcs s) name with
    | None => put_state (set_funcs s (app (s_funcs s) [(name, [cl])]))
    | Some l =>
        if existsb (closure_sig_eq cl) l then throw (EStd "name_conflict_error" name)
        else
          let l' := app l [cl] in
          let sorted := app (filter (fun x => match cl_guard x with Some _ => true | None => false end) l')
                            (filter (fun x => match cl_guard x with Some _ => false | None => true end) l') in
          put_state (set_funcs s (map (fun e => if String.eqb (fst e) name then (name, sorted) else e) (s_funcs s)))
    end.

  Definition eval_def (n : ast) : M nat :=
    let cl := make_def_closure n in
    if existsb (fun t => negb (String.eqb t "")) (cl_ptypes cl) then unsup "typed parameters"
    else
    fun s => match add_function cl s with
             | (RThrow (EStd "name_conflict_error" nm), s') => (RThrow (EEval ("Function redefined '" ++ nm ++ "'") []), s')
             | (RVal _, s') => void_var s'
             | (RUnsup w, s') => (RUnsup w, s')
             | (_, s') => (RUnsup "add_function", s')
             end.

  Fixpoint insert_sorted (k : string) (v : nat) (l : list (string * nat)) : list (string * nat) :=
    match l with
    | [] => [(k, v)]
    | (k', v') :: r => if String.eqb k k' then l else if string_lt k k' then (k, v) :: l else (k', v') :: insert_sorted k v r
    end.

  Definition eval_lambda (n : ast) : M nat :=
    (* ( Lambda captures params body ) *)
    let caps := a_children (child 0 n) in
    let params := a_children (child 1 n) in
    cs <- (fix go (l : list ast) (acc : list (string * nat)) : M (list (string * nat)) :=
             match l with
             | [] => ret acc
             | x :: r => d <- ev (child 0 x) ;; go r (insert_sorted (a_text (child 0 x)) d acc)
             end) caps [] ;;
    if existsb (fun p => negb (String.eqb (arg_type p) "")) params then unsup "typed parameters"
    else
    let this_cap := existsb (fun x => String.eqb (a_text (child 0 x)) "this") caps in
    new_value (OFun (FClosure (mkclosure "" (map arg_name params) (map arg_type params) (child 2 n) None cs this_cap))) false false.

  (* detail::eval_function *)
  Definition call_closure (cl : closure) (args : list nat) (body : ast) : M nat :=
    s0 <- get_state ;;
    let this_obj :=
      match s_stacks s0 with
      | (sc :: _) :: _ => match last sc ("", 0%nat) with
                          | (nm, d) => if String.eqb nm "__this" then Some d else match args with a :: _ => Some a | [] => None end
                          end
      | _ => match args with a :: _ => Some a | [] => None end
      end in
    with_frame (
      (match this_obj with
       | Some t => if cl_this_capture cl then ret tt else add_object "this" t
       | None => ret tt
       end) ;;;
      (fix addcaps (l : list (string * nat)) : M unit :=
         match l with [] => ret tt | (k, v) :: r => add_object k v ;;; addcaps r end) (cl_caps cl) ;;;
      (fix addparams (ps : list string) (vs : list nat) : M unit :=
         match ps, vs with
         | p :: pr, v :: vr => (if String.eqb p "this" then ret tt else add_object p v) ;;; addparams pr vr
         | _, _ => ret tt
         end) (cl_params cl) args ;;;
      fun s => match ev body s with
               | (RRet d, s') => (RVal d, s')
               | x => x
               end).

  (* Dynamic_Proxy_Function::do_call for one overload: None = does not apply (arity / guard) *)
  Definition try_closure (cl : closure) (args : list nat) : M (option nat) :=
    if negb (Nat.eqb (List.length args) (List.length (cl_params cl))) then ret None
    else
      ok <- match cl_guard cl with
            | None => ret true
            | Some g =>
                fun s => match call_closure cl args g s with
                         | (RVal d, s') => (match obj_of d s' with (RVal (Some (OBool b)), s'') => (RVal b, s'') | (_, s'') => (RVal false, s'') end)
                         | (RThrow _, s') => (RVal false, s')       (* test_guard swallows every exception *)
                         | (RRet d, s') => (RVal false, s')
                         | (RBreak, s') => (RVal false, s') | (RCont, s') => (RVal false, s')
                         | (RFuel, s') => (RFuel, s') | (RUnsup w, s') => (RUnsup w, s')
                         end
            end ;;
      if ok then d <- call_closure cl args (cl_body cl) ;; ret (Some d) else ret None.

  Fixpoint dispatch_closures (l : list closure) (args : list nat) : M (option nat) :=
    match l with
    | [] => ret None
    | cl :: r => x <- try_closure cl args ;; match x with Some d => ret (Some d) | None => dispatch_closures r args end
    end.

  Definition call_function_object (f : fnobj) (args : list nat) (fname : string) : M nat :=
    match f with
    | FClosure cl =>
        if negb (Nat.eqb (List.length args) (List.length (cl_params cl))) then
          eval_error ("Function dispatch arity mismatch with function '" ++ fname ++ "'")
        else x <- try_closure cl args ;;
             match x with
             | Some d => ret d
             | None => eval_error ("Guard evaluation failed with function '" ++ fname ++ "'")
             end
    | FNamed name =>
        s <- get_state ;;
        match assoc (s_funcs s) name, existsb (String.eqb name) builtin_names with
        | Some [cl], false =>
            (* a single overload is called directly, not through a Dispatch_Function wrapper *)
            if negb (Nat.eqb (List.length args) (List.length (cl_params cl))) then
              eval_error ("Function dispatch arity mismatch with function '" ++ fname ++ "'")
            else x <- try_closure cl args ;;
                 match x with
                 | Some d => ret d
                 | None => eval_error ("Guard evaluation failed with function '" ++ fname ++ "'")
                 end
        | _, _ =>
        x <- dispatch_closures (match assoc (s_funcs s) name with Some l => l | None => [] end) args ;;
        match x with
        | Some d => ret d
        | None =>
            if existsb (String.eqb name) builtin_names then
              catch_dispatch (builtin_call name args) ("Error with function dispatch for function '" ++ name ++ "' with function '" ++ fname ++ "'")
            else eval_error ("Error with function dispatch for function '" ++ name ++ "' with function '" ++ fname ++ "'")
        end
        end
    end.

  Definition eval_fun_call (save : bool) (n : ast) : M nat :=
    with_call (
      args <- eval_list (a_children (child 1 n)) ;;
      (if save then save_params args else ret tt) ;;;
      f <- ev (child 0 n) ;;
      fo <- obj_of f ;;
      match fo with
      | Some (OFun fn) =>
          fun s => match call_function_object fn args (a_text (child 0 n)) s with
                   | (RRet d, s') => (RVal d, s')
                   | x => x
                   end
      | _ => eval_error ("'" ++ a_text (child 0 n) ++ "' does not evaluate to a function.")
      end).

  (* obj.f(args): the object is the first argument *)
  Definition eval_dot_access (n : ast) : M nat :=
    let rhs := child 1 n in
    match a_kind rhs with
    | KFun_Call =>
        with_call (
          o <- ev (child 0 n) ;;
          args <- eval_list (a_children (child 1 rhs)) ;;
          save_params (o :: args) ;;;
          let name := a_text (child 0 rhs) in
          oo <- obj_of o ;;
          match oo with
          | Some (ODyn _ _) => unsup "method call on a script object"
          | _ =>
              fun s => match call_function_object (FNamed name) (o :: args) name s with
                       | (RRet d, s') => (RVal d, s')
                       | (RThrow (EEval r st), s') => (RThrow (EEval r st), s')
                       | x => x
                       end
          end)
    | _ => unsup "attribute access"
    end.

  Definition eval_array_call (n : ast) : M nat :=
    with_call (
      v <- ev (child 0 n) ;; i <- ev (child 1 n) ;;
      save_params [v; i] ;;;
      catch_dispatch (array_call v i) "Can not find appropriate array lookup operator '[]'.").

  (* ------------------------------------------------------------ switch *)
  Fixpoint switch_cases (cases : list ast) (value : nat) (matched : bool) : M unit :=
    match cases with
    | [] => ret tt
    | cs :: r =>
        go <- (fun s =>
                 let run :=
                   match a_kind cs with
                   | KCase =>
                       cv <- ev (child 0 cs) ;;
                       hit <- (if matched then ret true
                               else eq <- do_binary "==" value cv ;; eo <- obj_of eq ;;
                                    match eo with Some (OBool b) => ret b | _ => eval_error "Internal error: case guard evaluation not boolean" end) ;;
                       (if hit then ev cs ;;; ret true else ret false)
                   | KDefault => ev cs ;;; ret true
                   | _ => ret matched
                   end in
                 match run s with
                 | (RVal m, s') => (RVal (Some m), s')
                 | (RBreak, s') => (RVal None, s')
                 | (RCont, s') => (RCont, s') | (RRet d, s') => (RRet d, s') | (RThrow e, s') => (RThrow e, s')
                 | (RFuel, s') => (RFuel, s') | (RUnsup w, s') => (RUnsup w, s')
                 end) ;;
        match go with
        | None => ret tt
        | Some m => switch_cases r value (matched || m)
        end
    end.

  Definition eval_switch (n : ast) : M nat :=
    with_scope (v <- ev (child 0 n) ;; switch_cases (tl (a_children n)) v false) ;;; void_var.

  (* ------------------------------------------------------------ try / catch / finally (as repaired) *)
  Definition exc_bases (ty : string) : list string :=
    if String.eqb ty "eval_error" then ["runtime_error"; "exception"]
    else if String.eqb ty "arithmetic_error" then ["runtime_error"; "exception"]
    else if String.eqb ty "runtime_error" then ["exception"]
    else if String.eqb ty "out_of_range" then ["logic_error"; "exception"]
    else if String.eqb ty "logic_error" then ["exception"]
    else [].

  (* does a clause typed `ty` accept the boxed exception? (Param_Types::match + conversion attempt) *)
  Definition clause_accepts (ty : string) (o : option obj) : bool :=
    if String.eqb ty "" then true
    else match o with
         | Some (OExc st dyn _) =>
             String.eqb ty st
             || existsb (String.eqb ty) (exc_bases st)                                  (* up-cast *)
             || (existsb (String.eqb st) (exc_bases ty) && (String.eqb ty dyn || existsb (String.eqb ty) (exc_bases dyn)))  (* down-cast that succeeds *)
         | Some (ONum tn _ _) => String.eqb ty tn
         | _ => String.eqb ty (type_name_of o)
         end.

  Definition box_exception (e : exn) : M nat :=
    match e with
    | EBoxed d => ret d
    | EEval r _ => new_value (OExc "eval_error" "eval_error" r) true false
    | EStd ty w =>
        let st := if String.eqb ty "arithmetic_error" || String.eqb ty "range_error" then "runtime_error"
                  else if String.eqb ty "out_of_range" then "out_of_range"
                  else if String.eqb ty "runtime_error" then "runtime_error" else "exception" in
        new_value (OExc st ty w) true false
    end.

  Definition known_type (ty : string) : bool :=
    existsb (String.eqb ty) [""; "int"; "bool"; "string"; "Vector"; "Map"; "double"; "exception"; "runtime_error"; "eval_error";
                             "arithmetic_error"; "out_of_range"; "logic_error"].

  Fixpoint handle_exception (clauses : list ast) (ex : nat) : M (option nat) :=
    match clauses with
    | [] => ret None
    | cl :: r =>
        x <- with_scope (
               match a_children cl with
               | [body] => d <- ev body ;; ret (Some d)
               | [arg; body] =>
                   let ty := arg_type arg in
                   if negb (known_type ty) then unsup "catch clause type" else
                   o <- obj_of ex ;;
                   if clause_accepts ty o then add_object (arg_name arg) ex ;;; d <- ev body ;; ret (Some d)
                   else ret None
               | _ => eval_error "Internal error: catch block size unrecognized"
               end) ;;
        match x with Some d => ret (Some d) | None => handle_exception r ex end
    end.

  Definition eval_try (n : ast) : M nat :=
    let ch := a_children n in
    let fin := match last ch null_ast with Node KFinally _ _ _ _ (b :: _) => Some b | _ => None end in
    let clauses := filter (fun x => kind_eqb (a_kind x) KCatch) ch in
    let run_finally (after : res nat) : M nat :=
        match fin with
        | None => fun s => (after, s)
        | Some b => fun s => match ev b s with
                             | (RVal d, s') => (match after with RVal _ => RVal d | x => x end, s')
                             | x => x
                             end
        end in
    with_scope (
      fun s =>
        match ev (child 0 n) s with
        | (RThrow e, s1) =>
            (match (ex <- box_exception e ;; handle_exception clauses ex) s1 with
             | (RVal (Some d), s2) => run_finally (RVal d) s2
             | (RVal None, s2) => run_finally (RThrow e) s2
             | (RRet d, s2) => run_finally (RRet d) s2
             | (RBreak, s2) => run_finally RBreak s2
             | (RCont, s2) => run_finally RCont s2
             | (RThrow e', s2) => run_finally (RThrow e') s2
             | (RFuel, s2) => (RFuel, s2)
             | (RUnsup w, s2) => (RUnsup w, s2)
             end)
        | (RFuel, s1) => (RFuel, s1)
        | (RUnsup w, s1) => (RUnsup w, s1)
        | (r, s1) => run_finally r s1
        end).

  (* ------------------------------------------------------------ one node *)
  Definition eval_constant (n : ast) : M nat :=
    match a_const n with
    | Some (isc, CNum tn t v) => new_value (ONum tn t v) isc false
    | Some (isc, CBool b) => new_value (OBool b) isc false
    | Some (isc, CStr s) => new_value (OStr s) isc false
    | _ => unsup "constant kind"
    end.

  Definition eval_node (n : ast) : M nat :=
    with_trace n (
    match a_kind n with
    | KConstant => eval_constant n
    | KId => lookup_id c n
    | KBinary => eval_binary n
    | KLogical_And => eval_logical true n
    | KLogical_Or => eval_logical false n
    | KPrefix => eval_prefix n
    | KEquation => eval_equation n
    | KVar_Decl => eval_var_decl n
    | KAssign_Decl => eval_assign_decl n
    | KReference => eval_reference n
    | KBlock => eval_block true n
    | KScopeless_Block => eval_block false n
    | KIf => eval_if n
    | KWhile => eval_while n
    | KFor => eval_for n
    | KCompiled => eval_compiled n
    | KRanged_For => eval_ranged_for n
    | KInline_Array => eval_inline_array n
    | KDef => eval_def n
    | KLambda => eval_lambda n
    | KFun_Call => eval_fun_call (negb (String.eqb (a_cls n) "UnusedReturn")) n
    | KUnused_Return_Fun_Call => eval_fun_call false n
    | KDot_Access => eval_dot_access n
    | KArray_Call => eval_array_call n
    | KSwitch => eval_switch n
    | KCase => with_scope (ev (child 1 n)) ;;; void_var
    | KDefault => with_scope (ev (child 0 n)) ;;; void_var
    | KTry => eval_try n
    | KReturn => match a_children n with
                 | x :: _ => d <- ev x ;; (fun s => (RRet d, s))
                 | [] => d <- void_var ;; (fun s => (RRet d, s))
                 end
    | KBreak => fun s => (RBreak, s)
    | KContinue => fun s => (RCont, s)
    | KNoop => void_var
    | KFile =>
        fun s => match eval_seq (a_children n) s with
                 | (RCont, s') => (RThrow (EEval "Unexpected `continue` statement outside of a loop" []), s')
                 | (RBreak, s') => (RThrow (EEval "Unexpected `break` statement outside of a loop" []), s')
                 | x => x
                 end
    | k => unsup ("node " ++ name_of_kind k)
    end).
End EVAL.

Fixpoint eval (c : cfg) (ops : numops) (fuel : nat) (n : ast) : M nat :=
  match fuel with
  | O => fun s => (RFuel, s)
  | S f => eval_node c ops (eval c ops f) f n
  end.

(* ChaiScript_Basic::eval: a Return_Value reaching the top is the result *)
Definition run_program (c : cfg) (ops : numops) (fuel : nat) (n : ast) (s : state) : res nat * state :=
  match eval c ops fuel n s with
  | (RRet d, s') => (RVal d, s')
  | x => x
  end.
