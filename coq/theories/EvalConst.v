(* M3 — constness discipline of the evaluator model (C08, and the script-side half of C07):
   an object all of whose Boxed_Values are const is never changed by any evaluation, and stays
   reachable only through const Boxed_Values. Proved once for the primitive heap operations and the
   combinators; every node inherits it. Consequence: the Boxed_Value a Constant node owns (created
   const by the parser / the optimizer) keeps its value through every later evaluation, whatever ran
   in between: evaluating code does not change the code. *)
From Coq Require Import ZArith NArith List Bool String Lia.
From ChaiV Require Import StrUtil NumDefs NumSpecRun Ast EvalDefs Eval EvalMeta.
Import ListNotations.

(* every Boxed_Value points at an allocated object *)
Definition heap_wf (s : state) : Prop :=
  forall i x o, nth_error (s_data s) i = Some x -> d_obj x = Some (OL o) -> o < List.length (s_objs s).

(* the objects of F exist and are reachable through const Boxed_Values only *)
Definition frozen (F : list nat) (s : state) : Prop :=
  (forall o, In o F -> o < List.length (s_objs s)) /\
  (forall i x o, nth_error (s_data s) i = Some x -> d_obj x = Some (OL o) -> In o F -> d_const x = true).

Definition cinv (F : list nat) (s : state) : Prop := heap_wf s /\ frozen F s.

Definition same_on (F : list nat) (s s' : state) : Prop :=
  forall o, In o F -> nth_error (s_objs s') o = nth_error (s_objs s) o.

Definition keeps {A} (F : list nat) (m : M A) : Prop :=
  forall s r s', m s = (r, s') -> cinv F s -> cinv F s' /\ same_on F s s'.

Lemma same_on_refl F s : same_on F s s.
Proof. intros o _; reflexivity. Qed.
Lemma same_on_trans F s1 s2 s3 : same_on F s1 s2 -> same_on F s2 s3 -> same_on F s1 s3.
Proof. intros H1 H2 o Ho. rewrite (H2 o Ho). apply H1; assumption. Qed.

(* ---- list facts *)
Lemma nth_error_replace_same {A} (l : list A) i x : i < List.length l -> nth_error (replace_nth i l x) i = Some x.
Proof. revert i; induction l as [|h t IH]; intros [|i] Hi; cbn in *; try lia; [reflexivity|apply IH; lia]. Qed.
Lemma nth_error_replace_other {A} (l : list A) i j x : i <> j -> nth_error (replace_nth i l x) j = nth_error l j.
Proof. revert i j; induction l as [|h t IH]; intros [|i] [|j] Hne; cbn; try reflexivity; try lia. apply IH; lia. Qed.
Lemma replace_nth_length {A} (l : list A) i x : List.length (replace_nth i l x) = List.length l.
Proof. revert i; induction l as [|h t IH]; intros [|i]; cbn; try reflexivity. rewrite IH; reflexivity. Qed.
Lemma nth_error_replace_cases {A} (l : list A) i j x y :
  nth_error (replace_nth i l x) j = Some y -> (j = i /\ y = x) \/ nth_error l j = Some y.
Proof.
  intros H. destruct (Nat.eq_dec i j) as [->|Hne].
  - destruct (Nat.lt_ge_cases j (List.length l)) as [Hlt|Hge].
    + rewrite nth_error_replace_same in H by assumption. inversion H; subst. left; split; reflexivity.
    + assert (nth_error (replace_nth j l x) j = None) by (apply nth_error_None; rewrite replace_nth_length; assumption). congruence.
  - rewrite nth_error_replace_other in H by assumption. right; assumption.
Qed.
Lemma nth_error_app_cases {A} (l : list A) x j y :
  nth_error (l ++ [x])%list j = Some y -> nth_error l j = Some y \/ (j = List.length l /\ y = x).
Proof.
  intros H. destruct (Nat.lt_ge_cases j (List.length l)) as [Hlt|Hge].
  - rewrite nth_error_app1 in H by assumption. left; assumption.
  - rewrite nth_error_app2 in H by assumption. destruct (j - List.length l) as [|k] eqn:E.
    + cbn in H. inversion H; subst. right. split; [lia|reflexivity].
    + cbn in H. destruct k; discriminate.
Qed.

(* ---- the heap primitives *)
Section PRIMS.
  Variable F : list nat.

  Ltac start := intros s r s' H [Hwf [Hb Hc]].

  Lemma keeps_unchanged_heap A (m : M A) :
    (forall s r s', m s = (r, s') -> s_objs s' = s_objs s /\ s_data s' = s_data s) -> keeps F m.
  Proof.
    intros Hm s r s' H [Hwf [Hb Hc]]. destruct (Hm _ _ _ H) as [Eo Ed].
    split; [|intros o _; rewrite Eo; reflexivity].
    split; [|split].
    - intros i x o. rewrite Ed, Eo. apply Hwf.
    - intros o Ho. rewrite Eo. apply Hb; assumption.
    - intros i x o. rewrite Ed. apply Hc.
  Qed.

  Lemma keeps_new_value o c0 r0 : keeps F (run_prim (PNewValue o c0 r0)).
  Proof.
    start. cbn [run_prim] in H. inversion H; subst; clear H. cbn.
    split; [split; [|split]|].
    - intros i x o' Hn Ho. cbn in *. rewrite app_length; cbn.
      apply nth_error_app_cases in Hn. destruct Hn as [Hn|[-> ->]].
      + specialize (Hwf _ _ _ Hn Ho). lia.
      + cbn in Ho. inversion Ho; subst. lia.
    - intros o' Ho. cbn. rewrite app_length; cbn. specialize (Hb _ Ho). lia.
    - intros i x o' Hn Ho Hin. cbn in *.
      apply nth_error_app_cases in Hn. destruct Hn as [Hn|[-> ->]].
      + eapply Hc; eauto.
      + cbn in Ho. inversion Ho; subst. specialize (Hb _ Hin). lia.
    - intros o' Ho. cbn. rewrite nth_error_app1 by (apply Hb; assumption). reflexivity.
  Qed.

  Lemma keeps_new_undef : keeps F (run_prim PNewUndef).
  Proof.
    start. cbn [run_prim] in H. inversion H; subst; clear H.
    split; [split; [|split]|(intros ? ?; reflexivity)].
    - intros i x o' Hn Ho. cbn in *. apply nth_error_app_cases in Hn. destruct Hn as [Hn|[-> ->]]; [eapply Hwf; eauto|discriminate].
    - exact Hb.
    - intros i x o' Hn Ho Hin. cbn in *. apply nth_error_app_cases in Hn. destruct Hn as [Hn|[-> ->]]; [eapply Hc; eauto|discriminate].
  Qed.

  Lemma keeps_alias d r0 : keeps F (run_prim (PAlias d r0)).
  Proof.
    start. cbn [run_prim] in H. destruct (nth_error (s_data s) (dl d)) as [x0|] eqn:E; inversion H; subst; clear H;
      [|split; [split; [|split]; assumption|(intros ? ?; reflexivity)]].
    split; [split; [|split]|(intros ? ?; reflexivity)].
    - intros i x o' Hn Ho. cbn in *. apply nth_error_app_cases in Hn. destruct Hn as [Hn|[-> ->]]; [eapply Hwf; eauto|].
      cbn in Ho. eapply Hwf; eauto.
    - exact Hb.
    - intros i x o' Hn Ho Hin. cbn in *. apply nth_error_app_cases in Hn. destruct Hn as [Hn|[-> ->]]; [eapply Hc; eauto|].
      cbn in *. eapply Hc; eauto.
  Qed.

  Lemma keeps_assign l r0 : keeps F (run_prim (PAssign l r0)).
  Proof.
    start. cbn [run_prim] in H. destruct (nth_error (s_data s) (dl r0)) as [x0|] eqn:E; inversion H; subst; clear H;
      [|split; [split; [|split]; assumption|(intros ? ?; reflexivity)]].
    split; [split; [|split]|(intros ? ?; reflexivity)].
    - intros i x o' Hn Ho. cbn in *. apply nth_error_replace_cases in Hn. destruct Hn as [[-> ->]|Hn]; eapply Hwf; eauto.
    - exact Hb.
    - intros i x o' Hn Ho Hin. cbn in *. apply nth_error_replace_cases in Hn. destruct Hn as [[-> ->]|Hn]; eapply Hc; eauto.
  Qed.

  Lemma keeps_reset_ret d : keeps F (run_prim (PResetRet d)).
  Proof.
    start. cbn [run_prim] in H. destruct (nth_error (s_data s) (dl d)) as [x0|] eqn:E; inversion H; subst; clear H;
      [|split; [split; [|split]; assumption|(intros ? ?; reflexivity)]].
    split; [split; [|split]|(intros ? ?; reflexivity)].
    - intros i x o' Hn Ho. cbn in *. apply nth_error_replace_cases in Hn. destruct Hn as [[-> ->]|Hn]; [cbn in Ho|]; eapply Hwf; eauto.
    - exact Hb.
    - intros i x o' Hn Ho Hin. cbn in *. apply nth_error_replace_cases in Hn. destruct Hn as [[-> ->]|Hn]; [cbn in *|]; eapply Hc; eauto.
  Qed.

  (* the only operation that changes an object: it goes through a non-const Boxed_Value, whose object
     therefore is not frozen *)
  Lemma keeps_write d x : keeps F (run_prim (PWrite d x)).
  Proof.
    start. cbn [run_prim] in H. destruct (nth_error (s_data s) (dl d)) as [x0|] eqn:E;
      [|inversion H; subst; split; [split; [|split]; assumption|(intros ? ?; reflexivity)]].
    destruct (d_const x0) eqn:Ec; [inversion H; subst; split; [split; [|split]; assumption|(intros ? ?; reflexivity)]|].
    destruct (d_obj x0) as [[l]|] eqn:Eo; [|inversion H; subst; split; [split; [|split]; assumption|(intros ? ?; reflexivity)]].
    cbn [ol] in H. inversion H; subst; clear H.
    assert (Hnot : ~ In l F) by (intros Hin; specialize (Hc _ _ _ E Eo Hin); congruence).
    split; [split; [|split]|].
    - intros i y o' Hn Ho. cbn in *. rewrite replace_nth_length. eapply Hwf; eauto.
    - intros o' Ho. cbn. rewrite replace_nth_length. apply Hb; assumption.
    - intros i y o' Hn Ho Hin. cbn in *. eapply Hc; eauto.
    - intros o' Ho. cbn. apply nth_error_replace_other. intros X; subst. contradiction.
  Qed.

  Lemma keeps_rebind l r0 : keeps F (run_prim (PRebindFun l r0)).
  Proof.
    start. cbn [run_prim] in H.
    destruct (nth_error (s_data s) (dl r0)) as [x0|] eqn:E; [|inversion H; subst; split; [split; [|split]; assumption|(intros ? ?; reflexivity)]].
    destruct (d_obj x0) as [[lo]|] eqn:Eo; [|inversion H; subst; split; [split; [|split]; assumption|(intros ? ?; reflexivity)]].
    cbn [ol] in H.
    destruct (nth_error (s_objs s) lo) as [[]|] eqn:En; try (inversion H; subst; split; [split; [|split]; assumption|(intros ? ?; reflexivity)]).
    inversion H; subst; clear H.
    split; [split; [|split]|].
    - intros i y o' Hn Ho. cbn in *. rewrite app_length; cbn.
      apply nth_error_replace_cases in Hn. destruct Hn as [[-> ->]|Hn].
      + cbn in Ho. inversion Ho; subst. lia.
      + specialize (Hwf _ _ _ Hn Ho). lia.
    - intros o' Ho. cbn. rewrite app_length; cbn. specialize (Hb _ Ho). lia.
    - intros i y o' Hn Ho Hin. cbn in *.
      apply nth_error_replace_cases in Hn. destruct Hn as [[-> ->]|Hn].
      + cbn in Ho. inversion Ho; subst. specialize (Hb _ Hin). lia.
      + eapply Hc; eauto.
    - intros o' Ho. cbn. rewrite nth_error_app1 by (apply Hb; assumption). reflexivity.
  Qed.

  Lemma run_prim_keeps A (p : prim A) : keeps F (run_prim p).
  Proof.
    destruct p;
      try apply keeps_new_value; try apply keeps_new_undef; try apply keeps_alias; try apply keeps_assign;
      try apply keeps_reset_ret; try apply keeps_write; try apply keeps_rebind;
      apply keeps_unchanged_heap; cbn [run_prim]; intros s r s' H;
      split_matches H; inversion H; subst; split; reflexivity.
  Qed.
End PRIMS.

(* ---- combinators *)
Lemma bracket_keeps F A (e l : state -> state) (m : M A) :
  (forall s, s_objs (e s) = s_objs s /\ s_data (e s) = s_data s) ->
  (forall s, s_objs (l s) = s_objs s /\ s_data (l s) = s_data s) ->
  keeps F m -> keeps F (bracket e l m).
Proof.
  intros He Hl Hm s r s' H Hi. unfold bracket in H. destruct (m (e s)) as [r1 s1] eqn:E. inversion H; subst; clear H.
  destruct (He s) as [Eo Ed]. destruct (Hl s1) as [Lo Ld].
  assert (Hi' : cinv F (e s)).
  { destruct Hi as [Hwf [Hb Hc]]. split; [|split].
    - intros i x o. rewrite Ed, Eo. apply Hwf.
    - intros o Ho. rewrite Eo. apply Hb; assumption.
    - intros i x o. rewrite Ed. apply Hc. }
  destruct (Hm _ _ _ E Hi') as [[Hwf1 [Hb1 Hc1]] Hs1].
  split.
  - split; [|split].
    + intros i x o. rewrite Ld, Lo. apply Hwf1.
    + intros o Ho. rewrite Lo. apply Hb1; assumption.
    + intros i x o. rewrite Ld. apply Hc1.
  - intros o Ho. rewrite Lo. rewrite (Hs1 o Ho). rewrite Eo. reflexivity.
Qed.

Lemma push_scope_heap s : s_objs (push_scope s) = s_objs s /\ s_data (push_scope s) = s_data s.
Proof. unfold push_scope. destruct (s_stacks s); split; reflexivity. Qed.
Lemma pop_scope_heap s : s_objs (pop_scope s) = s_objs s /\ s_data (pop_scope s) = s_data s.
Proof. unfold pop_scope. destruct (s_stacks s) as [|[|x f] r]; split; reflexivity. Qed.
Lemma push_frame_heap s : s_objs (push_frame s) = s_objs s /\ s_data (push_frame s) = s_data s.
Proof. split; reflexivity. Qed.
Lemma pop_frame_heap s : s_objs (pop_frame s) = s_objs s /\ s_data (pop_frame s) = s_data s.
Proof. unfold pop_frame. destruct (s_stacks s); split; reflexivity. Qed.
Lemma enter_call_heap s : s_objs (enter_call s) = s_objs s /\ s_data (enter_call s) = s_data s.
Proof. split; reflexivity. Qed.
Lemma leave_call_heap s : s_objs (leave_call s) = s_objs s /\ s_data (leave_call s) = s_data s.
Proof. unfold leave_call. cbn. destruct (Nat.eqb _ 0); [|split; reflexivity]. cbn. destruct (s_call_params s); split; reflexivity. Qed.

Lemma loop_keeps F k (body : M bool) : keeps F body -> keeps F (loop_run k body).
Proof.
  intros Hb. induction k as [|k IH]; unfold keeps in *; cbn [loop_run]; intros s r s' H Hi.
  - inversion H; subst. split; [assumption|apply same_on_refl].
  - destruct (body s) as [[[|]|f|] s1] eqn:E.
    + destruct (Hb _ _ _ E Hi) as [Hi1 Hs1]. destruct (IH _ _ _ H Hi1) as [Hi2 Hs2].
      split; [assumption|eapply same_on_trans; eauto].
    + inversion H; subst. eapply Hb; eauto.
    + inversion H; subst. eapply Hb; eauto.
    + inversion H; subst. eapply Hb; eauto.
Qed.

Theorem run_keeps F (ev : ast -> M dloc) k :
  (forall n, keeps F (ev n)) -> forall A (p : prog A), keeps F (run ev k p).
Proof.
  intros Hev A p. induction p; cbn [run].
  - intros s r s' H Hi; inversion H; subst. split; [assumption|apply same_on_refl].
  - intros s r s' H Hi; inversion H; subst. split; [assumption|apply same_on_refl].
  - apply run_prim_keeps.
  - intros s r s' H0 Hi.
    destruct (run ev k p s) as [[a|f|] s1] eqn:E.
    + destruct (IHp _ _ _ E Hi) as [Hi1 Hs1]. destruct (H _ _ _ _ H0 Hi1) as [Hi2 Hs2].
      split; [assumption|eapply same_on_trans; eauto].
    + destruct (IHp _ _ _ E Hi) as [Hi1 Hs1]. destruct (H _ _ _ _ H0 Hi1) as [Hi2 Hs2].
      split; [assumption|eapply same_on_trans; eauto].
    + inversion H0; subst. eapply IHp; eauto.
  - apply bracket_keeps; [apply push_scope_heap|apply pop_scope_heap|assumption].
  - apply bracket_keeps; [apply push_frame_heap|apply pop_frame_heap|assumption].
  - apply bracket_keeps; [apply enter_call_heap|apply leave_call_heap|assumption].
  - apply Hev.
  - apply loop_keeps; assumption.
Qed.

Theorem eval_keeps F c ops fuel : forall n, keeps F (eval c ops fuel n).
Proof.
  induction fuel as [|f IH]; intros n; cbn [eval].
  - intros s r s' H Hi; inversion H; subst. split; [assumption|apply same_on_refl].
  - apply run_keeps. exact IH.
Qed.

(* ---------------------------------------------------------------- constants *)
(* right after a Constant node created its (const) Boxed_Value, that object is frozen *)
Lemma fresh_const_frozen s o :
  heap_wf s -> cinv [List.length (s_objs s)] (snd (run_prim (PNewValue o true false) s)).
Proof.
  intros Hwf. cbn. split; [|split].
  - intros i x o' Hn Ho. cbn in *. rewrite app_length; cbn.
    apply nth_error_app_cases in Hn. destruct Hn as [Hn|[-> ->]].
    + specialize (Hwf _ _ _ Hn Ho). lia.
    + cbn in Ho. inversion Ho; subst. lia.
  - intros o' [<-|[]]. cbn. rewrite app_length; cbn. lia.
  - intros i x o' Hn Ho [<-|[]]. cbn in *.
    apply nth_error_app_cases in Hn. destruct Hn as [Hn|[-> ->]].
    + specialize (Hwf _ _ _ Hn Ho). lia.
    + reflexivity.
Qed.

Lemma init_heap_wf : heap_wf init_state.
Proof. intros i x o H. destruct i; discriminate. Qed.

(* heap well-formedness is an invariant of every evaluation (instance F = []) *)
Corollary eval_heap_wf c ops fuel n s r s' : eval c ops fuel n s = (r, s') -> heap_wf s -> heap_wf s'.
Proof.
  intros H Hwf. assert (Hi : cinv [] s) by (split; [assumption|split; [intros o []|intros i x o _ _ []]]).
  destruct (eval_keeps [] c ops fuel n _ _ _ H Hi) as [[Hwf' _] _]. exact Hwf'.
Qed.

(* The statement of C08 for one constant: once its const Boxed_Value exists (object o), no evaluation of
   any tree, in any order, any number of times, changes the value it holds. *)
Theorem constant_object_never_changes c ops o :
  forall s, cinv [o] s ->
  forall fuel n r s', eval c ops fuel n s = (r, s') -> nth_error (s_objs s') o = nth_error (s_objs s) o /\ cinv [o] s'.
Proof.
  intros s Hi fuel n r s' H. destruct (eval_keeps [o] c ops fuel n _ _ _ H Hi) as [Hi' Hs].
  split; [apply Hs; left; reflexivity|assumption].
Qed.
