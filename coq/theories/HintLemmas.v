(* C04 — lemmas about identifier lookup and the per-node lookup cache ("hint"). *)
From Coq Require Import ZArith NArith List Bool String Lia ZifyNat ZifyN.
From ChaiV Require Import StrUtil NumDefs NumSpecRun Ast EvalDefs Eval EvalMeta TrySpec EvalSpecRun.
Import ListNotations.

(* ---------------------------------------------------------------- the hint encoding *)
Section CODEC.
  Variables d i : nat.
  Hypothesis Hd : (N.of_nat d < 4096)%N.
  Hypothesis Hi : (N.of_nat i < 65536)%N.
  Let D := N.of_nat d.
  Let I := N.of_nat i.

  Lemma codec_decomp : hint_local d i = (I + (49152 + D) * 65536)%N.
  Proof. unfold hint_local. fold D I. lia. Qed.

  Lemma codec_is_local : hint_is_local (hint_local d i) = true.
  Proof.
    unfold hint_is_local, hint_local. fold D I.
    replace (2147483648 + 1073741824 + D * 65536 + I)%N with (3 * 2 ^ 30 + (D * 65536 + I))%N by (change (2 ^ 30)%N with 1073741824%N; lia).
    rewrite N.testbit_odd, N.shiftr_div_pow2.
    rewrite N.div_add_l by (intro X; discriminate).
    rewrite N.div_small by (change (2 ^ 30)%N with 1073741824%N; unfold D, I in *; lia). reflexivity.
  Qed.

  Lemma codec_dist : hint_dist (hint_local d i) = d.
  Proof.
    unfold hint_dist. rewrite codec_decomp.
    rewrite N.div_add by (intro X; discriminate). rewrite N.div_small by exact Hi. rewrite N.add_0_l.
    replace (49152 + D)%N with (D + 12 * 4096)%N by lia.
    rewrite N.mod_add by (intro X; discriminate). rewrite N.mod_small by exact Hd. unfold D. apply Nat2N.id.
  Qed.

  Lemma codec_slot : hint_slot (hint_local d i) = i.
  Proof.
    unfold hint_slot. rewrite codec_decomp.
    rewrite N.mod_add by (intro X; discriminate). rewrite N.mod_small by exact Hi. unfold I. apply Nat2N.id.
  Qed.

  Lemma codec_nonzero : hint_local d i <> 0%N.
  Proof. rewrite codec_decomp. lia. Qed.
End CODEC.

Lemma hint_codec d i :
  (N.of_nat d < 4096)%N -> (N.of_nat i < 65536)%N ->
  hint_is_local (hint_local d i) = true /\ hint_dist (hint_local d i) = d /\ hint_slot (hint_local d i) = i
  /\ hint_local d i <> 0%N /\ hint_is_local hint_nonlocal = false /\ hint_nonlocal <> 0%N.
Proof.
  intros Hd Hi.
  pose proof (codec_is_local d i Hd Hi). pose proof (codec_dist d i Hd Hi). pose proof (codec_slot d i Hd Hi). first [pose proof (codec_nonzero d i Hd Hi) | pose proof (codec_nonzero d i)].
  repeat (split; [assumption|]). split; [reflexivity|discriminate].
Qed.

(* ---------------------------------------------------------------- by-name lookup finds the innermost binding *)
Lemma scope_find_spec sc name : forall i0 i d,
  scope_find sc name i0 = Some (i, d) ->
  i0 <= i /\ nth_error sc (i - i0) = Some (name, d)
  /\ (forall j, j < i - i0 -> forall nm v, nth_error sc j = Some (nm, v) -> nm <> name).
Proof.
  induction sc as [|[n v] r IH]; intros i0 i d H; cbn in H; [discriminate|].
  destruct (String.eqb n name) eqn:E.
  - inversion H; subst. apply String.eqb_eq in E. subst. rewrite Nat.sub_diag. split; [lia|split; [reflexivity|intros j Hj; lia]].
  - apply IH in H. destruct H as (Hle & Hn & Hb). split; [lia|split].
    + replace (i - i0) with (S (i - S i0)) by lia. exact Hn.
    + intros j Hj nm v0 Hnth. destruct j as [|j].
      * cbn in Hnth. inversion Hnth; subst. intro X; subst. rewrite String.eqb_refl in E. discriminate.
      * cbn in Hnth. eapply Hb; [|exact Hnth]. lia.
Qed.

Lemma scope_find_none sc name : forall i0, scope_find sc name i0 = None -> forall nm v, In (nm, v) sc -> nm <> name.
Proof.
  induction sc as [|[n v] r IH]; intros i0 H nm v0 Hin; [contradiction|].
  cbn in H. destruct (String.eqb n name) eqn:E; [discriminate|].
  destruct Hin as [Hin|Hin].
  - inversion Hin; subst. intro X; subst. rewrite String.eqb_refl in E. discriminate.
  - eapply IH; eauto.
Qed.

Theorem frame_find_innermost f name : forall d0 dist slot d,
  frame_find f name d0 = Some (dist, slot, d) ->
  d0 <= dist /\
  (exists sc, nth_error f (dist - d0) = Some sc /\ nth_error sc slot = Some (name, d)
              /\ (forall j, j < slot -> forall nm v, nth_error sc j = Some (nm, v) -> nm <> name)) /\
  (forall j sc', j < dist - d0 -> nth_error f j = Some sc' -> forall nm v, In (nm, v) sc' -> nm <> name).
Proof.
  induction f as [|sc r IH]; intros d0 dist slot d H; cbn in H; [discriminate|].
  destruct (scope_find sc name 0) as [[i v]|] eqn:E.
  - inversion H; subst. apply scope_find_spec in E. destruct E as (_ & Hn & Hb). rewrite Nat.sub_0_r in *.
    rewrite Nat.sub_diag. split; [lia|split; [|intros j sc' Hj; lia]].
    exists sc. split; [reflexivity|split; assumption].
  - apply IH in H. destruct H as (Hle & (sc0 & Hs & Hn & Hb) & Hout). split; [lia|split].
    + exists sc0. replace (dist - d0) with (S (dist - S d0)) by lia. split; [assumption|split; assumption].
    + intros j sc' Hj Hnth. destruct j as [|j].
      * cbn in Hnth. inversion Hnth; subst. eapply scope_find_none; eauto.
      * cbn in Hnth. eapply Hout; [|exact Hnth]. lia.
Qed.

(* ---------------------------------------------------------------- a hit on a still-valid hint is transparent *)
Section HIT.
  Variable ev : ast -> M dloc.
  Variable k : nat.
  Notation R := (run ev k).

  Definition cur_frame (s : state) : frame := match s_stacks s with f :: _ => f | [] => [] end.

  (* the cached hint says what a by-name search would find now *)
  Definition hint_valid (n : ast) (s : state) : Prop :=
    match assoc (s_hints s) (hint_key n) with
    | None => True
    | Some h =>
        if hint_is_local h then
          exists d, frame_find (cur_frame s) (a_text n) 0 = Some (hint_dist h, hint_slot h, d)
        else frame_find (cur_frame s) (a_text n) 0 = None
    end.

  Lemma slot_hit s name dist slot d :
    frame_find (cur_frame s) name 0 = Some (dist, slot, d) ->
    run_prim (PSlot dist slot) s = (RVal (Some d), s).
  Proof.
    intros H. apply frame_find_innermost in H.
    destruct H as (_ & (sc & Hs & Hn & _) & _). rewrite Nat.sub_0_r in Hs.
    assert (E : run_prim (PSlot dist slot) s =
                (RVal (match nth_error (cur_frame s) dist with
                       | Some sc0 => match nth_error sc0 slot with Some (_, d0) => Some d0 | None => None end
                       | None => None end), s)) by reflexivity.
    rewrite E, Hs, Hn. reflexivity.
  Qed.

  Lemma find_local_is s name : run_prim (PFindLocal name) s = (RVal (frame_find (cur_frame s) name 0), s).
  Proof. reflexivity. Qed.

  (* with a valid hint the cached lookup returns exactly what the by-name lookup returns;
     the states differ at most in the hint table *)
  Theorem hinted_lookup_transparent n s h :
    assoc (s_hints s) (hint_key n) = Some h -> hint_valid n s ->
    forall r s', R (lookup_id (mkcfg true) n) s = (r, s') ->
    exists s'', R (lookup_id (mkcfg false) n) s = (r, s'') /\
                s_objs s'' = s_objs s' /\ s_data s'' = s_data s' /\ s_stacks s'' = s_stacks s' /\ s_out s'' = s_out s'.
  Proof.
    intros Hh Hv r s' H. unfold hint_valid in Hv. rewrite Hh in Hv.
    unfold lookup_id in *. cbn [use_hints] in *.
    rewrite run_bind in H. cbn [run] in H.
    assert (Hg : run_prim (PGetHint (hint_key n)) s = (RVal (Some h), s)) by (cbn [run_prim]; rewrite Hh; reflexivity).
    rewrite Hg in H.
    unfold lookup_by_name. cbn [use_hints]. rewrite run_bind. cbn [run]. rewrite find_local_is.
    destruct (hint_is_local h) eqn:El.
    - destruct Hv as (d & Hf). rewrite Hf.
      rewrite run_bind in H. cbn [run] in H. rewrite (slot_hit _ _ _ _ _ Hf) in H.
      cbn [run] in H. inversion H; subst.
      eexists. split; [rewrite run_bind; cbn [run]; reflexivity|]. repeat split; reflexivity.
    - rewrite Hv. rewrite run_bind. cbn [run].
      exists s'. split; [exact H|]. repeat split; reflexivity.
  Qed.
End HIT.

(* ---------------------------------------------------------------- … and a stale hint is not: the full statement is false *)
Definition c04_witness : string := "( File t=- l=1:5-1:68 ( Def t=- l=1:5-1:49 ( Id t=67 l=1:5-1:6 ) ( Arg_List t=- l=1:7-1:8 ( Arg_List t=- l=1:7-1:8 ( Id t=62 l=1:7-1:8 ) ) ) ( Block t=- l=1:14-1:49 ( If t=- l=1:14-1:37 ( Id t=62 l=1:14-1:15 ) ( Fun_Call t=- l=1:17-1:34 ( Id t=6576616c l=1:17-1:21 ) ( Arg_List t=- l=1:22-1:33 ( Constant t=76617220683d313030 l=1:22-1:33 k=c,string:76617220683d313030 ) ) ) ( Noop t=- l=0:0-0:0 ) ) ( Assign_Decl t=3d l=1:41-1:44 ( Id t=61 l=1:41-1:42 ) ( Constant t=31 l=1:43-1:44 k=c,int:i32:1 ) ) ( Id t=61 l=1:46-1:47 ) ) ) ( Fun_Call t=- l=1:51-1:59 ( Id t=67 l=1:51-1:52 ) ( Arg_List t=- l=1:53-1:58 ( Constant t=66616c7365 l=1:53-1:58 k=c,bool:bool:0 ) ) ) ( Fun_Call t=- l=1:61-1:68 ( Id t=67 l=1:61-1:62 ) ( Arg_List t=- l=1:63-1:67 ( Constant t=74727565 l=1:63-1:67 k=c,bool:bool:1 ) ) ) ) @@ 76617220683d313030 ( File t=- l=1:5-1:10 ( Assign_Decl t=3d l=1:5-1:10 ( Id t=68 l=1:5-1:6 ) ( Constant t=313030 l=1:7-1:10 k=c,int:i32:100 ) ) )".

Definition run_witness (hints : bool) : string :=
  run_with spec_numops ((if hints then "1" else "0") ++ " 4000 " ++ c04_witness)%string.

(* `def g(b){ if(b){eval("var h=100")}; var a=1; a }; g(false); g(true)` — with the cache the second call
   reads slot 1 of the frame, which now holds h *)
Lemma c04_refuted :
  run_witness true <> run_witness false
  /\ has_prefix "OUT - || RES int:i32:100" (run_witness true) = true
  /\ has_prefix "OUT - || RES int:i32:1 " (run_witness false) = true.
Proof. vm_compute. repeat split; try reflexivity. discriminate. Qed.
