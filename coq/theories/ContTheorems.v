(* C12 — facts about the wrapper table regenerated from bootstrap_stl.hpp (G_StlWrappers.stl_table),
   and the property theorems assembled from them and from ContProofs. *)
From Coq Require Import ZArith NArith String Ascii List Bool Lia.
From ChaiV Require Import ContDefs ContProofs.
From ChaiV.Gen Require Import G_StlWrappers.
Import ListNotations.
Local Open Scope string_scope.

(* every registered wrapper's guard covers the StdPre of the operation it forwards to *)
Lemma table_safe : forallb wrapper_safe stl_table = true.
Proof. vm_compute. reflexivity. Qed.
(* every registered wrapper is the mechanism expected for its name (parameters, argument order, guard, operation) *)
Lemma table_mech_ok : forallb mech_ok stl_table = true.
Proof. vm_compute. reflexivity. Qed.
Lemma table_wkind : forallb wkind_consistent stl_table = true.
Proof. vm_compute. reflexivity. Qed.

(* the functions the property names are all in the table (type, name, number of arguments) *)
Definition required_entries : list (string * string * nat) :=
  [("Vector", "[]", 1); ("Vector", "front", 0); ("Vector", "back", 0); ("Vector", "push_back", 1); ("Vector", "pop_back", 0);
   ("Vector", "insert_at", 2); ("Vector", "erase_at", 1); ("Vector", "resize", 1); ("Vector", "resize", 2); ("Vector", "clear", 0);
   ("Vector", "size", 0); ("Vector", "empty", 0);
   ("List", "front", 0); ("List", "back", 0); ("List", "push_back", 1); ("List", "push_front", 1); ("List", "pop_back", 0);
   ("List", "pop_front", 0); ("List", "insert_at", 2); ("List", "erase_at", 1); ("List", "resize", 1); ("List", "clear", 0);
   ("string", "[]", 1); ("string", "insert_at", 2); ("string", "erase_at", 1); ("string", "push_back", 1); ("string", "+=", 1);
   ("string", "clear", 0); ("string", "substr", 2);
   ("string", "find", 1); ("string", "rfind", 1); ("string", "find_first_of", 1); ("string", "find_last_of", 1);
   ("string", "find_first_not_of", 1); ("string", "find_last_not_of", 1);
   ("string", "find", 2); ("string", "rfind", 2); ("string", "find_first_of", 2); ("string", "find_last_of", 2);
   ("string", "find_first_not_of", 2); ("string", "find_last_not_of", 2);
   ("Map", "[]", 1); ("Map", "at", 1); ("Map", "count", 1); ("Map", "erase", 1); ("Map", "insert", 1); ("Map", "insert_ref", 1);
   ("Map", "clear", 0); ("Map", "size", 0);
   ("Pair", "first", 0); ("Pair", "second", 0); ("Map_Pair", "first", 0); ("Map_Pair", "second", 0)]
  ++ flat_map (fun ty => [(ty, "front", 0); (ty, "back", 0); (ty, "pop_front", 0); (ty, "pop_back", 0); (ty, "empty", 0)])
       ["Vector_Range"; "Const_Vector_Range"; "List_Range"; "Const_List_Range"; "string_Range"; "Const_string_Range";
        "Map_Range"; "Const_Map_Range"].
Lemma table_complete :
  forallb (fun e => match lookup stl_table (fst (fst e)) false (snd (fst e)) (snd e) with Some _ => true | None => false end)
          required_entries = true.
Proof. vm_compute. reflexivity. Qed.

Lemma in_forallb : forall A (f : A -> bool) l x, forallb f l = true -> In x l -> f x = true.
Proof. intros A f l x H I. rewrite forallb_forall in H. auto. Qed.

Theorem guarded_thm : forall w, In w stl_table -> forall st args, wf st = true ->
  run_wrapper w st args <> UB
  /\ (forall cargs, state_matches (w_kind w) st = true -> conv_all (w_kind w) (w_params w) args = Some cargs ->
        guard_fires (w_guard w) st cargs = true -> run_wrapper w st args = Raised XRange).
Proof.
  intros w I st args W. split.
  - apply run_wrapper_guarded; [eapply in_forallb; [exact table_safe|exact I]|exact W].
  - intros cargs M C F. unfold run_wrapper. rewrite M, C. simpl. apply mech_guard_raises. exact F.
Qed.

Theorem functional_thm : forall w, In w stl_table -> forall st args, wf st = true ->
  length args = length (w_params w) ->
  run_wrapper w st args = spec_call (w_kind w) (w_const w) (w_name w) st args.
Proof.
  intros w I st args W L. apply run_wrapper_functional; [eapply in_forallb; [exact table_mech_ok|exact I]|exact W|exact L].
Qed.

Theorem sequences_thm : forall ty k steps,
  exists w', wrun_all (table_call stl_table) (table_keeps stl_table) ty k (init_world k) steps = Some w'
             /\ world_wf k w' = true.
Proof.
  intros ty k steps. apply wrun_all_safe; [exact table_safe|apply init_world_wf].
Qed.

(* non-vacuity: a concrete history that grows, shrinks, is indexed out of range, viewed and drained *)
Definition example_steps : list wstep :=
  [WCall TC "push_back" [VInt 5]; WCall TC "push_back" [VInt 7]; WCall TC "insert_at" [VInt 1; VInt 3];
   WCall TC "erase_at" [VInt 3]; WCall TC "[]" [VInt (-1)]; WCall TC "erase_at" [VInt 4294967296];
   WMkRange false; WCall TR "pop_front" []; WCall TR "pop_front" []; WCall TR "pop_front" []; WCall TR "front" [];
   WCall TC "pop_back" []; WCall TC "pop_back" []; WCall TC "pop_back" []; WCall TC "back" []].
Lemma example_run :
  wrun_all (table_call stl_table) (table_keeps stl_table) "Vector" KVector (init_world KVector) (firstn 9 example_steps)
    = Some (mkworld (SVec [VInt 3; VInt 7]) (Some (2, 2)%nat) None)
  /\ wrun_all (table_call stl_table) (table_keeps stl_table) "Vector" KVector (init_world KVector) example_steps
    = Some (mkworld (SVec []) None None)
  /\ call stl_table "Vector" false "pop_back" (SVec []) [] = Raised XRange
  /\ call stl_table "Vector" false "erase_at" (SVec [VInt 1]) [VInt 1] = Raised XRange
  /\ call stl_table "Vector" false "insert_at" (SVec [VInt 1]) [VInt 1; VInt 2] = Ok (SVec [VInt 1; VInt 2]) VUnit
  /\ call stl_table "string" true "find" (SStr [97; 98; 99; 98]%N) [VStr [98]%N] = Ok (SStr [97; 98; 99; 98]%N) (VInt 1)
  /\ call stl_table "string" true "rfind" (SStr [97; 98; 99; 98]%N) [VStr [98]%N] = Ok (SStr [97; 98; 99; 98]%N) (VInt 3)
  /\ call stl_table "string" true "find" (SStr [97]%N) [VStr [98]%N] = Ok (SStr [97]%N) (VInt npos)
  /\ call stl_table "string" true "substr" (SStr [97]%N) [VInt 2; VInt 1] = Raised XOutOfRange.
Proof. vm_compute. repeat split; reflexivity. Qed.

(* the model distinguishes the broken variants: each of these wrappers is rejected by wrapper_safe and reaches UB *)
Lemma broken_variants :
  wrapper_safe (mkw "Vector" KVector false "pop_back" WDirect [] [] GNone OPopBack) = false
  /\ run_wrapper (mkw "Vector" KVector false "pop_back" WDirect [] [] GNone OPopBack) (SVec []) [] = UB
  /\ wrapper_safe (mkw "Vector" KVector false "erase_at" WCheckedHelper [PInt] [AP 0] (GPos true CLt) OAdvErase) = false
  /\ run_wrapper (mkw "Vector" KVector false "erase_at" WCheckedHelper [PInt] [AP 0] (GPos true CLt) OAdvErase) (SVec [VInt 1]) [VInt 1] = UB
  /\ wrapper_safe (mkw "Vector" KVector false "[]" WForwardLambda [PInt] [AP 0] GNone OIndexCast) = false
  /\ run_wrapper (mkw "Vector" KVector false "[]" WForwardLambda [PInt] [AP 0] GNone OIndexCast) (SVec [VInt 1]) [VInt 1] = UB
  /\ wrapper_safe (mkw "Vector_Range" KRange true "pop_front" WRangeMethod [] [] GNone RIncBegin) = false
  /\ run_wrapper (mkw "Vector_Range" KRange true "pop_front" WRangeMethod [] [] GNone RIncBegin) (SRange [] 0 0) [] = UB
  /\ mech_ok (mkw "Vector" KVector false "insert_ref_at" WCheckedHelper [PInt; PElem] [AP 0; AP 1] (GPos true CLe) OAdvInsert) = false.
Proof. vm_compute. repeat split; reflexivity. Qed.
