(* C01_accounts, the Noop half: what the scanners skip without reporting a token is trivia in the sense of ParserDefs.trivia_only.
   The parser's cursor is related to the state of the specification automaton (ParserDefs.tstep) run over the bytes before it:
   `tb p` ("trivia boundary") holds when that state is TS_normal, or TS_line with the cursor standing on the line end that closes the
   comment (or at the end), or inside an unterminated block comment at the end of the input. *)
From Coq Require Import ZArith NArith List Bool String Lia Arith.
From ChaiV Require Import NumDefs Ast LexDefs LexProofs LexLitProofs ParserLexProofs ParserDefs.
Import ListNotations.
Local Open Scope nat_scope.

Definition tstate_at (p : Position) : tstate := fold_left tstep (firstn (idx p) (buf p)) TS_normal.

Lemma tstate_at_ext (p q : Position) : buf q = buf p -> idx q = idx p -> tstate_at q = tstate_at p.
Proof. unfold tstate_at. intros -> ->. reflexivity. Qed.
Lemma tstate_inc p : has_more p = true -> tstate_at (pos_inc p) = tstep (tstate_at p) (deref p).
Proof.
  intros Hm. unfold tstate_at. rewrite pos_inc_buf, pos_inc_idx, Hm.
  rewrite (firstn_S_nth _ _ 0%N) by (apply has_more_lt; exact Hm). rewrite fold_left_app. cbn [fold_left].
  rewrite (deref_nth _ Hm). reflexivity.
Qed.
Lemma tstate_begin b : tstate_at (pos_begin b) = TS_normal.
Proof. reflexivity. Qed.

(* the cursor stands on the line end that closes a `//` / `#` comment, or at the end of the input *)
Definition line_end_next (p : Position) : Prop :=
  has_more p = false \/ deref p = NL \/ (has_more p = true /\ deref p = CR /\ has_more (pos_inc p) = true /\ deref (pos_inc p) = NL).
Definition tb (p : Position) : Prop :=
  tstate_at p = TS_normal
  \/ (tstate_at p = TS_line /\ line_end_next p)
  \/ ((tstate_at p = TS_block \/ tstate_at p = TS_block_star) /\ has_more p = false).

Lemma tb_ext (p q : Position) : buf q = buf p -> idx q = idx p -> tb p -> tb q.
Proof.
  intros B I H. assert (E : tstate_at q = tstate_at p) by (apply tstate_at_ext; assumption).
  assert (Hm : has_more q = has_more p) by (unfold has_more; rewrite B, I; reflexivity).
  assert (Hd : deref q = deref p) by (unfold deref; rewrite Hm, B, I; reflexivity).
  assert (Hm1 : has_more (pos_inc q) = has_more (pos_inc p)).
  { unfold has_more. rewrite !pos_inc_buf, !pos_inc_idx, Hm, B, I. reflexivity. }
  assert (Hd1 : deref (pos_inc q) = deref (pos_inc p)).
  { unfold deref. rewrite Hm1, !pos_inc_buf, !pos_inc_idx, Hm, B, I. reflexivity. }
  unfold tb, line_end_next in *. rewrite E, Hm, Hd, Hm1, Hd1. exact H.
Qed.

(* at the end of the input a trivia boundary is an accepting state of the specification automaton *)
Lemma tb_end_accept p : tb p -> idx p = List.length (buf p) -> trivia_only (buf p) = true.
Proof.
  intros H E. unfold trivia_only. assert (Ht : fold_left tstep (buf p) TS_normal = tstate_at p).
  { unfold tstate_at. rewrite E, firstn_all. reflexivity. }
  rewrite Ht. destruct H as [H|[[H _]|[[H|H] _]]]; rewrite H; reflexivity.
Qed.

(* ------------------------------------------------------------------ rules *)
Section Rules2.
  Context {U : Type}.
  Local Notation ST := (state U).

  (* a loop whose exit states satisfy Q while its continuing states satisfy the invariant I *)
  Lemma while_ok2 {X} (body : X -> M U (X * bool)) (I Q : X -> ST -> Prop) :
    (forall x s, I x s ->
       post (body x s) (fun r s' => buf (pos s') = buf (pos s) /\
                                   (snd r = true -> I (fst r) s' /\ idx (pos s) < idx (pos s') <= List.length (buf (pos s'))) /\
                                   (snd r = false -> Q (fst r) s'))) ->
    forall fuel x s, I x s -> remaining (pos s) < fuel -> post (while_ fuel body x s) Q.
  Proof.
    intros Hb. induction fuel as [|f IH]; intros x s HI Hf; [lia|].
    simpl. apply post_bind. eapply post_mono; [apply Hb, HI|].
    intros [x' b] s' (Hbuf & Ht & Hfalse). cbn [fst snd] in *. destruct b.
    - destruct (Ht eq_refl) as [HI' Hp]. apply IH; [exact HI'|]. unfold remaining in *. rewrite Hbuf in *. lia.
    - apply post_ret. apply Hfalse. reflexivity.
  Qed.
  Lemma loop_ok2 {X} (body : X -> M U (X * bool)) (I Q : X -> ST -> Prop) :
    (forall x s, I x s ->
       post (body x s) (fun r s' => buf (pos s') = buf (pos s) /\
                                   (snd r = true -> I (fst r) s' /\ idx (pos s) < idx (pos s') <= List.length (buf (pos s'))) /\
                                   (snd r = false -> Q (fst r) s'))) ->
    forall x s, I x s -> post (loop body x s) Q.
  Proof. intros Hb x s HI. unfold loop. eapply while_ok2; eauto. Qed.

  (* Symbol_ reports no match only when the bytes are not there *)
  Lemma sym_match_false sym : forall p k,
    sym_match sym p k = Some false -> ~ (forall j, j < List.length sym -> nth (idx p + k + j) (buf p) 0%N = nth j sym 0%N).
  Proof.
    induction sym as [|c r IH]; intros p k H Hall; simpl in H; [discriminate|].
    unfold raw_at in H. destruct (nth_error (buf p) (idx p + k)) eqn:E; [|discriminate].
    destruct (N.eqb c n) eqn:Ec.
    - apply (IH p (S k) H). intros j Hj. specialize (Hall (S j) ltac:(simpl; lia)).
      replace (idx p + S k + j) with (idx p + k + S j) by lia. exact Hall.
    - specialize (Hall 0 ltac:(simpl; lia)). rewrite Nat.add_0_r in Hall. cbn [nth] in Hall.
      apply nth_error_nth with (d := 0%N) in E. rewrite E in Hall. apply N.eqb_neq in Ec. congruence.
  Qed.
  Lemma fine_Symbol_full sym :
    fine (@Symbol_ U sym) (fun b s s' =>
      if b then moved (List.length sym) s s' /\ (forall j, j < List.length sym -> nth (idx (pos s) + j) (buf (pos s)) 0%N = nth j sym 0%N)
      else s' = s /\ ~ (idx (pos s) + List.length sym <= List.length (buf (pos s)) /\
                        forall j, j < List.length sym -> nth (idx (pos s) + j) (buf (pos s)) 0%N = nth j sym 0%N)).
  Proof.
    intros s W. pose proof (ext_refl s W) as E. unfold Symbol_. step_pos.
    destruct (Nat.leb (List.length sym) (remaining (pos s))) eqn:L.
    - apply Nat.leb_le in L. unfold remaining in L.
      destruct (sym_match sym (pos s) 0) as [[|]|] eqn:Mt.
      + step (fine_add_n (U:=U) (List.length sym)). done_ret. split.
        * split; [assumption|]. rewrite R. apply pos_add_idx. destruct W as (W1 & _). lia.
        * intros j Hj. pose proof (sym_match_true _ _ _ Mt j Hj) as Hm. rewrite Nat.add_0_r in Hm. exact Hm.
      + done_ret. split; [reflexivity|]. intros [_ Hall]. apply (sym_match_false _ _ _ Mt). intros j Hj. rewrite Nat.add_0_r. apply Hall, Hj.
      + exfalso. eapply sym_match_some; [|exact Mt]. destruct W as (W1 & _). lia.
    - apply Nat.leb_gt in L. unfold remaining in L. done_ret. split; [reflexivity|]. intros [Hl _]. lia.
  Qed.

  (* Eol_ consumes exactly "\r\n", "\n" or (unless t_eos) ";" *)
  Definition eol_exact (t_eos : bool) (p p' : Position) : Prop :=
    has_more p = true /\
    ((p' = pos_inc p /\ (deref p = NL \/ (deref p = 59%N /\ t_eos = false)))
     \/ (p' = pos_inc (pos_inc p) /\ deref p = CR /\ has_more (pos_inc p) = true /\ deref (pos_inc p) = NL)).
  Lemma fine_Eol_exact t_eos :
    fine (@Eol_ U t_eos) (fun b s s' => if b then eol_exact t_eos (pos s) (pos s') else s' = s).
  Proof.
    intros s W. pose proof (ext_refl s W) as E. unfold Eol_. step_pos.
    assert (Tail : post ((p <- get_pos ;; if has_more p && negb t_eos then Char_ 59%N else ret false) s)
                        (fun b s' => ext s s' /\ (if b then eol_exact t_eos (pos s) (pos s') else s' = s))).
    { step_pos. destruct (has_more (pos s) && negb t_eos)%bool eqn:C.
      - apply andb_prop in C. destruct C as [Hm Ht]. apply negb_true_iff in Ht.
        eapply post_mono; [apply fine_Char_, W|]. intros b s' [E' R]. split; [exact E'|].
        destruct b; [|exact R]. destruct R as ((Rp & _) & Rc & _).
        split; [exact Hm|]. left. split; [exact Rp|right; auto].
      - done_ret. reflexivity. }
    destruct (has_more (pos s)) eqn:Hm.
    - apply post_bind. apply post_bind.
      eapply post_mono; [apply fine_Symbol_, W|]. intros b1 s1 [E1 R1]. destruct b1.
      + destruct R1 as ((Rp & Ri) & Rb). apply post_ret. cbv beta.
        cbn [List.length s_cr_lf] in Ri, Rp.
        assert (Hm1 : has_more (pos_inc (pos s)) = true).
        { apply has_more_lt. rewrite pos_inc_buf, pos_inc_idx, Hm. destruct E1 as (B1 & _ & (W1 & _) & _). rewrite B1 in W1. lia. }
        assert (N0 : deref (pos s) = CR).
        { rewrite (deref_nth _ Hm). specialize (Rb 0). cbn [List.length s_cr_lf List.nth] in Rb. rewrite Nat.add_0_r in Rb. apply Rb. lia. }
        assert (N1 : deref (pos_inc (pos s)) = NL).
        { rewrite (deref_nth _ Hm1), pos_inc_buf, pos_inc_idx, Hm. specialize (Rb 1). cbn [List.length s_cr_lf List.nth] in Rb.
          replace (S (idx (pos s))) with (idx (pos s) + 1) by lia. apply Rb. lia. }
        assert (C1 : col (pos s1) = 1%Z).
        { rewrite Rp. cbn [pos_add]. apply pos_inc_nl; [exact Hm1|]. rewrite <- (deref_nth _ Hm1). exact N1. }
        apply post_bind. eapply post_mono; [apply fine_set_col_1; [apply (ext_wf _ _ E1)|exact C1]|].
        intros _ s2 [E2 P2]. apply post_ret. split; [eapply ext_trans; eauto|]. rewrite P2, Rp. cbn [pos_add].
        split; [exact Hm|]. right. auto.
      + subst s1. eapply post_mono; [apply fine_Char_, W|]. intros b2 s2 [E2 R2]. destruct b2.
        * destruct R2 as ((Rp & Ri) & Rc & _).
          assert (C1 : col (pos s2) = 1%Z).
          { rewrite Rp. cbn [pos_add]. apply pos_inc_nl; [exact Hm|]. rewrite <- deref_nth; assumption. }
          apply post_bind. eapply post_mono; [apply fine_set_col_1; [apply (ext_wf _ _ E2)|exact C1]|].
          intros _ s3 [E3 P3]. apply post_ret. split; [eapply ext_trans; eauto|]. rewrite P3, Rp. cbn [pos_add].
          split; [exact Hm|]. left. auto.
        * subst s2. exact Tail.
    - apply post_bind. apply post_ret. exact Tail.
  Qed.
End Rules2.

Lemma same_place (p q : Position) : buf q = buf p -> idx q = idx p ->
  has_more q = has_more p /\ deref q = deref p /\ has_more (pos_inc q) = has_more (pos_inc p) /\ deref (pos_inc q) = deref (pos_inc p).
Proof.
  intros B I. assert (Hm : has_more q = has_more p) by (unfold has_more; rewrite B, I; reflexivity).
  assert (Hm1 : has_more (pos_inc q) = has_more (pos_inc p)) by (unfold has_more; rewrite !pos_inc_buf, !pos_inc_idx, Hm, B, I; reflexivity).
  split; [exact Hm|]. split; [unfold deref; rewrite Hm, B, I; reflexivity|]. split; [exact Hm1|].
  unfold deref. rewrite Hm1, !pos_inc_buf, !pos_inc_idx, Hm, B, I. reflexivity.
Qed.
Lemma line_end_ext (p q : Position) : buf q = buf p -> idx q = idx p -> line_end_next p -> line_end_next q.
Proof. intros B I H. destruct (same_place p q B I) as (H1 & H2 & H3 & H4). unfold line_end_next in *. rewrite H1, H2, H3, H4. exact H. Qed.

Section TriviaScanners.
  Context {U : Type}.
  Variable A : alphabets.
  Local Notation ST := (state U).

  Lemma fine_Char_full c :
    fine (@Char_ U c) (fun b s s' =>
      if b then moved 1 s s' /\ deref (pos s) = c /\ has_more (pos s) = true
      else s' = s /\ (has_more (pos s) && N.eqb (deref (pos s)) c)%bool = false).
  Proof.
    intros s W. pose proof (ext_refl s W) as E. unfold Char_. step_pos.
    destruct (has_more (pos s) && N.eqb (deref (pos s)) c)%bool eqn:C.
    - apply andb_prop in C. destruct C as [Hm Ec]. apply N.eqb_eq in Ec.
      step (fine_inc (U:=U)). done_ret. split; [|auto]. split; [exact R|]. rewrite R, pos_inc_idx, Hm. lia.
    - done_ret. auto.
  Qed.

  (* the `//` / `#` loop: from inside the comment (TS_line) to the line end that closes it *)
  Lemma line_comment_tb (s1 : ST) :
    wf_pos (pos s1) -> tstate_at (pos s1) = TS_line ->
    post (loop line_comment_body tt s1) (fun _ s2 => ext s1 s2 /\ tstate_at (pos s2) = TS_line /\ line_end_next (pos s2)).
  Proof.
    intros W1 T1.
    apply (loop_ok2 line_comment_body (fun _ s => ext s1 s /\ tstate_at (pos s) = TS_line)
                    (fun _ s2 => ext s1 s2 /\ tstate_at (pos s2) = TS_line /\ line_end_next (pos s2))); [|split; [apply ext_refl, W1|exact T1]].
    intros [] s [E0 Ts]. pose proof (ext_wf _ _ E0) as W. pose proof (ext_refl s W) as E. unfold line_comment_body. step_pos.
    destruct (has_more (pos s)) eqn:Hm.
    2:{ apply post_ret. cbn [fst snd]. split; [reflexivity|]. split; [discriminate|]. intros _. split; [exact E0|]. split; [exact Ts|left; exact Hm]. }
    step (fine_Symbol_full (U:=U) s_cr_lf). destruct a.
    - destruct R as ((Rp & Ri) & Rb). cbn [List.length s_cr_lf] in *.
      assert (Hlen : idx (pos s) + 2 <= List.length (buf (pos s))).
      { match goal with H : ext s s0 |- _ => pose proof (ext_len _ _ H) as HL; rewrite (ext_buf _ _ H) in HL end. lia. }
      assert (N0 : nth (idx (pos s)) (buf (pos s)) 0%N = CR) by (specialize (Rb 0); rewrite Nat.add_0_r in Rb; apply Rb; lia).
      assert (N1 : nth (idx (pos s) + 1) (buf (pos s)) 0%N = NL) by (apply (Rb 1); lia).
      apply post_bind. eapply post_mono; [apply (sub2_undo s s0); auto; exts|].
      intros _ s2 [EE Ei]. apply post_ret. cbn [fst snd].
      split; [apply (ext_buf _ _ EE)|]. split; [discriminate|]. intros _.
      split; [eapply ext_trans; eauto|].
      pose proof (ext_buf _ _ EE) as B2.
      split; [rewrite (tstate_at_ext (pos s) (pos s2) B2 Ei); exact Ts|].
      apply (line_end_ext (pos s) (pos s2) B2 Ei). right. right.
      assert (Hm1 : has_more (pos_inc (pos s)) = true) by (apply has_more_lt; rewrite pos_inc_buf, pos_inc_idx, Hm; lia).
      split; [exact Hm|]. split; [rewrite (deref_nth _ Hm); exact N0|]. split; [exact Hm1|].
      rewrite (deref_nth _ Hm1), pos_inc_buf, pos_inc_idx, Hm. replace (S (idx (pos s))) with (idx (pos s) + 1) by lia. exact N1.
    - destruct R as [-> _]. step (fine_Char_full NL). destruct a.
      + destruct R as ((Rp & Ri) & Rc & _). apply post_bind. eapply post_mono; [apply (dec_undo s s0); auto; exts|].
        intros _ s2 [EE Ei]. apply post_ret. cbn [fst snd].
        split; [apply (ext_buf _ _ EE)|]. split; [discriminate|]. intros _.
        split; [eapply ext_trans; eauto|]. pose proof (ext_buf _ _ EE) as B2.
        split; [rewrite (tstate_at_ext (pos s) (pos s2) B2 Ei); exact Ts|].
        apply (line_end_ext (pos s) (pos s2) B2 Ei). right. left. exact Rc.
      + destruct R as [-> Rc]. rewrite Hm in Rc. cbn [andb] in Rc. apply N.eqb_neq in Rc.
        apply post_bind. eapply post_mono; [apply fine_inc, W|]. intros _ s2 [Ex2 R2]. apply post_ret. cbn [fst snd].
        split; [apply (ext_buf _ _ Ex2)|]. split; [|discriminate]. intros _.
        split.
        * split; [eapply ext_trans; eauto|]. rewrite R2, (tstate_inc _ Hm), Ts. unfold tstep.
          destruct (N.eqb_spec (deref (pos s)) 10%N); [contradiction|reflexivity].
        * rewrite R2, pos_inc_idx, Hm. pose proof (ext_len _ _ Ex2) as HL. rewrite R2, pos_inc_idx, Hm in HL. lia.
  Qed.

  (* inside a block comment: TS_block, or TS_block_star when the previous byte was `*` -- and then the next one is not `/`
     (the scanner would have seen the `*/` one step earlier) *)
  Definition in_block (p : Position) : Prop :=
    tstate_at p = TS_block \/ (tstate_at p = TS_block_star /\ (has_more p = true -> deref p <> 47%N)).
  Definition block_done (p : Position) : Prop :=
    tstate_at p = TS_normal \/ ((tstate_at p = TS_block \/ tstate_at p = TS_block_star) /\ has_more p = false).

  Lemma tstep_block_other (x : tstate) c : (x = TS_block \/ x = TS_block_star) -> c <> 42%N -> (x = TS_block_star -> c <> 47%N) -> tstep x c = TS_block.
  Proof.
    intros [->| ->] H1 H2; unfold tstep.
    - destruct (N.eqb_spec c 42); [contradiction|reflexivity].
    - destruct (N.eqb_spec c 47); [exfalso; apply H2; auto|]. destruct (N.eqb_spec c 42); [contradiction|reflexivity].
  Qed.
  Lemma tstep_block_star (x : tstate) : (x = TS_block \/ x = TS_block_star) -> tstep x 42%N = TS_block_star.
  Proof. intros [->| ->]; reflexivity. Qed.

  Lemma ml_comment_tb (s1 : ST) :
    wf_pos (pos s1) -> tstate_at (pos s1) = TS_block ->
    post (loop ml_comment_body tt s1) (fun _ s2 => ext s1 s2 /\ block_done (pos s2)).
  Proof.
    intros W1 T1.
    apply (loop_ok2 ml_comment_body (fun _ s => ext s1 s /\ in_block (pos s)) (fun _ s2 => ext s1 s2 /\ block_done (pos s2)));
      [|split; [apply ext_refl, W1|left; exact T1]].
    intros [] s [E0 Inv]. pose proof (ext_wf _ _ E0) as W. pose proof (ext_refl s W) as E. unfold ml_comment_body. step_pos.
    assert (Hx : tstate_at (pos s) = TS_block \/ tstate_at (pos s) = TS_block_star) by (destruct Inv as [H|[H _]]; auto).
    destruct (has_more (pos s)) eqn:Hm.
    2:{ apply post_ret. cbn [fst snd]. split; [reflexivity|]. split; [discriminate|]. intros _. split; [exact E0|]. right. auto. }
    assert (Hnot47 : tstate_at (pos s) = TS_block_star -> deref (pos s) <> 47%N).
    { intros Hs. destruct Inv as [H|[_ H]]; [congruence|apply H; exact Hm]. }
    step (fine_Symbol_full (U:=U) s_ml_end). destruct a.
    - (* the closing star-slash *)
      destruct R as ((Rp & Ri) & Rb). cbn [List.length s_ml_end] in *.
      assert (Hlen : idx (pos s) + 2 <= List.length (buf (pos s))).
      { match goal with H : ext s s0 |- _ => pose proof (ext_len _ _ H) as HL; rewrite (ext_buf _ _ H) in HL end. lia. }
      assert (Hm1 : has_more (pos_inc (pos s)) = true) by (apply has_more_lt; rewrite pos_inc_buf, pos_inc_idx, Hm; lia).
      assert (D0 : deref (pos s) = 42%N) by (rewrite (deref_nth _ Hm); specialize (Rb 0); rewrite Nat.add_0_r in Rb; apply Rb; lia).
      assert (D1 : deref (pos_inc (pos s)) = 47%N).
      { rewrite (deref_nth _ Hm1), pos_inc_buf, pos_inc_idx, Hm. replace (S (idx (pos s))) with (idx (pos s) + 1) by lia. apply (Rb 1). lia. }
      apply post_ret. cbn [fst snd]. match goal with H : ext s s0 |- _ => split; [apply (ext_buf _ _ H)|] end.
      split; [discriminate|]. intros _. split; [eapply ext_trans; eauto|]. left.
      rewrite Rp. cbn [pos_add]. rewrite (tstate_inc _ Hm1), (tstate_inc _ Hm), D0, D1, (tstep_block_star _ Hx). reflexivity.
    - destruct R as [-> Rnot]. cbn [List.length s_ml_end] in Rnot.
      step (fine_Eol_exact (U:=U) false). destruct a.
      + (* a line end or `;` inside the comment *)
        destruct R as [_ [[Rp [Rc|[Rc _]]]|(Rp & Rc & Hm1 & Rc1)]].
        * apply post_ret. cbn [fst snd]. match goal with H : ext s s0 |- _ => split; [apply (ext_buf _ _ H)|] end.
          split; [|discriminate]. intros _. split.
          -- split; [eapply ext_trans; eauto|]. left. rewrite Rp, (tstate_inc _ Hm), Rc. apply tstep_block_other; [exact Hx|discriminate|discriminate].
          -- rewrite Rp, pos_inc_idx, Hm. match goal with H : ext s s0 |- _ => pose proof (ext_len _ _ H) as HL end. rewrite Rp, pos_inc_idx, Hm in HL. lia.
        * apply post_ret. cbn [fst snd]. match goal with H : ext s s0 |- _ => split; [apply (ext_buf _ _ H)|] end.
          split; [|discriminate]. intros _. split.
          -- split; [eapply ext_trans; eauto|]. left. rewrite Rp, (tstate_inc _ Hm), Rc. apply tstep_block_other; [exact Hx|discriminate|discriminate].
          -- rewrite Rp, pos_inc_idx, Hm. match goal with H : ext s s0 |- _ => pose proof (ext_len _ _ H) as HL end. rewrite Rp, pos_inc_idx, Hm in HL. lia.
        * apply post_ret. cbn [fst snd]. match goal with H : ext s s0 |- _ => split; [apply (ext_buf _ _ H)|] end.
          split; [|discriminate]. intros _. split.
          -- split; [eapply ext_trans; eauto|]. left. rewrite Rp, (tstate_inc _ Hm1), (tstate_inc _ Hm), Rc, Rc1.
             unfold CR, NL. rewrite (tstep_block_other _ 13%N Hx) by discriminate. reflexivity.
          -- rewrite Rp, !pos_inc_idx, Hm1, Hm. match goal with H : ext s s0 |- _ => pose proof (ext_len _ _ H) as HL end.
             rewrite Rp, !pos_inc_idx, Hm1, Hm in HL. lia.
      + (* any other byte *)
        subst s0. apply post_bind. eapply post_mono; [apply fine_inc, W|]. intros _ s2 [Ex2 R2]. apply post_ret. cbn [fst snd].
        split; [apply (ext_buf _ _ Ex2)|]. split; [|discriminate]. intros _. split.
        * split; [eapply ext_trans; eauto|]. unfold in_block. rewrite R2, (tstate_inc _ Hm).
          destruct (N.eqb_spec (deref (pos s)) 42%N) as [E42|N42].
          -- right. rewrite E42. split; [apply tstep_block_star, Hx|]. intros Hm2 D47. apply Rnot.
             apply has_more_lt in Hm2. rewrite pos_inc_buf, pos_inc_idx, Hm in Hm2. split; [lia|].
             intros j Hj. destruct j as [|[|j]]; [| |lia]; cbn [nth s_ml_end].
             ++ rewrite Nat.add_0_r, <- (deref_nth _ Hm). exact E42.
             ++ assert (Hm2' : has_more (pos_inc (pos s)) = true) by (apply has_more_lt; rewrite pos_inc_buf, pos_inc_idx, Hm; lia).
                rewrite (deref_nth _ Hm2'), pos_inc_buf, pos_inc_idx, Hm in D47. replace (idx (pos s) + 1) with (S (idx (pos s))) by lia. exact D47.
          -- left. apply tstep_block_other; [exact Hx|exact N42|exact Hnot47].
        * rewrite R2, pos_inc_idx, Hm. pose proof (ext_len _ _ Ex2) as HL. rewrite R2, pos_inc_idx, Hm in HL. lia.
  Qed.

  Lemma block_done_tb p : block_done p -> tb p.
  Proof. intros [H|H]; [left; exact H|right; right; exact H]. Qed.

  (* a symbol that matched at a trivia boundary matched in TS_normal (the other boundaries stand on a line end or at the end of the input) *)
  Lemma tb_symbol_normal (p : Position) (c : N) :
    tb p -> has_more p = true -> deref p = c -> c <> NL -> c <> CR -> tstate_at p = TS_normal.
  Proof.
    intros [H|[[_ H]|[_ H]]] Hm Hd N1 N2; [exact H| |congruence].
    destruct H as [H|[H|(_ & H & _)]]; congruence.
  Qed.

  Lemma SkipComment_tb (s : ST) :
    wf_pos (pos s) -> tb (pos s) ->
    post (SkipComment s) (fun b s' => ext s s' /\ tb (pos s') /\ (b = true -> idx (pos s) < idx (pos s')) /\ (b = false -> s' = s)).
  Proof.
    intros W Tb. pose proof (ext_refl s W) as E. unfold SkipComment.
    (* what a matched two/one-byte symbol tells about the automaton *)
    assert (First : forall sym c0, nth 0 sym 0%N = c0 -> c0 <> NL -> c0 <> CR -> 0 < List.length sym ->
              forall s0 : ST, ext s s0 -> moved (List.length sym) s s0 ->
              (forall j, j < List.length sym -> nth (idx (pos s) + j) (buf (pos s)) 0%N = nth j sym 0%N) ->
              has_more (pos s) = true /\ deref (pos s) = c0 /\ tstate_at (pos s) = TS_normal).
    { intros sym c0 Hc N1 N2 Hl s0 E0 (Rp & Ri) Rb.
      assert (Hm : has_more (pos s) = true).
      { apply has_more_lt. pose proof (ext_len _ _ E0) as HL. rewrite (ext_buf _ _ E0) in HL. lia. }
      assert (Hd : deref (pos s) = c0) by (rewrite (deref_nth _ Hm); specialize (Rb 0 Hl); rewrite Nat.add_0_r in Rb; congruence).
      split; [exact Hm|]. split; [exact Hd|]. apply (tb_symbol_normal _ c0); assumption. }
    step (fine_Symbol_full (U:=U) s_ml_begin). destruct a.
    - destruct R as (Mv & Rb). destruct (First s_ml_begin 47%N eq_refl ltac:(discriminate) ltac:(discriminate) ltac:(simpl; lia) s0 ltac:(assumption) Mv Rb) as (Hm & D0 & Tn).
      destruct Mv as (Rp & Ri). cbn [List.length s_ml_begin] in *.
      assert (Hm1 : has_more (pos_inc (pos s)) = true).
      { apply has_more_lt. rewrite pos_inc_buf, pos_inc_idx, Hm. match goal with H : ext s s0 |- _ => pose proof (ext_len _ _ H) as HL; rewrite (ext_buf _ _ H) in HL end. lia. }
      assert (D1 : deref (pos_inc (pos s)) = 42%N).
      { rewrite (deref_nth _ Hm1), pos_inc_buf, pos_inc_idx, Hm. replace (S (idx (pos s))) with (idx (pos s) + 1) by lia. apply (Rb 1). lia. }
      assert (T0 : tstate_at (pos s0) = TS_block).
      { rewrite Rp. cbn [pos_add]. rewrite (tstate_inc _ Hm1), (tstate_inc _ Hm), Tn, D0, D1. reflexivity. }
      apply post_bind. eapply post_mono; [apply ml_comment_tb; [eapply ext_wf; eassumption|exact T0]|].
      intros [] s2 [Ex2 Bd]. apply post_ret. split; [eapply ext_trans; eauto|]. split; [apply block_done_tb, Bd|].
      split; [|discriminate]. intros _. pose proof (ext_idx _ _ Ex2). lia.
    - destruct R as [-> _]. step (fine_Symbol_full (U:=U) s_sl_comment). destruct a.
      + destruct R as (Mv & Rb). destruct (First s_sl_comment 47%N eq_refl ltac:(discriminate) ltac:(discriminate) ltac:(simpl; lia) s0 ltac:(assumption) Mv Rb) as (Hm & D0 & Tn).
        destruct Mv as (Rp & Ri). cbn [List.length s_sl_comment] in *.
        assert (Hm1 : has_more (pos_inc (pos s)) = true).
        { apply has_more_lt. rewrite pos_inc_buf, pos_inc_idx, Hm. match goal with H : ext s s0 |- _ => pose proof (ext_len _ _ H) as HL; rewrite (ext_buf _ _ H) in HL end. lia. }
        assert (D1 : deref (pos_inc (pos s)) = 47%N).
        { rewrite (deref_nth _ Hm1), pos_inc_buf, pos_inc_idx, Hm. replace (S (idx (pos s))) with (idx (pos s) + 1) by lia. apply (Rb 1). lia. }
        assert (T0 : tstate_at (pos s0) = TS_line).
        { rewrite Rp. cbn [pos_add]. rewrite (tstate_inc _ Hm1), (tstate_inc _ Hm), Tn, D0, D1. reflexivity. }
        apply post_bind. eapply post_mono; [apply line_comment_tb; [eapply ext_wf; eassumption|exact T0]|].
        intros [] s2 (Ex2 & T2 & L2). apply post_ret. split; [eapply ext_trans; eauto|]. split; [right; left; auto|].
        split; [|discriminate]. intros _. pose proof (ext_idx _ _ Ex2). lia.
      + destruct R as [-> _]. step (fine_Symbol_full (U:=U) s_annotation). destruct a.
        * destruct R as (Mv & Rb). destruct (First s_annotation 35%N eq_refl ltac:(discriminate) ltac:(discriminate) ltac:(simpl; lia) s0 ltac:(assumption) Mv Rb) as (Hm & D0 & Tn).
          destruct Mv as (Rp & Ri). cbn [List.length s_annotation] in *.
          assert (T0 : tstate_at (pos s0) = TS_line).
          { rewrite Rp. cbn [pos_add]. rewrite (tstate_inc _ Hm), Tn, D0. reflexivity. }
          apply post_bind. eapply post_mono; [apply line_comment_tb; [eapply ext_wf; eassumption|exact T0]|].
          intros [] s2 (Ex2 & T2 & L2). apply post_ret. split; [eapply ext_trans; eauto|]. split; [right; left; auto|].
          split; [|discriminate]. intros _. pose proof (ext_idx _ _ Ex2). lia.
        * destruct R as [-> _]. done_ret. split; [exact Tb|]. split; [discriminate|reflexivity].
  Qed.

  (* the white-space alphabet is a subset of {space, tab} (checked on the regenerated alphabets by computation) *)
  Hypothesis white_ok : forall c, in_alpha (a_white A) c = true -> c = 32%N \/ c = 9%N.

  Lemma SkipWS_tb sc (s : ST) :
    wf_pos (pos s) -> tb (pos s) -> post (SkipWS A sc s) (fun _ s' => ext s s' /\ tb (pos s')).
  Proof.
    intros W Tb. unfold SkipWS.
    apply (loop_ok (skipws_body A sc) (fun _ sx => ext s sx /\ tb (pos sx))); [|split; [apply ext_refl, W|exact Tb]].
    intros retval sx [E0 Tx]. pose proof (ext_wf _ _ E0) as Wx. pose proof (ext_refl sx Wx) as E. unfold skipws_body. step_pos.
    destruct (has_more (pos sx)) eqn:Hm.
    2:{ apply post_ret. cbn [fst snd]. split; [auto|]. split; [reflexivity|discriminate]. }
    destruct (126 <? deref (pos sx))%N; [exact I|].
    set (c := deref (pos sx)) in *.
    set (end_line := (negb (c =? 0)%N && ((c =? NL)%N || ((c =? CR)%N && (deref (pos_add (pos sx) 1) =? NL)%N)))%bool).
    (* one `++` from a boundary over a byte that keeps it a boundary *)
    assert (Step1 : forall sy : ST, ext sx sy -> pos sy = pos sx -> tstep (tstate_at (pos sx)) c = TS_normal ->
              post ((inc ;;; ret (true, true)) sy)
                   (fun r s' => (ext s s' /\ tb (pos s')) /\ buf (pos s') = buf (pos sx) /\
                                (snd r = true -> idx (pos sx) < idx (pos s') <= List.length (buf (pos s'))))).
    { intros sy Ey Py Ht. apply post_bind. eapply post_mono; [apply fine_inc, (ext_wf _ _ Ey)|]. intros _ s2 [Ex2 R2]. apply post_ret. cbn [fst snd].
      assert (E2 : ext sx s2) by (eapply ext_trans; eauto).
      split; [split; [eapply ext_trans; eauto|]|].
      - left. rewrite R2, Py, (tstate_inc _ Hm). exact Ht.
      - split; [apply (ext_buf _ _ E2)|]. intros _. pose proof (ext_len _ _ E2) as HL. rewrite R2, Py, pos_inc_idx, Hm in *. lia. }
    destruct (in_alpha (a_white A) c) eqn:Wh.
    - (* space / tab *)
      cbn [orb]. assert (Hc : c = 32%N \/ c = 9%N) by (apply white_ok, Wh).
      assert (Hel : end_line = false) by (unfold end_line; destruct Hc as [-> | ->]; reflexivity).
      rewrite Hel. cbn [andb]. apply post_bind. apply post_ret.
      apply Step1; [exact E|reflexivity|].
      assert (Tn : tstate_at (pos sx) = TS_normal) by (apply (tb_symbol_normal _ c); auto; destruct Hc as [-> | ->]; discriminate).
      rewrite Tn. destruct Hc as [-> | ->]; reflexivity.
    - cbn [orb]. destruct (sc && end_line)%bool eqn:Se.
      + apply andb_prop in Se. destruct Se as [_ Hel]. rewrite Hel. cbn [andb].
        unfold end_line in Hel. apply andb_prop in Hel. destruct Hel as [_ Hel]. apply orb_prop in Hel.
        destruct (c =? CR)%N eqn:Ecr.
        * (* "\r\n" *)
          apply N.eqb_eq in Ecr. destruct Hel as [Hel|Hel]; [apply N.eqb_eq in Hel; rewrite Ecr in Hel; discriminate|].
          apply andb_prop in Hel. destruct Hel as [_ Hnl]. apply N.eqb_eq in Hnl. cbn [pos_add] in Hnl.
          assert (Hm1 : has_more (pos_inc (pos sx)) = true).
          { destruct (has_more (pos_inc (pos sx))) eqn:H1; [reflexivity|]. unfold deref in Hnl. rewrite H1 in Hnl. discriminate. }
          apply post_bind. eapply post_mono; [apply fine_inc, Wx|]. intros _ s1 [Ex1 R1].
          apply post_bind. eapply post_mono; [apply fine_inc, (ext_wf _ _ Ex1)|]. intros _ s2 [Ex2 R2]. apply post_ret. cbn [fst snd].
          assert (E2 : ext sx s2) by (eapply ext_trans; eauto).
          split; [split; [eapply ext_trans; eauto|]|].
          -- left. rewrite R2, R1, (tstate_inc _ Hm1), (tstate_inc _ Hm), Hnl. fold c. rewrite Ecr.
             destruct Tx as [Tn|[[Tl _]|[_ Hf]]]; [rewrite Tn; reflexivity|rewrite Tl; reflexivity|congruence].
          -- split; [apply (ext_buf _ _ E2)|]. intros _. pose proof (ext_len _ _ E2) as HL. rewrite R2, R1, !pos_inc_idx, Hm1, Hm in *. lia.
        * (* "\n" *)
          destruct Hel as [Hel|Hel]; [|apply andb_prop in Hel; destruct Hel; discriminate].
          apply N.eqb_eq in Hel. apply post_bind. apply post_ret. apply Step1; [exact E|reflexivity|].
          rewrite Hel. destruct Tx as [Tn|[[Tl _]|[_ Hf]]]; [rewrite Tn; reflexivity|rewrite Tl; reflexivity|congruence].
      + (* a comment, or the end of the white space *)
        apply post_bind. eapply post_mono; [apply (SkipComment_tb sx Wx Tx)|]. intros b s1 (E1 & T1 & P1 & F1). destruct b.
        * apply post_ret. cbn [fst snd]. split; [split; [eapply ext_trans; eauto|exact T1]|]. split; [apply (ext_buf _ _ E1)|].
          intros _. split; [apply P1; reflexivity|apply (ext_len _ _ E1)].
        * apply post_ret. cbn [fst snd]. rewrite (F1 eq_refl). split; [auto|]. split; [reflexivity|discriminate].
  Qed.

  (* ---------------------------------------------------------------- scanners that report no match leave the cursor on a trivia boundary *)
  (* m, run from a boundary, ends on a boundary whenever its result counts as "no match" *)
  Definition keeps_tb {X} (m : M U X) (nomatch : X -> Prop) : Prop :=
    forall s, wf_pos (pos s) -> tb (pos s) -> post (m s) (fun a s' => ext s s' /\ (nomatch a -> tb (pos s'))).

  Lemma keeps_tb_with_depth {X} (m : M U X) nm : keeps_tb m nm -> keeps_tb (with_depth m) nm.
  Proof.
    intros F s W Tb. unfold with_depth. destruct (Nat.ltb max_parse_depth _); [exact I|].
    set (s1 := mkState (pos s) (S (depth s)) (user s)).
    pose proof (F s1 W Tb) as H. destruct (m s1) as [[a s2]| | |]; simpl in *; auto.
    destruct H as ((B & I' & W' & D & Us) & HP). split; [|exact HP].
    apply ext_intro; simpl; auto. rewrite D. reflexivity.
  Qed.
  Lemma keeps_tb_ws {X} (m : M U X) nm : keeps_tb m nm -> keeps_tb (SkipWS A false ;;; m) nm.
  Proof.
    intros F s W Tb. apply post_bind. eapply post_mono; [apply (SkipWS_tb false s W Tb)|]. intros _ s1 [E1 T1].
    eapply post_mono; [apply (F s1 (ext_wf _ _ E1) T1)|]. intros a s2 [E2 H2]. split; [eapply ext_trans; eauto|exact H2].
  Qed.
  Lemma keeps_tb_same {X} (m : M U X) (nm : X -> Prop) (R : X -> ST -> ST -> Prop) :
    fine m R -> (forall a s s', nm a -> R a s s' -> s' = s) -> keeps_tb m nm.
  Proof.
    intros F H s W Tb. eapply post_mono; [apply F, W|]. intros a s' [E HR]. split; [exact E|]. intros Hn. rewrite (H a s s' Hn HR). exact Tb.
  Qed.

  Definition is_false (b : bool) : Prop := b = false.
  Definition is_none {X} (o : option X) : Prop := o = None.

  Lemma Char_tb c : keeps_tb (@Char U A c) is_false.
  Proof.
    unfold Char. apply keeps_tb_with_depth, keeps_tb_ws. apply (keeps_tb_same _ _ _ (fine_Char_ c)).
    intros a s s' Ha R. unfold is_false in Ha. subst a. exact R.
  Qed.
  Lemma Eol_tb : keeps_tb (@Eol U A) is_false.
  Proof.
    unfold Eol. apply keeps_tb_with_depth, keeps_tb_ws. apply (keeps_tb_same _ _ _ (fine_Eol_ false)).
    intros a s s' Ha R. unfold is_false in Ha. subst a. exact R.
  Qed.
  Lemma Keyword_tb t : keeps_tb (@Keyword U A t) is_false.
  Proof.
    unfold Keyword. apply keeps_tb_with_depth, keeps_tb_ws.
    intros s W Tb. pose proof (ext_refl s W) as E. step_pos. step (fine_Keyword_ (U:=U) t).
    step_at (fine_at_alpha (U:=U) (a_keyword A)).
    match goal with |- context [if ?c then _ else _] => destruct c eqn:Ck end.
    - apply post_bind. simpl. split; [apply ext_intro; simpl; auto; exts|]. intros _. exact Tb.
    - done_ret. intros Ha. unfold is_false in Ha. subst a. rewrite (R eq_refl). exact Tb.
  Qed.

  Lemma fine_Id__false : fine (@Id_ U A) (fun b s s' => b = false -> s' = s).
  Proof.
    intros s W. pose proof (ext_refl s W) as E. unfold Id_.
    step_at (fine_at_alpha (U:=U) (a_id A)).
    destruct (has_more (pos s) && in_alpha (a_id A) (deref (pos s)))%bool.
    { step (fine_skip_while (U:=U) (a_keyword A)). done_ret. discriminate. }
    step_at (fine_at_char (U:=U) (fun c => (c =? 96)%N)).
    destruct (has_more (pos s) && (deref (pos s) =? 96)%N)%bool; [|done_ret; reflexivity].
    step (fine_inc (U:=U)). step_pos.
    apply post_bind. eapply post_mono.
    { apply (loop_ok (backtick_body A) (fun _ s' => ext s0 s')); [|apply ext_refl; eapply ext_wf; eassumption].
      intros [] sx Ex. apply (backtick_iter A), Ex. }
    intros ? s1 E1'. cbv beta in E1' |- *. assert (Es : ext s s1) by (eapply ext_trans; [|exact E1']; assumption).
    step_pos.
    destruct (pos_eqb (pos s0) (pos s1)); [exact I|].
    destruct (negb (has_more (pos s1))); [exact I|].
    step (fine_inc (U:=U)). done_ret. discriminate.
  Qed.

  Lemma fine_conj {X} (m : M U X) (R1 R2 : X -> ST -> ST -> Prop) : fine m R1 -> fine m R2 -> fine m (fun a s s' => R1 a s s' /\ R2 a s s').
  Proof.
    intros F1 F2 s W. specialize (F1 s W). specialize (F2 s W). destruct (m s) as [[a s']| | |]; simpl in *; auto.
    destruct F1 as [E1 H1]. destruct F2 as [_ H2]. auto.
  Qed.
  Hypothesis id_sub_keyword : forall c, in_alpha (a_id A) c = true -> in_alpha (a_keyword A) c = true.

  Lemma Id_tb K validate : keeps_tb (@Id U A K validate) is_none.
  Proof.
    unfold Id. apply keeps_tb_ws.
    intros s W Tb. pose proof (ext_refl s W) as E. step_pos. step (fine_conj _ _ _ fine_Id__false (fine_Id_progress A id_sub_keyword)).
    destruct R as [R Rprog]. destruct a.
    - (* a token (or an error): never None *)
      step_pos. apply post_bind.
      match goal with |- context [if ?c then throw_at _ else ret tt] => destruct c end; [exact I|].
      apply post_ret.
      destruct (classify K _); [done_ret; unfold is_none; discriminate|].
      destruct (deref (pos s) =? 96)%N.
      + cbn [pos_sub]. destruct (pos_dec (pos s0)) eqn:Ed; [done_ret; unfold is_none; discriminate|].
        apply pos_dec_none in Ed. specialize (Rprog eq_refl). lia.
      + done_ret. unfold is_none. discriminate.
    - rewrite (R eq_refl). done_ret. intros _. exact Tb.
  Qed.

  Lemma fine_quoted_false {X} (q : N) (body : X -> M U (X * bool)) (x0 : X) msg :
    (forall s0 s v, ext s0 s -> @iter_ok U X s0 s (body v s)) ->
    fine (q' <- at_char (fun c => (c =? q)%N) ;;
          if q' then inc ;;; loop body x0 ;;; p <- get_pos ;; (if has_more p then inc ;;; ret true else throw_at msg) else ret false)
         (fun b s s' => (b = false -> s' = s) /\ (b = true -> idx (pos s) + 2 <= idx (pos s'))).
  Proof.
    intros Hb s W. pose proof (ext_refl s W) as E.
    step_at (fine_at_char (U:=U) (fun c => (c =? q)%N)).
    destruct (has_more (pos s)) eqn:Hm; cbn [andb]; [|done_ret; split; [reflexivity|discriminate]].
    destruct (deref (pos s) =? q)%N; [|done_ret; split; [reflexivity|discriminate]].
    step (fine_inc (U:=U)).
    apply post_bind. eapply post_mono.
    { apply (loop_ok body (fun _ s' => ext s0 s')); [|apply ext_refl; eapply ext_wf; eassumption].
      intros v sx Ex. apply Hb, Ex. }
    intros ? s1 E1'. cbv beta in E1' |- *. assert (Es : ext s s1) by (eapply ext_trans; [|exact E1']; assumption).
    step_pos. destruct (has_more (pos s1)) eqn:Hm1; [|exact I].
    step (fine_inc (U:=U)). done_ret. split; [discriminate|]. intros _.
    pose proof (ext_idx _ _ E1') as H01. rewrite R, pos_inc_idx, Hm in H01.
    match goal with H : pos s2 = pos_inc (pos s1) |- _ => rewrite H, pos_inc_idx, Hm1 end. lia.
  Qed.

  Lemma Quoted_String_tb : keeps_tb (@Quoted_String U A) is_none.
  Proof.
    unfold Quoted_String. apply keeps_tb_with_depth, keeps_tb_ws.
    intros s W Tb. pose proof (ext_refl s W) as E. step_pos.
    step (fine_quoted_false 34%N qs_body (34%N, 0%Z, false) "Unclosed quoted string" (fun s0 s v H => qs_iter s0 s v H)).
    destruct R as [Rf Rt]. destruct a; [|rewrite (Rf eq_refl); done_ret; intros _; exact Tb].
    specialize (Rt eq_refl).
    destruct (between_ok (pos s) s0 ltac:(lia)) as [content Hb].
    apply post_bind. rewrite Hb. cbn [post].
    destruct (qs_scan_safe (line (pos s)) (col (pos s)) (2 * List.length content + 2) content (mkCst [] false false Plain) [] I) as [q Hq]; [cbn [c_k]; lia|].
    rewrite cp_init_inj, Hq. done_ret. unfold is_none. discriminate.
  Qed.

  Lemma Single_Quoted_String_tb : keeps_tb (@Single_Quoted_String U A) is_none.
  Proof.
    unfold Single_Quoted_String. apply keeps_tb_with_depth, keeps_tb_ws.
    intros s W Tb. pose proof (ext_refl s W) as E. step_pos.
    step (fine_quoted_false 39%N sqs_body 39%N "Unclosed single-quoted string" (fun s0 s v H => sqs_iter s0 s v H)).
    destruct R as [Rf Rt]. destruct a; [|rewrite (Rf eq_refl); done_ret; intros _; exact Tb].
    specialize (Rt eq_refl).
    destruct (between_ok (pos s) s0 ltac:(lia)) as [content Hb].
    apply post_bind. rewrite Hb. cbn [post].
    rewrite cp_init_inj, cp_feed_inj by exact I.
    destruct (cfeed false _ content) as [s'|r p] eqn:Ef; cbn [lift].
    - rewrite cp_finish_inj by (eapply cfeed_valid; [|exact Ef]; exact I).
      destruct (cfinish s') as [s2|]; cbn [lift]; [|exact I].
      destruct (cp_match (inj s2)) as [|ch [|]]; try exact I. done_ret. unfold is_none. discriminate.
    - destruct p; exact I.
  Qed.

  (* Num() that reports no token is back where it started (fix 3bd5fe4) *)
  Lemma Num_tb T : keeps_tb (@Num U A T) is_none.
  Proof.
    rewrite Num_unfold. apply keeps_tb_ws.
    intros s W Tb. eapply post_mono; [apply (fine_Num_inner A T), W|]. intros o s' [E' [_ Hn]]. split; [exact E'|].
    intros Ho. apply (tb_ext (pos s) (pos s')); [apply (ext_buf _ _ E')|apply Hn, Ho|exact Tb].
  Qed.
End TriviaScanners.

(* ------------------------------------------------------------------ the grammar layer: a function that reports no match leaves the cursor on a boundary *)
Notation ST := (state pstate).

Lemma bind_ok_inv {U X Y} (m : M U X) (k : X -> M U Y) (s : state U) r :
  bind m k s = Ok r -> exists a s1, m s = Ok (a, s1) /\ k a s1 = Ok r.
Proof. unfold bind. destruct (m s) as [[a s1]| | |]; try discriminate. intros H. eauto. Qed.
Lemma with_depth_inv {U X} (m : M U X) (s : state U) a s' :
  with_depth m s = Ok (a, s') -> exists s2, m (mkState (pos s) (S (depth s)) (user s)) = Ok (a, s2) /\ pos s' = pos s2.
Proof.
  unfold with_depth. destruct (Nat.ltb max_parse_depth _); [discriminate|].
  destruct (m _) as [[a2 s2]| | |]; try discriminate. intros H. inversion H; subst. eexists. split; reflexivity.
Qed.

(* ------------------------------------------------------------------ the `#!` line of parse_internal: the first Eol() of the loop
   `while (m_position.has_more() && !Eol()) ++m_position`, entered on the `#` at the start of the buffer, skips exactly that annotation line
   (SkipWS_annotation) and then sees the line end -- which Eol_ consumes (fine_Eol_complete: Eol_ never refuses a line end) -- or the end of
   the input; it never sees `;` nor a byte the loop would step over with `++` *)
Section ShebangScanners.
  Context {U : Type}.
  Variable A : alphabets.
  Local Notation STu := (state U).
  Hypothesis white_ok : forall c, in_alpha (a_white A) c = true -> c = 32%N \/ c = 9%N.

  Lemma Symbol_nomatch sym (s : STu) :
    wf_pos (pos s) -> has_more (pos s) = true -> 0 < List.length sym -> deref (pos s) <> nth 0 sym 0%N ->
    post (Symbol_ sym s) (fun b s' => b = false /\ s' = s).
  Proof.
    intros W Hm Hl Hd. eapply post_mono; [apply (fine_Symbol_ (U:=U) sym), W|]. intros b s' [_ R]. destruct b; [|auto].
    exfalso. destruct R as (_ & Rb). specialize (Rb 0 Hl). rewrite Nat.add_0_r, <- (deref_nth _ Hm) in Rb. contradiction.
  Qed.

  Lemma SkipComment_none (s : STu) :
    wf_pos (pos s) -> has_more (pos s) = true -> deref (pos s) <> 47%N -> deref (pos s) <> 35%N ->
    post (SkipComment s) (fun b s' => b = false /\ s' = s).
  Proof.
    intros W Hm N1 N2. unfold SkipComment.
    apply post_bind. eapply post_mono; [apply (Symbol_nomatch s_ml_begin s W Hm); [simpl; lia|exact N1]|]. intros b s' [-> ->]. cbv iota.
    apply post_bind. eapply post_mono; [apply (Symbol_nomatch s_sl_comment s W Hm); [simpl; lia|exact N1]|]. intros b s' [-> ->]. cbv iota.
    apply post_bind. eapply post_mono; [apply (Symbol_nomatch s_annotation s W Hm); [simpl; lia|exact N2]|]. intros b s' [-> ->]. cbv iota.
    apply post_ret. auto.
  Qed.

  Lemma SkipComment_annotation (s : STu) :
    wf_pos (pos s) -> tstate_at (pos s) = TS_normal -> has_more (pos s) = true -> deref (pos s) = 35%N ->
    post (SkipComment s) (fun b s' => b = true /\ ext s s' /\ idx (pos s) < idx (pos s') /\ tstate_at (pos s') = TS_line /\ line_end_next (pos s')).
  Proof.
    intros W Tn Hm D. pose proof (ext_refl s W) as E. unfold SkipComment.
    assert (N1 : deref (pos s) <> 47%N) by (rewrite D; discriminate).
    apply post_bind. eapply post_mono; [apply (Symbol_nomatch s_ml_begin s W Hm); [simpl; lia|exact N1]|]. intros b s' [-> ->]. cbv iota.
    apply post_bind. eapply post_mono; [apply (Symbol_nomatch s_sl_comment s W Hm); [simpl; lia|exact N1]|]. intros b s' [-> ->]. cbv iota.
    step (fine_Symbol_full (U:=U) s_annotation). destruct a.
    - destruct R as ((Rp & Ri) & Rb). cbn [List.length s_annotation] in *.
      assert (T0 : tstate_at (pos s0) = TS_line). { rewrite Rp. cbn [pos_add]. rewrite (tstate_inc _ Hm), Tn, D. reflexivity. }
      apply post_bind. eapply post_mono; [apply line_comment_tb; [eapply ext_wf; eassumption|exact T0]|].
      intros [] s2 (Ex2 & T2 & L2). apply post_ret. split; [reflexivity|]. split; [eapply ext_trans; eauto|].
      split; [pose proof (ext_idx _ _ Ex2); lia|auto].
    - exfalso. destruct R as [_ Rn]. apply Rn. split; [apply has_more_lt in Hm; simpl; lia|]. intros j Hj. cbn [List.length s_annotation] in Hj.
      assert (j = 0) by lia. subst j. rewrite Nat.add_0_r, <- (deref_nth _ Hm). exact D.
  Qed.

  Lemma SkipWS_annotation (s : STu) :
    wf_pos (pos s) -> tstate_at (pos s) = TS_normal -> has_more (pos s) = true -> deref (pos s) = 35%N ->
    post (SkipWS A false s) (fun _ s' => ext s s' /\ tstate_at (pos s') = TS_line /\ line_end_next (pos s')).
  Proof.
    intros W Tn Hm D. unfold SkipWS.
    apply (loop_ok2 (skipws_body A false)
             (fun _ sx => ext s sx /\ (idx (pos sx) = idx (pos s) \/ (tstate_at (pos sx) = TS_line /\ line_end_next (pos sx))))
             (fun _ sx => ext s sx /\ tstate_at (pos sx) = TS_line /\ line_end_next (pos sx))); [|split; [apply ext_refl, W|left; reflexivity]].
    intros retval sx [E0 Inv]. pose proof (ext_wf _ _ E0) as Wx. pose proof (ext_refl sx Wx) as E. unfold skipws_body. step_pos.
    destruct Inv as [Ix|[Tl Le]].
    - destruct (same_place (pos s) (pos sx) (ext_buf _ _ E0) Ix) as (H1 & H2 & _ & _).
      assert (Hmx : has_more (pos sx) = true) by congruence. assert (Dx : deref (pos sx) = 35%N) by congruence.
      assert (Tx : tstate_at (pos sx) = TS_normal) by (rewrite (tstate_at_ext (pos s) (pos sx) (ext_buf _ _ E0) Ix); exact Tn).
      rewrite Hmx. cbv zeta. rewrite Dx.
      change (126 <? 35)%N with false. cbv iota.
      assert (Wh : in_alpha (a_white A) 35%N = false). { destruct (in_alpha (a_white A) 35%N) eqn:Wh; [|reflexivity]. destruct (white_ok _ Wh); discriminate. }
      rewrite Wh. cbn [orb andb].
      apply post_bind. eapply post_mono; [apply (SkipComment_annotation sx Wx Tx Hmx Dx)|]. intros b s1 (-> & E1 & P1 & T1 & L1).
      apply post_ret. cbn [fst snd]. split; [apply (ext_buf _ _ E1)|]. split; [|discriminate]. intros _.
      split; [split; [eapply ext_trans; eauto|right; auto]|]. split; [exact P1|apply (ext_len _ _ E1)].
    - destruct (has_more (pos sx)) eqn:Hmx.
      2:{ apply post_ret. cbn [fst snd]. split; [reflexivity|]. split; [discriminate|]. intros _. auto. }
      assert (Dc : deref (pos sx) = NL \/ deref (pos sx) = CR). { destruct Le as [H|[H|(_ & H & _)]]; [congruence|auto|auto]. }
      cbv zeta. set (c := deref (pos sx)) in *.
      assert (H126 : (126 <? c)%N = false) by (destruct Dc as [-> | ->]; reflexivity).
      assert (Wh : in_alpha (a_white A) c = false).
      { destruct (in_alpha (a_white A) c) eqn:Wh; [|reflexivity]. destruct (white_ok _ Wh) as [Hc|Hc]; destruct Dc as [Hd|Hd]; rewrite Hd in Hc; discriminate. }
      rewrite H126, Wh. cbn [orb andb].
      apply post_bind. eapply post_mono; [apply (SkipComment_none sx Wx Hmx); fold c; destruct Dc as [-> | ->]; discriminate|].
      intros b s1 [-> ->]. apply post_ret. cbn [fst snd]. split; [reflexivity|]. split; [discriminate|]. intros _. auto.
  Qed.

  Lemma Eol__false_not_line_end t_eos (s s' : STu) :
    wf_pos (pos s) -> Eol_ t_eos s = Ok (false, s') -> line_end_next (pos s) -> has_more (pos s) = false.
  Proof.
    intros W E L. destruct (has_more (pos s)) eqn:Hm; [exfalso|reflexivity].
    unfold Eol_ in E. apply bind_ok_inv in E. destruct E as (p & sa & Ea & E). cbv [get_pos] in Ea. inversion Ea; subst. clear Ea.
    apply bind_ok_inv in E. destruct E as (b & s1 & E1 & E2). destruct b.
    { cbv [bind set_col ret] in E2. discriminate. }
    clear E2. rewrite Hm in E1. apply bind_ok_inv in E1. destruct E1 as (b1 & s2 & E1 & E3). destruct b1; [discriminate|].
    pose proof (fine_Symbol_full (U:=U) s_cr_lf sa W) as F1. rewrite E1 in F1. destruct F1 as [_ [-> Rn]].
    pose proof (fine_Char_full (U:=U) NL sa W) as F2. rewrite E3 in F2. destruct F2 as [_ [_ Rc]]. rewrite Hm in Rc. cbn [andb] in Rc. apply N.eqb_neq in Rc.
    destruct L as [H|[H|(_ & Hc & Hm1 & Hn)]]; [congruence|contradiction|].
    apply Rn. cbn [List.length s_cr_lf]. apply has_more_lt in Hm1. rewrite pos_inc_buf, pos_inc_idx, Hm in Hm1. split; [lia|].
    intros j Hj. destruct j as [|[|j]]; [| |lia]; cbn [nth s_cr_lf].
    - rewrite Nat.add_0_r, <- (deref_nth _ Hm). exact Hc.
    - assert (Hm1' : has_more (pos_inc (pos sa)) = true) by (apply has_more_lt; rewrite pos_inc_buf, pos_inc_idx, Hm; lia).
      rewrite (deref_nth _ Hm1'), pos_inc_buf, pos_inc_idx, Hm in Hn. replace (idx (pos sa) + 1) with (S (idx (pos sa))) by lia. exact Hn.
  Qed.
  Lemma fine_Eol_complete t_eos :
    fine (@Eol_ U t_eos) (fun b s s' => b = false -> line_end_next (pos s) -> has_more (pos s) = false).
  Proof.
    intros s W. pose proof (fine_Eol_exact (U:=U) t_eos s W) as H. destruct (Eol_ t_eos s) as [[b s']| | |] eqn:Eq; simpl in *; auto.
    destruct H as [Ex _]. split; [exact Ex|]. intros ->. apply (Eol__false_not_line_end _ _ _ W Eq).
  Qed.

  Lemma Eol_shebang (s : STu) :
    wf_pos (pos s) -> tstate_at (pos s) = TS_normal -> has_more (pos s) = true -> deref (pos s) = 35%N ->
    post (Eol A s) (fun b s' => ext s s' /\
                                if b then tstate_at (pos s') = TS_normal else (tstate_at (pos s') = TS_line /\ has_more (pos s') = false)).
  Proof.
    intros W Tn Hm D. unfold Eol, with_depth. destruct (Nat.ltb max_parse_depth _); [exact I|].
    set (s1 := mkState (pos s) (S (depth s)) (user s)).
    assert (H : post ((SkipWS A false ;;; Eol_ false) s1)
                     (fun b s2 => ext s1 s2 /\ if b then tstate_at (pos s2) = TS_normal else (tstate_at (pos s2) = TS_line /\ has_more (pos s2) = false))).
    { apply post_bind. eapply post_mono; [apply (SkipWS_annotation s1 W Tn Hm D)|]. intros _ s2 (E2 & T2 & L2).
      eapply post_mono; [apply (fine_conj _ _ _ (fine_Eol_exact (U:=U) false) (fine_Eol_complete false)), (ext_wf _ _ E2)|].
      intros b s3 (E3 & Rex & Rco). split; [eapply ext_trans; eauto|]. destruct b.
      - destruct Rex as [Hm2 [[Rp [Rc|[Rc _]]]|(Rp & Rc & Hm3 & Rc1)]].
        + rewrite Rp, (tstate_inc _ Hm2), T2, Rc. reflexivity.
        + exfalso. destruct L2 as [H|[H|(_ & H & _)]]; [congruence|rewrite H in Rc; discriminate|rewrite H in Rc; discriminate].
        + rewrite Rp, (tstate_inc _ Hm3), (tstate_inc _ Hm2), T2, Rc, Rc1. reflexivity.
      - subst s3. split; [exact T2|]. apply Rco; auto. }
    destruct ((SkipWS A false ;;; Eol_ false) s1) as [[b s2]| | |]; simpl in *; auto.
    destruct H as ((B & I' & W' & Dp & Us) & HP). split; [apply ext_intro; simpl; auto; rewrite Dp; reflexivity|]. exact HP.
  Qed.
End ShebangScanners.

(* partial-correctness reading of `keeps_tb`: IF the run ends normally with "no match", the cursor is on a boundary of the same buffer *)
Definition nfr (m : PM bool) : Prop :=
  forall s s', wf_pos (pos s) -> tb (pos s) -> m s = Ok (false, s') -> wf_pos (pos s') /\ tb (pos s') /\ buf (pos s') = buf (pos s).
Definition nfo {X} (m : PM (option X)) : Prop :=
  forall s s', wf_pos (pos s) -> tb (pos s) -> m s = Ok (None, s') -> wf_pos (pos s') /\ tb (pos s') /\ buf (pos s') = buf (pos s).
Lemma keeps_nfr (m : PM bool) : keeps_tb m is_false -> nfr m.
Proof.
  intros H s s' W Tb E. specialize (H s W Tb). rewrite E in H. destruct H as [Ex Ht].
  split; [apply (ext_wf _ _ Ex)|]. split; [apply Ht; reflexivity|apply (ext_buf _ _ Ex)].
Qed.
Lemma keeps_nfo {X} (m : PM (option X)) : keeps_tb m is_none -> nfo m.
Proof.
  intros H s s' W Tb E. specialize (H s W Tb). rewrite E in H. destruct H as [Ex Ht].
  split; [apply (ext_wf _ _ Ex)|]. split; [apply Ht; reflexivity|apply (ext_buf _ _ Ex)].
Qed.

(* computations that never end with "no match" *)
Definition never_false (m : PM bool) : Prop := forall s s', m s <> Ok (false, s').
Lemma nvf_ret_true : never_false (ret true).
Proof. intros s s' H. inversion H. Qed.
Lemma nvf_bind {X} (m : PM X) (k : X -> PM bool) : (forall a, never_false (k a)) -> never_false (bind m k).
Proof. intros H s s' E. apply bind_ok_inv in E. destruct E as (a & s1 & _ & E). exact (H a s1 s' E). Qed.
Lemma nvf_throw r : never_false (throw_at r).
Proof. intros s s' H. discriminate. Qed.
Lemma nvf_throw_pos r l c : never_false (throw_pos r l c).
Proof. intros s s' H. discriminate. Qed.
Lemma nvf_crash k : never_false (crash_with k).
Proof. intros s s' H. discriminate. Qed.
Lemma nvf_with_depth (m : PM bool) : never_false m -> never_false (with_depth m).
Proof. intros H s s' E. apply with_depth_inv in E. destruct E as (s2 & E & _). exact (H _ _ E). Qed.
Ltac nvf :=
  repeat first [ apply nvf_ret_true | apply nvf_throw | apply nvf_throw_pos | apply nvf_crash
               | apply nvf_with_depth
               | apply nvf_bind; intros
               | match goal with
                 | |- never_false (if ?c then _ else _) => destruct c
                 | |- never_false (match ?o with _ => _ end) => destruct o
                 | |- never_false (let _ := _ in _) => cbv zeta
                 end ].

Lemma nfr_ret_false : nfr (ret false).
Proof. intros s s' W Tb E. inversion E; subst. auto. Qed.
Lemma nfr_orelse (m1 : PM bool) (B REST : PM bool) : nfr m1 -> never_false B -> nfr REST -> nfr (k <- m1 ;; if k then B else REST).
Proof.
  intros H1 HB HR s s' W Tb E. apply bind_ok_inv in E. destruct E as (k & s1 & E1 & E2). destruct k.
  - exfalso. exact (HB _ _ E2).
  - destruct (H1 _ _ W Tb E1) as (W1 & T1 & B1). destruct (HR _ _ W1 T1 E2) as (W2 & T2 & B2). split; [exact W2|]. split; [exact T2|congruence].
Qed.
Lemma nfr_with_depth (m : PM bool) : nfr m -> nfr (with_depth m).
Proof.
  intros H s s' W Tb E. apply with_depth_inv in E. destruct E as (s2 & E & Ep).
  destruct (H (mkState (pos s) (S (depth s)) (user s)) s2 W Tb E) as (W2 & T2 & B2). rewrite Ep. auto.
Qed.
Lemma nfr_prev (F : nat -> PM bool) : (forall n, nfr (F n)) -> nfr (prev <- stack_size ;; F prev).
Proof.
  intros H s s' W Tb E. apply bind_ok_inv in E. destruct E as (n & s1 & E1 & E2).
  cbv [stack_size bind get_stack ret] in E1. inversion E1; subst. exact (H _ _ _ W Tb E2).
Qed.
Lemma nfr_tok_g (m : PM (option token)) : nfo m -> nfr (t <- m ;; push_opt t).
Proof.
  intros H s s' W Tb E. apply bind_ok_inv in E. destruct E as (o & s1 & E1 & E2). destruct o as [t|].
  - exfalso. unfold push_opt in E2. apply bind_ok_inv in E2. destruct E2 as (? & ? & _ & E2). inversion E2.
  - unfold push_opt in E2. inversion E2; subst. exact (H _ _ W Tb E1).
Qed.

Section GrammarTrivia.
  Variable A : alphabets.
  Variable T : int_tables.
  Variable K : kw_tables.
  Variable G : gtables.
  Hypothesis white_ok : forall c, in_alpha (a_white A) c = true -> c = 32%N \/ c = 9%N.
  Hypothesis id_sub_keyword : forall c, in_alpha (a_id A) c = true -> in_alpha (a_keyword A) c = true.

  Lemma Symbol_tb sym dp : keeps_tb (Symbol A G sym dp) is_false.
  Proof.
    unfold Symbol. apply keeps_tb_with_depth, (keeps_tb_ws A white_ok).
    intros s W Tb. pose proof (ext_refl s W) as E. step_pos. step (fine_Symbol_ (U:=pstate) sym). step_pos.
    match goal with |- context [if ?c then _ else _] => destruct c end.
    - match goal with |- context [if ?c then _ else _] => destruct c end.
      + done_ret. unfold is_false. discriminate.
      + apply post_bind. simpl. split; [apply ext_intro; simpl; auto; exts|]. intros _. exact Tb.
    - done_ret. intros Ha. unfold is_false in Ha. subst a. rewrite R. exact Tb.
  Qed.

  Definition nKw t := keeps_nfr _ (Keyword_tb A white_ok t).
  Definition nChar c := keeps_nfr _ (Char_tb A white_ok c).
  Definition nSym sym dp := keeps_nfr _ (Symbol_tb sym dp).
  Definition nEol := keeps_nfr _ (Eol_tb A white_ok).

  Lemma nfr_Id_g v : nfr (Id_g A K v).
  Proof. apply nfr_tok_g, keeps_nfo, (Id_tb A white_ok id_sub_keyword). Qed.
  Lemma nfr_Num_g : nfr (Num_g A T).
  Proof. apply nfr_tok_g, keeps_nfo, (Num_tb A white_ok). Qed.
  Lemma nfr_SQS_g : nfr (Single_Quoted_String_g A).
  Proof. apply nfr_tok_g, keeps_nfo, (Single_Quoted_String_tb A white_ok). Qed.

  Lemma nfr_keyword_node fn k : nfr (keyword_node A G fn k).
  Proof. unfold keyword_node. apply nfr_with_depth, nfr_prev. intros n. apply nfr_orelse; [apply nKw|nvf|apply nfr_ret_false]. Qed.

  Lemma nfr_Var_Decl cc cn : nfr (Var_Decl A K G cc cn).
  Proof.
    unfold Var_Decl. apply nfr_with_depth, nfr_prev. intros n.
    apply nfr_orelse; [|nvf|].
    { destruct cc; [|apply nfr_ret_false]. apply nfr_orelse; [apply nKw|nvf|]. apply nfr_orelse; [apply nKw|nvf|apply nKw]. }
    apply nfr_orelse; [apply nfr_orelse; [apply nKw|nvf|apply nKw]|nvf|].
    apply nfr_orelse; [apply nKw|nvf|]. apply nfr_orelse; [apply nKw|nvf|apply nfr_ret_false].
  Qed.

  (* the nonterminals a failing statement can go through *)
  Definition needs (nt : NT) : Prop :=
    match nt with
    | NLambda | NDef _ _ | NTry | NIf | NClass _ | NWhile | NFor | NSwitch | NBlock | NReturn | NDot_Fun_Array | NParen_Expression
    | NInline_Container | NPrefix | NValue | NOperator _ | NEquation => True
    | _ => False
    end.

  Section WithCall.
    Variable call : NT -> PM bool.
    Hypothesis Hcall : forall nt, needs nt -> nfr (call nt).

    Lemma qs_replay_nvf q : never_false (qs_replay call q).
    Proof. unfold qs_replay. nvf. Qed.
    Lemma nfr_Quoted_String_g : nfr (Quoted_String_g A call).
    Proof.
      intros s s' W Tb E. unfold Quoted_String_g in E. apply bind_ok_inv in E. destruct E as (o & s1 & E1 & E2). destruct o as [q|].
      - exfalso. apply (nvf_with_depth _ (qs_replay_nvf q) _ _ E2).
      - inversion E2; subst. exact (keeps_nfo _ (Quoted_String_tb A white_ok) _ _ W Tb E1).
    Qed.
    Lemma equation_try_nvf syms prev : never_false (equation_try A G call syms prev).
    Proof. induction syms as [|o r IH]; cbn [equation_try]; [apply nvf_ret_true|]. apply nvf_bind. intros b. destruct b; [nvf|exact IH]. Qed.
    Lemma prefix_try_nfr opers prev : nfr (prefix_try A G call opers prev).
    Proof.
      induction opers as [|o r IH]; cbn [prefix_try]; [apply nfr_ret_false|].
      apply nfr_orelse; [|nvf|exact IH]. destruct o as [|c [|c2 r2]]; [apply nSym|apply nChar|apply nSym].
    Qed.

    Lemma body_nfr nt : needs nt -> nfr (body A T K G call nt).
    Proof.
      intros Hn. destruct nt; try contradiction; cbn [body].
      - unfold Lambda_b. apply nfr_with_depth, nfr_prev. intros n. apply nfr_orelse; [apply nKw|nvf|apply nfr_ret_false].
      - unfold Def_b. apply nfr_with_depth, nfr_prev. intros n. apply nfr_orelse; [apply nKw|nvf|apply nfr_ret_false].
      - unfold Try_b. apply nfr_with_depth, nfr_prev. intros n. apply nfr_orelse; [apply nKw|nvf|apply nfr_ret_false].
      - unfold If_b. apply nfr_with_depth, nfr_prev. intros n. apply nfr_orelse; [apply nKw|nvf|apply nfr_ret_false].
      - unfold Class_b. apply nfr_with_depth, nfr_prev. intros n. apply nfr_orelse; [apply nKw|nvf|apply nfr_ret_false].
      - unfold While_b. apply nfr_with_depth, nfr_prev. intros n. apply nfr_orelse; [apply nKw|nvf|apply nfr_ret_false].
      - unfold For_b. apply nfr_with_depth, nfr_prev. intros n. apply nfr_orelse; [apply nKw|nvf|apply nfr_ret_false].
      - unfold Switch_b. apply nfr_with_depth, nfr_prev. intros n. apply nfr_orelse; [apply nKw|nvf|apply nfr_ret_false].
      - unfold Block_b, block_of. apply nfr_with_depth, nfr_prev. intros n. apply nfr_orelse; [apply nChar|nvf|apply nfr_ret_false].
      - unfold Return_b. apply nfr_with_depth, nfr_prev. intros n. apply nfr_orelse; [apply nKw|nvf|apply nfr_ret_false].
      - unfold Dot_Fun_Array_b. apply nfr_with_depth, nfr_prev. intros n. apply nfr_orelse; [|nvf|apply nfr_ret_false].
        apply nfr_orelse; [apply (Hcall NLambda I)|nvf|]. apply nfr_orelse; [apply nfr_Num_g|nvf|]. apply nfr_orelse; [apply nfr_Quoted_String_g|nvf|].
        apply nfr_orelse; [apply nfr_SQS_g|nvf|]. apply nfr_orelse; [apply (Hcall NParen_Expression I)|nvf|].
        apply nfr_orelse; [apply (Hcall NInline_Container I)|nvf|apply nfr_Id_g].
      - unfold Paren_Expression_b. apply nfr_with_depth. apply nfr_orelse; [apply nChar|nvf|apply nfr_ret_false].
      - unfold Inline_Container_b. apply nfr_with_depth, nfr_prev. intros n. apply nfr_orelse; [apply nChar|nvf|apply nfr_ret_false].
      - unfold Prefix_b. apply nfr_with_depth, nfr_prev. intros n. apply prefix_try_nfr.
      - unfold Value_b. apply nfr_with_depth. apply nfr_orelse; [apply nfr_Var_Decl|nvf|]. apply nfr_orelse; [apply (Hcall NDot_Fun_Array I)|nvf|apply (Hcall NPrefix I)].
      - unfold Operator_b. apply nfr_with_depth, nfr_prev. intros n. destruct (nth_error (g_operators G) prec) as [op|].
        + destruct (op_prec_eqb op Prefix); [apply (Hcall NValue I)|]. apply nfr_orelse; [apply (Hcall (NOperator (S prec)) I)|nvf|apply nfr_ret_false].
        + intros s s' _ _ E. discriminate.
      - unfold Equation_b. apply nfr_with_depth, nfr_prev. intros n. apply nfr_orelse; [apply (Hcall (NOperator 0) I)|apply equation_try_nvf|apply nfr_ret_false].
    Qed.
  End WithCall.

  Lemma any_of_nfr l : Forall nfr l -> nfr (any_of l).
  Proof.
    induction 1 as [|m r Hm Hr IH]; unfold any_of; cbn [fold_right]; [apply nfr_ret_false|].
    fold (any_of r). apply nfr_orelse; [exact Hm|apply nvf_ret_true|exact IH].
  Qed.

  Section Stmts.
    Variable call : NT -> PM bool.
    Hypothesis Hcall : forall nt, needs nt -> nfr (call nt).
    Variable ca : bool.

    Definition stmts_body (v : bool * bool) : PM ((bool * bool) * bool) :=
      start <- get_pos ;;
      s1 <- any_of [call (NDef false ""); call NTry; call NIf; call NWhile; call (NClass ca); call NFor; call NSwitch] ;;
      if s1 then
        (if snd v then ret tt else throw_pos "Two function definitions missing line separator" (line start) (col start)) ;;;
        ret ((true, true), true)
      else
        s2 <- any_of [call NReturn; Break A G; Continue A G; call NEquation] ;;
        if s2 then
          (if snd v then ret tt else throw_pos "Two expressions missing line separator" (line start) (col start)) ;;;
          ret ((true, false), true)
        else
          s3 <- any_of [call NBlock; Eol A] ;;
          if s3 then ret ((true, true), true) else ret (v, false).

    (* one iteration either reports a statement (and asks for more) or gives up having skipped trivia only *)
    Lemma stmts_body_inv v (s s1 : ST) r :
      wf_pos (pos s) -> tb (pos s) -> stmts_body v s = Ok (r, s1) ->
      (snd r = true /\ fst (fst r) = true) \/ (snd r = false /\ fst r = v /\ wf_pos (pos s1) /\ tb (pos s1) /\ buf (pos s1) = buf (pos s)).
    Proof.
      intros W Tb E. unfold stmts_body in E.
      apply bind_ok_inv in E. destruct E as (st & sa & Ea & E). cbv [get_pos] in Ea. inversion Ea; subst. clear Ea.
      assert (N1 : nfr (any_of [call (NDef false ""); call NTry; call NIf; call NWhile; call (NClass ca); call NFor; call NSwitch])).
      { apply any_of_nfr. repeat (apply Forall_cons; [apply Hcall; exact I|]). apply Forall_nil. }
      assert (N2 : nfr (any_of [call NReturn; Break A G; Continue A G; call NEquation])).
      { apply any_of_nfr. apply Forall_cons; [apply Hcall; exact I|]. apply Forall_cons; [apply nfr_keyword_node|]. apply Forall_cons; [apply nfr_keyword_node|].
        apply Forall_cons; [apply Hcall; exact I|apply Forall_nil]. }
      assert (N3 : nfr (any_of [call NBlock; Eol A])).
      { apply any_of_nfr. apply Forall_cons; [apply Hcall; exact I|]. apply Forall_cons; [apply nEol|apply Forall_nil]. }
      apply bind_ok_inv in E. destruct E as (b1 & sb & E1 & E). destruct b1.
      { left. apply bind_ok_inv in E. destruct E as (? & ? & _ & E). inversion E; subst. auto. }
      destruct (N1 _ _ W Tb E1) as (W1 & T1 & B1).
      apply bind_ok_inv in E. destruct E as (b2 & sc & E2 & E). destruct b2.
      { left. apply bind_ok_inv in E. destruct E as (? & ? & _ & E). inversion E; subst. auto. }
      destruct (N2 _ _ W1 T1 E2) as (W2 & T2 & B2).
      apply bind_ok_inv in E. destruct E as (b3 & sd & E3 & E). destruct b3.
      { left. inversion E; subst. auto. }
      destruct (N3 _ _ W2 T2 E3) as (W3 & T3 & B3).
      right. inversion E; subst. cbn [fst snd]. split; [reflexivity|]. split; [reflexivity|]. split; [exact W3|]. split; [exact T3|congruence].
    Qed.

    Lemma stmts_while_mono fuel : forall v (s s' : ST) v',
      while_ fuel stmts_body v s = Ok (v', s') -> fst v = true -> fst v' = true.
    Proof.
      induction fuel as [|f IH]; intros v s s' v' E Hv; [discriminate|].
      cbn [while_] in E. apply bind_ok_inv in E. destruct E as (r & s1 & Eb & E).
      destruct (snd r) eqn:Sr.
      - apply (IH _ _ _ _ E).
        (* a continuing iteration always reports a statement *)
        unfold stmts_body in Eb. apply bind_ok_inv in Eb. destruct Eb as (? & ? & _ & Eb).
        apply bind_ok_inv in Eb. destruct Eb as (b1 & ? & _ & Eb). destruct b1.
        { apply bind_ok_inv in Eb. destruct Eb as (? & ? & _ & Eb). inversion Eb; subst. reflexivity. }
        apply bind_ok_inv in Eb. destruct Eb as (b2 & ? & _ & Eb). destruct b2.
        { apply bind_ok_inv in Eb. destruct Eb as (? & ? & _ & Eb). inversion Eb; subst. reflexivity. }
        apply bind_ok_inv in Eb. destruct Eb as (b3 & ? & _ & Eb). destruct b3; inversion Eb; subst; [reflexivity|discriminate].
      - inversion E; subst.
        unfold stmts_body in Eb. apply bind_ok_inv in Eb. destruct Eb as (? & ? & _ & Eb).
        apply bind_ok_inv in Eb. destruct Eb as (b1 & ? & _ & Eb). destruct b1.
        { apply bind_ok_inv in Eb. destruct Eb as (? & ? & _ & Eb). inversion Eb; subst. discriminate. }
        apply bind_ok_inv in Eb. destruct Eb as (b2 & ? & _ & Eb). destruct b2.
        { apply bind_ok_inv in Eb. destruct Eb as (? & ? & _ & Eb). inversion Eb; subst. discriminate. }
        apply bind_ok_inv in Eb. destruct Eb as (b3 & ? & _ & Eb). destruct b3; inversion Eb; subst; [discriminate|exact Hv].
    Qed.

    Lemma Statements_nfr : nfr (Statements_b A G call ca).
    Proof.
      intros s s' W Tb E. unfold Statements_b in E. apply with_depth_inv in E. destruct E as (s2 & E & Ep). rewrite Ep.
      apply bind_ok_inv in E. destruct E as (v & s3 & El & E). inversion E; subst. clear E.
      change (loop stmts_body (false, true) (mkState (pos s) (S (depth s)) (user s)) = Ok (v, s2)) in El.
      unfold loop in El. cbn [while_] in El. apply bind_ok_inv in El. destruct El as (r & s1 & Eb & El).
      destruct (stmts_body_inv _ (mkState (pos s) (S (depth s)) (user s)) _ _ W Tb Eb) as [[Sr Fr]|(Sr & Fr & W1 & T1 & B1)].
      - rewrite Sr in El. pose proof (stmts_while_mono _ _ _ _ _ El Fr) as Hv. congruence.
      - rewrite Sr in El. inversion El; subst. auto.
    Qed.
  End Stmts.

  Lemma nfr_tick (m : PM bool) : nfr m -> nfr (fun s => m (tick s)).
  Proof. intros H s s' W Tb E. exact (H (tick s) s' W Tb E). Qed.
  Lemma P_nfr : forall f nt, needs nt -> nfr (P A T K G f nt).
  Proof.
    induction f as [|f IH]; intros nt Hn.
    - intros s s' _ _ E. discriminate.
    - cbn [P]. apply nfr_tick. apply body_nfr; [|exact Hn]. intros nt' Hn'. apply IH, Hn'.
  Qed.

  Lemma P_Statements_nfr f ca : nfr (P A T K G f (NStatements ca)).
  Proof.
    destruct f as [|f]; [intros s s' _ _ E; discriminate|].
    cbn [P body]. apply nfr_tick. apply Statements_nfr. intros nt Hn. apply P_nfr, Hn.
  Qed.

  (* parse_internal (no `#!` line): a Noop root means the whole buffer is trivia *)
  Definition no_shebang (b : list N) : Prop := match b with 35%N :: 33%N :: _ => False | _ => True end.

  Lemma no_shebang_match {X} (a b : X) l : no_shebang l -> match l with 35%N :: 33%N :: _ => a | _ => b end = b.
  Proof.
    unfold no_shebang. intros H.
    repeat (match goal with |- context [match ?x with _ => _ end] => destruct x end; try reflexivity; try contradiction).
  Qed.

  Lemma parse_internal_noop f (s s' : ST) n :
    wf_pos (pos s) -> tb (pos s) -> no_shebang (buf (pos s)) ->
    parse_internal_b A (P A T K G f) s = Ok (n, s') -> pn_kind n = KNoop ->
    trivia_only (buf (pos s)) = true.
  Proof.
    intros W Tb Hns E Hk. unfold parse_internal_b in E.
    apply bind_ok_inv in E. destruct E as (p0 & sa & Ea & E). cbv [get_pos] in Ea. inversion Ea; subst. clear Ea.
    apply bind_ok_inv in E. destruct E as (u0 & sb & Eb & E).
    assert (Hsb : sb = sa).
    { rewrite (no_shebang_match _ _ _ Hns) in Eb. inversion Eb. reflexivity. }
    subst sb. clear Eb.
    apply bind_ok_inv in E. destruct E as (b & sc & Es & E). destruct b.
    - (* Statements matched: the root is the File node *)
      exfalso. apply bind_ok_inv in E. destruct E as (u1 & sd & Ed & E).
      apply bind_ok_inv in Ed. destruct Ed as (p1 & se & Ee & Ed). cbv [get_pos] in Ee. inversion Ee; subst. clear Ee.
      destruct (has_more (pos se)); [discriminate|].
      unfold build_match in Ed. cbv [bind get_stack get_pos get_fname] in Ed. cbn [Nat.ltb Nat.leb skipn firstn app] in Ed.
      cbn [ctor_check] in Ed. cbv [set_stack] in Ed. inversion Ed; subst. clear Ed.
      cbv [bind get_stack ret] in E. cbn [user stk] in E. inversion E; subst. discriminate.
    - destruct (P_Statements_nfr f true _ _ W Tb Es) as (W1 & T1 & B1).
      apply bind_ok_inv in E. destruct E as (u1 & sd & Ed & E).
      apply bind_ok_inv in Ed. destruct Ed as (b2 & se & Ee & Ed).
      pose proof (SkipWS_tb A white_ok true sc W1 T1) as Hw. rewrite Ee in Hw. destruct Hw as [Ex2 T2].
      apply bind_ok_inv in Ed. destruct Ed as (p1 & sf & Ef & Ed). cbv [get_pos] in Ef. inversion Ef; subst. clear Ef.
      destruct (has_more (pos sf)) eqn:Hm; [discriminate|].
      apply has_more_false in Hm. pose proof (ext_len _ _ Ex2) as HL.
      assert (Hend : idx (pos sf) = List.length (buf (pos sf))) by lia.
      pose proof (tb_end_accept _ T2 Hend) as Ht. rewrite (ext_buf _ _ Ex2), B1 in Ht. exact Ht.
  Qed.

  (* ---------------------------------------------------------------- parse_internal on a buffer that begins with `#!` *)
  Definition shebang_body (_ : unit) : PM (unit * bool) :=
    p <- get_pos ;; if has_more p then e <- Eol A ;; if e then ret (tt, false) else inc ;;; ret (tt, true) else ret (tt, false).

  Lemma shebang_loop_tb (s : ST) :
    wf_pos (pos s) -> tstate_at (pos s) = TS_normal -> has_more (pos s) = true -> deref (pos s) = 35%N ->
    post (loop shebang_body tt s) (fun _ s' => wf_pos (pos s') /\ tb (pos s') /\ buf (pos s') = buf (pos s)).
  Proof.
    intros W Tn Hm D.
    apply (loop_ok2 shebang_body
       (fun _ sx => wf_pos (pos sx) /\ buf (pos sx) = buf (pos s) /\
                    (idx (pos sx) = idx (pos s) \/ (tstate_at (pos sx) = TS_line /\ has_more (pos sx) = false)))
       (fun _ sx => wf_pos (pos sx) /\ tb (pos sx) /\ buf (pos sx) = buf (pos s))); [|auto].
    intros [] sx (Wx & Bx & Inv). pose proof (ext_refl sx Wx) as E. unfold shebang_body. step_pos.
    destruct Inv as [Ix|[Tl Hf]].
    - destruct (same_place (pos s) (pos sx) Bx Ix) as (H1 & H2 & _ & _).
      assert (Hmx : has_more (pos sx) = true) by congruence. assert (Dx : deref (pos sx) = 35%N) by congruence.
      assert (Tx : tstate_at (pos sx) = TS_normal) by (rewrite (tstate_at_ext (pos s) (pos sx) Bx Ix); exact Tn).
      rewrite Hmx.
      apply post_bind. eapply post_mono; [apply (Eol_shebang A white_ok sx Wx Tx Hmx Dx)|]. intros b s1 [E1 R1]. destruct b.
      + apply post_ret. cbn [fst snd]. split; [apply (ext_buf _ _ E1)|]. split; [discriminate|]. intros _.
        split; [apply (ext_wf _ _ E1)|]. split; [left; exact R1|]. rewrite (ext_buf _ _ E1). exact Bx.
      + destruct R1 as [T1 Hf1]. apply post_bind. unfold inc. cbn [post]. apply post_ret. cbn [fst snd pos].
        assert (Hinc : pos_inc (pos s1) = pos s1) by (unfold pos_inc; rewrite Hf1; reflexivity). rewrite Hinc.
        split; [apply (ext_buf _ _ E1)|]. split; [|discriminate]. intros _.
        split; [split; [apply (ext_wf _ _ E1)|]; split; [rewrite (ext_buf _ _ E1); exact Bx|right; auto]|].
        apply has_more_lt in Hmx. apply has_more_false in Hf1. pose proof (ext_len _ _ E1). rewrite (ext_buf _ _ E1) in Hf1. rewrite (ext_buf _ _ E1) in *. lia.
    - rewrite Hf. apply post_ret. cbn [fst snd]. split; [reflexivity|]. split; [discriminate|]. intros _.
      split; [exact Wx|]. split; [right; left; split; [exact Tl|left; exact Hf]|exact Bx].
  Qed.

  Lemma shebang_dichotomy (l : list N) : no_shebang l \/ exists r, l = 35%N :: 33%N :: r.
  Proof.
    unfold no_shebang.
    repeat (match goal with |- context [match ?x with _ => _ end] => destruct x end; auto).
    right. eexists. reflexivity.
  Qed.

  (* parse_internal: a Noop root means the whole buffer is trivia -- with or without a `#!` line *)
  Lemma parse_internal_noop_all f (s s' : ST) n :
    wf_pos (pos s) -> idx (pos s) = 0 ->
    parse_internal_b A (P A T K G f) s = Ok (n, s') -> pn_kind n = KNoop ->
    trivia_only (buf (pos s)) = true.
  Proof.
    intros W I0 E Hk.
    assert (Tn : tstate_at (pos s) = TS_normal) by (unfold tstate_at; rewrite I0; reflexivity).
    destruct (shebang_dichotomy (buf (pos s))) as [Hns|[r Hr]].
    { apply (parse_internal_noop f s s' n W (or_introl Tn) Hns E Hk). }
    unfold parse_internal_b in E.
    apply bind_ok_inv in E. destruct E as (p0 & sa & Ea & E). cbv [get_pos] in Ea. inversion Ea; subst. clear Ea.
    apply bind_ok_inv in E. destruct E as (u0 & sb & Eb & E).
    rewrite Hr in Eb. cbv iota in Eb. change (loop shebang_body tt sa = Ok (u0, sb)) in Eb.
    assert (Hm : has_more (pos sa) = true) by (apply has_more_lt; rewrite I0, Hr; simpl; lia).
    assert (D : deref (pos sa) = 35%N) by (rewrite (deref_nth _ Hm), I0, Hr; reflexivity).
    pose proof (shebang_loop_tb sa W Tn Hm D) as Hl. rewrite Eb in Hl. destruct Hl as (Wb & Tb & Bb).
    apply bind_ok_inv in E. destruct E as (b & sc & Es & E). destruct b.
    - exfalso. apply bind_ok_inv in E. destruct E as (u1 & sd & Ed & E).
      apply bind_ok_inv in Ed. destruct Ed as (p1 & se & Ee & Ed). cbv [get_pos] in Ee. inversion Ee; subst. clear Ee.
      destruct (has_more (pos se)); [discriminate|].
      unfold build_match in Ed. cbv [bind get_stack get_pos get_fname] in Ed. cbn [Nat.ltb Nat.leb skipn firstn app] in Ed.
      cbn [ctor_check] in Ed. cbv [set_stack] in Ed. inversion Ed; subst. clear Ed.
      cbv [bind get_stack ret] in E. cbn [user stk] in E. inversion E; subst. discriminate.
    - destruct (P_Statements_nfr f true _ _ Wb Tb Es) as (W1 & T1 & B1).
      apply bind_ok_inv in E. destruct E as (u1 & sd & Ed & E).
      apply bind_ok_inv in Ed. destruct Ed as (b2 & se & Ee & Ed).
      pose proof (SkipWS_tb A white_ok true sc W1 T1) as Hw. rewrite Ee in Hw. destruct Hw as [Ex2 T2].
      apply bind_ok_inv in Ed. destruct Ed as (p1 & sf & Ef & Ed). cbv [get_pos] in Ef. inversion Ef; subst. clear Ef.
      destruct (has_more (pos sf)) eqn:Hmf; [discriminate|].
      apply has_more_false in Hmf. pose proof (ext_len _ _ Ex2) as HL.
      assert (Hend : idx (pos sf) = List.length (buf (pos sf))) by lia.
      pose proof (tb_end_accept _ T2 Hend) as Ht. rewrite (ext_buf _ _ Ex2), B1, Bb in Ht. exact Ht.
  Qed.
End GrammarTrivia.
