(* C13 — proofs about the generic model of ConcDefs.v (nothing here depends on the regenerated table). *)
From Coq Require Import List String Bool Arith PeanoNat Lia Permutation.
From ChaiV Require Import ConcDefs.
Import ListNotations.
Local Open Scope string_scope.
Local Open Scope nat_scope.
Local Open Scope list_scope.

(* ------------------------------------------------------------------------- *)
(* held-lock lists                                                           *)
(* ------------------------------------------------------------------------- *)
Lemma holds_In : forall h m, holds h m = true <-> exists md, In (m, md) h.
Proof.
  unfold holds. intros h m. rewrite existsb_exists. split.
  - intros [[m' md] [Hin Heq]]. simpl in Heq. apply Nat.eqb_eq in Heq. subst. eauto.
  - intros [md Hin]. exists (m, md). split; auto. simpl. apply Nat.eqb_refl.
Qed.

Lemma holds_ex_In : forall h m, holds_ex h m = true <-> In (m, Ex) h.
Proof.
  unfold holds_ex. intros h m. rewrite existsb_exists. split.
  - intros [[m' md] [Hin Heq]]. simpl in Heq. apply andb_true_iff in Heq. destruct Heq as [H1 H2].
    apply Nat.eqb_eq in H1. subst. destruct md; simpl in H2; try discriminate. auto.
  - intros Hin. exists (m, Ex). split; auto. simpl. rewrite Nat.eqb_refl. reflexivity.
Qed.

Lemma remove_first_In : forall m h h' x, remove_first m h = Some h' -> In x h' -> In x h.
Proof.
  induction h as [|e r IH]; simpl; intros h' x Hr Hin; try discriminate.
  destruct (fst e =? m).
  - inversion Hr; subst. right; auto.
  - destruct (remove_first m r) eqn:E; simpl in Hr; try discriminate. inversion Hr; subst.
    destruct Hin as [->|Hin]; [left; auto | right; eapply IH; eauto].
Qed.

Lemma remove_first_other : forall m h h' m' md, remove_first m h = Some h' -> m' <> m -> In (m', md) h -> In (m', md) h'.
Proof.
  induction h as [|e r IH]; simpl; intros h' m' md Hr Hne Hin; try discriminate.
  destruct (fst e =? m) eqn:E.
  - inversion Hr; subst. destruct Hin as [->|Hin]; auto. simpl in E. apply Nat.eqb_eq in E. congruence.
  - destruct (remove_first m r) eqn:E2; simpl in Hr; try discriminate. inversion Hr; subst.
    destruct Hin as [->|Hin]; [left; auto | right; eapply IH; eauto].
Qed.

Lemma upd_same : forall A (f : nat -> A) t v, upd f t v t = v.
Proof. intros. unfold upd. rewrite Nat.eqb_refl. reflexivity. Qed.
Lemma upd_other : forall A (f : nat -> A) t v t', t' <> t -> upd f t v t' = f t'.
Proof. intros. unfold upd. destruct (Nat.eqb_spec t' t); congruence. Qed.

(* ------------------------------------------------------------------------- *)
(* mutual exclusion                                                          *)
(* ------------------------------------------------------------------------- *)
Definition minv (H : nat -> held) : Prop :=
  forall t1 t2 m md, t1 <> t2 -> In (m, Ex) (H t1) -> In (m, md) (H t2) -> False.

Lemma minv_init : minv no_locks.
Proof. unfold minv, no_locks. simpl. auto. Qed.

Lemma minv_step : forall kinds s t e s', lstep kinds s t e s' -> minv (snd s) -> minv (snd s').
Proof.
  intros kinds s t e s' Hs Hm. inversion Hs as [P H t0 m0 md0 r0 HP Hcan | P H t0 m0 r0 h' HP Hrem | P H t0 e0 r0 HP Hlk]; subst; simpl in *; auto.
  - (* acquire *)
    destruct Hcan as [Hoth Hself]. intros t1 t2 m1 md1 Hne H1 H2.
    destruct (Nat.eq_dec t1 t) as [->|N1]; destruct (Nat.eq_dec t2 t) as [->|N2]; try congruence.
    + rewrite upd_same in H1. rewrite upd_other in H2 by auto.
      destruct H1 as [Heq|H1].
      * inversion Heq; subst. specialize (Hoth t2 N2). simpl in Hoth.
        assert (holds (H t2) m1 = true) by (apply holds_In; eauto). congruence.
      * eapply (Hm t t2); eauto.
    + rewrite upd_other in H1 by auto. rewrite upd_same in H2.
      destruct H2 as [Heq|H2].
      * inversion Heq; subst. specialize (Hoth t1 N1). destruct md1.
        -- assert (holds_ex (H t1) m1 = true) by (apply holds_ex_In; auto). congruence.
        -- assert (holds (H t1) m1 = true) by (apply holds_In; eauto). congruence.
      * eapply (Hm t1 t); eauto.
    + rewrite upd_other in H1, H2 by auto. eapply (Hm t1 t2); eauto.
  - (* release *)
    intros t1 t2 m1 md1 Hne H1 H2.
    destruct (Nat.eq_dec t1 t) as [->|N1]; destruct (Nat.eq_dec t2 t) as [->|N2]; try congruence.
    + rewrite upd_same in H1. rewrite upd_other in H2 by auto. eapply (Hm t t2 m1 md1); eauto. eapply remove_first_In; eauto.
    + rewrite upd_other in H1 by auto. rewrite upd_same in H2. eapply (Hm t1 t m1 md1); eauto. eapply remove_first_In; eauto.
    + rewrite upd_other in H1, H2 by auto. eapply (Hm t1 t2); eauto.
Qed.

Lemma minv_exec : forall kinds s tr s', exec kinds s tr s' -> minv (snd s) -> minv (snd s').
Proof. induction 1; auto. intros. apply IHexec. eapply minv_step; eauto. Qed.

Lemma exec_app_inv : forall kinds a b s s', exec kinds s (a ++ b) s' -> exists mid, exec kinds s a mid /\ exec kinds mid b s'.
Proof.
  induction a as [|x a IH]; simpl; intros b s s' He.
  - exists s. split; [constructor | auto].
  - inversion He as [|s0 t0 e0 s1 tr0 s2 Hst Hex']; subst. destruct (IH _ _ _ Hex') as [mid [H1 H2]]. exists mid. split; auto. econstructor; eauto.
Qed.

Lemma exec_app : forall kinds a b s mid s', exec kinds s a mid -> exec kinds mid b s' -> exec kinds s (a ++ b) s'.
Proof. induction 1; simpl; auto. intros. econstructor; eauto. Qed.

(* ------------------------------------------------------------------------- *)
(* the discipline is an invariant of the remaining programs                  *)
(* ------------------------------------------------------------------------- *)
Definition ginv (pol : nat -> policy) (s : lstate) : Prop := forall t, gscan pol (snd s t) (fst s t) <> None.

Lemma ginv_step : forall kinds pol s t e s', lstep kinds s t e s' -> ginv pol s -> ginv pol s'.
Proof.
  intros kinds pol s t e s' Hs Hg t'. inversion Hs as [P H t0 m0 md0 r0 HP Hcan | P H t0 m0 r0 h' HP Hrem | P H t0 e0 r0 HP Hlk]; subst; simpl in *.
  - destruct (Nat.eq_dec t' t) as [->|N].
    + rewrite !upd_same. specialize (Hg t). simpl in Hg. rewrite HP in Hg. simpl in Hg. auto.
    + rewrite !upd_other by auto. apply (Hg t').
  - destruct (Nat.eq_dec t' t) as [->|N].
    + rewrite !upd_same. specialize (Hg t). simpl in Hg. rewrite HP in Hg. simpl in Hg. rewrite Hrem in Hg. auto.
    + rewrite !upd_other by auto. apply (Hg t').
  - destruct (Nat.eq_dec t' t) as [->|N].
    + rewrite upd_same. specialize (Hg t). simpl in Hg. rewrite HP in Hg.
      destruct e; simpl in *; try discriminate; auto.
      * destruct (rd_ok pol (H t) f); auto.
      * destruct (wr_ok pol (H t) f); auto.
    + rewrite upd_other by auto. apply (Hg t').
Qed.

Lemma ginv_exec : forall kinds pol s tr s', exec kinds s tr s' -> ginv pol s -> ginv pol s'.
Proof. induction 1; auto. intros. apply IHexec. eapply ginv_step; eauto. Qed.

Lemma gscan_app : forall pol p1 p2 h,
  gscan pol h (p1 ++ p2) = match gscan pol h p1 with Some h' => gscan pol h' p2 | None => None end.
Proof.
  induction p1 as [|e r IH]; simpl; intros p2 h; auto.
  destruct e; auto.
  - destruct (remove_first m h); auto.
  - destruct (rd_ok pol h f); auto.
  - destruct (wr_ok pol h f); auto.
Qed.

Lemma method_ok_scan : forall pol p, method_ok pol p = true -> gscan pol [] p = Some [].
Proof. unfold method_ok. intros pol p. destruct (gscan pol [] p) as [[|x l]|]; intros; try reflexivity; discriminate. Qed.

Lemma concat_ok : forall pol calls, Forall (fun c => method_ok pol c = true) calls -> gscan pol [] (List.concat calls) = Some [].
Proof.
  induction 1; simpl; auto. rewrite gscan_app. rewrite (method_ok_scan _ _ H). auto.
Qed.

(* ------------------------------------------------------------------------- *)
(* ordering of conflicting accesses                                          *)
(* ------------------------------------------------------------------------- *)
Lemma acquired_later : forall kinds s tr s', exec kinds s tr s' ->
  forall t2 m mb, In (m, mb) (snd s' t2) -> In (m, mb) (snd s t2) \/ exists q r, tr = q ++ (t2, Acq m mb) :: r.
Proof.
  induction 1 as [s | s t e s1 tr s2 Hstep Hex IH]; intros t2 m mb Hin; auto.
  destruct (IH _ _ _ Hin) as [Hl | [q [r ->]]].
  - inversion Hstep as [P H t0 m0 md0 r0 HP Hcan | P H t0 m0 r0 h' HP Hrem | P H t0 e0 r0 HP Hlk]; subst; simpl in *; auto.
    + destruct (Nat.eq_dec t2 t) as [->|N].
      * rewrite upd_same in Hl. destruct Hl as [Heq|Hl]; auto.
        inversion Heq; subst. right. exists [], tr. reflexivity.
      * rewrite upd_other in Hl by auto. auto.
    + destruct (Nat.eq_dec t2 t) as [->|N].
      * rewrite upd_same in Hl. left. eapply remove_first_In; eauto.
      * rewrite upd_other in Hl by auto. auto.
  - right. exists ((t, e) :: q), r. reflexivity.
Qed.

Lemma release_acquire_between : forall kinds s tr s', exec kinds s tr s' -> minv (snd s) ->
  forall t1 t2 m ma mb, t1 <> t2 -> In (m, ma) (snd s t1) -> In (m, mb) (snd s' t2) -> (ma = Ex \/ mb = Ex) ->
  exists p q r, tr = p ++ (t1, Rel m) :: q ++ (t2, Acq m mb) :: r.
Proof.
  induction 1 as [s | s t e s1 tr s2 Hstep Hex IH]; intros Hm t1 t2 m ma mb Hne H1 H2 Hx.
  - exfalso. destruct Hx as [->| ->].
    + eapply Hm; eauto.
    + eapply (Hm t2 t1); eauto.
  - assert (Hm1 : minv (snd s1)) by (eapply minv_step; eauto).
    assert (Hcont : In (m, ma) (snd s1 t1) -> exists p q r, (t, e) :: tr = p ++ (t1, Rel m) :: q ++ (t2, Acq m mb) :: r).
    { intros Hin. destruct (IH Hm1 _ _ _ _ _ Hne Hin H2 Hx) as [p [q [r ->]]]. exists ((t, e) :: p), q, r. reflexivity. }
    inversion Hstep as [P H t0 m0 md0 r0 HP Hcan | P H t0 m0 r0 h' HP Hrem | P H t0 e0 r0 HP Hlk]; subst; simpl in *.
    + apply Hcont. destruct (Nat.eq_dec t1 t) as [->|N]; [rewrite upd_same; right; auto | rewrite upd_other by auto; auto].
    + destruct (Nat.eq_dec t1 t) as [->|N].
      * destruct (Nat.eq_dec m0 m) as [->|Nm].
        -- (* this is a release of m by t1 *)
           destruct (acquired_later _ _ _ _ Hex _ _ _ H2) as [Hl | [q [r ->]]].
           ++ simpl in Hl. rewrite upd_other in Hl by auto. exfalso. destruct Hx as [->| ->].
              ** eapply Hm; eauto.
              ** eapply (Hm t2 t); eauto.
           ++ exists [], q, r. reflexivity.
        -- apply Hcont. rewrite upd_same. eapply remove_first_other; eauto.
      * apply Hcont. rewrite upd_other by auto. auto.
    + apply Hcont. auto.
Qed.

Lemma wr_held : forall pol h f r, gscan pol h (Wr f :: r) <> None -> pol f <> PExempt -> exists m, pol f = PGuard m /\ In (m, Ex) h.
Proof.
  intros pol h f r Hg Hne. simpl in Hg. unfold wr_ok in Hg. destruct (pol f) eqn:E; try congruence.
  exists m. split; auto. apply holds_ex_In. destruct (holds_ex h m); congruence.
Qed.

Lemma acc_held : forall pol h a f r m, accesses a f = true -> gscan pol h (a :: r) <> None -> pol f = PGuard m ->
  exists md, In (m, md) h /\ (is_write a = true -> md = Ex).
Proof.
  intros pol h a f r m Ha Hg Hp. destruct a; simpl in Ha; try discriminate; apply Nat.eqb_eq in Ha; subst f0; simpl in Hg.
  - unfold rd_ok in Hg. rewrite Hp in Hg. destruct (holds h m) eqn:E; try congruence.
    apply holds_In in E. destruct E as [md Hin]. exists md. split; auto. simpl. discriminate.
  - unfold wr_ok in Hg. rewrite Hp in Hg. destruct (holds_ex h m) eqn:E; try congruence.
    apply holds_ex_In in E. exists Ex. split; auto.
Qed.

Lemma access_step : forall kinds s t a s' f, lstep kinds s t a s' -> accesses a f = true ->
  snd s' = snd s /\ exists r, fst s t = a :: r.
Proof.
  intros kinds s t a s' f Hs Ha. inversion Hs as [P H t0 m0 md0 r0 HP Hcan | P H t0 m0 r0 h' HP Hrem | P H t0 e0 r0 HP Hlk]; subst; simpl in *; try discriminate. split; eauto.
Qed.

Theorem lockset_thm : forall kinds pol P0 tr s,
  (forall t, gscan pol [] (P0 t) <> None) ->
  exec kinds (P0, no_locks) tr s ->
  forall tr1 t1 a tr2 t2 b tr3 f,
    tr = tr1 ++ (t1, a) :: tr2 ++ (t2, b) :: tr3 -> t1 <> t2 ->
    accesses a f = true -> accesses b f = true -> (is_write a = true \/ is_write b = true) ->
    pol f <> PExempt ->
    exists m, pol f = PGuard m /\ exists p q r md, tr2 = p ++ (t1, Rel m) :: q ++ (t2, Acq m md) :: r.
Proof.
  intros kinds pol P0 tr s Hg0 Hex tr1 t1 a tr2 t2 b tr3 f -> Hne Ha Hb Hw Hpol.
  apply exec_app_inv in Hex. destruct Hex as [sA [HexA Hex]].
  inversion Hex as [|? ? ? sB ? ? HstepA Hex2]; subst.
  apply exec_app_inv in Hex2. destruct Hex2 as [sC [HexB Hex3]].
  inversion Hex3 as [|? ? ? sD ? ? HstepB Hex4]; subst.
  assert (GA : ginv pol sA) by (eapply ginv_exec; eauto; intro t; simpl; apply Hg0).
  assert (MA : minv (snd sA)) by (eapply minv_exec in HexA; eauto; apply minv_init).
  assert (GB : ginv pol sB) by (eapply ginv_step; eauto).
  assert (GC : ginv pol sC) by (eapply ginv_exec; eauto).
  destruct (access_step _ _ _ _ _ _ HstepA Ha) as [HAB [ra HPa]].
  destruct (access_step _ _ _ _ _ _ HstepB Hb) as [_ [rb HPb]].
  pose proof (GA t1) as G1. rewrite HPa in G1.
  pose proof (GC t2) as G2. rewrite HPb in G2.
  assert (Hm : exists m, pol f = PGuard m).
  { destruct Hw as [W|W]; [destruct a | destruct b]; simpl in W; try discriminate;
      simpl in Ha, Hb; [apply Nat.eqb_eq in Ha | apply Nat.eqb_eq in Hb]; subst f0;
      [destruct (wr_held _ _ _ _ G1 Hpol) as [m [E _]] | destruct (wr_held _ _ _ _ G2 Hpol) as [m [E _]]]; eauto. }
  destruct Hm as [m Hm]. exists m. split; auto.
  destruct (acc_held _ _ _ _ _ _ Ha G1 Hm) as [ma [Hina Hwa]].
  destruct (acc_held _ _ _ _ _ _ Hb G2 Hm) as [mb [Hinb Hwb]].
  assert (MB : minv (snd sB)) by (rewrite HAB; auto).
  rewrite <- HAB in Hina.
  assert (Hx : ma = Ex \/ mb = Ex) by (destruct Hw; [left | right]; auto).
  destruct (release_acquire_between _ _ _ _ HexB MB _ _ _ _ _ Hne Hina Hinb Hx) as [p [q [r E]]].
  exists p, q, r, mb. exact E.
Qed.

(* an exclusive section is not interrupted by any access that its mutex guards: this is what makes one
   registration one atomic step of the section-level model *)
Lemma still_held : forall kinds s tr s', exec kinds s tr s' ->
  forall t m md, In (m, md) (snd s t) -> ~ In (t, Rel m) tr -> In (m, md) (snd s' t).
Proof.
  induction 1 as [s | s t e s1 tr s2 Hstep Hex IH]; intros t0 m md Hin Hno; auto.
  apply IH.
  - inversion Hstep as [P H t9 m0 md0 r0 HP Hcan | P H t9 m0 r0 h' HP Hrem | P H t9 e0 r0 HP Hlk]; subst; simpl in *; auto.
    + destruct (Nat.eq_dec t0 t) as [->|N]; [rewrite upd_same; right; auto | rewrite upd_other by auto; auto].
    + destruct (Nat.eq_dec t0 t) as [->|N].
      * rewrite upd_same. eapply remove_first_other; eauto. intro; subst. apply Hno. left. reflexivity.
      * rewrite upd_other by auto. auto.
  - intro Hc. apply Hno. right. auto.
Qed.

Theorem section_exclusive_thm : forall kinds pol s tr s',
  exec kinds s tr s' -> minv (snd s) -> ginv pol s ->
  forall t1 m, In (m, Ex) (snd s t1) -> ~ In (t1, Rel m) tr ->
  forall t2 b f, In (t2, b) tr -> t2 <> t1 -> accesses b f = true -> pol f = PGuard m -> False.
Proof.
  intros kinds pol s tr s' Hex Hm Hg t1 m Hheld Hno t2 b f Hin Hne Hb Hp.
  apply in_split in Hin. destruct Hin as [tr1 [tr3 ->]].
  apply exec_app_inv in Hex. destruct Hex as [sC [HexA Hex]].
  inversion Hex as [|? ? ? sD ? ? HstepB Hex4]; subst.
  assert (GC : ginv pol sC) by (eapply ginv_exec; eauto).
  assert (MC : minv (snd sC)) by (eapply minv_exec; eauto).
  destruct (access_step _ _ _ _ _ _ HstepB Hb) as [_ [rb HPb]].
  pose proof (GC t2) as G2. rewrite HPb in G2.
  destruct (acc_held _ _ _ _ _ _ Hb G2 Hp) as [mb [Hinb _]].
  assert (In (m, Ex) (snd sC t1)).
  { eapply still_held; eauto. intro Hc. apply Hno. apply in_or_app. left. auto. }
  eapply (MC t1 t2); eauto.
Qed.

(* ------------------------------------------------------------------------- *)
(* use(): check - evaluate - insert under the recursive use mutex            *)
(* ------------------------------------------------------------------------- *)
Lemma memn_In : forall x l, memn x l = true <-> In x l.
Proof.
  unfold memn. intros. rewrite existsb_exists. split.
  - intros [y [Hin He]]. apply Nat.eqb_eq in He. subst. auto.
  - intros Hin. exists x. split; auto. apply Nat.eqb_refl.
Qed.

Lemma bump_eq : forall c a f, bump c a f = if f =? a then S (c a) else c f.
Proof. intros. unfold bump, upd. reflexivity. Qed.

Definition pend (o : option nat) (d : ustate) (f : nat) : nat :=
  match o with
  | Some t => if (u_phase d t =? 2) && negb (u_seen d t) && (u_arg d t =? f) then 1 else 0
  | None => 0
  end.

Record uinv (ids : use_ids) (P : nat -> list ev) (H : nat -> held) (d : ustate) : Prop := MkUinv {
  W1 : forall t, wscan ids (H t) (u_phase d t) (P t) <> None;
  W2 : forall t, u_phase d t <> 0 -> In (ui_mutex ids, Ex) (H t);
  W3 : forall f, u_finished d f = if memn f (u_used d) then 1 else 0;
  W4 : forall t, u_phase d t <> 0 -> u_seen d t = memn (u_arg d t) (u_used d);
  W5 : exists o, (forall t, u_phase d t <> 0 -> o = Some t) /\
                 forall f, u_started d f = u_finished d f + u_thrown d f + pend o d f;
  W6 : forall t f, In (t, f) (u_returned d) -> In f (u_used d)
}.

Lemma lstep_shape : forall kinds P H t e P' H', lstep kinds (P, H) t e (P', H') ->
  exists r, P t = e :: r /\ P' = upd P t r /\ (forall t', t' <> t -> H' t' = H t') /\
    match e with
    | Acq m md => H' t = (m, md) :: H t
    | Rel m => exists h', remove_first m (H t) = Some h' /\ H' t = h'
    | _ => H' t = H t
    end.
Proof.
  intros kinds P H t e P' H' Hs.
  inversion Hs as [P0 H0 t0 m0 md0 r0 HP Hcan | P0 H0 t0 m0 r0 h' HP Hrem | P0 H0 t0 e0 r0 HP Hlk]; subst.
  - exists r0. repeat split; auto. intros; apply upd_other; auto. apply upd_same.
  - exists r0. repeat split; auto. intros; apply upd_other; auto. exists h'. split; auto. apply upd_same.
  - exists r0. repeat split; auto. destruct e; simpl in Hlk; try discriminate; auto.
Qed.

Ltac other_thread t' t N := destruct (Nat.eq_dec t' t) as [->|N].

Lemma uinv_step : forall kinds ids s t e s' d,
  lstep kinds s t e s' -> minv (snd s) -> uinv ids (fst s) (snd s) d -> uinv ids (fst s') (snd s') (ustep ids t e d).
Proof.
  intros kinds ids [P H] t e [P' H'] d Hs Hm Hu. simpl in *.
  destruct (lstep_shape _ _ _ _ _ _ _ Hs) as [r [HP [-> [Hoth Hself]]]].
  destruct Hu as [W1 W2 W3 W4 W5 W6].
  pose proof (W1 t) as Wt. rewrite HP in Wt.
  assert (Huniq : forall t', u_phase d t' <> 0 -> In (ui_mutex ids, Ex) (H t) -> t' <> t -> False).
  { intros t' Hph Hin Hne. eapply (Hm t t'); eauto. }
  destruct d as [used started finished thrown returned phase seen arg]. simpl in *.
  destruct e; simpl in Wt |- *.
  - (* Acq *)
    constructor; simpl; auto.
    + intro t'. other_thread t' t N.
      * rewrite upd_same, Hself. destruct (negb (phase t =? 0) && (m =? ui_mutex ids)); auto.
      * rewrite upd_other, Hoth by auto. apply W1.
    + intros t' Hph. other_thread t' t N.
      * rewrite Hself. right. auto.
      * rewrite Hoth by auto. auto.
  - (* Rel *)
    destruct Hself as [h' [Hrem Hself]].
    constructor; simpl; auto.
    + intro t'. other_thread t' t N.
      * rewrite upd_same, Hself. destruct (negb (phase t =? 0) && (m =? ui_mutex ids)); try congruence. rewrite Hrem in Wt. auto.
      * rewrite upd_other, Hoth by auto. apply W1.
    + intros t' Hph. other_thread t' t N.
      * rewrite Hself. destruct (phase t =? 0) eqn:E0; [apply Nat.eqb_eq in E0; congruence|].
        simpl in Wt. destruct (Nat.eqb_spec m (ui_mutex ids)); try congruence.
        eapply remove_first_other; eauto.
      * rewrite Hoth by auto. auto.
  - (* Rd *)
    destruct (f =? ui_field ids) eqn:Ef; simpl.
    + destruct (phase t =? 0) eqn:E0; simpl in Wt; try congruence.
      destruct (holds_ex (H t) (ui_mutex ids)) eqn:Eh; try congruence.
      apply Nat.eqb_eq in E0. apply holds_ex_In in Eh.
      constructor; simpl; auto.
      * intro t'. other_thread t' t N.
        -- rewrite !upd_same, Hself. auto.
        -- rewrite !upd_other, Hoth by auto. apply W1.
      * intros t' Hph. other_thread t' t N.
        -- rewrite Hself. auto.
        -- rewrite upd_other in Hph by auto. rewrite Hoth by auto. auto.
      * intros t' Hph. other_thread t' t N.
        -- rewrite upd_same. reflexivity.
        -- rewrite upd_other in * by auto. auto.
      * destruct W5 as [o [Ho Hsum]]. exists (Some t). split.
        -- intros t' Hph. other_thread t' t N; auto. rewrite upd_other in Hph by auto. exfalso. eapply Huniq; eauto.
        -- intro f0. rewrite Hsum. f_equal. unfold pend. simpl. rewrite upd_same. simpl.
           destruct o as [t0|]; auto.
           destruct (phase t0 =? 2) eqn:E2; auto. apply Nat.eqb_eq in E2.
           exfalso. assert (t0 <> t) by (intro; subst; lia). eapply (Huniq t0); eauto. lia.
    + constructor; simpl; auto.
      intro t'. other_thread t' t N; [rewrite upd_same, Hself; auto | rewrite upd_other, Hoth by auto; apply W1].
      intros t' Hph. other_thread t' t N; [rewrite Hself | rewrite Hoth by auto]; auto.
  - (* Wr *)
    destruct (f =? ui_field ids) eqn:Ef; simpl.
    + destruct (phase t =? 2) eqn:E2; simpl in Wt; try congruence.
      apply Nat.eqb_eq in E2.
      assert (Hph2 : phase t <> 0) by lia.
      pose proof (W2 t Hph2) as Hheld. pose proof (W4 t Hph2) as Hseen.
      destruct W5 as [o [Ho Hsum]]. pose proof (Ho t Hph2) as ->.
      destruct (seen t) eqn:Es.
      * constructor; simpl; auto.
        -- intro t'. other_thread t' t N; [rewrite !upd_same, Hself; auto | rewrite !upd_other, Hoth by auto; apply W1].
        -- intros t' Hph. other_thread t' t N; [rewrite upd_same in Hph; congruence | rewrite upd_other in Hph by auto; rewrite Hoth by auto; auto].
        -- intros t' Hph. other_thread t' t N; [rewrite upd_same in Hph; congruence | rewrite upd_other in Hph by auto; auto].
        -- exists (Some t). split.
           ++ intros t' Hph. other_thread t' t N; auto. rewrite upd_other in Hph by auto. auto.
           ++ intro f0. rewrite Hsum. f_equal. unfold pend. simpl. rewrite upd_same, Es. simpl. rewrite andb_false_r. reflexivity.
        -- intros t' f0 [Heq|Hin]; eauto. inversion Heq; subst. apply memn_In. symmetry. auto.
      * constructor; simpl; auto.
        -- intro t'. other_thread t' t N; [rewrite !upd_same, Hself; auto | rewrite !upd_other, Hoth by auto; apply W1].
        -- intros t' Hph. other_thread t' t N; [rewrite upd_same in Hph; congruence | rewrite upd_other in Hph by auto; rewrite Hoth by auto; auto].
        -- intro f0. rewrite bump_eq. unfold memn in *. simpl. rewrite (Nat.eqb_sym f0 (arg t)).
           destruct (Nat.eqb_spec (arg t) f0) as [Ea|Nf]; simpl.
           ++ subst f0. rewrite W3, <- Hseen. reflexivity.
           ++ apply W3.
        -- intros t' Hph. other_thread t' t N; [rewrite upd_same in Hph; congruence|].
           rewrite upd_other in Hph by auto. exfalso. eapply Huniq; eauto.
        -- exists (Some t). split.
           ++ intros t' Hph. other_thread t' t N; auto. rewrite upd_other in Hph by auto. auto.
           ++ intro f0. rewrite Hsum. unfold pend. simpl. rewrite upd_same, E2, Es. simpl. rewrite bump_eq.
              rewrite (Nat.eqb_sym f0 (arg t)). destruct (arg t =? f0) eqn:Ea; simpl; try lia.
              apply Nat.eqb_eq in Ea. subst f0. lia.
        -- intros t' f0 [Heq|Hin]; [inversion Heq; subst; left; auto | right; eauto].
    + constructor; simpl; auto.
      intro t'. other_thread t' t N; [rewrite upd_same, Hself; auto | rewrite upd_other, Hoth by auto; apply W1].
      intros t' Hph. other_thread t' t N; [rewrite Hself | rewrite Hoth by auto]; auto.
  - (* Call *)
    destruct (String.eqb c (ui_call ids)) eqn:Ec; simpl.
    + destruct (phase t) as [|[|n]] eqn:Eph; simpl; try congruence.
      * constructor; simpl; auto.
        intro t'. other_thread t' t N; [rewrite upd_same, Hself, Eph; auto | rewrite upd_other, Hoth by auto; apply W1].
        intros t' Hph. other_thread t' t N; [rewrite Hself | rewrite Hoth by auto]; auto.
      * assert (Hph1 : phase t <> 0) by lia.
        destruct W5 as [o [Ho Hsum]]. pose proof (Ho t Hph1) as ->.
        constructor; simpl; auto.
        -- intro t'. other_thread t' t N; [rewrite !upd_same, Hself; auto | rewrite !upd_other, Hoth by auto; apply W1].
        -- intros t' Hph. other_thread t' t N; [rewrite Hself; apply W2; lia | rewrite upd_other in Hph by auto; rewrite Hoth by auto; auto].
        -- intros t' Hph. other_thread t' t N; [apply W4; lia | rewrite upd_other in Hph by auto; auto].
        -- exists (Some t). split.
           ++ intros t' Hph. other_thread t' t N; auto. rewrite upd_other in Hph by auto. auto.
           ++ intro f0. unfold pend in *. simpl in *. rewrite upd_same. specialize (Hsum f0). rewrite Eph in Hsum. simpl in Hsum.
              destruct (seen t); simpl; try lia. rewrite bump_eq. rewrite (Nat.eqb_sym f0 (arg t)).
              destruct (arg t =? f0) eqn:Ea; simpl; try lia. apply Nat.eqb_eq in Ea. subst f0. lia.
    + constructor; simpl; auto.
      intro t'. other_thread t' t N; [rewrite upd_same, Hself; auto | rewrite upd_other, Hoth by auto; apply W1].
      intros t' Hph. other_thread t' t N; [rewrite Hself | rewrite Hoth by auto]; auto.
  - (* Arg *)
    destruct (phase t =? 0) eqn:E0; try congruence. apply Nat.eqb_eq in E0.
    constructor; simpl; auto.
    + intro t'. other_thread t' t N; [rewrite upd_same, Hself; auto | rewrite upd_other, Hoth by auto; apply W1].
    + intros t' Hph. other_thread t' t N; [rewrite Hself | rewrite Hoth by auto]; auto.
    + intros t' Hph. other_thread t' t N; [congruence | rewrite upd_other by auto; auto].
    + destruct W5 as [o [Ho Hsum]]. exists o. split; auto. intro f0. rewrite Hsum. f_equal.
      unfold pend. simpl. destruct o as [t0|]; auto. other_thread t0 t N.
      * rewrite E0. reflexivity.
      * rewrite upd_other by auto. reflexivity.
  - (* Unwind *)
    destruct (phase t =? 0) eqn:E0.
    + apply Nat.eqb_eq in E0. constructor; simpl; auto.
      intro t'. other_thread t' t N; [rewrite upd_same, Hself, E0; auto | rewrite upd_other, Hoth by auto; apply W1].
      intros t' Hph. other_thread t' t N; [rewrite Hself | rewrite Hoth by auto]; auto.
    + apply Nat.eqb_neq in E0.
      destruct W5 as [o [Ho Hsum]]. pose proof (Ho t E0) as ->.
      constructor; simpl; auto.
      * intro t'. other_thread t' t N; [rewrite !upd_same, Hself; auto | rewrite !upd_other, Hoth by auto; apply W1].
      * intros t' Hph. other_thread t' t N; [rewrite upd_same in Hph; congruence | rewrite upd_other in Hph by auto; rewrite Hoth by auto; auto].
      * intros t' Hph. other_thread t' t N; [rewrite upd_same in Hph; congruence | rewrite upd_other in Hph by auto; auto].
      * exists (Some t). split.
        -- intros t' Hph. other_thread t' t N; auto. rewrite upd_other in Hph by auto. auto.
        -- intro f0. unfold pend in *. simpl in *. rewrite upd_same. simpl. specialize (Hsum f0).
           destruct (phase t =? 2); destruct (seen t); simpl in *; try lia.
           rewrite bump_eq. rewrite (Nat.eqb_sym f0 (arg t)). destruct (arg t =? f0) eqn:Ea; simpl; try lia.
           apply Nat.eqb_eq in Ea. subst f0. lia.
  - (* Bad *) congruence.
Qed.

Lemma urun_cons : forall ids t e tr d, urun ids ((t, e) :: tr) d = urun ids tr (ustep ids t e d).
Proof. reflexivity. Qed.

Lemma uinv_exec : forall kinds ids s tr s', exec kinds s tr s' -> forall d,
  minv (snd s) -> uinv ids (fst s) (snd s) d -> uinv ids (fst s') (snd s') (urun ids tr d).
Proof.
  induction 1 as [s | s t e s1 tr s2 Hstep Hex IH]; intros d Hm Hu; auto.
  rewrite urun_cons. apply IH.
  - eapply minv_step; eauto.
  - eapply uinv_step; eauto.
Qed.

Lemma uinv_init : forall ids P0, (forall t, wscan ids [] 0 (P0 t) <> None) -> uinv ids P0 no_locks u0.
Proof.
  intros ids P0 H0. constructor; simpl; auto; try congruence; try tauto.
  exists None. split; [congruence | reflexivity].
Qed.

Theorem use_once_thm : forall kinds ids P0 tr s,
  (forall t, wscan ids [] 0 (P0 t) <> None) ->
  exec kinds (P0, no_locks) tr s ->
  let d := urun ids tr u0 in
  forall f,
    u_finished d f <= 1 /\
    u_started d f <= 1 + u_thrown d f /\
    (forall t, In (t, f) (u_returned d) -> In f (u_used d) /\ u_finished d f = 1 /\ (u_thrown d f = 0 -> u_started d f = 1)).
Proof.
  intros kinds ids P0 tr s H0 Hex d f.
  assert (Hu : uinv ids (fst s) (snd s) d).
  { eapply (uinv_exec _ _ _ _ _ Hex u0); simpl; [apply minv_init | apply uinv_init; auto]. }
  destruct Hu as [W1 W2 W3 W4 [o [Ho Hsum]] W6].
  assert (Hf : u_finished d f <= 1) by (rewrite W3; destruct (memn f (u_used d)); lia).
  assert (Hp : pend o d f <= 1) by (unfold pend; destruct o; [destruct (_ && _ && _)|]; lia).
  split; auto. split.
  - rewrite Hsum.
    (* a pending evaluation of f means f is not yet in the used set, hence not finished *)
    unfold pend in *. destruct o as [t0|]; try lia.
    destruct (u_phase d t0 =? 2) eqn:E2; simpl; try lia.
    destruct (u_seen d t0) eqn:Es; simpl; try lia.
    destruct (u_arg d t0 =? f) eqn:Ea; simpl; try lia.
    apply Nat.eqb_eq in E2. apply Nat.eqb_eq in Ea. subst f.
    assert (Hph : u_phase d t0 <> 0) by lia. rewrite (W4 t0 Hph) in Es. rewrite W3, Es. lia.
  - intros t Hret. pose proof (W6 _ _ Hret) as Hin. apply memn_In in Hin.
    split; [apply memn_In; auto|]. split; [rewrite W3, Hin; reflexivity|].
    intro Hth. rewrite Hsum, W3, Hin, Hth.
    unfold pend. destruct o as [t0|]; auto.
    destruct (u_phase d t0 =? 2) eqn:E2; simpl; auto.
    destruct (u_seen d t0) eqn:Es; simpl; auto.
    destruct (u_arg d t0 =? f) eqn:Ea; simpl; auto.
    apply Nat.eqb_eq in E2. apply Nat.eqb_eq in Ea. subst f.
    assert (Hph : u_phase d t0 <> 0) by lia. rewrite (W4 t0 Hph) in Es. congruence.
Qed.

Lemma wscan_app : forall ids p1 p2 h ph,
  wscan ids h ph (p1 ++ p2) = match wscan ids h ph p1 with Some (h', ph') => wscan ids h' ph' p2 | None => None end.
Proof.
  induction p1 as [|e r IH]; simpl; intros p2 h ph; auto.
  destruct e; auto.
  - destruct (negb (ph =? 0) && (m =? ui_mutex ids)); auto.
  - destruct (negb (ph =? 0) && (m =? ui_mutex ids)); auto. destruct (remove_first m h); auto.
  - destruct (f =? ui_field ids); auto. destruct ((ph =? 0) && holds_ex h (ui_mutex ids)); auto.
  - destruct (f =? ui_field ids); auto. destruct (ph =? 2); auto.
  - destruct (String.eqb c (ui_call ids)); auto. destruct ph as [|[|n]]; auto.
  - destruct (ph =? 0); auto.
Qed.

Lemma use_ok_scan : forall ids p, use_ok ids p = true -> wscan ids [] 0 p = Some ([], 0).
Proof.
  unfold use_ok. intros ids p. destruct (wscan ids [] 0 p) as [[[|x l] [|n]]|]; intros; try reflexivity; discriminate.
Qed.

Lemma use_concat_ok : forall ids calls, Forall (fun c => use_ok ids c = true) calls -> wscan ids [] 0 (List.concat calls) = Some ([], 0).
Proof.
  induction 1; simpl; auto. rewrite wscan_app. rewrite (use_ok_scan _ _ H). auto.
Qed.

(* ------------------------------------------------------------------------- *)
(* section level: registrations are retained under every interleaving        *)
(* ------------------------------------------------------------------------- *)
Lemma lookup_None_notin : forall A k (l : list (string * A)), lookup k l = None <-> ~ In k (map fst l).
Proof.
  induction l as [|[k' v] r IH]; simpl.
  - split; auto.
  - destruct (String.eqb_spec k' k).
    + split; [discriminate | intro Hn; exfalso; apply Hn; left; auto].
    + rewrite IH. split; [intros Hn [Hc|Hc]; auto | intros Hn Hc; apply Hn; right; auto].
Qed.

Lemma lookup_app_none : forall A k v (l : list (string * A)), lookup k l = None -> lookup k (l ++ [(k, v)]) = Some v.
Proof.
  induction l as [|[k' v'] r IH]; simpl; intros Hn.
  - rewrite String.eqb_refl. reflexivity.
  - destruct (String.eqb k' k); [discriminate | auto].
Qed.

Lemma lookup_app_some : forall A k v (l x : list (string * A)), lookup k l = Some v -> lookup k (l ++ x) = Some v.
Proof.
  induction l as [|[k' v'] r IH]; simpl; intros x Hs; [discriminate|].
  destruct (String.eqb k' k); auto.
Qed.

Lemma lookup_app_other : forall A k k' v (l : list (string * A)), k <> k' -> lookup k (l ++ [(k', v)]) = lookup k l.
Proof.
  induction l as [|[k2 v2] r IH]; simpl; intros Hne.
  - destruct (String.eqb_spec k' k); congruence.
  - destruct (String.eqb k2 k); auto.
Qed.

Lemma lookup_replace_same : forall A k v v0 (l : list (string * A)), lookup k l = Some v0 -> lookup k (replace k v l) = Some v.
Proof.
  induction l as [|[k' v'] r IH]; simpl; intros Hs; [discriminate|].
  destruct (String.eqb k' k) eqn:E; simpl; rewrite E; auto.
Qed.

Lemma lookup_replace_other : forall A k k' v (l : list (string * A)), k <> k' -> lookup k (replace k' v l) = lookup k l.
Proof.
  induction l as [|[k2 v2] r IH]; simpl; intros Hne; auto.
  destruct (String.eqb_spec k2 k') as [->|N2]; simpl.
  - destruct (String.eqb_spec k' k); congruence.
  - destruct (String.eqb k2 k); auto.
Qed.

Lemma conv_mem_In : forall c l, conv_mem c l = true <-> In c l.
Proof.
  unfold conv_mem. intros [a b] l. rewrite existsb_exists. simpl. split.
  - intros [[a' b'] [Hin He]]. simpl in He. apply andb_true_iff in He. destruct He as [H1 H2].
    apply Nat.eqb_eq in H1. apply Nat.eqb_eq in H2. subst. auto.
  - intros Hin. exists (a, b). simpl. rewrite !Nat.eqb_refl. auto.
Qed.

Definition fitems (l : list (string * list nat)) : list (string * nat) := flat_map (fun nv => map (pair (fst nv)) (snd nv)) l.

Lemma fitems_lookup_in : forall n vec id l, lookup n l = Some vec -> In id vec -> In (n, id) (fitems l).
Proof.
  induction l as [|[k v] r IH]; simpl; intros Hl Hin; [discriminate|].
  apply in_or_app. destruct (String.eqb_spec k n) as [->|N].
  - inversion Hl; subst. left. apply in_map. auto.
  - right. auto.
Qed.

Lemma fitems_replace : forall n vec id l, lookup n l = Some vec ->
  Permutation (fitems (replace n (vec ++ [id]) l)) (fitems l ++ [(n, id)]).
Proof.
  induction l as [|[k v] r IH]; simpl; intros Hl; [discriminate|].
  destruct (String.eqb_spec k n) as [->|N].
  - inversion Hl; subst. simpl. rewrite map_app. simpl. rewrite <- !app_assoc.
    apply Permutation_app_head. apply Permutation_app_comm.
  - simpl. rewrite <- app_assoc. apply Permutation_app_head. auto.
Qed.

Lemma fitems_app : forall a b, fitems (a ++ b) = fitems a ++ fitems b.
Proof. intros. unfold fitems. apply flat_map_app. Qed.

Lemma NoDup_app_notin : forall A (a : list A) x b, NoDup (a ++ x :: b) -> ~ In x a.
Proof. intros A a x b Hn Hin. apply NoDup_remove_2 in Hn. apply Hn. apply in_or_app. left. auto. Qed.

Record step_facts (o : op) (e e1 : engine) (r : res) : Prop := MkSF {
  SF_res : r <> RConflict;
  SF_funs : Permutation (fun_items e1) (fun_items e ++ reg_funs o);
  SF_globals : global_items e1 = global_items e ++ reg_globals o;
  SF_types : type_items e1 = type_items e ++ reg_types o;
  SF_convs : conv_items e1 = conv_items e ++ reg_convs o
}.

Lemma apply_fresh : forall o e s, monotone_op o = true -> fresh_regs e (o :: s) ->
  step_facts o e (fst (apply_op o e)) (snd (apply_op o e)).
Proof.
  intros o e s Hmono [Ff [Fg [Ft Fc]]].
  destruct e as [[funs globals types used] convs evals snap].
  unfold fun_items, global_items, type_items, conv_items in *. simpl in *.
  fold (fitems funs) in *.
  destruct o; simpl in *; try discriminate;
    try (constructor; simpl; rewrite ?app_nil_r; auto; discriminate).
  - (* AddFun *)
    apply NoDup_app_notin in Ff.
    destruct (lookup name funs) as [vec|] eqn:El.
    + destruct (memn fid vec) eqn:Em.
      * exfalso. apply Ff. apply memn_In in Em. eapply fitems_lookup_in; eauto.
      * constructor; simpl; rewrite ?app_nil_r; auto; try discriminate.
        unfold fun_items. simpl. fold (fitems (replace name (vec ++ [fid]) funs)). fold (fitems funs). apply fitems_replace. auto.
    + constructor; simpl; rewrite ?app_nil_r; auto; try discriminate.
      unfold fun_items. simpl. fold (fitems (funs ++ [(name, [fid])])). fold (fitems funs). rewrite fitems_app. simpl. apply Permutation_refl.
  - (* AddGlobal *)
    apply NoDup_app_notin in Fg. apply lookup_None_notin in Fg. rewrite Fg.
    constructor; simpl; rewrite ?app_nil_r; auto; discriminate.
  - (* AddGlobalConst *)
    apply NoDup_app_notin in Fg. apply lookup_None_notin in Fg. rewrite Fg.
    constructor; simpl; rewrite ?app_nil_r; auto; discriminate.
  - (* AddTypeEntry *)
    apply NoDup_app_notin in Ft. apply lookup_None_notin in Ft. rewrite Ft.
    constructor; simpl; rewrite ?app_nil_r; auto; discriminate.
  - (* AddConv *)
    apply NoDup_app_notin in Fc. destruct (conv_mem (from, to) convs) eqn:Ec.
    + exfalso. apply Fc. apply conv_mem_In. auto.
    + constructor; simpl; rewrite ?app_nil_r; auto; discriminate.
  - (* UseFile *)
    destruct (memn f used); constructor; simpl; rewrite ?app_nil_r; auto; discriminate.
Qed.

Lemma fresh_next : forall o e s, fresh_regs e (o :: s) ->
  step_facts o e (fst (apply_op o e)) (snd (apply_op o e)) -> fresh_regs (fst (apply_op o e)) s.
Proof.
  intros o e s [Ff [Fg [Ft Fc]]] [_ Sf Sg St Sc]. simpl in *.
  repeat split.
  - eapply Permutation_NoDup; [|exact Ff]. rewrite app_assoc. apply Permutation_app_tail. apply Permutation_sym. auto.
  - rewrite Sg, map_app, <- app_assoc, <- map_app. auto.
  - rewrite St, map_app, <- app_assoc, <- map_app. auto.
  - rewrite Sc, <- app_assoc. auto.
Qed.

Lemma run_retained : forall s e, forallb monotone_op s = true -> fresh_regs e s ->
  Permutation (fun_items (run_ops s e)) (fun_items e ++ flat_map reg_funs s) /\
  global_items (run_ops s e) = global_items e ++ flat_map reg_globals s /\
  type_items (run_ops s e) = type_items e ++ flat_map reg_types s /\
  conv_items (run_ops s e) = conv_items e ++ flat_map reg_convs s /\
  Forall (fun r => r <> RConflict) (run_log s e).
Proof.
  induction s as [|o s IH]; intros e Hm Hf; simpl.
  - rewrite !app_nil_r. repeat split; auto.
  - simpl in Hm. apply andb_true_iff in Hm. destruct Hm as [Hmo Hms].
    pose proof (apply_fresh o e s Hmo Hf) as SF.
    pose proof (fresh_next o e s Hf SF) as Hf1.
    destruct (IH _ Hms Hf1) as [If [Ig [It [Ic Il]]]].
    destruct SF as [Sr Sf Sg St Sc].
    repeat split.
    + eapply Permutation_trans; [exact If|]. rewrite app_assoc. apply Permutation_app_tail. auto.
    + rewrite Ig, Sg, <- app_assoc. reflexivity.
    + rewrite It, St, <- app_assoc. reflexivity.
    + rewrite Ic, Sc, <- app_assoc. reflexivity.
    + constructor; auto.
Qed.

Lemma all_nil_concat : forall (ts : list (list op)), Forall (fun t => t = []) ts -> List.concat ts = [].
Proof. induction 1; simpl; auto. subst. auto. Qed.

Lemma interleave_perm : forall ts s, Interleave ts s -> Permutation s (List.concat ts).
Proof.
  induction 1 as [ts Hall | ts1 o r ts2 s Hi IH].
  - rewrite all_nil_concat; auto.
  - rewrite concat_app in *. simpl in *. apply Permutation_cons_app. auto.
Qed.

Lemma forallb_perm : forall A (f : A -> bool) l l', Permutation l l' -> forallb f l' = true -> forallb f l = true.
Proof.
  intros A f l l' Hp Hf. rewrite forallb_forall in *. intros x Hin. apply Hf. eapply Permutation_in; eauto.
Qed.

Lemma fresh_perm : forall e s s', Permutation s s' -> fresh_regs e s' -> fresh_regs e s.
Proof.
  intros e s s' Hp [Ff [Fg [Ft Fc]]]. repeat split.
  - eapply Permutation_NoDup; [|exact Ff]. apply Permutation_app_head. apply Permutation_flat_map. apply Permutation_sym. auto.
  - eapply Permutation_NoDup; [|exact Fg]. apply Permutation_app_head. apply Permutation_map. apply Permutation_flat_map. apply Permutation_sym. auto.
  - eapply Permutation_NoDup; [|exact Ft]. apply Permutation_app_head. apply Permutation_map. apply Permutation_flat_map. apply Permutation_sym. auto.
  - eapply Permutation_NoDup; [|exact Fc]. apply Permutation_app_head. apply Permutation_flat_map. apply Permutation_sym. auto.
Qed.

Theorem retained_thm : forall ts s e0,
  Interleave ts s ->
  forallb monotone_op (List.concat ts) = true ->
  fresh_regs e0 (List.concat ts) ->
  let e := run_ops s e0 in
  Permutation (fun_items e) (fun_items e0 ++ flat_map reg_funs (List.concat ts)) /\
  Permutation (global_items e) (global_items e0 ++ flat_map reg_globals (List.concat ts)) /\
  Permutation (type_items e) (type_items e0 ++ flat_map reg_types (List.concat ts)) /\
  Permutation (conv_items e) (conv_items e0 ++ flat_map reg_convs (List.concat ts)) /\
  NoDup (fun_items e) /\ NoDup (map fst (global_items e)) /\ NoDup (map fst (type_items e)) /\ NoDup (conv_items e) /\
  Forall (fun r => r <> RConflict) (run_log s e0).
Proof.
  intros ts s e0 Hi Hm Hf e.
  pose proof (interleave_perm _ _ Hi) as Hp.
  pose proof (forallb_perm _ _ _ _ Hp Hm) as Hms.
  pose proof (fresh_perm _ _ _ Hp Hf) as Hfs.
  destruct (run_retained s e0 Hms Hfs) as [Rf [Rg [Rt [Rc Rl]]]]. fold e in Rf, Rg, Rt, Rc.
  destruct Hfs as [Ff [Fg [Ft Fc]]].
  assert (Pf : Permutation (fun_items e) (fun_items e0 ++ flat_map reg_funs (List.concat ts))).
  { eapply Permutation_trans; [exact Rf|]. apply Permutation_app_head. apply Permutation_flat_map. auto. }
  repeat split; auto.
  - rewrite Rg. apply Permutation_app_head. apply Permutation_flat_map. auto.
  - rewrite Rt. apply Permutation_app_head. apply Permutation_flat_map. auto.
  - rewrite Rc. apply Permutation_app_head. apply Permutation_flat_map. auto.
  - eapply Permutation_NoDup; [apply Permutation_sym; exact Rf | exact Ff].
  - rewrite Rg, map_app. auto.
  - rewrite Rt, map_app. auto.
  - rewrite Rc. auto.
Qed.

(* ------------------------------------------------------------------------- *)
(* section level: a registration that has returned is seen by later lookups  *)
(* ------------------------------------------------------------------------- *)
Lemma observes_established : forall o e, snd (apply_op o e) = ROk -> observes o (fst (apply_op o e)).
Proof.
  intros o [[funs globals types used] convs evals snap]. destruct o; simpl; auto.
  - destruct (lookup name funs) as [vec|] eqn:El.
    + destruct (memn fid vec); simpl; try discriminate. intros _.
      exists (vec ++ [fid]). split; [eapply lookup_replace_same; eauto | apply in_or_app; right; left; auto].
    + intros _. simpl. exists [fid]. split; [apply lookup_app_none; auto | left; auto].
  - destruct (lookup name globals) eqn:El; simpl; try discriminate. intros _. apply lookup_app_none. auto.
  - destruct (lookup name globals) eqn:El; simpl; try discriminate. intros _. apply lookup_app_none. auto.
  - destruct (lookup name types) eqn:El; simpl; intros _; eauto. exists k. apply lookup_app_none. auto.
  - destruct (conv_mem (from, to) convs) eqn:Ec; simpl; try discriminate. intros _.
    apply conv_mem_In. apply in_or_app. right. left. auto.
Qed.

Lemma observes_preserved : forall o o' e, monotone_op o' = true -> observes o e -> observes o (fst (apply_op o' e)).
Proof.
  intros o o' [[funs globals types used] convs evals snap] Hm Ho.
  destruct o'; simpl in *; try discriminate; auto.
  - (* AddFun *)
    destruct (lookup name funs) as [vec|] eqn:El.
    + destruct (memn fid vec); simpl; auto.
      destruct o; simpl in *; auto. destruct Ho as [v [Hl Hin]].
      destruct (String.eqb_spec name0 name) as [->|N].
      * rewrite El in Hl. inversion Hl; subst. exists (v ++ [fid]). split; [eapply lookup_replace_same; eauto | apply in_or_app; auto].
      * exists v. split; auto. rewrite lookup_replace_other; auto.
    + destruct o; simpl in *; auto. destruct Ho as [v [Hl Hin]]. exists v. split; auto. apply lookup_app_some. auto.
  - (* AddGlobal *)
    destruct (lookup name globals) eqn:El; simpl; auto.
    destruct o; simpl in *; auto; apply lookup_app_some; auto.
  - destruct (lookup name globals) eqn:El; simpl; auto.
    destruct o; simpl in *; auto; apply lookup_app_some; auto.
  - (* AddTypeEntry *)
    destruct (lookup name types) eqn:El; simpl; auto.
    destruct o; simpl in *; auto. destruct Ho as [k' Hl]. exists k'. apply lookup_app_some. auto.
  - (* AddConv *)
    destruct (conv_mem (from, to) convs) eqn:Ec; simpl; auto.
    destruct o; simpl in *; auto. apply conv_mem_In. apply conv_mem_In in Ho. apply in_or_app. auto.
  - (* UseFile *)
    destruct (memn f used); simpl; auto; destruct o; simpl in *; auto.
Qed.

Lemma observes_run : forall s o e, forallb monotone_op s = true -> observes o e -> observes o (run_ops s e).
Proof.
  induction s as [|o' s IH]; simpl; intros o e Hm Ho; auto.
  apply andb_true_iff in Hm. destruct Hm as [H1 H2]. apply IH; auto. apply observes_preserved; auto.
Qed.

Lemma observes_shows : forall o e, observes o e -> shows o (snd (apply_op (lookup_for o) e)).
Proof.
  intros o [[funs globals types used] convs evals snap]. destruct o; simpl; auto.
  - intros [vec [Hl Hin]]. rewrite Hl. eauto.
  - intros ->. reflexivity.
  - intros ->. reflexivity.
  - intros [k' ->]. eauto.
  - intros ->. reflexivity.
Qed.

Theorem visible_thm : forall s1 o s2 e0,
  forallb monotone_op s2 = true ->
  snd (apply_op o (run_ops s1 e0)) = ROk ->
  shows o (snd (apply_op (lookup_for o) (run_ops (s1 ++ o :: s2) e0))).
Proof.
  intros s1 o s2 e0 Hm Hok. apply observes_shows.
  assert (Hr : forall a b e, run_ops (a ++ b) e = run_ops b (run_ops a e)).
  { induction a; simpl; auto. }
  rewrite Hr. simpl. apply observes_run; auto. apply observes_established. auto.
Qed.
