(* C15 — executable MECHANISM model: three function tables over a heap of shared overload vectors,
   add_function / get_state / set_state interpreted from the description regenerated from the source. *)
From Coq Require Import ZArith List Bool String Ascii Arith.
From ChaiV Require Import StrUtil EngineDefs EngineSpecRun.
From ChaiV.Gen Require Import G_EngineState.
Import ListNotations.
Local Open Scope string_scope.

Definition gen_desc : engine_desc :=
  mk_desc add_function_exists_branch add_function_tail engine_get_copies engine_set_copies chai_get_copies chai_set_copies.

Definition snap_reader (h : heap) (s : msnap) : reader :=
  let t := es_tabs (sn_engine s) in
  mkR (fun n => option_map (cell h) (lookup n (t_functions t)))
      (fun n => lookup n (t_fobjs t))
      (fun n => lookup n (t_boxed t))
      (fun n => lookup n (r_globals (es_rest (sn_engine s))))
      (fun n => lookup n (r_types (es_rest (sn_engine s))))
      (sn_used s) (sn_mods s).

Definition mech_step_view (p : parsed) (o : outcome) (st : mstate) : string :=
  show_outcome o ++ " ;" ++ live_view p (m_amb st) (snap_reader (m_heap st) (m_live st))
  ++ " ;;" ++ state_view p (a_objs (m_amb st)) (snap_reader (m_heap st) (cget gen_desc (m_live st)))
  ++ show_snaps (fun s => state_view p (a_objs (m_amb st)) (snap_reader (m_heap st) s)) (m_snaps st) 0.

Fixpoint mech_run (p : parsed) (w : world) (st : mstate) (h : list op) : list string :=
  match h with
  | [] => []
  | o :: t => let (st', oc) := mstep gen_desc w st o in mech_step_view p oc st' :: mech_run p w st' t
  end.

Definition run_line (line : string) : string :=
  let p := parse_line line in
  if p_bad p then "BADCASE"
  else join " || " (mech_run p (mkWorld (p_files p) (p_mods p)) m_init (rev (p_ops p))).
