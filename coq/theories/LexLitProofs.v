(* C16 — proofs about literals: std::stoll on digit strings, the Char_Parser automaton against
   CxxLiteral.decode, buildInt over a ladder against the C++ type sequence. *)
From Coq Require Import ZArith NArith List Bool String Lia Arith.
From ChaiV Require Import NumDefs LexDefs CxxLiteral LexProofs.
Import ListNotations.
Local Open Scope Z_scope.

(* ------------------------------------------------------------------ digits *)
Lemma digit_in_cxx base c : base <= 16 -> digit_in base c = cxx_digit base c.
Proof.
  intros Hb. unfold digit_in, digit_val, cxx_digit.
  repeat match goal with |- context [(?a <=? ?b)%N] => destruct (N.leb_spec a b) end; cbn [andb];
    repeat match goal with |- context [?a <? ?b] => destruct (Z.ltb_spec a b) end; try reflexivity; try lia.
Qed.

Definition dfold (base : Z) (ds : list N) (acc : Z) : Z :=
  fold_left (fun a c => a * base + match cxx_digit base c with Some d => d | None => 0 end) ds acc.

Lemma span_digits_app base s : let '(ds, rest) := span_digits base s in s = ds ++ rest.
Proof.
  induction s as [|c r IH]; simpl; [reflexivity|].
  destruct (cxx_digit base c); [|reflexivity]. destruct (span_digits base r) as [a b]. simpl. f_equal. exact IH.
Qed.
Lemma span_digits_all base s : Forall (fun c => cxx_digit base c <> None) (fst (span_digits base s)).
Proof.
  induction s as [|c r IH]; simpl; [constructor|].
  destruct (cxx_digit base c) eqn:E; [|constructor]. destruct (span_digits base r) as [a b]. simpl in *.
  constructor; [congruence|exact IH].
Qed.
Lemma digits_value_dfold base ds acc :
  Forall (fun c => cxx_digit base c <> None) ds -> digits_value base ds acc = Some (dfold base ds acc).
Proof.
  revert acc; induction ds as [|c r IH]; intros acc H; simpl; [reflexivity|].
  inversion H; subst. destruct (cxx_digit base c) eqn:E; [|congruence]. rewrite IH by assumption. unfold dfold. cbn [fold_left]. rewrite ?E. reflexivity.
Qed.

Lemma take_digits_span base s n acc :
  base <= 16 ->
  take_digits base s n acc = let '(ds, _) := span_digits base s in ((n + List.length ds)%nat, dfold base ds acc).
Proof.
  intros Hb. revert n acc; induction s as [|c r IH]; intros n acc; simpl.
  - f_equal. lia.
  - rewrite (digit_in_cxx _ _ Hb). destruct (cxx_digit base c) eqn:E.
    + rewrite IH. destruct (span_digits base r) as [a b]. cbn [List.length]. unfold dfold at 2. cbn [fold_left]. rewrite ?E. f_equal. lia.
    + simpl. f_equal. lia.
Qed.

Lemma dfold_bound base ds acc :
  2 <= base -> 0 <= acc -> Forall (fun c => cxx_digit base c <> None) ds ->
  0 <= dfold base ds acc < (acc + 1) * base ^ Z.of_nat (List.length ds).
Proof.
  intros Hb. revert acc; induction ds as [|c r IH]; intros acc Ha H.
  - unfold dfold; simpl. lia.
  - inversion H; subst. unfold dfold. cbn [fold_left]. fold (dfold base r (acc * base + match cxx_digit base c with Some d => d | None => 0 end)).
    assert (Hd : 0 <= match cxx_digit base c with Some d => d | None => 0 end < base).
    { unfold cxx_digit. repeat match goal with |- context [(?a <=? ?b)%N] => destruct (N.leb_spec a b) end; cbn [andb];
        repeat match goal with |- context [?a <? ?b] => destruct (Z.ltb_spec a b) end; lia. }
    set (d := match cxx_digit base c with Some d => d | None => 0 end) in *.
    specialize (IH (acc * base + d) ltac:(nia) H3).
    cbn [List.length]. rewrite Nat2Z.inj_succ, Z.pow_succ_r by lia. nia.
Qed.

(* strtoll on a text that starts with a digit of the base and whose second byte is not x/X *)
Lemma strto_digits base c r :
  2 <= base <= 16 -> cxx_digit base c <> None ->
  (match r with x :: _ => x <> 120%N /\ x <> 88%N | [] => True end) ->
  strto base (c :: r) = Some (false, dfold base (fst (span_digits base (c :: r))) 0).
Proof.
  intros Hb Hc Hx. unfold strto.
  assert (Hc48 : (48 <= c)%N).
  { unfold cxx_digit in Hc. repeat match goal with H : context [(?a <=? ?b)%N] |- _ => destruct (N.leb_spec a b) end; cbn [andb] in Hc; try lia.
    all: destruct (99 <? base) eqn:E9; [apply Z.ltb_lt in E9; lia|congruence]. }
  assert (Hsp : c_isspace c = false).
  { unfold c_isspace. destruct (N.eqb_spec c 32); [lia|]. destruct (N.leb_spec 9 c), (N.leb_spec c 13); cbn; try reflexivity; lia. }
  cbn [drop_space]. rewrite Hsp.
  assert (H45 : (c =? 45)%N = false) by (apply N.eqb_neq; lia).
  assert (H43 : (c =? 43)%N = false) by (apply N.eqb_neq; lia).
  rewrite H45, H43.
  assert (H0x : (match c :: r with
                 | z :: x :: d :: r0 => if (z =? 48)%N && (base =? 16) && ((x =? 120)%N || (x =? 88)%N) && (match digit_in 16 d with Some _ => true | None => false end) then d :: r0 else c :: r
                 | _ => c :: r end) = c :: r).
  { destruct r as [|x [|d r0]]; try reflexivity.
    destruct Hx as [Hx1 Hx2]. apply N.eqb_neq in Hx1, Hx2. rewrite Hx1, Hx2. cbn [orb]. rewrite andb_false_r. reflexivity. }
  rewrite H0x. rewrite take_digits_span by lia.
  pose proof (span_digits_all base (c :: r)) as Hall.
  destruct (span_digits base (c :: r)) as [ds rest] eqn:Esp. cbn [fst].
  simpl in Esp. destruct (cxx_digit base c) eqn:Ec; [|congruence].
  destruct (span_digits base r) as [a b]. inversion Esp; subst. simpl. reflexivity.
Qed.

Definition all_digits (base : Z) (l : list N) : Prop := Forall (fun c => cxx_digit base c <> None) l.

Lemma span_digits_all_digits base l : all_digits base l -> span_digits base l = (l, []).
Proof.
  induction 1 as [|c r Hc Hr IH]; simpl; [reflexivity|].
  destruct (cxx_digit base c); [|congruence]. rewrite IH. reflexivity.
Qed.
Lemma num_value_dfold base l : all_digits base l -> num_value base l = dfold base l 0.
Proof. intros H. unfold num_value. rewrite digits_value_dfold by exact H. reflexivity. Qed.
Lemma cxx_digit_not_x base c : cxx_digit base c <> None -> base <= 16 -> c <> 120%N /\ c <> 88%N.
Proof.
  intros H Hb. split; intros ->; apply H; unfold cxx_digit; cbn;
    destruct (Z.ltb_spec 99 base); try reflexivity; lia.
Qed.

Lemma strto_all_digits base l :
  2 <= base <= 16 -> l <> [] -> all_digits base l -> strto base l = Some (false, num_value base l).
Proof.
  intros Hb Hne H. destruct l as [|c r]; [congruence|]. inversion H; subst.
  rewrite strto_digits; auto.
  - rewrite span_digits_all_digits by exact H. cbn [fst]. rewrite num_value_dfold by exact H. reflexivity.
  - destruct r as [|x r']; [exact I|]. inversion H3; subst. apply (cxx_digit_not_x base); [assumption|lia].
Qed.
Lemma num_value_bound base l : 2 <= base -> all_digits base l -> 0 <= num_value base l < base ^ Z.of_nat (List.length l).
Proof. intros Hb H. rewrite num_value_dfold by exact H. pose proof (dfold_bound base l 0 Hb ltac:(lia) H). lia. Qed.

Lemma stoll_small base l :
  2 <= base <= 16 -> l <> [] -> all_digits base l -> (List.length l <= 15)%nat -> stoll l base = StoOk (num_value base l).
Proof.
  intros Hb Hne H Hl. unfold stoll. rewrite strto_all_digits by assumption.
  pose proof (num_value_bound base l ltac:(lia) H) as [B0 B1].
  assert (base ^ Z.of_nat (List.length l) <= 16 ^ 15).
  { transitivity (16 ^ Z.of_nat (List.length l)); [apply Z.pow_le_mono_l; lia|apply Z.pow_le_mono_r; lia]. }
  assert (E1 : (- 2 ^ 63 <=? num_value base l) = true) by (apply Z.leb_le; lia).
  assert (E2 : (num_value base l <=? 2 ^ 63 - 1) = true) by (apply Z.leb_le; change (16 ^ 15) with 1152921504606846976 in *; lia).
  rewrite E1, E2. reflexivity.
Qed.
Lemma stoul_small base l :
  2 <= base <= 16 -> l <> [] -> all_digits base l -> (List.length l <= 15)%nat -> stoul l base = StoOk (num_value base l).
Proof.
  intros Hb Hne H Hl. unfold stoul, stoull. rewrite strto_all_digits by assumption.
  pose proof (num_value_bound base l ltac:(lia) H) as [B0 B1].
  assert (base ^ Z.of_nat (List.length l) <= 16 ^ 15).
  { transitivity (16 ^ Z.of_nat (List.length l)); [apply Z.pow_le_mono_l; lia|apply Z.pow_le_mono_r; lia]. }
  assert (E2 : (num_value base l <=? 2 ^ 64 - 1) = true) by (apply Z.leb_le; change (16 ^ 15) with 1152921504606846976 in *; lia).
  rewrite E2. reflexivity.
Qed.

Lemma is_hex_char_hexd t : is_hex_char t = is_hexd t.
Proof.
  unfold is_hex_char, is_hexd, cxx_digit.
  repeat match goal with |- context [(?a <=? ?b)%N] => destruct (N.leb_spec a b) end; cbn; try reflexivity;
    match goal with |- context [?a <? ?b] => destruct (Z.ltb_spec a b) end; try reflexivity; lia.
Qed.
Lemma is_octal_char_oct t : is_octal_char t = is_oct t.
Proof. reflexivity. Qed.
Lemma is_oct_digit t : is_oct t = true -> cxx_digit 8 t <> None.
Proof.
  unfold is_oct, cxx_digit. intros H. apply andb_prop in H. destruct H as [H1 H2]. apply N.leb_le in H1, H2.
  rewrite (proj2 (N.leb_le 48 t) H1). destruct (N.leb_spec t 57); [|lia]. cbn [andb].
  destruct (Z.ltb_spec (Z.of_N t - 48) 8); [discriminate|lia].
Qed.
Lemma is_hexd_digit t : is_hexd t = true -> cxx_digit 16 t <> None.
Proof. unfold is_hexd. destruct (cxx_digit 16 t); [discriminate|discriminate]. Qed.

(* ------------------------------------------------------------------ Char_Parser: the reachable states in canonical form *)
Inductive ccls := Plain | Esc | Oct (o : list N) | Hex (h : list N) | Uni (n : nat) (h : list N).
Record cst := mkCst { c_m : list N; c_i : bool; c_k : bool; c_cls : ccls }.
Definition inj (s : cst) : cp :=
  match c_cls s with
  | Plain => mkCp (c_m s) false (c_i s) (c_k s) false false 0 [] []
  | Esc => mkCp (c_m s) true (c_i s) (c_k s) false false 0 [] []
  | Oct o => mkCp (c_m s) true (c_i s) (c_k s) true false 0 o []
  | Hex h => mkCp (c_m s) true (c_i s) (c_k s) false true 0 [] h
  | Uni n h => mkCp (c_m s) true (c_i s) (c_k s) false false n [] h
  end.
Definition all_oct (l : list N) := Forall (fun c => is_oct c = true) l.
Definition all_hex (l : list N) := Forall (fun c => is_hexd c = true) l.
Definition valid (s : cst) : Prop :=
  match c_cls s with
  | Plain | Esc => True
  | Oct o => all_oct o /\ (1 <= List.length o <= 2)%nat
  | Hex h => all_hex h /\ (List.length h <= 1)%nat
  | Uni n h => all_hex h /\ (n = 4 \/ n = 8)%nat /\ (List.length h < n)%nat
  end.

Inductive cres := COk (s : cst) | CErr (r : string) (positioned : bool).
Definition lift (r : cres) : cpres := match r with COk s => CPOk (inj s) | CErr r p => CPErr r p end.
Definition cbind (r : cres) (k : cst -> cres) : cres := match r with COk s => k s | e => e end.

Definition oct_done (s : cst) (o : list N) : cres :=
  let v := num_value 8 o in
  if 255 <? v then CErr "Octal escape sequence out of range" false else COk (mkCst (c_m s ++ [Z.to_N v]) (c_i s) (c_k s) Plain).
Definition hex_done (s : cst) (h : list N) : cres :=
  match h with
  | [] => CErr "Incomplete hex escape sequence" false
  | _ => COk (mkCst (c_m s ++ [Z.to_N (num_value 16 h)]) (c_i s) (c_k s) Plain)
  end.
Definition uni_done (s : cst) (n : nat) (h : list N) : cres :=
  let ch := num_value 16 h in
  if negb (Nat.eqb n (List.length h)) then CErr "Incomplete unicode escape sequence" false
  else if Nat.eqb n 4 && (55296 <=? ch) && (ch <=? 57343) then CErr "Invalid 16 bit universal character" false
  else if Nat.eqb n 8 && (((55296 <=? ch) && (ch <=? 57343)) || (1114111 <? ch)) then CErr "Invalid 32 bit universal character" false
  else match utf8 ch with
       | Some bs => COk (mkCst (c_m s ++ bs) (c_i s) (c_k s) Plain)
       | None => CErr "Invalid 32 bit universal character" false
       end.
(* cp_plain on a Plain / Esc state *)
Definition plain_part (b : bool) (s : cst) (escaped : bool) (t : N) : cres :=
  if (t =? 92)%N then
    if escaped then COk (mkCst (c_m s ++ [92%N]) (c_i s) (c_k s) Plain) else COk (mkCst (c_m s) (c_i s) (c_k s) Esc)
  else if escaped then
    if is_oct t then COk (mkCst (c_m s) (c_i s) (c_k s) (Oct [t]))
    else if (t =? 120)%N then COk (mkCst (c_m s) (c_i s) (c_k s) (Hex []))
    else if (t =? 117)%N then COk (mkCst (c_m s) (c_i s) (c_k s) (Uni 4 []))
    else if (t =? 85)%N then COk (mkCst (c_m s) (c_i s) (c_k s) (Uni 8 []))
    else match simple_escape t with
         | Some x => COk (mkCst (c_m s ++ [x]) (c_i s) (c_k s) Plain)
         | None => CErr "Unknown escaped sequence in string" true
         end
  else if b && (t =? 36)%N then COk (mkCst (c_m s) (c_i s) true Plain)
  else COk (mkCst (c_m s ++ [t]) (c_i s) (c_k s) Plain).
Definition cstep (b : bool) (s : cst) (t : N) : cres :=
  match c_cls s with
  | Plain => plain_part b s false t
  | Esc => plain_part b s true t
  | Oct o => if is_oct t then (if Nat.eqb (List.length (o ++ [t])) 3 then oct_done s (o ++ [t])
                               else COk (mkCst (c_m s) (c_i s) (c_k s) (Oct (o ++ [t]))))
             else cbind (oct_done s o) (fun s' => plain_part b s' false t)
  | Hex h => if is_hexd t then (if Nat.eqb (List.length (h ++ [t])) 2 then hex_done s (h ++ [t])
                                else COk (mkCst (c_m s) (c_i s) (c_k s) (Hex (h ++ [t]))))
             else cbind (hex_done s h) (fun s' => plain_part b s' false t)
  | Uni n h => if is_hexd t then (if Nat.eqb (List.length (h ++ [t])) n then uni_done s n (h ++ [t])
                                  else COk (mkCst (c_m s) (c_i s) (c_k s) (Uni n (h ++ [t]))))
               else cbind (uni_done s n h) (fun s' => plain_part b s' false t)
  end.
Definition cfinish (s : cst) : cres :=
  match c_cls s with
  | Plain | Esc => COk s
  | Oct o => oct_done s o
  | Hex h => hex_done s h
  | Uni n h => uni_done s n h
  end.

Lemma all_oct_digits o : all_oct o -> all_digits 8 o.
Proof. unfold all_oct, all_digits. apply Forall_impl. intros a. apply is_oct_digit. Qed.
Lemma all_hex_digits h : all_hex h -> all_digits 16 h.
Proof. unfold all_hex, all_digits. apply Forall_impl. intros a. apply is_hexd_digit. Qed.

Lemma process_octal_inj s o :
  all_oct o -> (1 <= List.length o <= 3)%nat ->
  process_octal (mkCp (c_m s) true (c_i s) (c_k s) true false 0 o []) = lift (oct_done s o).
Proof.
  intros Ho Hl. unfold process_octal. cbn [cp_octs cp_match cp_interpolated cp_marker cp_hex cp_usize cp_hexs].
  destruct o as [|c r] eqn:Eo; [simpl in Hl; lia|]. rewrite <- Eo in *.
  rewrite (stoll_small 8 o); try lia; [|subst; discriminate|apply all_oct_digits, Ho].
  unfold oct_done. destruct (255 <? num_value 8 o) eqn:E; [reflexivity|].
  apply Z.ltb_ge in E. pose proof (num_value_bound 8 o ltac:(lia) (all_oct_digits _ Ho)) as [B0 _].
  unfold lift, inj, byte_of. cbn [c_cls c_m c_i c_k]. rewrite (Z.mod_small (num_value 8 o) 256) by (split; [exact B0|lia]). reflexivity.
Qed.
Lemma process_hex_inj s h :
  all_hex h -> (List.length h <= 2)%nat ->
  process_hex (mkCp (c_m s) true (c_i s) (c_k s) false true 0 [] h) = lift (hex_done s h).
Proof.
  intros Hh Hl. unfold process_hex. cbn [cp_octs cp_match cp_interpolated cp_marker cp_octal cp_usize cp_hexs].
  destruct h as [|c r]; [reflexivity|].
  rewrite (stoll_small 16 (c :: r)); try lia; [|discriminate|apply all_hex_digits, Hh].
  unfold hex_done.
  pose proof (num_value_bound 16 (c :: r) ltac:(lia) (all_hex_digits _ Hh)) as [B0 B1].
  assert (16 ^ Z.of_nat (List.length (c :: r)) <= 16 ^ 2) by (apply Z.pow_le_mono_r; lia).
  unfold lift, inj, byte_of. cbn [c_cls c_m c_i c_k]. rewrite Z.mod_small by (change (16 ^ 2) with 256 in *; lia). reflexivity.
Qed.
Lemma process_unicode_inj s n h :
  all_hex h -> (List.length h <= 8)%nat ->
  process_unicode (mkCp (c_m s) true (c_i s) (c_k s) false false n [] h) = lift (uni_done s n h).
Proof.
  intros Hh Hl. unfold process_unicode, uni_done. cbn [cp_octs cp_match cp_interpolated cp_marker cp_octal cp_hex cp_usize cp_hexs].
  assert (Hv : match h with [] => 0 | _ => num_value 16 h mod 2 ^ 32 end = num_value 16 h).
  { destruct h as [|c r] eqn:Eh; [reflexivity|]. rewrite <- Eh in *.
    pose proof (num_value_bound 16 h ltac:(lia) (all_hex_digits _ Hh)) as [B0 B1].
    assert (16 ^ Z.of_nat (List.length h) <= 16 ^ 8) by (apply Z.pow_le_mono_r; lia).
    apply Z.mod_small. change (16 ^ 8) with 4294967296 in *. change (2 ^ 32) with 4294967296. lia. }
  destruct h as [|c r] eqn:Eh.
  - cbn [List.length]. destruct (negb (Nat.eqb n 0)); [reflexivity|].
    change (num_value 16 []) with 0. cbn.
    destruct (Nat.eqb n 4); destruct (Nat.eqb n 8); reflexivity.
  - rewrite <- Eh in *. rewrite (stoul_small 16 h); try lia; [|subst; discriminate|apply all_hex_digits, Hh].
    rewrite Eh in Hv. rewrite <- Eh in Hv. replace (match h with [] => 0 | _ :: _ => num_value 16 h mod 2 ^ 32 end) with (num_value 16 h) in *
      by (rewrite Eh; rewrite Eh in Hv; symmetry; exact Hv).
    assert (Hm : num_value 16 h mod 2 ^ 32 = num_value 16 h) by (rewrite Eh in *; exact Hv).
    rewrite Hm.
    destruct (negb (Nat.eqb n (List.length h))); [reflexivity|].
    destruct (Nat.eqb n 4 && (55296 <=? num_value 16 h) && (num_value 16 h <=? 57343)); [reflexivity|].
    destruct (Nat.eqb n 8 && ((55296 <=? num_value 16 h) && (num_value 16 h <=? 57343) || (1114111 <? num_value 16 h))); [reflexivity|].
    destruct (utf8 (num_value 16 h)); reflexivity.
Qed.

Lemma cp_plain_inj b s esc t :
  cp_plain b (mkCp (c_m s) esc (c_i s) (c_k s) false false 0 [] []) t = lift (plain_part b s esc t).
Proof.
  unfold cp_plain, plain_part. cbn [cp_escaped cp_match cp_interpolated cp_marker cp_octal cp_hex cp_usize cp_octs cp_hexs].
  destruct (t =? 92)%N; [destruct esc; reflexivity|].
  destruct esc.
  - rewrite is_octal_char_oct. destruct (is_oct t); [reflexivity|].
    destruct (t =? 120)%N; [reflexivity|]. destruct (t =? 117)%N; [reflexivity|]. destruct (t =? 85)%N; [reflexivity|].
    destruct (simple_escape t); reflexivity.
  - destruct (b && (t =? 36)%N); reflexivity.
Qed.

Lemma lift_cbind r k : cp_bind (lift r) (fun c => match r with COk _ => lift (cbind r k) | _ => CPOk c end) = lift (cbind r k).
Proof. destruct r; reflexivity. Qed.

Lemma app_length1 {X} (l : list X) x : List.length (l ++ [x]) = S (List.length l).
Proof. rewrite app_length. simpl. lia. Qed.

Lemma cp_parse_inj b s t : valid s -> cp_parse b (inj s) t = lift (cstep b s t).
Proof.
  intros V. destruct s as [m i k cls]. unfold valid in V. cbn [c_cls] in V.
  destruct cls as [| |o|h|n h]; unfold cstep, inj, cp_parse; cbn [c_cls c_m c_i c_k cp_octal cp_hex cp_usize cp_octs cp_hexs cp_match cp_escaped cp_interpolated cp_marker].
  - apply (cp_plain_inj b (mkCst m i k Plain) false t).
  - apply (cp_plain_inj b (mkCst m i k Esc) true t).
  - destruct V as [Ho Hl]. rewrite is_octal_char_oct. destruct (is_oct t) eqn:Et.
    + destruct (Nat.eqb (List.length (o ++ [t])) 3) eqn:E3; [|reflexivity].
      apply (process_octal_inj (mkCst m i k (Oct o))).
      * apply Forall_app. split; [exact Ho|constructor; [exact Et|constructor]].
      * rewrite app_length1. lia.
    + rewrite (process_octal_inj (mkCst m i k (Oct o))) by (auto; lia).
      unfold oct_done. cbn [c_m c_i c_k]. destruct (255 <? num_value 8 o); [reflexivity|].
      cbn [lift cp_bind cbind inj c_cls c_m c_i c_k]. apply (cp_plain_inj b (mkCst _ i k Plain) false t).
  - destruct V as [Hh Hl]. rewrite is_hex_char_hexd. destruct (is_hexd t) eqn:Et.
    + destruct (Nat.eqb (List.length (h ++ [t])) 2) eqn:E2; [|reflexivity].
      apply (process_hex_inj (mkCst m i k (Hex h))).
      * apply Forall_app. split; [exact Hh|constructor; [exact Et|constructor]].
      * rewrite app_length1. lia.
    + rewrite (process_hex_inj (mkCst m i k (Hex h))) by (auto; lia).
      unfold hex_done. cbn [c_m c_i c_k]. destruct h; [reflexivity|].
      cbn [lift cp_bind cbind inj c_cls c_m c_i c_k]. apply (cp_plain_inj b (mkCst _ i k Plain) false t).
  - destruct V as (Hh & Hn & Hl).
    assert (Hpos : Nat.ltb 0 n = true) by (apply Nat.ltb_lt; lia). rewrite Hpos.
    rewrite is_hex_char_hexd. destruct (is_hexd t) eqn:Et.
    + destruct (Nat.eqb (List.length (h ++ [t])) n) eqn:En; [|reflexivity].
      apply (process_unicode_inj (mkCst m i k (Uni n h))).
      * apply Forall_app. split; [exact Hh|constructor; [exact Et|constructor]].
      * rewrite app_length1. lia.
    + rewrite (process_unicode_inj (mkCst m i k (Uni n h))) by (auto; lia).
      destruct (uni_done (mkCst m i k (Uni n h)) n h) as [s'|] eqn:Eu; [|reflexivity].
      cbn [lift cp_bind cbind].
      assert (Es : exists m', s' = mkCst m' i k Plain).
      { unfold uni_done in Eu. cbn [c_m c_i c_k] in Eu.
        repeat match type of Eu with (if ?c then _ else _) = _ => destruct c; [discriminate|] end.
        destruct (utf8 _); [|discriminate]. inversion Eu. eexists; reflexivity. }
      destruct Es as [m' ->]. apply (cp_plain_inj b (mkCst m' i k Plain) false t).
Qed.

Lemma cstep_valid b s t s' : valid s -> cstep b s t = COk s' -> valid s'.
Proof.
  intros V. destruct s as [m i k cls]. unfold valid in V. cbn [c_cls] in V.
  assert (PP : forall s0 esc, plain_part b s0 esc t = COk s' -> valid s').
  { intros s0 esc. unfold plain_part.
    destruct (t =? 92)%N; [destruct esc; intros HH; inversion HH; subst; exact I|].
    destruct esc.
    - destruct (is_oct t) eqn:Eo; [intros HH; inversion HH; subst; unfold valid; cbn [c_cls List.length]; split; [repeat constructor; exact Eo|lia]|].
      destruct (t =? 120)%N; [intros HH; inversion HH; subst; unfold valid; cbn [c_cls List.length]; split; [constructor|lia]|].
      destruct (t =? 117)%N; [intros HH; inversion HH; subst; unfold valid; cbn [c_cls List.length]; split; [constructor|split; [left; reflexivity|lia]]|].
      destruct (t =? 85)%N; [intros HH; inversion HH; subst; unfold valid; cbn [c_cls List.length]; split; [constructor|split; [right; reflexivity|lia]]|].
      destruct (simple_escape t); intros HH; inversion HH; subst; exact I.
    - destruct (b && _); intros HH; inversion HH; subst; exact I. }
  destruct cls as [| |o|h|n h]; unfold cstep; cbn [c_cls c_m c_i c_k].
  - apply PP.
  - apply PP.
  - destruct V as [Ho Hl]. destruct (is_oct t) eqn:Et.
    + destruct (Nat.eqb _ 3) eqn:E3.
      * unfold oct_done. destruct (255 <? _); intros H; inversion H; subst. exact I.
      * intros H; inversion H; subst. unfold valid; cbn [c_cls]. rewrite app_length1. apply Nat.eqb_neq in E3. rewrite app_length1 in E3.
        split; [apply Forall_app; split; [exact Ho|constructor; [exact Et|constructor]]|lia].
    + unfold oct_done. destruct (255 <? _); [discriminate|]. cbn [cbind]. apply PP.
  - destruct V as [Hh Hl]. destruct (is_hexd t) eqn:Et.
    + destruct (Nat.eqb _ 2) eqn:E2.
      * unfold hex_done. destruct (h ++ [t]); intros H; inversion H; subst. exact I.
      * intros H; inversion H; subst. unfold valid; cbn [c_cls]. rewrite app_length1. apply Nat.eqb_neq in E2. rewrite app_length1 in E2.
        split; [apply Forall_app; split; [exact Hh|constructor; [exact Et|constructor]]|lia].
    + unfold hex_done. destruct h; [discriminate|]. cbn [cbind]. apply PP.
  - destruct V as (Hh & Hn & Hl). destruct (is_hexd t) eqn:Et.
    + destruct (Nat.eqb _ n) eqn:En.
      * unfold uni_done. repeat match goal with |- context [if ?c then _ else _] => destruct c; [discriminate|] end.
        destruct (utf8 _); intros H; inversion H; subst. exact I.
      * intros H; inversion H; subst. unfold valid; cbn [c_cls]. rewrite app_length1. apply Nat.eqb_neq in En. rewrite app_length1 in En.
        split; [apply Forall_app; split; [exact Hh|constructor; [exact Et|constructor]]|split; [exact Hn|lia]].
    + destruct (uni_done _ n h) eqn:Eu; [|discriminate]. cbn [cbind]. apply PP.
Qed.

Lemma cp_finish_inj s : valid s -> cp_finish (inj s) = lift (cfinish s).
Proof.
  intros V. destruct s as [m i k cls]. unfold valid in V. cbn [c_cls] in V.
  destruct cls as [| |o|h|n h]; unfold cp_finish, cfinish, inj; cbn [c_cls c_m c_i c_k cp_octal cp_hex cp_usize cp_bind]; try reflexivity.
  - destruct V as [Ho Hl]. rewrite (process_octal_inj (mkCst m i k (Oct o))) by (auto; lia).
    unfold oct_done. cbn [c_m c_i c_k]. destruct (255 <? _); reflexivity.
  - destruct V as [Hh Hl]. rewrite (process_hex_inj (mkCst m i k (Hex h))) by (auto; lia).
    unfold hex_done. destruct h; reflexivity.
  - destruct V as (Hh & Hn & Hl). assert (Hpos : Nat.ltb 0 n = true) by (apply Nat.ltb_lt; lia). rewrite Hpos.
    apply (process_unicode_inj (mkCst m i k (Uni n h))); [exact Hh|lia].
Qed.

Fixpoint cfeed (b : bool) (s : cst) (l : list N) : cres :=
  match l with [] => COk s | t :: r => cbind (cstep b s t) (fun s' => cfeed b s' r) end.
Lemma cp_feed_inj b l : forall s, valid s -> cp_feed b (inj s) l = lift (cfeed b s l).
Proof.
  induction l as [|t r IH]; intros s V; simpl; [reflexivity|].
  rewrite cp_parse_inj by exact V. destruct (cstep b s t) as [s'|] eqn:E; [|reflexivity].
  cbn [lift cp_bind cbind]. apply IH. eapply cstep_valid; eauto.
Qed.
Lemma cfeed_valid b l : forall s s', valid s -> cfeed b s l = COk s' -> valid s'.
Proof.
  induction l as [|t r IH]; intros s s' V H; simpl in H; [inversion H; subst; exact V|].
  destruct (cstep b s t) as [s1|] eqn:E; [|discriminate]. cbn [cbind] in H. eapply IH; [|exact H]. eapply cstep_valid; eauto.
Qed.
Lemma cp_init_inj : cp_init = inj (mkCst [] false false Plain).
Proof. reflexivity. Qed.

(* the Char_Parser never leaks std::invalid_argument / std::out_of_range: its numeric conversions only see 1..8 valid digits *)
Lemma cp_run_no_crash b l : forall k, cp_run b l <> CPCrash k.
Proof.
  intros k. unfold cp_run. rewrite cp_init_inj, cp_feed_inj by exact I.
  destruct (cfeed b _ l) as [s'|] eqn:E; cbn [lift cp_bind]; [|discriminate].
  rewrite cp_finish_inj by (eapply cfeed_valid; [|exact E]; exact I). destruct (cfinish s'); discriminate.
Qed.

Lemma split_brace_len r : (List.length (snd (split_brace r)) <= List.length r)%nat.
Proof.
  unfold split_brace. generalize (@nil N) as acc. induction r as [|c r IH]; intros acc; simpl; [lia|].
  destruct (c =? 125)%N; simpl; [lia|]. specialize (IH (acc ++ [c])). lia.
Qed.

Lemma qs_scan_safe l c : forall fuel s st segs,
  valid st -> (2 * List.length s + (if c_k st then 1 else 0) < fuel)%nat ->
  exists q, qs_scan fuel l c (inj st) segs s = QS q.
Proof.
  induction fuel as [|f IH]; intros s st segs V Hf; [lia|].
  cbn [qs_scan]. destruct s as [|t r].
  - rewrite cp_finish_inj by exact V. destruct (cfinish st); cbn [lift]; eexists; reflexivity.
  - assert (Hk : cp_marker (inj st) = c_k st) by (destruct st as [m i k []]; reflexivity). rewrite Hk.
    destruct (c_k st) eqn:Ek.
    + destruct (t =? 123)%N.
      * pose proof (split_brace_len r) as Hs. destruct (split_brace r) as [ev rest]. cbn [snd] in Hs.
        destruct rest as [|x rest']; [eexists; reflexivity|].
        assert (Ei : mkCp [] (cp_escaped (inj st)) true false (cp_octal (inj st)) (cp_hex (inj st)) (cp_usize (inj st)) (cp_octs (inj st)) (cp_hexs (inj st))
                     = inj (mkCst [] true false (c_cls st))) by (destruct st as [m i k []]; reflexivity).
        rewrite Ei. apply IH; [exact V|]. cbn [c_k]. simpl in Hs, Hf. lia.
      * assert (Ei : mkCp (cp_match (inj st) ++ [36%N]) (cp_escaped (inj st)) (cp_interpolated (inj st)) false (cp_octal (inj st)) (cp_hex (inj st))
                          (cp_usize (inj st)) (cp_octs (inj st)) (cp_hexs (inj st))
                     = inj (mkCst (c_m st ++ [36%N]) (c_i st) false (c_cls st))) by (destruct st as [m i k []]; reflexivity).
        rewrite Ei. apply IH; [exact V|]. cbn [c_k]. lia.
    + rewrite cp_parse_inj by exact V. destruct (cstep true st t) as [s'|] eqn:E; cbn [lift]; [|eexists; reflexivity].
      apply IH; [eapply cstep_valid; eauto|]. simpl in Hf. destruct (c_k s'); lia.
Qed.

Section StringScanners.
  Context {U : Type}.
  Variable A : alphabets.

  Lemma fine_Quoted_String : fine (@Quoted_String U A) (fun _ _ _ => True).
  Proof.
    unfold Quoted_String. apply (fine_with_depth _ (fun _ _ _ => True)). apply (fine_ws_then A _ (fun _ _ _ => True)); [|auto].
    intros s W. pose proof (ext_refl s W) as E. step_pos. step (@fine_Quoted_String_ U). destruct a; [|done_ret; exact I].
    specialize (R eq_refl).
    destruct (between_ok (pos s) s0 ltac:(lia)) as [content Hb].
    apply post_bind. rewrite Hb. cbn [post].
    destruct (qs_scan_safe (line (pos s)) (col (pos s)) (2 * List.length content + 2) content (mkCst [] false false Plain) [] I) as [q Hq]; [cbn [c_k]; lia|].
    rewrite cp_init_inj, Hq. done_ret. exact I.
  Qed.

  Lemma fine_Single_Quoted_String : fine (@Single_Quoted_String U A) (fun _ _ _ => True).
  Proof.
    unfold Single_Quoted_String. apply (fine_with_depth _ (fun _ _ _ => True)). apply (fine_ws_then A _ (fun _ _ _ => True)); [|auto].
    intros s W. pose proof (ext_refl s W) as E. step_pos. step (@fine_Single_Quoted_String_ U). destruct a; [|done_ret; exact I].
    specialize (R eq_refl).
    destruct (between_ok (pos s) s0 ltac:(lia)) as [content Hb].
    apply post_bind. rewrite Hb. cbn [post].
    rewrite cp_init_inj, cp_feed_inj by exact I.
    destruct (cfeed false _ content) as [s'|r p] eqn:Ef; cbn [lift].
    - rewrite cp_finish_inj by (eapply cfeed_valid; [|exact Ef]; exact I).
      destruct (cfinish s') as [s2|]; cbn [lift]; [|exact I].
      destruct (cp_match (inj s2)) as [|ch [|]]; try exact I. done_ret. exact I.
    - destruct p; exact I.
  Qed.
End StringScanners.

(* ------------------------------------------------------------------ the statement cited by C01 / C20 *)
(* From every state whose line/col are right, the scanner ends without leaving the buffer (no Crash) and
   within its fuel (no OutOfFuel); if it ends normally the buffer is the same, the cursor has not moved
   back, line/col are still right, and depth / grammar-layer state are untouched.  eval_error is allowed. *)
Definition lexer_safe {U X} (m : M U X) : Prop :=
  forall s : state U, wf_pos (pos s) ->
    match m s with
    | Ok (_, s') => buf (pos s') = buf (pos s) /\ (idx (pos s) <= idx (pos s'))%nat /\ wf_pos (pos s') /\ depth s' = depth s /\ user s' = user s
    | Err _ _ _ => True
    | Crash _ => False
    | OutOfFuel => False
    end.
Lemma fine_safe {U X} (m : M U X) R : fine m R -> lexer_safe m.
Proof. intros F s W. specialize (F s W). destruct (m s) as [[a s']| | |]; simpl in *; auto. destruct F as [E _]. exact E. Qed.

Lemma wf_pos_begin b : wf_pos (pos_begin b).
Proof. unfold wf_pos, pos_begin, before. simpl. repeat split; lia. Qed.

(* ------------------------------------------------------------------ CxxLiteral.decode: unfolding equation *)
Definition dec_body (D : list N -> option (list N)) (s : list N) : option (list N) :=
  let cons_all (bs : list N) (rest : list N) := option_map (app bs) (D rest) in
  match s with
  | [] => Some []
  | 92%N :: [] => None
  | 92%N :: c :: r =>
      if is_oct c then
        let '(ds, rest) := span_upto 3 is_oct (c :: r) in
        let v := num_value 8 ds in
        if v <=? 255 then cons_all [Z.to_N v] rest else None
      else if (c =? 120)%N then
        let '(ds, rest) := span_upto 2 is_hexd r in
        match ds with [] => None | _ => cons_all [Z.to_N (num_value 16 ds)] rest end
      else if (c =? 117)%N || (c =? 85)%N then
        let n := if (c =? 117)%N then 4%nat else 8%nat in
        let '(ds, rest) := span_upto n is_hexd r in
        if Nat.eqb (List.length ds) n && scalar_value (num_value 16 ds) then cons_all (utf8_enc (num_value 16 ds)) rest else None
      else match simple_esc c with
           | Some b => cons_all [b] r
           | None => None
           end
  | c :: r => cons_all [c] r
  end.
Lemma decode_f_S f s : decode_f (S f) s = dec_body (decode_f f) s.
Proof. reflexivity. Qed.

Lemma span_upto_len n p s : (List.length (snd (span_upto n p s)) <= List.length s)%nat.
Proof.
  revert s; induction n as [|n IH]; intros s; destruct s as [|c r]; simpl; try lia.
  destruct (p c); simpl; [|lia]. specialize (IH r). destruct (span_upto n p r); simpl in *. lia.
Qed.
Lemma dec_body_ext D1 D2 s : (forall r, (List.length r < List.length s)%nat -> D1 r = D2 r) -> dec_body D1 s = dec_body D2 s.
Proof.
  intros H. unfold dec_body. destruct s as [|c r]; [reflexivity|].
  assert (Hr : D1 r = D2 r) by (apply H; simpl; lia).
  assert (Hsp : forall n p r', (List.length r' <= List.length r)%nat -> D1 (snd (span_upto n p r')) = D2 (snd (span_upto n p r'))).
  { intros n p r' Hl. apply H. pose proof (span_upto_len n p r'). simpl. lia. }
  destruct r as [|c2 r2].
  - destruct c as [|pc]; [rewrite Hr; reflexivity|]. do 7 (destruct pc as [pc|pc|]; try (rewrite Hr; reflexivity)). 
  - assert (Hr2 : D1 r2 = D2 r2) by (apply H; simpl; lia).
    assert (Hbs : (92 =? c)%N = true -> forall X Y : option (list N), X = Y -> True) by auto.
    destruct (N.eqb_spec c 92) as [->|Hne].
    + destruct (is_oct c2) eqn:Eo.
      * assert (Hs := H (snd (span_upto 3 is_oct (c2 :: r2)))).
        pose proof (span_upto_len 3 is_oct (c2 :: r2)) as Hl.
        assert (Hlt : (List.length (snd (span_upto 3 is_oct (c2 :: r2))) < List.length (92%N :: c2 :: r2))%nat).
        { cbn [span_upto] in *. rewrite Eo in *. pose proof (span_upto_len 2 is_oct r2). destruct (span_upto 2 is_oct r2); simpl in *. lia. }
        specialize (Hs Hlt). destruct (span_upto 3 is_oct (c2 :: r2)) as [ds rest]. cbn [snd] in Hs. rewrite Hs. reflexivity.
      * destruct (c2 =? 120)%N.
        { pose proof (Hsp 2%nat is_hexd r2 ltac:(simpl; lia)) as Hs. destruct (span_upto 2 is_hexd r2) as [ds rest]. cbn [snd] in Hs. rewrite Hs. reflexivity. }
        destruct ((c2 =? 117)%N || (c2 =? 85)%N).
        { pose proof (Hsp (if (c2 =? 117)%N then 4%nat else 8%nat) is_hexd r2 ltac:(simpl; lia)) as Hs.
          destruct (span_upto _ is_hexd r2) as [ds rest]. cbn [snd] in Hs. rewrite Hs. reflexivity. }
        rewrite Hr2. reflexivity.
    + assert (E : forall X Y : option (list N),
                 match c with 92%N => X | _ => Y end = Y).
      { intros X Y. destruct c as [|pc]; [reflexivity|]. do 7 (destruct pc as [pc|pc|]; try reflexivity). congruence. }
      rewrite !E. rewrite Hr. reflexivity.
Qed.

Lemma decode_f_indep : forall f1 f2 s, (List.length s < f1)%nat -> (List.length s < f2)%nat -> decode_f f1 s = decode_f f2 s.
Proof.
  induction f1 as [|f1 IH]; intros f2 s H1 H2; [lia|]. destruct f2 as [|f2]; [lia|].
  rewrite !decode_f_S. apply dec_body_ext. intros r Hr. apply IH; lia.
Qed.
Lemma decode_eq s : decode s = dec_body decode s.
Proof.
  unfold decode at 1. rewrite decode_f_S. apply dec_body_ext. intros r Hr. unfold decode. apply decode_f_indep; lia.
Qed.

(* concrete unfoldings *)
Lemma decode_nil : decode [] = Some [].
Proof. reflexivity. Qed.
Lemma decode_plain c r : c <> 92%N -> decode (c :: r) = option_map (app [c]) (decode r).
Proof.
  intros H. rewrite decode_eq. unfold dec_body.
  destruct c as [|pc]; [reflexivity|]. do 7 (destruct pc as [pc|pc|]; try reflexivity). congruence.
Qed.
Lemma decode_esc c r :
  decode (92%N :: c :: r) =
  if is_oct c then
    let '(ds, rest) := span_upto 3 is_oct (c :: r) in
    let v := num_value 8 ds in
    if v <=? 255 then option_map (app [Z.to_N v]) (decode rest) else None
  else if (c =? 120)%N then
    let '(ds, rest) := span_upto 2 is_hexd r in
    match ds with [] => None | _ => option_map (app [Z.to_N (num_value 16 ds)]) (decode rest) end
  else if (c =? 117)%N || (c =? 85)%N then
    let n := if (c =? 117)%N then 4%nat else 8%nat in
    let '(ds, rest) := span_upto n is_hexd r in
    if Nat.eqb (List.length ds) n && scalar_value (num_value 16 ds) then option_map (app (utf8_enc (num_value 16 ds))) (decode rest) else None
  else match simple_esc c with
       | Some b => option_map (app [b]) (decode r)
       | None => None
       end.
Proof. rewrite decode_eq. reflexivity. Qed.

(* span_upto on a run of matching bytes *)
Lemma span_upto_run n p ds rest :
  Forall (fun c => p c = true) ds -> (List.length ds <= n)%nat ->
  (List.length ds = n \/ match rest with [] => True | c :: _ => p c = false end) ->
  span_upto n p (ds ++ rest) = (ds, rest).
Proof.
  revert n; induction ds as [|d ds IH]; intros n Hall Hl Hstop.
  - simpl. destruct n; [reflexivity|]. destruct rest as [|c r]; [reflexivity|]. simpl in *.
    destruct Hstop as [Hs|Hs]; [lia|]. rewrite Hs. reflexivity.
  - inversion Hall; subst. destruct n as [|n]; [simpl in Hl; lia|]. simpl. rewrite H1.
    rewrite (IH n); auto; [simpl in Hl; lia|]. destruct Hstop as [Hs|Hs]; [left; simpl in Hs; lia|right; exact Hs].
Qed.

Fixpoint well_ended (s : list N) : bool :=
  match s with
  | [] => true
  | 92%N :: [] => false
  | 92%N :: _ :: r => well_ended r
  | _ :: r => well_ended r
  end.
Lemma well_ended_plain c r : c <> 92%N -> well_ended (c :: r) = well_ended r.
Proof. intros H. simpl. destruct c as [|pc]; [reflexivity|]. do 7 (destruct pc as [pc|pc|]; try reflexivity). congruence. Qed.
Lemma well_ended_run ds r : Forall (fun c => c <> 92%N) ds -> well_ended (ds ++ r) = well_ended r.
Proof. induction 1 as [|d ds Hd Hds IH]; [reflexivity|]. rewrite <- app_comm_cons, well_ended_plain by exact Hd. exact IH. Qed.
Lemma closed_well_ended q s : closed_content q s = true -> well_ended s = true.
Proof.
  revert s. fix IH 1. intros s. destruct s as [|c r]; [reflexivity|].
  destruct (N.eqb_spec c 92) as [->|Hne].
  - destruct r as [|c2 r2]; [discriminate|]. simpl. apply IH.
  - rewrite well_ended_plain by exact Hne. intros H.
    assert (closed_content q r = true).
    { simpl in H. destruct c as [|pc]; [apply andb_prop in H; apply H|].
      do 7 (destruct pc as [pc|pc|]; try (apply andb_prop in H; apply H)). congruence. }
    apply IH. assumption.
Qed.
Lemma oct_not_bs c : is_oct c = true -> c <> 92%N.
Proof. intros H ->. discriminate. Qed.
Lemma hexd_not_bs c : is_hexd c = true -> c <> 92%N.
Proof. intros H ->. discriminate. Qed.

(* ------------------------------------------------------------------ UTF-8: the shifts and masks of process_unicode are the arithmetic of the definition *)
Lemma lor_small a y : (a = 128 \/ a = 192 \/ a = 224 \/ a = 240) -> 0 <= y < 64 -> (a = 192 -> y < 32) -> (a = 224 -> y < 16) -> (a = 240 -> y < 8) ->
  Z.lor a y = a + y.
Proof.
  intros Ha Hy H1 H2 H3.
  destruct y as [|p|p]; [destruct Ha as [->|[->|[->| ->]]]; reflexivity| |lia].
  do 6 (try destruct p as [p|p|]); try lia;
    destruct Ha as [->|[->|[->| ->]]]; try reflexivity; try (specialize (H1 eq_refl); lia); try (specialize (H2 eq_refl); lia); try (specialize (H3 eq_refl); lia).
Qed.
Lemma land63 x : 0 <= x -> Z.land x 63 = x mod 64.
Proof. intros H. change 63 with (Z.ones 6). rewrite Z.land_ones by lia. reflexivity. Qed.
Lemma shr x k : 0 <= k -> Z.shiftr x k = x / 2 ^ k.
Proof. intros. apply Z.shiftr_div_pow2. assumption. Qed.

Lemma utf8_enc_ok ch : 0 <= ch < 2097152 -> utf8 ch = Some (utf8_enc ch).
Proof.
  intros H. unfold utf8, utf8_enc.
  destruct (ch <? 128) eqn:E1; [reflexivity|]. apply Z.ltb_ge in E1.
  destruct (ch <? 2048) eqn:E2.
  { apply Z.ltb_lt in E2. rewrite !land63, !shr by lia. change (2 ^ 6) with 64.
    rewrite (lor_small 192), (lor_small 128); auto; try lia; try (intros; discriminate);
      try (pose proof (Z.mod_pos_bound ch 64 ltac:(lia)); lia);
      try (split; [apply Z.div_pos; lia|apply Z.div_lt_upper_bound; lia]);
      try (intros _; apply Z.div_lt_upper_bound; lia); try reflexivity. }
  apply Z.ltb_ge in E2.
  destruct (ch <? 65536) eqn:E3.
  { apply Z.ltb_lt in E3. rewrite !land63, !shr by (try lia; apply Z.shiftr_nonneg; lia). rewrite ?shr by lia.
    change (2 ^ 6) with 64. change (2 ^ 12) with 4096.
    rewrite (lor_small 224), !(lor_small 128); auto; try lia; try (intros; discriminate);
      try (match goal with |- context [?a mod 64] => pose proof (Z.mod_pos_bound a 64 ltac:(lia)) end; lia);
      try (split; [apply Z.div_pos; lia|apply Z.div_lt_upper_bound; lia]);
      try (intros _; apply Z.div_lt_upper_bound; lia); try reflexivity. }
  apply Z.ltb_ge in E3.
  assert (E4 : (ch <? 2097152) = true) by (apply Z.ltb_lt; lia). rewrite E4.
  rewrite !land63, !shr by (try lia; apply Z.shiftr_nonneg; lia). rewrite ?shr by lia.
  change (2 ^ 6) with 64. change (2 ^ 12) with 4096. change (2 ^ 18) with 262144.
  rewrite (lor_small 240), !(lor_small 128); auto; try lia; try (intros; discriminate);
    try (match goal with |- context [?a mod 64] => pose proof (Z.mod_pos_bound a 64 ltac:(lia)) end; lia);
    try (split; [apply Z.div_pos; lia|apply Z.div_lt_upper_bound; lia]);
    try (intros _; apply Z.div_lt_upper_bound; lia); try reflexivity.
Qed.

(* ------------------------------------------------------------------ the automaton computes CxxLiteral.decode *)
Definition pend (c : ccls) : list N :=
  match c with
  | Plain => [] | Esc => [92%N] | Oct o => 92%N :: o | Hex h => 92%N :: 120%N :: h
  | Uni n h => 92%N :: (if Nat.eqb n 4 then 117%N else 85%N) :: h
  end.
Definition crun (st : cst) (l : list N) : cres := cbind (cfeed false st l) cfinish.
Definition good_res (st : cst) (l : list N) (r : cres) : Prop :=
  match r with
  | COk st' => exists bs, decode (pend (c_cls st) ++ l) = Some bs /\ c_m st' = c_m st ++ bs
  | CErr _ _ => decode (pend (c_cls st) ++ l) = None
  end.
Definition claim (st : cst) (l : list N) : Prop :=
  valid st -> well_ended (pend (c_cls st) ++ l) = true -> good_res st l (crun st l).

Lemma crun_cons st t r : crun st (t :: r) = match cstep false st t with COk s' => crun s' r | CErr a b => CErr a b end.
Proof. unfold crun. simpl. destruct (cstep false st t); reflexivity. Qed.

Lemma all_oct_nobs o : all_oct o -> Forall (fun c => c <> 92%N) o.
Proof. apply Forall_impl. intros a. apply oct_not_bs. Qed.
Lemma all_hex_nobs h : all_hex h -> Forall (fun c => c <> 92%N) h.
Proof. apply Forall_impl. intros a. apply hexd_not_bs. Qed.

(* what decode makes of a complete or interrupted escape *)
Lemma decode_oct o rest :
  all_oct o -> (1 <= List.length o <= 3)%nat -> (List.length o = 3%nat \/ match rest with [] => True | c :: _ => is_oct c = false end) ->
  decode (92%N :: o ++ rest) = if num_value 8 o <=? 255 then option_map (app [Z.to_N (num_value 8 o)]) (decode rest) else None.
Proof.
  intros Ho Hl Hstop. destruct o as [|c o']; [simpl in Hl; lia|]. rewrite <- app_comm_cons, decode_esc.
  inversion Ho; subst. rewrite H1. rewrite app_comm_cons, (span_upto_run 3 is_oct (c :: o') rest); auto. lia.
Qed.
Lemma decode_hex h rest :
  all_hex h -> (List.length h <= 2)%nat -> (List.length h = 2%nat \/ match rest with [] => True | c :: _ => is_hexd c = false end) ->
  decode (92%N :: 120%N :: h ++ rest) = match h with [] => None | _ => option_map (app [Z.to_N (num_value 16 h)]) (decode rest) end.
Proof.
  intros Hh Hl Hstop. rewrite decode_esc. change (is_oct 120) with false. cbn iota. rewrite N.eqb_refl.
  rewrite (span_upto_run 2 is_hexd h rest); auto.
Qed.
Lemma decode_uni n h rest :
  all_hex h -> (n = 4 \/ n = 8)%nat -> (List.length h <= n)%nat -> (List.length h = n \/ match rest with [] => True | c :: _ => is_hexd c = false end) ->
  decode (92%N :: (if Nat.eqb n 4 then 117%N else 85%N) :: h ++ rest) =
  if Nat.eqb (List.length h) n && scalar_value (num_value 16 h) then option_map (app (utf8_enc (num_value 16 h))) (decode rest) else None.
Proof.
  intros Hh Hn Hl Hstop. rewrite decode_esc.
  destruct Hn as [-> | ->]; cbn [Nat.eqb]; cbv beta iota.
  - change (is_oct 117) with false. change ((117 =? 120)%N) with false. change ((117 =? 117)%N) with true. cbn [orb]. cbv beta iota.
    rewrite (span_upto_run 4 is_hexd h rest); auto.
  - change (is_oct 85) with false. change ((85 =? 120)%N) with false. change ((85 =? 117)%N) with false. change ((85 =? 85)%N) with true. cbn [orb]. cbv beta iota.
    rewrite (span_upto_run 8 is_hexd h rest); auto.
Qed.

Lemma good_done st l (st1 : cst) bs0 rest :
  decode (pend (c_cls st) ++ l) = option_map (app bs0) (decode rest) ->
  c_m st1 = c_m st ++ bs0 -> c_cls st1 = Plain ->
  forall res, good_res st1 rest res -> good_res st l res.
Proof.
  intros Hd Hm Hc res H. unfold good_res in *. rewrite Hc in H. cbn [pend app] in H. destruct res as [st'|].
  - destruct H as (bs & Hb & Hm'). exists (bs0 ++ bs). rewrite Hd, Hb. split; [reflexivity|]. rewrite Hm', Hm, app_assoc. reflexivity.
  - rewrite Hd, H. reflexivity.
Qed.

Lemma uni_done_spec st n h :
  all_hex h -> (List.length h <= 8)%nat ->
  (Nat.eqb (List.length h) n && scalar_value (num_value 16 h) = true ->
     uni_done st n h = COk (mkCst (c_m st ++ utf8_enc (num_value 16 h)) (c_i st) (c_k st) Plain))
  /\ ((n = 4 \/ n = 8)%nat -> Nat.eqb (List.length h) n && scalar_value (num_value 16 h) = false -> exists a b, uni_done st n h = CErr a b).
Proof.
  intros Hh Hl. pose proof (num_value_bound 16 h ltac:(lia) (all_hex_digits _ Hh)) as [B0 B1].
  assert (B2 : 16 ^ Z.of_nat (List.length h) <= 16 ^ 8) by (apply Z.pow_le_mono_r; lia). change (16 ^ 8) with 4294967296 in B2.
  unfold uni_done, scalar_value. rewrite (Nat.eqb_sym n).
  destruct (Nat.eqb (List.length h) n) eqn:En; cbn [negb andb].
  2:{ split; [discriminate|]. intros _ _. eexists; eexists; reflexivity. }
  apply Nat.eqb_eq in En.
  set (ch := num_value 16 h) in *.
  split.
  - intros Es.
    apply andb_prop in Es. destruct Es as [Es1 Es2]. apply Z.leb_le in Es1. apply negb_true_iff in Es2.
    rewrite <- andb_assoc, Es2, andb_false_r. cbn [orb].
    assert (E3 : (1114111 <? ch) = false) by (apply Z.ltb_ge; lia). rewrite E3, andb_false_r.
    rewrite utf8_enc_ok by lia. reflexivity.
  - intros Hn Hf. destruct ((55296 <=? ch) && (ch <=? 57343)) eqn:Esur; cbn [negb] in Hf.
    + rewrite <- andb_assoc, Esur. destruct Hn as [-> | ->]; cbn [Nat.eqb andb orb]; eexists; eexists; reflexivity.
    + rewrite <- andb_assoc, Esur. rewrite andb_true_r in Hf. apply Z.leb_gt in Hf.
      destruct Hn as [Hn | Hn].
      * exfalso. rewrite En, Hn in B1. change (16 ^ Z.of_nat 4) with 65536 in B1. lia.
      * rewrite Hn. cbn [Nat.eqb andb orb]. assert (E3 : (1114111 <? ch) = true) by (apply Z.ltb_lt; lia). rewrite E3. eexists; eexists; reflexivity.
Qed.

Lemma leb_255 v : (v <=? 255) = negb (255 <? v).
Proof. apply Z.leb_antisym. Qed.

Lemma claim_nil st : claim st [].
Proof.
  intros V W. unfold crun. cbn [cfeed cbind]. destruct st as [m i k cls]. unfold valid in V; cbn [c_cls] in *.
  destruct cls as [| |o|h|n h]; unfold cfinish, good_res; cbn [c_cls c_m pend].
  - exists []. split; [reflexivity|rewrite app_nil_r; reflexivity].
  - discriminate W.
  - destruct V as [Ho Hl]. unfold oct_done. cbn [c_m c_i c_k app].
    pose proof (decode_oct o [] Ho ltac:(lia) (or_intror I)) as D. rewrite leb_255 in D.
    destruct (255 <? num_value 8 o); cbn [negb] in D; [exact D|].
    eexists. split; [exact D|reflexivity].
  - destruct V as [Hh Hl]. unfold hex_done. cbn [c_m c_i c_k app].
    pose proof (decode_hex h [] Hh ltac:(lia) (or_intror I)) as D.
    destruct h; [exact D|]. eexists. split; [exact D|reflexivity].
  - destruct V as (Hh & Hn & Hl). cbn [app].
    pose proof (decode_uni n h [] Hh Hn ltac:(lia) (or_intror I)) as D.
    assert (En : Nat.eqb (List.length h) n = false) by (apply Nat.eqb_neq; lia). rewrite En in D. cbn [andb] in D.
    destruct (uni_done_spec (mkCst m i k (Uni n h)) n h Hh ltac:(lia)) as [_ He].
    destruct (He Hn ltac:(rewrite En; reflexivity)) as (a & b & ->). exact D.
Qed.

Lemma plain_part_cstep st t : c_cls st = Plain -> cstep false st t = plain_part false st false t.
Proof. intros H. unfold cstep. rewrite H. reflexivity. Qed.

(* one more byte, from the Plain and Esc states *)
Lemma claim_plain_esc t r :
  (forall st, claim st r) -> forall st, (c_cls st = Plain \/ c_cls st = Esc) -> claim st (t :: r).
Proof.
  intros IH st Hc V W. rewrite crun_cons. destruct st as [m i k cls]. cbn [c_cls] in *.
  destruct Hc as [-> | ->]; unfold cstep, plain_part; cbn [c_cls c_m c_i c_k pend app andb] in *.
  - (* Plain *)
    destruct (N.eqb_spec t 92) as [->|Hne].
    + apply (IH (mkCst m i k Esc) I W).
    + rewrite well_ended_plain in W by exact Hne.
      eapply (good_done (mkCst m i k Plain) (t :: r) (mkCst (m ++ [t]) i k Plain) [t] r); try reflexivity.
      * apply decode_plain, Hne.
      * apply (IH (mkCst (m ++ [t]) i k Plain) I W).
  - (* Esc *)
    destruct (N.eqb_spec t 92) as [->|Hne].
    + eapply (good_done (mkCst m i k Esc) (92%N :: r) (mkCst (m ++ [92%N]) i k Plain) [92%N] r); try reflexivity.
      * cbn [c_cls pend app]. rewrite decode_esc. reflexivity.
      * apply (IH (mkCst (m ++ [92%N]) i k Plain) I W).
    + destruct (is_oct t) eqn:Eo.
      { apply (IH (mkCst m i k (Oct [t]))); [split; [repeat constructor; exact Eo|simpl; lia]|exact W]. }
      destruct (N.eqb_spec t 120) as [->|Hx].
      { apply (IH (mkCst m i k (Hex []))); [split; [constructor|simpl; lia]|exact W]. }
      destruct (N.eqb_spec t 117) as [->|Hu].
      { apply (IH (mkCst m i k (Uni 4 []))); [split; [constructor|split; [auto|simpl; lia]]|exact W]. }
      destruct (N.eqb_spec t 85) as [->|HU].
      { apply (IH (mkCst m i k (Uni 8 []))); [split; [constructor|split; [auto|simpl; lia]]|exact W]. }
      assert (Hsimple : simple_esc t = simple_escape t).
      { unfold simple_esc, simple_escape. destruct t as [|p]; [reflexivity|]. do 7 (destruct p as [p|p|]; try reflexivity). congruence. }
      assert (Hd : decode (92%N :: t :: r) = match simple_escape t with Some b => option_map (app [b]) (decode r) | None => None end).
      { rewrite decode_esc, Eo. apply N.eqb_neq in Hx, Hu, HU. rewrite Hx, Hu, HU. cbn [orb]. rewrite Hsimple. reflexivity. }
      destruct (simple_escape t) as [b|].
      * eapply (good_done (mkCst m i k Esc) (t :: r) (mkCst (m ++ [b]) i k Plain) [b] r); try reflexivity; [exact Hd|].
        apply (IH (mkCst (m ++ [b]) i k Plain) I). simpl in W. exact W.
      * exact Hd.
Qed.

Lemma good_absorb st st1 t r res :
  pend (c_cls st1) ++ r = pend (c_cls st) ++ t :: r -> c_m st1 = c_m st -> good_res st1 r res -> good_res st (t :: r) res.
Proof. intros Hp Hm H. unfold good_res in *. rewrite <- Hp, <- Hm. exact H. Qed.
Lemma well_ended_esc_run ds r : ds <> [] -> Forall (fun c => c <> 92%N) ds -> well_ended (92%N :: ds ++ r) = well_ended r.
Proof. intros Hne H. destruct ds as [|d ds']; [congruence|]. inversion H; subst. cbn [app well_ended]. apply well_ended_run. assumption. Qed.
Lemma snoc_cons_app {X} (o : list X) t r : (o ++ [t]) ++ r = o ++ t :: r.
Proof. rewrite <- app_assoc. reflexivity. Qed.
Lemma crun_redispatch st1 t r : c_cls st1 = Plain ->
  match plain_part false st1 false t with COk s' => crun s' r | CErr a b => CErr a b end = crun st1 (t :: r).
Proof. intros H. rewrite crun_cons, (plain_part_cstep _ _ H). reflexivity. Qed.

Lemma claim_others t r :
  (forall st, claim st r) -> (forall st, c_cls st = Plain -> claim st (t :: r)) -> forall st, claim st (t :: r).
Proof.
  intros IH HP st V W. destruct st as [m i k cls]. pose proof V as V0. unfold valid in V; cbn [c_cls] in V.
  destruct cls as [| |o|h|n h].
  - apply (HP (mkCst m i k Plain) eq_refl V0 W).
  - apply (claim_plain_esc t r IH (mkCst m i k Esc) (or_intror eq_refl) V0 W).
  - (* Oct *)
    destruct V as [Ho Hl]. rewrite crun_cons. unfold cstep. cbn [c_cls c_m c_i c_k pend] in *.
    assert (Wr : forall ds, ds <> [] -> Forall (fun c => c <> 92%N) ds -> well_ended (92%N :: ds ++ t :: r) = true -> well_ended (t :: r) = true)
      by (intros ds Hne Hds Hw; rewrite well_ended_esc_run in Hw; assumption).
    destruct (is_oct t) eqn:Et.
    + assert (Hot : all_oct (o ++ [t])) by (apply Forall_app; split; [exact Ho|repeat constructor; exact Et]).
      destruct (Nat.eqb (List.length (o ++ [t])) 3) eqn:E3.
      * apply Nat.eqb_eq in E3.
        pose proof (decode_oct (o ++ [t]) r Hot ltac:(lia) (or_introl E3)) as D. rewrite snoc_cons_app, leb_255 in D.
        unfold oct_done. cbn [c_m c_i c_k]. destruct (255 <? num_value 8 (o ++ [t])); cbn [negb] in D; [exact D|].
        eapply (good_done (mkCst m i k (Oct o)) (t :: r) (mkCst (m ++ [Z.to_N (num_value 8 (o ++ [t]))]) i k Plain) _ r D); try reflexivity.
        apply IH; [exact I|]. cbn [c_cls pend app].
        assert (Hw : well_ended (92%N :: (o ++ [t]) ++ r) = true) by (rewrite snoc_cons_app; exact W).
        rewrite well_ended_esc_run in Hw; [exact Hw| |apply all_oct_nobs, Hot]. destruct o; discriminate.
      * apply (good_absorb (mkCst m i k (Oct o)) (mkCst m i k (Oct (o ++ [t]))) t r); [cbn [c_cls pend]; rewrite <- app_comm_cons, snoc_cons_app; reflexivity|reflexivity|].
        apply IH.
        { split; [exact Hot|]. apply Nat.eqb_neq in E3. rewrite app_length1 in *. lia. }
        cbn [c_cls pend]. rewrite <- app_comm_cons, snoc_cons_app. exact W.
    + pose proof (decode_oct o (t :: r) Ho ltac:(lia) (or_intror Et)) as D. rewrite leb_255 in D.
      unfold oct_done. cbn [c_m c_i c_k]. destruct (255 <? num_value 8 o); cbn [negb cbind] in *; [exact D|].
      rewrite crun_redispatch by reflexivity.
      eapply (good_done (mkCst m i k (Oct o)) (t :: r) (mkCst (m ++ [Z.to_N (num_value 8 o)]) i k Plain) _ (t :: r) D); try reflexivity.
      apply HP; [reflexivity|exact I|]. cbn [c_cls pend app]. apply (Wr o); [destruct o; [simpl in Hl; lia|discriminate]|apply all_oct_nobs, Ho|exact W].
  - (* Hex *)
    destruct V as [Hh Hl]. rewrite crun_cons. unfold cstep. cbn [c_cls c_m c_i c_k pend] in *.
    destruct (is_hexd t) eqn:Et.
    + assert (Hht : all_hex (h ++ [t])) by (apply Forall_app; split; [exact Hh|repeat constructor; exact Et]).
      destruct (Nat.eqb (List.length (h ++ [t])) 2) eqn:E2.
      * apply Nat.eqb_eq in E2.
        pose proof (decode_hex (h ++ [t]) r Hht ltac:(lia) (or_introl E2)) as D. rewrite snoc_cons_app in D.
        unfold hex_done. cbn [c_m c_i c_k]. destruct (h ++ [t]) as [|x y] eqn:Ex; [destruct h; discriminate|]. rewrite <- Ex in *.
        eapply (good_done (mkCst m i k (Hex h)) (t :: r) (mkCst (m ++ [Z.to_N (num_value 16 (h ++ [t]))]) i k Plain) _ r D); try reflexivity.
        apply IH; [exact I|]. cbn [c_cls pend app].
        assert (Hw : well_ended (92%N :: (120%N :: h ++ [t]) ++ r) = true) by (cbn [app]; rewrite snoc_cons_app; exact W).
        rewrite well_ended_esc_run in Hw; [exact Hw|discriminate|]. constructor; [discriminate|apply all_hex_nobs, Hht].
      * apply (good_absorb (mkCst m i k (Hex h)) (mkCst m i k (Hex (h ++ [t]))) t r); [cbn [c_cls pend app]; rewrite snoc_cons_app; reflexivity|reflexivity|].
        apply IH.
        { split; [exact Hht|]. apply Nat.eqb_neq in E2. rewrite app_length1 in *. lia. }
        cbn [c_cls pend app]. rewrite snoc_cons_app. exact W.
    + pose proof (decode_hex h (t :: r) Hh ltac:(lia) (or_intror Et)) as D.
      unfold hex_done. cbn [c_m c_i c_k]. destruct h as [|x y] eqn:Ex; [exact D|]. rewrite <- Ex in *. cbn [cbind].
      rewrite crun_redispatch by reflexivity.
      eapply (good_done (mkCst m i k (Hex h)) (t :: r) (mkCst (m ++ [Z.to_N (num_value 16 h)]) i k Plain) _ (t :: r) D); try reflexivity.
      apply HP; [reflexivity|exact I|]. cbn [c_cls pend app].
      assert (Hw : well_ended (92%N :: (120%N :: h) ++ t :: r) = true) by exact W.
      rewrite well_ended_esc_run in Hw; [exact Hw|discriminate|]. constructor; [discriminate|apply all_hex_nobs, Hh].
  - (* Uni *)
    destruct V as (Hh & Hn & Hl). rewrite crun_cons. unfold cstep. cbn [c_cls c_m c_i c_k pend] in *.
    set (u := if Nat.eqb n 4 then 117%N else 85%N) in *.
    assert (Hu : u <> 92%N) by (unfold u; destruct (Nat.eqb n 4); discriminate).
    destruct (is_hexd t) eqn:Et.
    + assert (Hht : all_hex (h ++ [t])) by (apply Forall_app; split; [exact Hh|repeat constructor; exact Et]).
      destruct (Nat.eqb (List.length (h ++ [t])) n) eqn:En.
      * apply Nat.eqb_eq in En.
        pose proof (decode_uni n (h ++ [t]) r Hht Hn ltac:(lia) (or_introl En)) as D. fold u in D. rewrite snoc_cons_app in D.
        destruct (uni_done_spec (mkCst m i k (Uni n h)) n (h ++ [t]) Hht ltac:(rewrite app_length1; lia)) as [Hok Herr].
        destruct (Nat.eqb (List.length (h ++ [t])) n && scalar_value (num_value 16 (h ++ [t]))) eqn:Ec.
        { rewrite (Hok eq_refl).
          eapply (good_done (mkCst m i k (Uni n h)) (t :: r) (mkCst (m ++ utf8_enc (num_value 16 (h ++ [t]))) i k Plain) _ r D); try reflexivity.
          apply IH; [exact I|]. cbn [c_cls pend app].
          assert (Hw : well_ended (92%N :: (u :: h ++ [t]) ++ r) = true) by (cbn [app]; rewrite snoc_cons_app; exact W).
          rewrite well_ended_esc_run in Hw; [exact Hw|discriminate|]. constructor; [exact Hu|apply all_hex_nobs, Hht]. }
        { destruct (Herr Hn eq_refl) as (a & b & ->). exact D. }
      * apply (good_absorb (mkCst m i k (Uni n h)) (mkCst m i k (Uni n (h ++ [t]))) t r); [cbn [c_cls pend app]; rewrite snoc_cons_app; reflexivity|reflexivity|].
        apply IH.
        { split; [exact Hht|split; [exact Hn|]]. apply Nat.eqb_neq in En. rewrite app_length1 in *. lia. }
        cbn [c_cls pend app]. fold u. rewrite snoc_cons_app. exact W.
    + pose proof (decode_uni n h (t :: r) Hh Hn ltac:(lia) (or_intror Et)) as D. fold u in D.
      assert (En : Nat.eqb (List.length h) n = false) by (apply Nat.eqb_neq; lia). rewrite En in D. cbn [andb] in D.
      destruct (uni_done_spec (mkCst m i k (Uni n h)) n h Hh ltac:(lia)) as [_ Herr].
      destruct (Herr Hn ltac:(rewrite En; reflexivity)) as (a & b & ->). exact D.
Qed.

Theorem decode_equiv : forall l st, claim st l.
Proof.
  induction l as [|t r IH]; intros st; [apply claim_nil|].
  apply claim_others; [exact IH|]. intros st' Hc. apply claim_plain_esc; [exact IH|left; exact Hc].
Qed.

(* ------------------------------------------------------------------ Quoted_String's scan without `${`: same as feeding with interpolation off *)
Definition unmark (st : cst) : cst := if c_k st then mkCst (c_m st ++ [36%N]) (c_i st) false (c_cls st) else st.
Definition markk (st : cst) : cst := mkCst (c_m st) (c_i st) true (c_cls st).

Lemma plain_part_k b s esc t s' : plain_part b s esc t = COk s' -> c_k s = false -> (b = false \/ t <> 36%N \/ esc = true) -> c_k s' = false.
Proof.
  intros H Hk Hb. unfold plain_part in H.
  destruct (t =? 92)%N; [destruct esc; inversion H; subst; exact Hk|].
  destruct esc.
  - destruct (is_oct t); [inversion H; subst; exact Hk|]. destruct (t =? 120)%N; [inversion H; subst; exact Hk|].
    destruct (t =? 117)%N; [inversion H; subst; exact Hk|]. destruct (t =? 85)%N; [inversion H; subst; exact Hk|].
    destruct (simple_escape t); inversion H; subst; exact Hk.
  - destruct (b && (t =? 36)%N) eqn:E; [|inversion H; subst; exact Hk].
    apply andb_prop in E. destruct E as [-> E]. apply N.eqb_eq in E. destruct Hb as [?|[?|?]]; congruence.
Qed.

Lemma cstep_true_false st t :
  c_k st = false ->
  (cstep true st t = cstep false st t /\ (forall s', cstep true st t = COk s' -> c_k s' = false))
  \/ (t = 36%N /\ exists s1, c_cls s1 = Plain /\ c_k s1 = false /\ cstep true st t = COk (markk s1)
                             /\ cstep false st t = COk (mkCst (c_m s1 ++ [36%N]) (c_i s1) false Plain)).
Proof.
  intros Hk.
  assert (PP : forall s, c_k s = false ->
             (plain_part true s false t = plain_part false s false t /\ (forall s', plain_part true s false t = COk s' -> c_k s' = false))
             \/ (t = 36%N /\ exists s1, c_cls s1 = Plain /\ c_k s1 = false /\ plain_part true s false t = COk (markk s1)
                             /\ plain_part false s false t = COk (mkCst (c_m s1 ++ [36%N]) (c_i s1) false Plain))).
  { intros s Hs. destruct (N.eqb_spec t 36) as [->|Hne].
    - right. split; [reflexivity|]. exists (mkCst (c_m s) (c_i s) false Plain). repeat split. unfold plain_part. cbn. rewrite Hs. reflexivity.
    - left. assert (E : (t =? 36)%N = false) by (apply N.eqb_neq; exact Hne).
      split; [unfold plain_part; rewrite E; reflexivity|]. intros s' H. eapply plain_part_k; eauto. }
  assert (PE : forall s, c_k s = false ->
             plain_part true s true t = plain_part false s true t /\ (forall s', plain_part true s true t = COk s' -> c_k s' = false)).
  { intros s Hs. split; [unfold plain_part; reflexivity|]. intros s' H. eapply plain_part_k; eauto. }
  destruct st as [m i k cls]. cbn [c_k] in Hk. subst k. unfold cstep. cbn [c_cls c_m c_i c_k].
  destruct cls as [| |o|h|n h].
  - apply PP. reflexivity.
  - left. apply PE. reflexivity.
  - destruct (is_oct t).
    + left. split; [reflexivity|]. destruct (Nat.eqb _ 3); [unfold oct_done; destruct (255 <? _)|]; intros s' H; inversion H; subst; reflexivity.
    + unfold oct_done. cbn [c_m c_i c_k]. destruct (255 <? _); cbn [cbind]; [left; split; [reflexivity|discriminate]|]. apply PP. reflexivity.
  - destruct (is_hexd t).
    + left. split; [reflexivity|]. destruct (Nat.eqb _ 2); [unfold hex_done; destruct (h ++ [t])|]; intros s' H; inversion H; subst; reflexivity.
    + unfold hex_done. cbn [c_m c_i c_k]. destruct h; cbn [cbind]; [left; split; [reflexivity|discriminate]|]. apply PP. reflexivity.
  - destruct (is_hexd t).
    + left. split; [reflexivity|]. destruct (Nat.eqb _ n); [|intros s' H; inversion H; subst; reflexivity].
      unfold uni_done. cbn [c_m c_i c_k]. intros s'.
      repeat match goal with |- context [if ?c then _ else _] => destruct c; [discriminate|] end.
      destruct (utf8 _); intros H; inversion H; subst; reflexivity.
    + destruct (uni_done _ n h) as [s1|] eqn:Eu; cbn [cbind]; [|left; split; [reflexivity|discriminate]].
      apply PP. unfold uni_done in Eu. cbn [c_m c_i c_k] in Eu.
      repeat match type of Eu with (if ?c then _ else _) = _ => destruct c; [discriminate|] end.
      destruct (utf8 _); inversion Eu; subst; reflexivity.
Qed.

Definition qs_good (l c : Z) (st : cst) (s : list N) (q : qstring) : Prop :=
  qs_segs q = [] /\
  match qs_final q with
  | QFin bs => exists st', crun (unmark st) s = COk st' /\ c_m st' = bs
  | QErr _ _ _ => exists a b, crun (unmark st) s = CErr a b
  end.

Lemma cfinish_k st st' : cfinish st = COk st' -> c_k st' = c_k st.
Proof.
  destruct st as [m i k cls]. unfold cfinish. cbn [c_cls]. destruct cls as [| |o|h|n h].
  - intros H; inversion H; reflexivity.
  - intros H; inversion H; reflexivity.
  - unfold oct_done. destruct (255 <? _); intros H; inversion H; reflexivity.
  - unfold hex_done. destruct h; intros H; inversion H; reflexivity.
  - unfold uni_done. repeat match goal with |- context [if ?c then _ else _] => destruct c; [discriminate|] end.
    destruct (utf8 _); intros H; inversion H; reflexivity.
Qed.

Lemma qs_scan_plain l c : forall fuel s st,
  valid st -> (c_k st = true -> c_cls st = Plain /\ match s with d :: _ => d <> 123%N | [] => True end) ->
  has_dollar_brace s = false ->
  (2 * List.length s + (if c_k st then 1 else 0) < fuel)%nat ->
  exists q, qs_scan fuel l c (inj st) [] s = QS q /\ qs_good l c st s q.
Proof.
  induction fuel as [|f IH]; intros s st V Hk Hdb Hf; [lia|].
  cbn [qs_scan]. destruct s as [|t r].
  - rewrite cp_finish_inj by exact V. destruct (c_k st) eqn:Ek.
    + destruct (Hk eq_refl) as [Hc _]. destruct st as [m i k cls]. cbn [c_cls c_k] in *. subst. cbn.
      eexists. split; [reflexivity|]. split; [reflexivity|]. cbn. eexists. split; [reflexivity|reflexivity].
    + destruct (cfinish st) as [st'|a b] eqn:Ef; cbn [lift].
      * assert (Hk' : cp_marker (inj st') = false).
        { replace (cp_marker (inj st')) with (c_k st') by (destruct st' as [? ? ? []]; reflexivity). rewrite (cfinish_k _ _ Ef). exact Ek. }
        rewrite Hk'. eexists. split; [reflexivity|]. split; [reflexivity|]. cbn [qs_final]. exists st'.
        unfold unmark. rewrite Ek. unfold crun. cbn [cfeed cbind]. split; [exact Ef|]. destruct st' as [? ? ? []]; reflexivity.
      * eexists. split; [reflexivity|]. split; [reflexivity|]. cbn [qs_final]. unfold unmark. rewrite Ek. unfold crun. cbn [cfeed cbind]. rewrite Ef.
        eexists; eexists; reflexivity.
  - assert (Hm : cp_marker (inj st) = c_k st) by (destruct st as [m i k []]; reflexivity). rewrite Hm.
    assert (Hdb' : has_dollar_brace r = false) by (simpl in Hdb; apply orb_false_elim in Hdb; apply Hdb).
    destruct (c_k st) eqn:Ek.
    + destruct (Hk eq_refl) as [Hc Hne]. apply N.eqb_neq in Hne. rewrite Hne.
      assert (Ei : mkCp (cp_match (inj st) ++ [36%N]) (cp_escaped (inj st)) (cp_interpolated (inj st)) false (cp_octal (inj st)) (cp_hex (inj st))
                        (cp_usize (inj st)) (cp_octs (inj st)) (cp_hexs (inj st))
                   = inj (unmark st)) by (unfold unmark; rewrite Ek; destruct st as [m i k []]; reflexivity).
      rewrite Ei.
      assert (Hku : c_k (unmark st) = false) by (unfold unmark; rewrite Ek; reflexivity).
      destruct (IH (t :: r) (unmark st)) as (q & Hq & Hg).
      * unfold valid, unmark. rewrite Ek. exact V.
      * rewrite Hku. discriminate.
      * exact Hdb.
      * rewrite Hku. lia.
      * exists q. split; [exact Hq|]. unfold qs_good in *. assert (Huu : unmark (unmark st) = unmark st) by (unfold unmark at 1; rewrite Hku; reflexivity). rewrite Huu in Hg. exact Hg.
    + rewrite cp_parse_inj by exact V.
      assert (Hu : unmark st = st) by (unfold unmark; rewrite Ek; reflexivity).
      destruct (cstep_true_false st t Ek) as [[Heq Hk']|(-> & s1 & Hc1 & Hk1 & Ht & Hfl)].
      * destruct (cstep true st t) as [s'|a b] eqn:E; cbn [lift].
        { specialize (Hk' s' eq_refl).
          destruct (IH r s') as (q & Hq & Hg).
          - eapply cstep_valid; eauto.
          - rewrite Hk'. discriminate.
          - exact Hdb'.
          - rewrite Hk'. simpl in Hf. lia.
          - exists q. split; [exact Hq|]. unfold qs_good in *. rewrite Hu, crun_cons, <- Heq.
            assert (Hus : unmark s' = s') by (unfold unmark; rewrite Hk'; reflexivity). rewrite Hus in Hg. exact Hg. }
        { eexists. split; [reflexivity|]. split; [reflexivity|]. rewrite Hu, crun_cons, <- Heq.
          destruct b; cbn [qs_final]; eexists; eexists; reflexivity. }
      * rewrite Ht. cbn [lift].
        destruct (IH r (markk s1)) as (q & Hq & Hg).
        { pose proof (cstep_valid true st 36%N _ V Ht) as V1. exact V1. }
        { intros _. split; [exact Hc1|]. destruct r as [|d r']; [exact I|]. simpl in Hdb. apply orb_false_elim in Hdb. destruct Hdb as [Hd _].
          cbn in Hd. intros ->. discriminate. }
        { exact Hdb'. }
        { cbn [markk c_k]. simpl in Hf. lia. }
        exists q. split; [exact Hq|]. unfold qs_good in *. rewrite Hu, crun_cons, Hfl.
        assert (Hum : unmark (markk s1) = mkCst (c_m s1 ++ [36%N]) (c_i s1) false Plain)
          by (unfold unmark, markk; cbn [c_k c_m c_i c_cls]; rewrite Hc1; reflexivity).
        rewrite Hum in Hg. exact Hg.
Qed.

(* ------------------------------------------------------------------ C16_escape / C16_char *)
Definition st0 : cst := mkCst [] false false Plain.

Theorem escape_thm : forall body l c,
  closed_content 34 body = true -> has_dollar_brace body = false ->
  exists q, qs_scan (2 * List.length body + 2) l c cp_init [] body = QS q /\ qs_segs q = [] /\
            match decode body with
            | Some bs => qs_final q = QFin bs
            | None => exists r l' c', qs_final q = QErr r l' c'
            end.
Proof.
  intros body l c Hc Hdb.
  destruct (qs_scan_plain l c (2 * List.length body + 2) body st0 I) as (q & Hq & Hs & Hg).
  - discriminate.
  - exact Hdb.
  - cbn [st0 c_k]. lia.
  - exists q. split; [exact Hq|]. split; [exact Hs|].
    pose proof (decode_equiv body st0 I (closed_well_ended _ _ Hc)) as G. unfold good_res in G. cbn [st0 c_cls pend app c_m] in G.
    change (unmark st0) with st0 in Hg.
    destruct (qs_final q) as [bs|r l' c'].
    + destruct Hg as (st' & Hr & Hm). rewrite Hr in G. destruct G as (bs' & Hd & Hm'). rewrite Hd. f_equal. congruence.
    + destruct Hg as (a & b & Hr). rewrite Hr in G. rewrite G. eexists; eexists; eexists; reflexivity.
Qed.

Theorem char_thm : forall body,
  closed_content 39 body = true ->
  match cp_feed false cp_init body with
  | CPOk c1 =>
      match cp_finish c1 with
      | CPOk c2 => match char_literal body with Some ch => cp_match c2 = [ch] | None => List.length (cp_match c2) <> 1%nat end
      | CPErr _ _ => char_literal body = None
      | CPCrash _ => False
      end
  | CPErr _ _ => char_literal body = None
  | CPCrash _ => False
  end.
Proof.
  intros body Hc. rewrite cp_init_inj, cp_feed_inj by exact I. change (mkCst [] false false Plain) with st0.
  pose proof (decode_equiv body st0 I (closed_well_ended _ _ Hc)) as G. unfold good_res, crun in G. cbn [st0 c_cls pend app c_m] in G.
  unfold char_literal.
  destruct (cfeed false st0 body) as [s1|a b] eqn:Ef; cbn [lift cbind] in *.
  - rewrite cp_finish_inj by (eapply cfeed_valid; [|exact Ef]; exact I).
    destruct (cfinish s1) as [s2|a b]; cbn [lift].
    + destruct G as (bs & Hd & Hm). rewrite Hd.
      assert (Hm2 : cp_match (inj s2) = bs) by (destruct s2 as [? ? ? []]; exact Hm).
      rewrite Hm2. destruct bs as [|x [|y z]]; [discriminate|reflexivity|discriminate].
    + rewrite G. reflexivity.
  - rewrite G. reflexivity.
Qed.

(* strings with interpolation switched off: the same decoding (used for '...' and for "..." without `$`) *)
Theorem feed_thm : forall body,
  closed_content 34 body = true \/ closed_content 39 body = true ->
  match cp_run false body with
  | CPOk c => decode body = Some (cp_match c)
  | CPErr _ _ => decode body = None
  | CPCrash _ => False
  end.
Proof.
  intros body Hc. assert (W : well_ended body = true) by (destruct Hc; eapply closed_well_ended; eauto).
  unfold cp_run. rewrite cp_init_inj, cp_feed_inj by exact I. change (mkCst [] false false Plain) with st0.
  pose proof (decode_equiv body st0 I W) as G. unfold good_res, crun in G. cbn [st0 c_cls pend app c_m] in G.
  destruct (cfeed false st0 body) as [s1|a b] eqn:Ef; cbn [lift cbind cp_bind] in *; [|exact G].
  rewrite cp_finish_inj by (eapply cfeed_valid; [|exact Ef]; exact I).
  destruct (cfinish s1) as [s2|a b]; cbn [lift]; [|exact G].
  destruct G as (bs & Hd & Hm). rewrite Hd. f_equal. destruct s2 as [? ? ? []]; symmetry; exact Hm.
Qed.
