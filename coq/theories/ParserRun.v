(* C01 / C20 — executable mechanism model: the grammar layer of ParserDefs over the tables regenerated from the source.
   One case per line, same input lines as harness/h_parse.cpp:
     raw <hex input> [<hex file name>]     -> OK <tree dump in the format of harness/astdump.hpp>
                                            | ERR(eval_error) <hex reason> <line>:<col>
                                            | CRASH <kind> | OUTOFFUEL
     nodes <hex input> [<hex file name>]   -> OK Kind@<hex file>:<l1>:<c1>-<l2>:<c2>, ...   every Id / Fun_Call / Dot_Access / Array_Call
                                              node of the tree in pre-order (C20), or the ERR / CRASH / OUTOFFUEL line as above
     ticks <hex input>                     -> TICKS <n> <outcome class>   n = grammar-function invocations the model made
   (line splitting and hex decoding are done here, linearly: StrUtil.words / bytes_of_hex are quadratic in the line length) *)
From Coq Require Import ZArith NArith List Bool String Ascii.
From ChaiV Require Import StrUtil NumDefs Ast LexDefs ParserDefs.
From ChaiV.Gen Require Import G_IntLadder G_Keywords G_OperatorTable.
Import ListNotations.
Local Open Scope string_scope.

Definition A := alphabets_gen.
Definition T := int_tables_gen.
Definition K := kw_tables_gen.
Definition G := gtables_gen.

Definition show_crash (k : crash) : string :=
  match k with OOB_dec => "OOB_dec" | OOB_read => "OOB_read" | Foreign_out_of_range => "std:out_of_range"
          | Foreign_invalid_argument => "std:invalid_argument" | Terminate => "terminate" end.
Definition show_err (r : string) (l c : Z) : string :=
  "ERR(eval_error) " ++ hex_of_bytes (LexDefs.bytes_of_string r) ++ " " ++ dec_of_z l ++ ":" ++ dec_of_z c.

Definition interesting (k : kind) : bool :=
  match k with KId | KFun_Call | KDot_Access | KArray_Call => true | _ => false end.
Fixpoint nodes_of (n : pnode) : list string :=
  let 'PN k t l f c ch := n in
  (if interesting k then [name_of_kind k ++ "@" ++ hex_of_bytes (LexDefs.bytes_of_string f) ++ ":" ++ show_loc l] else [])
  ++ flat_map nodes_of ch.

Definition run_parse (show : pnode -> string) (input : list N) (file : string) : string :=
  match parse A T K G input file with
  | Ok n => "OK " ++ show n
  | Err r l c => show_err r l c
  | Crash k => "CRASH " ++ show_crash k
  | OutOfFuel => "OUTOFFUEL"
  end.

Fixpoint span_sp (s : string) : string * string :=
  match s with
  | EmptyString => ("", "")
  | String c r => if Ascii.eqb c " " then ("", r) else let '(w, rest) := span_sp r in (String c w, rest)
  end.
Fixpoint unhex (s : string) : option (list N) :=
  match s with
  | EmptyString => Some []
  | String a (String b r) =>
      match hexval a, hexval b, unhex r with
      | Some x, Some y, Some l => Some ((16 * x + y)%N :: l)
      | _, _, _ => None
      end
  | _ => None
  end.
Definition unhex_field (s : string) : option (list N) := if String.eqb s "-" then Some [] else unhex s.

Definition run_ticks (input : list N) : string :=
  match parse_full A T K G input "F" with
  | Ok (_, s) => "TICKS " ++ dec_of_N (ticks (user s)) ++ " ok"
  | Err _ _ _ => "TICKS 0 eval_error"
  | Crash _ => "TICKS 0 crash"
  | OutOfFuel => "TICKS 0 outoffuel"
  end.

Definition run_line (l : string) : string :=
  let '(cmd, r1) := span_sp l in
  let '(f1, r2) := span_sp r1 in
  let '(f2, _) := span_sp r2 in
  let file := if String.eqb f2 "" then "F" else match unhex_field f2 with Some b => LexDefs.string_of_bytes b | None => "F" end in
  match unhex_field f1 with
  | None => "BADCASE"
  | Some input =>
      if String.eqb cmd "raw" then run_parse (fun n => show_ast (to_ast n)) input file
      else if String.eqb cmd "nodes" then run_parse (fun n => join "," (nodes_of n)) input file
      else if String.eqb cmd "ticks" then run_ticks input
      else "BADCASE"
  end.
