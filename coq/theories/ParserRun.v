(* C01 / C20 — executable mechanism model: the grammar layer of ParserDefs over the tables regenerated from the source.
   One case per line, same input lines as harness/h_parse.cpp:
     raw <hex input> [<hex file name>]     -> OK <tree dump in the format of harness/astdump.hpp>
                                            | ERR(eval_error) <hex reason> <line>:<col>
                                            | CRASH <kind> | OUTOFFUEL
     nodes <hex input> [<hex file name>]   -> OK Kind@<hex file>:<l1>:<c1>-<l2>:<c2>, ...   every Id / Fun_Call / Dot_Access / Array_Call
                                              node of the tree in pre-order (C20), or the ERR / CRASH / OUTOFFUEL line as above *)
From Coq Require Import ZArith NArith List Bool String Ascii.
From ChaiV Require Import StrUtil NumDefs Ast LexDefs ParserDefs.
From ChaiV.Gen Require Import G_IntLadder G_Keywords G_OperatorTable.
Import ListNotations.
Local Open Scope string_scope.

Definition A := alphabets_gen.
Definition T := int_tables_gen.
Definition K := kw_tables_gen.
Definition G := gtables_gen.

Definition show_crash (k : crash) : string :=
  match k with OOB_dec => "OOB_dec" | OOB_read => "OOB_read" | Foreign_out_of_range => "std:out_of_range"
          | Foreign_invalid_argument => "std:invalid_argument" | Terminate => "terminate" end.
Definition show_err (r : string) (l c : Z) : string :=
  "ERR(eval_error) " ++ hex_of_bytes (LexDefs.bytes_of_string r) ++ " " ++ dec_of_z l ++ ":" ++ dec_of_z c.

Definition interesting (k : kind) : bool :=
  match k with KId | KFun_Call | KDot_Access | KArray_Call => true | _ => false end.
Fixpoint nodes_of (n : pnode) : list string :=
  let 'PN k t l f c ch := n in
  (if interesting k then [name_of_kind k ++ "@" ++ hex_of_bytes (LexDefs.bytes_of_string f) ++ ":" ++ show_loc l] else [])
  ++ flat_map nodes_of ch.

Definition run_parse (show : pnode -> string) (input : list N) (file : string) : string :=
  match parse A T K G input file with
  | Ok n => "OK " ++ show n
  | Err r l c => show_err r l c
  | Crash k => "CRASH " ++ show_crash k
  | OutOfFuel => "OUTOFFUEL"
  end.

Definition run_line (l : string) : string :=
  let w := words l in
  let cmd := nth_word 0 w in
  let file := match nth_error w 2 with
              | Some h => match bytes_of_hex h with Some b => LexDefs.string_of_bytes b | None => "F" end
              | None => "F"
              end in
  match bytes_of_hex (nth_word 1 w) with
  | None => "BADCASE"
  | Some input =>
      if String.eqb cmd "raw" then run_parse (fun n => show_ast (to_ast n)) input file
      else if String.eqb cmd "nodes" then run_parse (fun n => join "," (nodes_of n)) input file
      else "BADCASE"
  end.
