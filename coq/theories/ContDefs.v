(* C12 — model of the built-in containers (std::vector / list / string / map / pair, Bidir_Range),
   of the std:: operations with their standard preconditions, of the registration wrappers
   (guard + forwarded operation), and the list-function specification of every script-visible name.
   Definitions only (total, computable); proofs are in ContProofs.v / ContTheorems.v. *)
From Coq Require Import ZArith NArith String Ascii List Bool.
Import ListNotations.
Local Open Scope Z_scope.

Definition bytes := list N.

(* script values that are stored in / passed to / returned by the containers *)
Inductive val :=
| VUndef | VUnit | VBool (b : bool) | VInt (z : Z) | VChar (c : N) | VStr (s : bytes)
| VPair (a b : val) | VMapLit (m : list (bytes * Z)).

Inductive ckind := KVector | KList | KString | KMap | KPair | KRange.

(* std::vector / std::list : list V; std::string : byte list; std::map<string,V> : key-sorted association list;
   Bidir_Range : (snapshot of the viewed container's elements, begin index, end index) *)
Inductive cstate :=
| SVec (l : list val)
| SStr (s : bytes)
| SMap (m : list (bytes * val))
| SPair (a b : val)
| SRange (snap : list val) (b e : nat).

Inductive exn := XRange | XOutOfRange | XLength | XDispatch.

(* UB: the std:: precondition is violated and nothing checked it *)
Inductive outcome := Ok (st : cstate) (r : val) | Raised (x : exn) | UB.

(* ---------------------------------------------------------------- integers *)
Definition two32 : Z := 4294967296.
Definition two64 : Z := 18446744073709551616.
Definition npos : Z := 18446744073709551615.
(* PTRDIFF_MAX / sizeof(Boxed_Value); growth beyond it raises length_error (resource bound of the model) *)
Definition max_size : Z := 576460752303423487.
Definition to_int (z : Z) : Z := let m := z mod two32 in if m <? 2147483648 then m else m - two32.
Definition to_size (z : Z) : Z := z mod two64.

Definition zlen {A} (l : list A) : Z := Z.of_nat (length l).

(* ---------------------------------------------------------------- list functions *)
Definition insert_nth {A} (n : nat) (v : A) (l : list A) : list A := firstn n l ++ v :: skipn n l.
Definition remove_nth {A} (n : nat) (l : list A) : list A := firstn n l ++ skipn (S n) l.
Definition resize_list {A} (n : nat) (d : A) (l : list A) : list A := firstn n l ++ repeat d (n - length l).
Fixpoint set_nth {A} (n : nat) (v : A) (l : list A) : list A :=
  match l, n with
  | [], _ => []
  | _ :: t, O => v :: t
  | x :: t, S k => x :: set_nth k v t
  end.

(* ---------------------------------------------------------------- strings *)
Fixpoint prefix_eqb (f s : bytes) : bool :=
  match f, s with
  | [], _ => true
  | a :: f', b :: s' => N.eqb a b && prefix_eqb f' s'
  | _ :: _, [] => false
  end.
(* offset of the first / last occurrence of f in s *)
Fixpoint find_first (f s : bytes) : option nat :=
  if prefix_eqb f s then Some O
  else match s with [] => None | _ :: t => option_map S (find_first f t) end.
Fixpoint find_last (f s : bytes) : option nat :=
  match s with
  | [] => if prefix_eqb f [] then Some O else None
  | _ :: t => match find_last f t with
              | Some i => Some (S i)
              | None => if prefix_eqb f s then Some O else None
              end
  end.
Fixpoint first_idx (P : N -> bool) (s : bytes) : option nat :=
  match s with [] => None | c :: t => if P c then Some O else option_map S (first_idx P t) end.
Fixpoint last_idx (P : N -> bool) (s : bytes) : option nat :=
  match s with
  | [] => None
  | c :: t => match last_idx P t with Some i => Some (S i) | None => if P c then Some O else None end
  end.
Definition memb (f : bytes) (c : N) : bool := existsb (N.eqb c) f.

Definition pos_result (base : Z) (o : option nat) : Z :=
  match o with Some i => base + Z.of_nat i | None => npos end.

(* basic_string::find(f, pos) etc.; pos is a size_t *)
Definition str_find (s f : bytes) (pos : Z) : Z :=
  if zlen s <? pos then npos else pos_result pos (find_first f (skipn (Z.to_nat pos) s)).
Definition str_rfind (s f : bytes) (pos : Z) : Z :=
  if zlen s <? zlen f then npos
  else pos_result 0 (find_last f (firstn (Z.to_nat (Z.min pos (zlen s - zlen f) + zlen f)) s)).
Definition str_first_of (P : N -> bool) (s : bytes) (pos : Z) : Z :=
  if zlen s <=? pos then npos else pos_result pos (first_idx P (skipn (Z.to_nat pos) s)).
Definition str_last_of (P : N -> bool) (s : bytes) (pos : Z) : Z :=
  pos_result 0 (last_idx P (firstn (Z.to_nat (Z.min (pos + 1) (zlen s))) s)).
Definition str_substr (s : bytes) (pos len : Z) : bytes :=
  firstn (Z.to_nat (Z.min len (zlen s - pos))) (skipn (Z.to_nat pos) s).

(* ---------------------------------------------------------------- maps *)
Fixpoint bytes_eqb (a b : bytes) : bool :=
  match a, b with
  | [], [] => true
  | x :: a', y :: b' => N.eqb x y && bytes_eqb a' b'
  | _, _ => false
  end.
(* std::string operator< : lexicographic on unsigned bytes *)
Fixpoint bytes_ltb (a b : bytes) : bool :=
  match a, b with
  | _, [] => false
  | [], _ :: _ => true
  | x :: a', y :: b' => if N.ltb x y then true else if N.eqb x y then bytes_ltb a' b' else false
  end.
Fixpoint map_find {V} (k : bytes) (m : list (bytes * V)) : option V :=
  match m with
  | [] => None
  | (k', v) :: r => if bytes_eqb k k' then Some v else map_find k r
  end.
(* insert if absent, at the key's sorted position (std::map::insert / operator[]) *)
Fixpoint map_insert {V} (k : bytes) (v : V) (m : list (bytes * V)) : list (bytes * V) :=
  match m with
  | [] => [(k, v)]
  | (k', v') :: r => if bytes_eqb k k' then m
                     else if bytes_ltb k k' then (k, v) :: m
                     else (k', v') :: map_insert k v r
  end.
Fixpoint map_erase {V} (k : bytes) (m : list (bytes * V)) : list (bytes * V) :=
  match m with
  | [] => []
  | (k', v') :: r => if bytes_eqb k k' then r else (k', v') :: map_erase k r
  end.
Fixpoint map_set {V} (k : bytes) (v : V) (m : list (bytes * V)) : list (bytes * V) :=
  match m with
  | [] => []
  | (k', v') :: r => if bytes_eqb k k' then (k', v) :: r else (k', v') :: map_set k v r
  end.
Definition map_insert_all (other : list (bytes * Z)) (m : list (bytes * val)) : list (bytes * val) :=
  fold_left (fun acc e => map_insert (fst e) (VInt (snd e)) acc) other m.
Fixpoint keys_sorted {V} (m : list (bytes * V)) : bool :=
  match m with
  | [] => true
  | (k, _) :: r => match r with
                   | [] => true
                   | (k', _) :: _ => bytes_ltb k k' && keys_sorted r
                   end
  end.

(* ---------------------------------------------------------------- state helpers *)
Definition elems (st : cstate) : list val :=
  match st with
  | SVec l => l
  | SStr s => map VChar s
  | SMap m => map (fun e => VPair (VStr (fst e)) (snd e)) m
  | SPair a b => [a; b]
  | SRange snap _ _ => snap
  end.
Definition size_of (st : cstate) : Z :=
  match st with
  | SVec l => zlen l
  | SStr s => zlen s
  | SMap m => zlen m
  | SPair _ _ => 2
  | SRange _ b e => Z.of_nat e - Z.of_nat b
  end.
(* container.empty() / Bidir_Range::empty() *)
Definition is_empty (st : cstate) : bool :=
  match st with
  | SRange _ b e => Nat.eqb b e
  | _ => size_of st =? 0
  end.
Definition state_matches (k : ckind) (st : cstate) : bool :=
  match k, st with
  | KVector, SVec _ | KList, SVec _ | KString, SStr _ | KMap, SMap _ | KPair, SPair _ _ | KRange, SRange _ _ _ => true
  | _, _ => false
  end.
(* the abstract invariant *)
Definition wf (st : cstate) : bool :=
  match st with
  | SVec l => zlen l <=? max_size
  | SStr s => zlen s <=? max_size
  | SMap m => keys_sorted m
  | SPair _ _ => true
  | SRange snap b e => Nat.leb b e && Nat.leb e (length snap)
  end.
Definition init_state (k : ckind) : cstate :=
  match k with
  | KVector | KList => SVec []
  | KString => SStr []
  | KMap => SMap []
  | KPair => SPair VUndef VUndef
  | KRange => SRange [] O O
  end.
(* Bidir_Range(Container &c) : m_begin(c.begin()), m_end(c.end()) *)
Definition range_of (st : cstate) : cstate := SRange (elems st) O (length (elems st)).

(* ---------------------------------------------------------------- parameters *)
Inductive pty := PInt | PSize | PElem | PSelfTy | PKey.

(* conversion of a script argument to the C++ parameter type (Boxed_Number::get_as is a static_cast) *)
Definition conv (k : ckind) (p : pty) (v : val) : option val :=
  match p with
  | PInt => match v with VInt z => Some (VInt (to_int z)) | _ => None end
  | PSize => match v with VInt z => Some (VInt (to_size z)) | _ => None end
  | PElem => match k with
             | KString => match v with VChar _ => Some v | _ => None end
             | KMap => match v with VPair (VStr _) _ => Some v | _ => None end
             | KVector | KList => match v with VMapLit _ => None | _ => Some v end
             | _ => None
             end
  | PSelfTy => match k with
               | KString => match v with VStr _ => Some v | _ => None end
               | KMap => match v with VMapLit _ => Some v | _ => None end
               | _ => None
               end
  | PKey => match v with VStr _ => Some v | _ => None end
  end.
Fixpoint conv_all (k : ckind) (ps : list pty) (vs : list val) : option (list val) :=
  match ps, vs with
  | [], [] => Some []
  | p :: ps', v :: vs' => match conv k p v, conv_all k ps' vs' with
                          | Some c, Some r => Some (c :: r)
                          | _, _ => None
                          end
  | _, _ => None
  end.

(* ---------------------------------------------------------------- the std:: operations *)
Inductive stdop :=
| OFront | OBack | OPushBack | OPushFront | OPopBack | OPopFront
| OAdvInsert       (* std::advance(itr, pos); container.insert(itr, v) *)
| OAdvErase        (* std::advance(itr, pos); container.erase(itr) *)
| OAtCast          (* c.at(static_cast<size_type>(index)) *)
| OIndexCast       (* c[static_cast<size_type>(index)] *)
| OResize | OResizeVal | OReserve | OCapacity | OSize | OEmpty | OClear
| OFind | ORFind | OFindFirstOf | OFindLastOf | OFindFirstNotOf | OFindLastNotOf
| OSubstr | OAppendChar | OCStr | OData
| OMapIndex | OMapAt | OMapCount | OMapEraseKey | OMapInsertRange | OMapInsertVal
| OFirst | OSecond
| RIsEmpty | RIncBegin | RDecEnd | RDerefBegin | RDerefPrevEnd.

(* StdPre: the precondition the C++ standard puts on the operation (arguments are already converted).
   Library-checked conditions (at, substr, map::at, length_error) are NOT here: they are effects. *)
Definition std_pre (op : stdop) (st : cstate) (a : list val) : bool :=
  match op with
  | OFront | OBack | OPopBack | OPopFront => negb (is_empty st)
  | OAdvInsert => match a with VInt p :: _ => (0 <=? p) && (p <=? size_of st) | _ => true end
  | OAdvErase => match a with VInt p :: _ => (0 <=? p) && (p <? size_of st) | _ => true end
  | OIndexCast => match a with
                  | VInt p :: _ => match st with
                                   | SStr s => to_size p <=? zlen s      (* s[size()] is the terminator *)
                                   | _ => to_size p <? size_of st
                                   end
                  | _ => true
                  end
  | RIncBegin | RDerefBegin => match st with SRange snap b _ => Nat.ltb b (length snap) | _ => true end
  | RDecEnd | RDerefPrevEnd => match st with SRange snap _ e => Nat.ltb O e && Nat.leb e (length snap) | _ => true end
  | _ => true
  end.

(* effect inside the domain: never UB by construction *)
Inductive eff := EOk (st : cstate) (r : val) | ERaised (x : exn).

Inductive gval (A : Type) := GUnit | GElem (a : A) | GNum (z : Z) | GBool (b : bool) | GSeq (l : list A).
Inductive gres (A : Type) := GOk (l : list A) (r : gval A) | GRaised (x : exn).
Arguments GUnit {A}. Arguments GElem {A}. Arguments GNum {A}. Arguments GBool {A}. Arguments GSeq {A}.
Arguments GOk {A}. Arguments GRaised {A}.

Section Seq.
  Variable A : Type.
  Variable dflt : A.
  Variable of_val : val -> option A.

  Definition grow (l : list A) (r : gres A) : gres A :=
    if max_size <=? zlen l then GRaised XLength else r.

  Definition seq_eff (op : stdop) (l : list A) (a : list val) : gres A :=
    match op, a with
    | OFront, [] => GOk l (GElem (hd dflt l))
    | OBack, [] => GOk l (GElem (last l dflt))
    | OPushBack, [v] => match of_val v with Some x => grow l (GOk (l ++ [x]) GUnit) | None => GRaised XDispatch end
    | OPushFront, [v] => match of_val v with Some x => grow l (GOk (x :: l) GUnit) | None => GRaised XDispatch end
    | OPopBack, [] => GOk (removelast l) GUnit
    | OPopFront, [] => GOk (tl l) GUnit
    | OAdvInsert, [VInt p; v] =>
        match of_val v with Some x => grow l (GOk (insert_nth (Z.to_nat p) x l) GUnit) | None => GRaised XDispatch end
    | OAdvErase, [VInt p] => GOk (remove_nth (Z.to_nat p) l) GUnit
    | OAtCast, [VInt p] =>
        if to_size p <? zlen l then GOk l (GElem (nth (Z.to_nat (to_size p)) l dflt)) else GRaised XOutOfRange
    | OIndexCast, [VInt p] => GOk l (GElem (nth (Z.to_nat (to_size p)) l dflt))
    | OResize, [VInt n] => if max_size <? n then GRaised XLength else GOk (resize_list (Z.to_nat n) dflt l) GUnit
    | OResizeVal, [VInt n; v] =>
        match of_val v with
        | Some x => if max_size <? n then GRaised XLength else GOk (resize_list (Z.to_nat n) x l) GUnit
        | None => GRaised XDispatch
        end
    | OReserve, [VInt n] => if max_size <? n then GRaised XLength else GOk l GUnit
    | OCapacity, [] => GOk l (GNum (zlen l))
    | OSize, [] => GOk l (GNum (zlen l))
    | OEmpty, [] => GOk l (GBool (zlen l =? 0))
    | OClear, [] => GOk [] GUnit
    | _, _ => GRaised XDispatch
    end.
End Seq.

Definition str_eff (op : stdop) (s : bytes) (a : list val) : gres N :=
  match op, a with
  | OFind, [VStr f; VInt pos] => GOk s (GNum (str_find s f pos))
  | ORFind, [VStr f; VInt pos] => GOk s (GNum (str_rfind s f pos))
  | OFindFirstOf, [VStr f; VInt pos] => GOk s (GNum (str_first_of (memb f) s pos))
  | OFindLastOf, [VStr f; VInt pos] => GOk s (GNum (str_last_of (memb f) s pos))
  | OFindFirstNotOf, [VStr f; VInt pos] => GOk s (GNum (str_first_of (fun c => negb (memb f c)) s pos))
  | OFindLastNotOf, [VStr f; VInt pos] => GOk s (GNum (str_last_of (fun c => negb (memb f c)) s pos))
  | OSubstr, [VInt pos; VInt len] => if zlen s <? pos then GRaised XOutOfRange else GOk s (GSeq (str_substr s pos len))
  | OAppendChar, [VChar c] => if max_size <=? zlen s then GRaised XLength else GOk (s ++ [c]) (GSeq (s ++ [c]))
  | OCStr, [] => GOk s GUnit
  | OData, [] => GOk s GUnit
  | _, _ => GRaised XDispatch
  end.

Definition is_str_op (op : stdop) : bool :=
  match op with
  | OFind | ORFind | OFindFirstOf | OFindLastOf | OFindFirstNotOf | OFindLastNotOf | OSubstr | OAppendChar | OCStr | OData => true
  | _ => false
  end.

Definition val_of_gval {A} (inj : A -> val) (seq : list A -> val) (g : gval A) : val :=
  match g with
  | GUnit => VUnit | GElem a => inj a | GNum z => VInt z | GBool b => VBool b | GSeq l => seq l
  end.
Definition eff_of_gres {A} (mk : list A -> cstate) (inj : A -> val) (seq : list A -> val) (r : gres A) : eff :=
  match r with
  | GOk l g => EOk (mk l) (val_of_gval inj seq g)
  | GRaised x => ERaised x
  end.
Definition char_of_val (v : val) : option N := match v with VChar c => Some c | _ => None end.
Definition some_val (v : val) : option val := Some v.

Definition map_eff (op : stdop) (m : list (bytes * val)) (a : list val) : eff :=
  match op, a with
  | OMapIndex, [VStr k] =>
      match map_find k m with
      | Some v => EOk (SMap m) v
      | None => EOk (SMap (map_insert k VUndef m)) VUndef
      end
  | OMapAt, [VStr k] => match map_find k m with Some v => EOk (SMap m) v | None => ERaised XOutOfRange end
  | OMapCount, [VStr k] => EOk (SMap m) (VInt (match map_find k m with Some _ => 1 | None => 0 end))
  | OMapEraseKey, [VStr k] => EOk (SMap (map_erase k m)) (VInt (match map_find k m with Some _ => 1 | None => 0 end))
  | OMapInsertRange, [VMapLit o] => EOk (SMap (map_insert_all o m)) VUnit
  | OMapInsertVal, [VPair (VStr k) v] => EOk (SMap (map_insert k v m)) VUnit
  | OSize, [] => EOk (SMap m) (VInt (zlen m))
  | OEmpty, [] => EOk (SMap m) (VBool (zlen m =? 0))
  | OClear, [] => EOk (SMap []) VUnit
  | _, _ => ERaised XDispatch
  end.

Definition range_eff (op : stdop) (snap : list val) (b e : nat) (a : list val) : eff :=
  match op, a with
  | RIsEmpty, [] => EOk (SRange snap b e) (VBool (Nat.eqb b e))
  | RIncBegin, [] => EOk (SRange snap (S b) e) VUnit
  | RDecEnd, [] => EOk (SRange snap b (pred e)) VUnit
  | RDerefBegin, [] => EOk (SRange snap b e) (nth b snap VUndef)
  | RDerefPrevEnd, [] => EOk (SRange snap b e) (nth (pred e) snap VUndef)
  | _, _ => ERaised XDispatch
  end.

Definition std_eff (op : stdop) (st : cstate) (a : list val) : eff :=
  match st with
  | SVec l => eff_of_gres SVec (fun v => v) (fun _ => VUnit) (seq_eff val VUndef some_val op l a)
  | SStr s => if is_str_op op then eff_of_gres SStr VChar VStr (str_eff op s a)
              else eff_of_gres SStr VChar VStr (seq_eff N 0%N char_of_val op s a)
  | SMap m => map_eff op m a
  | SPair x y => match op, a with
                 | OFirst, [] => EOk st x
                 | OSecond, [] => EOk st y
                 | _, _ => ERaised XDispatch
                 end
  | SRange snap b e => range_eff op snap b e a
  end.

Definition outcome_of_eff (e : eff) : outcome := match e with EOk st r => Ok st r | ERaised x => Raised x end.

(* the partial function: outside StdPre the behaviour is undefined *)
Definition std_op (op : stdop) (st : cstate) (a : list val) : outcome :=
  if std_pre op st a then outcome_of_eff (std_eff op st a) else UB.

(* operations that do not modify the container at all (views stay valid across them) *)
Definition op_readonly (op : stdop) : bool :=
  match op with
  | OFront | OBack | OAtCast | OIndexCast | OCapacity | OSize | OEmpty
  | OFind | ORFind | OFindFirstOf | OFindLastOf | OFindFirstNotOf | OFindLastNotOf | OSubstr | OCStr | OData
  | OMapAt | OMapCount | OFirst | OSecond => true
  | _ => false
  end.

(* ---------------------------------------------------------------- wrappers *)
Inductive cmp := CLt | CLe.
Definition cmpb (c : cmp) (x y : Z) : bool := match c with CLt => x <? y | CLe => x <=? y end.
(* GNotEmpty: `if (container.empty()) throw` / `if (empty()) throw`;
   GPos neg c: `if ([pos < 0 ||] std::distance(begin, end) c pos) throw` *)
Inductive guard := GNone | GNotEmpty | GPos (chk_neg : bool) (c : cmp).
Inductive wkind := WDirect | WGuardedLambda | WAtLambda | WCheckedHelper | WForwardLambda | WHelper | WScriptDef | WRangeMethod.
Inductive argsrc := AP (i : nat) | AC (v : val).

Record wrapper := mkw {
  w_type : string;       (* registered type name *)
  w_kind : ckind;
  w_const : bool;        (* callable on a const object *)
  w_name : string;       (* registered function name *)
  w_wkind : wkind;
  w_params : list pty;   (* C++ parameters after the object *)
  w_args : list argsrc;  (* arguments handed to the std:: operation *)
  w_guard : guard;
  w_op : stdop }.

Definition guard_fires (g : guard) (st : cstate) (cargs : list val) : bool :=
  match g with
  | GNone => false
  | GNotEmpty => is_empty st
  | GPos neg c => match cargs with
                  | VInt p :: _ => (neg && (p <? 0)) || cmpb c (size_of st) p
                  | _ => false
                  end
  end.
Fixpoint build_args (srcs : list argsrc) (cargs : list val) : option (list val) :=
  match srcs with
  | [] => Some []
  | AP i :: r => match nth_error cargs i, build_args r cargs with Some v, Some l => Some (v :: l) | _, _ => None end
  | AC v :: r => match build_args r cargs with Some l => Some (v :: l) | None => None end
  end.

Definition mech (g : guard) (srcs : list argsrc) (op : stdop) (st : cstate) (cargs : list val) : outcome :=
  if guard_fires g st cargs then Raised XRange
  else match build_args srcs cargs with
       | Some a => std_op op st a
       | None => Raised XDispatch
       end.

Definition run_wrapper (w : wrapper) (st : cstate) (args : list val) : outcome :=
  if negb (state_matches (w_kind w) st) then Raised XDispatch
  else match conv_all (w_kind w) (w_params w) args with
       | None => Raised XDispatch
       | Some cargs => mech (w_guard w) (w_args w) (w_op w) st cargs
       end.

(* ---------------------------------------------------------------- dispatch over a table *)
Definition ckind_eqb (a b : ckind) : bool :=
  match a, b with
  | KVector, KVector | KList, KList | KString, KString | KMap, KMap | KPair, KPair | KRange, KRange => true
  | _, _ => false
  end.
Definition entry_matches (ty : string) (selfconst : bool) (name : string) (n : nat) (w : wrapper) : bool :=
  String.eqb (w_type w) ty && String.eqb (w_name w) name && Nat.eqb (length (w_params w)) n
  && implb selfconst (w_const w).
Definition lookup (tbl : list wrapper) (ty : string) (selfconst : bool) (name : string) (n : nat) : option wrapper :=
  find (entry_matches ty selfconst name n) tbl.
Definition call (tbl : list wrapper) (ty : string) (selfconst : bool) (name : string) (st : cstate) (args : list val) : outcome :=
  match lookup tbl ty selfconst name (length args) with
  | Some w => run_wrapper w st args
  | None => Raised XDispatch
  end.

(* ---------------------------------------------------------------- specification (independent of tables and of stdop) *)
Inductive opname :=
| NFront | NBack | NPushBack | NPushFront | NPopBack | NPopFront | NInsertAt | NEraseAt | NIndex | NAt
| NResize | NReserve | NCapacity | NSize | NEmpty | NClear
| NFind | NRFind | NFindFirstOf | NFindLastOf | NFindFirstNotOf | NFindLastNotOf | NSubstr | NAppend | NCStr | NData
| NCount | NErase | NInsert | NInsertRef | NFirst | NSecond.

Local Open Scope string_scope.
Definition opname_table : list (string * opname) :=
  [("front", NFront); ("back", NBack); ("push_back", NPushBack); ("push_back_ref", NPushBack);
   ("push_front", NPushFront); ("push_front_ref", NPushFront); ("pop_back", NPopBack); ("pop_front", NPopFront);
   ("insert_at", NInsertAt); ("insert_ref_at", NInsertAt); ("erase_at", NEraseAt); ("[]", NIndex); ("at", NAt);
   ("resize", NResize); ("reserve", NReserve); ("capacity", NCapacity); ("size", NSize); ("empty", NEmpty); ("clear", NClear);
   ("find", NFind); ("rfind", NRFind); ("find_first_of", NFindFirstOf); ("find_last_of", NFindLastOf);
   ("find_first_not_of", NFindFirstNotOf); ("find_last_not_of", NFindLastNotOf); ("substr", NSubstr); ("+=", NAppend);
   ("c_str", NCStr); ("data", NData); ("count", NCount); ("erase", NErase); ("insert", NInsert); ("insert_ref", NInsertRef);
   ("first", NFirst); ("second", NSecond)].
Local Close Scope string_scope.
Definition opname_of (s : string) : option opname :=
  match find (fun e => String.eqb (fst e) s) opname_table with Some e => Some (snd e) | None => None end.

(* signature of a script-visible name: (callable on a const object, C++ parameter types);
   nargs = number of script arguments (the prelude's one-argument find family supplies the position itself) *)
Definition is_seq (k : ckind) : bool := match k with KVector | KList | KString => true | _ => false end.
Definition spec_sig (k : ckind) (n : opname) (nargs : nat) : option (bool * list pty) :=
  match k, n, nargs with
  | (KVector | KList), (NFront | NBack), O => Some (true, [])
  | (KVector | KList), (NPushBack), 1%nat => Some (false, [PElem])
  | KList, NPushFront, 1%nat => Some (false, [PElem])
  | (KVector | KList), NPopBack, O => Some (false, [])
  | KList, NPopFront, O => Some (false, [])
  | (KVector | KList | KString), NInsertAt, 2%nat => Some (false, [PInt; PElem])
  | (KVector | KList | KString), NEraseAt, 1%nat => Some (false, [PInt])
  | (KVector | KString), NIndex, 1%nat => Some (true, [PInt])
  | (KVector | KList), NResize, 1%nat => Some (false, [PSize])
  | (KVector | KList), NResize, 2%nat => Some (false, [PSize; PElem])
  | KVector, NReserve, 1%nat => Some (false, [PSize])
  | KVector, NCapacity, O => Some (true, [])
  | (KVector | KList | KString | KMap), (NSize | NEmpty), O => Some (true, [])
  | (KVector | KList | KString | KMap), NClear, O => Some (false, [])
  | KString, NPushBack, 1%nat => Some (false, [PElem])
  | KString, NAppend, 1%nat => Some (false, [PElem])
  | KString, (NFind | NRFind | NFindFirstOf | NFindLastOf | NFindFirstNotOf | NFindLastNotOf), 2%nat => Some (true, [PSelfTy; PSize])
  | KString, (NFind | NRFind | NFindFirstOf | NFindLastOf | NFindFirstNotOf | NFindLastNotOf), 1%nat => Some (true, [PSelfTy])
  | KString, NSubstr, 2%nat => Some (true, [PSize; PSize])
  | KString, (NCStr | NData), O => Some (true, [])
  | KMap, NIndex, 1%nat => Some (false, [PKey])
  | KMap, NAt, 1%nat => Some (true, [PKey])
  | KMap, NCount, 1%nat => Some (true, [PKey])
  | KMap, NErase, 1%nat => Some (false, [PKey])
  | KMap, NInsert, 1%nat => Some (false, [PSelfTy])
  | KMap, NInsertRef, 1%nat => Some (false, [PElem])
  | KPair, (NFirst | NSecond), O => Some (true, [])
  | KRange, (NFront | NBack | NEmpty), O => Some (true, [])
  | KRange, (NPopFront | NPopBack), O => Some (true, [])
  | _, _, _ => None
  end.

Section SeqSpec.
  Variable A : Type.
  Variable dflt : A.
  Variable of_val : val -> option A.

  (* arguments are already converted to the C++ parameter types *)
  Definition seq_spec (n : opname) (l : list A) (a : list val) : gres A :=
    match n, a with
    | NFront, [] => match l with [] => GRaised XRange | x :: _ => GOk l (GElem x) end
    | NBack, [] => match l with [] => GRaised XRange | _ :: _ => GOk l (GElem (last l dflt)) end
    | NPushBack, [v] =>
        match of_val v with
        | Some x => if max_size <=? zlen l then GRaised XLength else GOk (l ++ [x]) GUnit
        | None => GRaised XDispatch
        end
    | NPushFront, [v] =>
        match of_val v with
        | Some x => if max_size <=? zlen l then GRaised XLength else GOk (x :: l) GUnit
        | None => GRaised XDispatch
        end
    | NPopBack, [] => match l with [] => GRaised XRange | _ :: _ => GOk (removelast l) GUnit end
    | NPopFront, [] => match l with [] => GRaised XRange | _ :: t => GOk t GUnit end
    | NInsertAt, [VInt p; v] =>
        match of_val v with
        | Some x => if (p <? 0) || (zlen l <? p) then GRaised XRange
                    else if max_size <=? zlen l then GRaised XLength
                    else GOk (firstn (Z.to_nat p) l ++ [x] ++ skipn (Z.to_nat p) l) GUnit
        | None => GRaised XDispatch
        end
    | NEraseAt, [VInt p] =>
        if (p <? 0) || (zlen l <=? p) then GRaised XRange
        else GOk (firstn (Z.to_nat p) l ++ skipn (S (Z.to_nat p)) l) GUnit
    | NIndex, [VInt p] =>
        if (0 <=? p) && (p <? zlen l) then GOk l (GElem (nth (Z.to_nat p) l dflt)) else GRaised XOutOfRange
    | NResize, [VInt n] =>
        if max_size <? n then GRaised XLength
        else GOk (firstn (Z.to_nat n) l ++ repeat dflt (Z.to_nat n - length l)) GUnit
    | NResize, [VInt n; v] =>
        match of_val v with
        | Some x => if max_size <? n then GRaised XLength
                    else GOk (firstn (Z.to_nat n) l ++ repeat x (Z.to_nat n - length l)) GUnit
        | None => GRaised XDispatch
        end
    | NReserve, [VInt n] => if max_size <? n then GRaised XLength else GOk l GUnit
    | NCapacity, [] => GOk l (GNum (zlen l))
    | NSize, [] => GOk l (GNum (zlen l))
    | NEmpty, [] => GOk l (GBool (match l with [] => true | _ => false end))
    | NClear, [] => GOk [] GUnit
    | _, _ => GRaised XDispatch
    end.
End SeqSpec.

Definition is_str_name (n : opname) : bool :=
  match n with
  | NFind | NRFind | NFindFirstOf | NFindLastOf | NFindFirstNotOf | NFindLastNotOf | NSubstr | NAppend | NCStr | NData => true
  | _ => false
  end.

(* one-argument forms (chaiscript_prelude.hpp): forward searches start at 0, backward ones at npos *)
Definition default_pos (n : opname) : Z :=
  match n with NRFind | NFindLastOf | NFindLastNotOf => npos | _ => 0 end.

Definition str_spec (n : opname) (s : bytes) (a : list val) : gres N :=
  let search (f : bytes) (pos : Z) : gres N :=
    match n with
    | NFind => GOk s (GNum (str_find s f pos))
    | NRFind => GOk s (GNum (str_rfind s f pos))
    | NFindFirstOf => GOk s (GNum (str_first_of (memb f) s pos))
    | NFindLastOf => GOk s (GNum (str_last_of (memb f) s pos))
    | NFindFirstNotOf => GOk s (GNum (str_first_of (fun c => negb (memb f c)) s pos))
    | NFindLastNotOf => GOk s (GNum (str_last_of (fun c => negb (memb f c)) s pos))
    | _ => GRaised XDispatch
    end in
  match n, a with
  | NSubstr, [VInt pos; VInt len] =>
      if zlen s <? pos then GRaised XOutOfRange
      else GOk s (GSeq (firstn (Z.to_nat (Z.min len (zlen s - pos))) (skipn (Z.to_nat pos) s)))
  | NAppend, [VChar c] => if max_size <=? zlen s then GRaised XLength else GOk (s ++ [c]) (GSeq (s ++ [c]))
  | (NCStr | NData), [] => GOk s GUnit
  | _, [VStr f; VInt pos] => search f pos
  | _, [VStr f] => search f (default_pos n)
  | _, _ => GRaised XDispatch
  end.

Definition map_spec (n : opname) (m : list (bytes * val)) (a : list val) : eff :=
  match n, a with
  | NIndex, [VStr k] =>
      match map_find k m with
      | Some v => EOk (SMap m) v
      | None => EOk (SMap (map_insert k VUndef m)) VUndef
      end
  | NAt, [VStr k] => match map_find k m with Some v => EOk (SMap m) v | None => ERaised XOutOfRange end
  | NCount, [VStr k] => EOk (SMap m) (VInt (match map_find k m with Some _ => 1 | None => 0 end))
  | NErase, [VStr k] => EOk (SMap (map_erase k m)) (VInt (match map_find k m with Some _ => 1 | None => 0 end))
  | NInsert, [VMapLit o] => EOk (SMap (map_insert_all o m)) VUnit
  | NInsertRef, [VPair (VStr k) v] => EOk (SMap (map_insert k v m)) VUnit
  | NSize, [] => EOk (SMap m) (VInt (zlen m))
  | NEmpty, [] => EOk (SMap m) (VBool (match m with [] => true | _ => false end))
  | NClear, [] => EOk (SMap []) VUnit
  | _, _ => ERaised XDispatch
  end.

Definition range_spec (n : opname) (snap : list val) (b e : nat) (a : list val) : eff :=
  match n, a with
  | NEmpty, [] => EOk (SRange snap b e) (VBool (Nat.eqb b e))
  | NFront, [] => if Nat.eqb b e then ERaised XRange else EOk (SRange snap b e) (nth b snap VUndef)
  | NBack, [] => if Nat.eqb b e then ERaised XRange else EOk (SRange snap b e) (nth (e - 1) snap VUndef)
  | NPopFront, [] => if Nat.eqb b e then ERaised XRange else EOk (SRange snap (b + 1) e) VUnit
  | NPopBack, [] => if Nat.eqb b e then ERaised XRange else EOk (SRange snap b (e - 1)) VUnit
  | _, _ => ERaised XDispatch
  end.

Definition spec_fn (k : ckind) (n : opname) (st : cstate) (a : list val) : outcome :=
  match st with
  | SVec l => outcome_of_eff (eff_of_gres SVec (fun v => v) (fun _ => VUnit) (seq_spec val VUndef some_val n l a))
  | SStr s => if is_str_name n then outcome_of_eff (eff_of_gres SStr VChar VStr (str_spec n s a))
              else outcome_of_eff (eff_of_gres SStr VChar VStr (seq_spec N 0%N char_of_val n s a))
  | SMap m => outcome_of_eff (map_spec n m a)
  | SPair x y => match n, a with
                 | NFirst, [] => Ok st x
                 | NSecond, [] => Ok st y
                 | _, _ => Raised XDispatch
                 end
  | SRange snap b e => outcome_of_eff (range_spec n snap b e a)
  end.

Definition spec_call (k : ckind) (selfconst : bool) (name : string) (st : cstate) (args : list val) : outcome :=
  if negb (state_matches k st) then Raised XDispatch
  else match opname_of name with
       | None => Raised XDispatch
       | Some n =>
           match spec_sig k n (length args) with
           | None => Raised XDispatch
           | Some (c, ps) =>
               if selfconst && negb c then Raised XDispatch
               else match conv_all k ps args with
                    | None => Raised XDispatch
                    | Some cargs => spec_fn k n st cargs
                    end
           end
       end.

(* the mechanism each name is expected to be implemented by: (parameters, arguments to the std:: operation, guard, operation).
   ContProofs.mech_spec proves each of them equal to spec_fn on every well-formed state. *)
Definition search_op (n : opname) : option stdop :=
  match n with
  | NFind => Some OFind | NRFind => Some ORFind | NFindFirstOf => Some OFindFirstOf | NFindLastOf => Some OFindLastOf
  | NFindFirstNotOf => Some OFindFirstNotOf | NFindLastNotOf => Some OFindLastNotOf | _ => None
  end.
Definition expected_mech (k : ckind) (n : opname) (nargs : nat) : option (list pty * list argsrc * guard * stdop) :=
  match k, n, nargs with
  | (KVector | KList), NFront, O => Some ([], [], GNotEmpty, OFront)
  | (KVector | KList), NBack, O => Some ([], [], GNotEmpty, OBack)
  | (KVector | KList | KString), NPushBack, 1%nat => Some ([PElem], [AP 0], GNone, OPushBack)
  | KList, NPushFront, 1%nat => Some ([PElem], [AP 0], GNone, OPushFront)
  | (KVector | KList), NPopBack, O => Some ([], [], GNotEmpty, OPopBack)
  | KList, NPopFront, O => Some ([], [], GNotEmpty, OPopFront)
  | (KVector | KList | KString), NInsertAt, 2%nat => Some ([PInt; PElem], [AP 0; AP 1], GPos true CLt, OAdvInsert)
  | (KVector | KList | KString), NEraseAt, 1%nat => Some ([PInt], [AP 0], GPos true CLe, OAdvErase)
  | (KVector | KString), NIndex, 1%nat => Some ([PInt], [AP 0], GNone, OAtCast)
  | (KVector | KList), NResize, 1%nat => Some ([PSize], [AP 0], GNone, OResize)
  | (KVector | KList), NResize, 2%nat => Some ([PSize; PElem], [AP 0; AP 1], GNone, OResizeVal)
  | KVector, NReserve, 1%nat => Some ([PSize], [AP 0], GNone, OReserve)
  | KVector, NCapacity, O => Some ([], [], GNone, OCapacity)
  | (KVector | KList | KString | KMap), NSize, O => Some ([], [], GNone, OSize)
  | (KVector | KList | KString | KMap), NEmpty, O => Some ([], [], GNone, OEmpty)
  | (KVector | KList | KString | KMap), NClear, O => Some ([], [], GNone, OClear)
  | KString, NAppend, 1%nat => Some ([PElem], [AP 0], GNone, OAppendChar)
  | KString, (NFind | NRFind | NFindFirstOf | NFindLastOf | NFindFirstNotOf | NFindLastNotOf), 2%nat =>
      match search_op n with Some op => Some ([PSelfTy; PSize], [AP 0; AP 1], GNone, op) | None => None end
  | KString, (NFind | NRFind | NFindFirstOf | NFindLastOf | NFindFirstNotOf | NFindLastNotOf), 1%nat =>
      match search_op n with Some op => Some ([PSelfTy], [AP 0; AC (VInt (default_pos n))], GNone, op) | None => None end
  | KString, NSubstr, 2%nat => Some ([PSize; PSize], [AP 0; AP 1], GNone, OSubstr)
  | KString, NCStr, O => Some ([], [], GNone, OCStr)
  | KString, NData, O => Some ([], [], GNone, OData)
  | KMap, NIndex, 1%nat => Some ([PKey], [AP 0], GNone, OMapIndex)
  | KMap, NAt, 1%nat => Some ([PKey], [AP 0], GNone, OMapAt)
  | KMap, NCount, 1%nat => Some ([PKey], [AP 0], GNone, OMapCount)
  | KMap, NErase, 1%nat => Some ([PKey], [AP 0], GNone, OMapEraseKey)
  | KMap, NInsert, 1%nat => Some ([PSelfTy], [AP 0], GNone, OMapInsertRange)
  | KMap, NInsertRef, 1%nat => Some ([PElem], [AP 0], GNone, OMapInsertVal)
  | KPair, NFirst, O => Some ([], [], GNone, OFirst)
  | KPair, NSecond, O => Some ([], [], GNone, OSecond)
  | KRange, NEmpty, O => Some ([], [], GNone, RIsEmpty)
  | KRange, NFront, O => Some ([], [], GNotEmpty, RDerefBegin)
  | KRange, NBack, O => Some ([], [], GNotEmpty, RDerefPrevEnd)
  | KRange, NPopFront, O => Some ([], [], GNotEmpty, RIncBegin)
  | KRange, NPopBack, O => Some ([], [], GNotEmpty, RDecEnd)
  | _, _, _ => None
  end.

(* decidable equalities for the table checks *)
Definition pty_eqb (a b : pty) : bool :=
  match a, b with PInt, PInt | PSize, PSize | PElem, PElem | PSelfTy, PSelfTy | PKey, PKey => true | _, _ => false end.
Definition guard_eqb (a b : guard) : bool :=
  match a, b with
  | GNone, GNone | GNotEmpty, GNotEmpty => true
  | GPos n1 c1, GPos n2 c2 => Bool.eqb n1 n2 && match c1, c2 with CLt, CLt | CLe, CLe => true | _, _ => false end
  | _, _ => false
  end.
Definition stdop_tag (o : stdop) : nat :=
  match o with
  | OFront => 0 | OBack => 1 | OPushBack => 2 | OPushFront => 3 | OPopBack => 4 | OPopFront => 5 | OAdvInsert => 6 | OAdvErase => 7
  | OAtCast => 8 | OIndexCast => 9 | OResize => 10 | OResizeVal => 11 | OReserve => 12 | OCapacity => 13 | OSize => 14 | OEmpty => 15
  | OClear => 16 | OFind => 17 | ORFind => 18 | OFindFirstOf => 19 | OFindLastOf => 20 | OFindFirstNotOf => 21 | OFindLastNotOf => 22
  | OSubstr => 23 | OAppendChar => 24 | OCStr => 25 | OData => 26 | OMapIndex => 27 | OMapAt => 28 | OMapCount => 29
  | OMapEraseKey => 30 | OMapInsertRange => 31 | OMapInsertVal => 32 | OFirst => 33 | OSecond => 34 | RIsEmpty => 35
  | RIncBegin => 36 | RDecEnd => 37 | RDerefBegin => 38 | RDerefPrevEnd => 39
  end%nat.
Definition stdop_eqb (a b : stdop) : bool := Nat.eqb (stdop_tag a) (stdop_tag b).
Definition argsrc_eqb (a b : argsrc) : bool :=
  match a, b with
  | AP i, AP j => Nat.eqb i j
  | AC (VInt x), AC (VInt y) => x =? y
  | _, _ => false
  end.
Fixpoint list_eqb {A} (eqb : A -> A -> bool) (a b : list A) : bool :=
  match a, b with
  | [], [] => true
  | x :: a', y :: b' => eqb x y && list_eqb eqb a' b'
  | _, _ => false
  end.

(* the wrapper implements its name by the expected mechanism *)
Definition mech_ok (w : wrapper) : bool :=
  match opname_of (w_name w) with
  | None => false
  | Some n =>
      match expected_mech (w_kind w) n (length (w_params w)), spec_sig (w_kind w) n (length (w_params w)) with
      | Some (ps, ar, g, op), Some (c, ps') =>
          list_eqb pty_eqb ps (w_params w) && list_eqb pty_eqb ps' (w_params w) && list_eqb argsrc_eqb ar (w_args w)
          && guard_eqb g (w_guard w) && stdop_eqb op (w_op w) && implb (w_const w) c
      | _, _ => false
      end
  end.

(* the guard is sufficient for the forwarded operation's StdPre *)
Definition guard_covers (g : guard) (srcs : list argsrc) (op : stdop) : bool :=
  let pos_first := match srcs with AP O :: _ => true | _ => false end in
  match op with
  | OFront | OBack | OPopBack | OPopFront | RIncBegin | RDecEnd | RDerefBegin | RDerefPrevEnd =>
      match g with GNotEmpty => true | _ => false end
  | OAdvInsert => match g with GPos true _ => pos_first | _ => false end
  | OAdvErase => match g with GPos true CLe => pos_first | _ => false end
  | OIndexCast => false
  | _ => true
  end.
Definition wrapper_safe (w : wrapper) : bool := guard_covers (w_guard w) (w_args w) (w_op w).

(* wrapper kind recorded by the translator is consistent with the extracted guard *)
Definition wkind_consistent (w : wrapper) : bool :=
  match w_wkind w with
  | WDirect | WForwardLambda | WHelper | WAtLambda => match w_guard w with GNone => true | _ => false end
  | WGuardedLambda => match w_guard w with GNotEmpty => true | _ => false end
  | WCheckedHelper => match w_guard w with GPos _ _ => true | _ => false end
  | WScriptDef | WRangeMethod => true
  end.

(* ---------------------------------------------------------------- operation sequences on a container and its views *)
Inductive target := TC | TK | TR | TQ.
Inductive wstep :=
| WCall (t : target) (name : string) (args : list val)
| WMkRange (from_const : bool)
| WSet (key : val) (v : val)          (* c[key] = v  : write through the reference returned by [] *)
| WSetMember (second : bool) (v : val) (* c.first = v / c.second = v *).

Record world := mkworld { wc : cstate; wr : option (nat * nat); wq : option (nat * nat) }.

Definition view_state (w : world) (v : option (nat * nat)) : option cstate :=
  match v with Some (b, e) => Some (SRange (elems (wc w)) b e) | None => None end.
Definition view_wf (w : world) (v : option (nat * nat)) : bool :=
  match view_state w v with Some s => wf s | None => true end.
Definition world_wf (k : ckind) (w : world) : bool :=
  state_matches k (wc w) && wf (wc w) && view_wf w (wr w) && view_wf w (wq w).

Definition range_type (ty : string) (c : bool) : string :=
  ((if c then "Const_" else "") ++ ty ++ "_Range")%string.

Section World.
  (* how a named function is executed: the wrapper table (mechanism) or the specification *)
  Variable callf : string -> ckind -> bool -> string -> cstate -> list val -> outcome.
  (* does the executed function leave the container untouched (views stay valid)? *)
  Variable keeps : string -> ckind -> bool -> string -> nat -> bool.
  Variable ty : string.
  Variable k : ckind.

  Definition drop_views (st : cstate) : world := mkworld st None None.

  Definition set_elem (st : cstate) (key v : val) : cstate :=
    match st, key, v with
    | SVec l, VInt p, _ => SVec (set_nth (Z.to_nat (to_size (to_int p))) v l)
    | SStr s, VInt p, VChar c => SStr (set_nth (Z.to_nat (to_size (to_int p))) c s)
    | SMap m, VStr key', _ => SMap (map_set key' v m)
    | _, _, _ => st
    end.

  Definition step_view (w : world) (isq : bool) (name : string) (args : list val) : world * outcome :=
    match (if isq then wq w else wr w) with
    | None => (w, Raised XDispatch)
    | Some (b, e) =>
        match callf (range_type ty isq) KRange false name (SRange (elems (wc w)) b e) args with
        | Ok (SRange _ b' e') r =>
            (if isq then mkworld (wc w) (wr w) (Some (b', e')) else mkworld (wc w) (Some (b', e')) (wq w), Ok (SRange (elems (wc w)) b' e') r)
        | o => (w, o)
        end
    end.

  Definition step_cont (w : world) (sc : bool) (name : string) (args : list val) : world * outcome :=
    match callf ty k sc name (wc w) args with
    | Ok st' r => (if keeps ty k sc name (length args) then mkworld st' (wr w) (wq w) else drop_views st', Ok st' r)
    | o => (w, o)
    end.

  Definition wrun (w : world) (s : wstep) : world * outcome :=
    match s with
    | WCall TC name args => step_cont w false name args
    | WCall TK name args => step_cont w true name args
    | WCall TR name args => step_view w false name args
    | WCall TQ name args => step_view w true name args
    | WMkRange c =>
        let v := Some (O, length (elems (wc w))) in
        (if c then mkworld (wc w) (wr w) v else mkworld (wc w) v (wq w), Ok (wc w) VUnit)
    | WSet key v =>
        match callf ty k false "[]"%string (wc w) [key] with
        | Ok st' r => (drop_views (set_elem st' key v), Ok (set_elem st' key v) v)
        | o => (w, o)
        end
    | WSetMember second v =>
        match callf ty k false (if second then "second" else "first")%string (wc w) [] with
        | Ok (SPair a b) _ => let st' := if second then SPair a v else SPair v b in (drop_views st', Ok st' v)
        | Ok st' r => (w, Raised XDispatch)
        | o => (w, o)
        end
    end.

  (* run a whole sequence: None as soon as a step is undefined behaviour *)
  Fixpoint wrun_all (w : world) (steps : list wstep) : option world :=
    match steps with
    | [] => Some w
    | s :: r => match wrun w s with
                | (_, UB) => None
                | (w', _) => wrun_all w' r
                end
    end.
End World.

Definition table_keeps (tbl : list wrapper) (ty : string) (k : ckind) (sc : bool) (name : string) (n : nat) : bool :=
  match lookup tbl ty sc name n with Some w => op_readonly (w_op w) | None => false end.
Definition table_call (tbl : list wrapper) (ty : string) (k : ckind) (sc : bool) (name : string) (st : cstate) (args : list val) : outcome :=
  call tbl ty sc name st args.

(* specification side of the same two parameters *)
Definition spec_readonly (k : ckind) (n : opname) : bool :=
  match n with
  | NFront | NBack | NCapacity | NSize | NEmpty | NFind | NRFind | NFindFirstOf | NFindLastOf | NFindFirstNotOf | NFindLastNotOf
  | NSubstr | NCStr | NData | NCount | NAt | NFirst | NSecond => true
  | NIndex => match k with KMap => false | _ => true end
  | _ => false
  end.
Definition spec_keeps (ty : string) (k : ckind) (sc : bool) (name : string) (n : nat) : bool :=
  match opname_of name with Some o => spec_readonly k o | None => false end.
Definition spec_callf (ty : string) (k : ckind) (sc : bool) (name : string) (st : cstate) (args : list val) : outcome :=
  spec_call k sc name st args.

Definition init_world (k : ckind) : world := mkworld (init_state k) None None.
