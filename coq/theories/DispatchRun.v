(* C06 — executable mechanism model: the ports of boxed_cast / dispatch / registration in DispatchDefs,
   interpreting the rules regenerated from the source (coq/gen/G_CastRules.v). *)
From Coq Require Import ZArith List Bool String Ascii Arith.
From ChaiV Require Import StrUtil DispatchDefs DispatchSpecRun.
From ChaiV.Gen Require Import G_CastRules.
Import ListNotations.
Local Open Scope string_scope.

Definition forms_of (fs : list func) (id : nat) (nargs : nat) : list form :=
  match find (fun f => Nat.eqb (f_id f) id) fs with
  | Some f => match f_kind f with
              | KNative => List.map p_form (f_params f)
              | KDyn _ => repeat FBV nargs
              | KAttr => [FPtr]
              end
  | None => []
  end.
Definition show_event (fs : list func) (args : list box) (e : event) : string :=
  match e with
  | Enter id rs => " | ENTER " ++ show_nat id ++ " [" ++ show_recvs (forms_of fs id (List.length args)) args rs ++ "]"
  end.
Definition show_res (r : option eclass) : string :=
  match r with None => "ok" | Some e => "ERR(" ++ show_eclass e ++ ")" end.

Definition run_d (c : dcase) : string :=
  let E := mk_env (dc_convs c) (dc_funcs c) (dc_rtl c) in
  let fs := List.map cf_f (dc_funcs c) in
  let sorted := register_all gen_rules fs in
  let o := call_named gen_rules E sorted (dc_args c) in
  "ORDER " ++ show_ids (List.map f_id sorted)
  ++ fold_right (fun e acc => show_event fs (dc_args c) e ++ acc) "" (o_trace o)
  ++ " | RES " ++ show_res (o_res o).

Definition run_line (line : string) : string :=
  match words line with
  | kind :: _ =>
      match toks (join " " (tl (words line))) with
      | None => "BADCASE"
      | Some l =>
          if String.eqb kind "D" then match p_dcase l with Some c => run_d c | None => "BADCASE" end
          else if String.eqb kind "H" then
            match p_hcase l with
            | Some (rtl, wc, cs, p, a, h) =>
                let E := mk_env cs [] rtl in
                match history gen_rules (vbox_of a) h with
                | inl v => match boxed_cast_v gen_rules E wc p v with
                           | COk r => "CAST " ++ show_recv (p_form p) (v_box v) r
                           | CErr e => "ERR(" ++ show_eclass e ++ ")"
                           end
                | inr e => "HISTERR(" ++ show_eclass e ++ ")"
                end
            | None => "BADCASE"
            end
          else match p_ccase l with
               | None => "BADCASE"
               | Some (rtl, wc, cs, p, a) =>
                   let E := mk_env cs [] rtl in
                   match (if String.eqb kind "C" then boxed_cast_gen gen_rules E wc p a else call_out gen_rules E p a) with
                   | COk r => "CAST " ++ show_recv (p_form p) a r
                   | CErr e => "ERR(" ++ show_eclass e ++ ")"
                   end
               end
      end
  | [] => "BADCASE"
  end.
