(* tree-level tie of the optimizer model: raw tree dump in, optimised tree dump out *)
From Coq Require Import String List.
From ChaiV Require Import StrUtil Ast Eval EvalRun Optimizer OptConst.
From ChaiV.Gen Require Import G_OptOrder.
Local Open Scope string_scope.
(* "<tree>" -> optimised tree;  "CONSTS <tree>" -> whether every Constant node of the tree is const *)
Definition run_line (line : string) : string :=
  if has_prefix "CONSTS " line then
    match read_ast (drop_prefix "CONSTS " line) with
    | Some a => if consts_const a then "ALLCONST" else "MUTABLE-CONSTANT"
    | None => "UNREADABLE"
    end
  else if has_prefix "NOCONVFOLD " line then
    match read_ast (drop_prefix "NOCONVFOLD " line) with
    | Some a => show_ast (optimize_tree mech_numops false optimizer_default a)
    | None => "UNREADABLE"
    end
  else
  match read_ast line with
  | Some a =>
      let o := optimize_tree mech_numops true optimizer_default a in
      (* undefined constant arithmetic anywhere in the raw or the rewritten tree: the implementation's fold is compiler-defined *)
      if orb (has_ub_site mech_numops a) (has_ub_site mech_numops o) then "UBFOLD" else show_ast o
  | None => "UNREADABLE"
  end.
