(* tree-level tie of the optimizer model: raw tree dump in, optimised tree dump out *)
From Coq Require Import String List.
From ChaiV Require Import StrUtil Ast Eval EvalRun Optimizer.
From ChaiV.Gen Require Import G_OptOrder.
Local Open Scope string_scope.
Definition run_line (line : string) : string :=
  match read_ast line with
  | Some a => show_ast (optimize_tree mech_numops optimizer_default a)
  | None => "UNREADABLE"
  end.
