(* C19 — facts about the operation lists regenerated from chaiscript_engine.hpp (gen/G_LoadFile.v), re-checked by
   computation whenever the source changes: they are the lists the theorems of FilesProofs are about. *)
From Coq Require Import List Bool String Arith NArith.
From ChaiV Require Import FilesDefs FilesProofs.
From ChaiV.Gen Require Import G_LoadFile.
Import ListNotations.

Lemma list_eqb_eq {A : Type} (e : A -> A -> bool) (He : forall x y, e x y = true -> x = y) :
  forall a b, list_eqb e a b = true -> a = b.
Proof.
  induction a as [| x a IH]; intros [| y b]; cbn; try congruence.
  intros H. apply andb_true_iff in H as [H1 H2]. f_equal; auto.
Qed.
Lemma bytes_eqb_eq a : forall b, bytes_eqb a b = true -> a = b.
Proof.
  induction a as [| x a IH]; intros [| y b]; cbn; try congruence.
  intros H. apply andb_true_iff in H as [H1 H2]. apply N.eqb_eq in H1. f_equal; auto.
Qed.
Lemma bsimple_eqb_eq x y : bsimple_eqb x y = true -> x = y.
Proof.
  destruct x, y; cbn; try congruence; intros H; try (apply Nat.eqb_eq in H; congruence).
  apply Bool.eqb_prop in H. congruence.
Qed.
Lemma bop_eqb_eq x y : bop_eqb x y = true -> x = y.
Proof.
  destruct x, y; cbn; try congruence.
  - intros H. f_equal. now apply bsimple_eqb_eq.
  - intros H. apply andb_true_iff in H as [H1 H2]. f_equal; [now apply bytes_eqb_eq | apply (list_eqb_eq _ bsimple_eqb_eq _ _ H2)].
Qed.
Lemma lop_eqb_eq x y : lop_eqb x y = true -> x = y.
Proof.
  destruct x, y; cbn; try congruence; intros H; try (apply Nat.eqb_eq in H; congruence).
  apply Bool.eqb_prop in H. congruence.
Qed.
Lemma usimple_eqb_eq x y : usimple_eqb x y = true -> x = y.
Proof. destruct x, y; cbn; congruence. Qed.
Lemma uop_eqb_eq x y : uop_eqb x y = true -> x = y.
Proof.
  destruct x, y; cbn; try congruence; intros H; f_equal.
  - apply (list_eqb_eq _ usimple_eqb_eq _ _ H).
  - now apply usimple_eqb_eq.
Qed.

Lemma gen_skip_bom_canonical : skip_bom_ops = canonical_skip_bom.
Proof. apply (list_eqb_eq _ bop_eqb_eq). vm_compute. reflexivity. Qed.
Lemma gen_load_file_canonical : load_file_ops = canonical_load_file.
Proof. apply (list_eqb_eq _ lop_eqb_eq). vm_compute. reflexivity. Qed.
Lemma gen_use_body_canonical : use_body = canonical_use_body.
Proof. apply (list_eqb_eq _ uop_eqb_eq). vm_compute. reflexivity. Qed.
Lemma gen_use_rethrows : use_rethrows_nested = true.
Proof. vm_compute. reflexivity. Qed.
Lemma gen_eval_file_direct : eval_file_is_eval_of_load_file = true.
Proof. vm_compute. reflexivity. Qed.

Lemma gen_load_thm file : run_load_file skip_bom_ops load_file_ops file = load_spec file.
Proof. rewrite gen_skip_bom_canonical, gen_load_file_canonical. apply load_thm. Qed.

Lemma gen_use_once cfg fuel h : used_once (u_log (hrun use_body use_rethrows_nested cfg fuel u_init h)).
Proof. rewrite gen_use_body_canonical, gen_use_rethrows. apply (use_once_thm cfg fuel h u_init inv_init). Qed.

Lemma gen_use_resolves cfg name paths fuel st : List.length paths + 2 <= fuel ->
  match resolve cfg (u_used st) name paths with
  | None => exec use_body use_rethrows_nested cfg fuel (CUse name paths) st = (st, UMissing name)
  | Some (p, true) => exec use_body use_rethrows_nested cfg fuel (CUse name paths) st = (st, UOk)
  | Some (p, false) => exists l, u_log (fst (exec use_body use_rethrows_nested cfg fuel (CUse name paths) st)) = u_log st ++ EvEval true p :: l
  end.
Proof. rewrite gen_use_body_canonical, gen_use_rethrows. apply use_resolves_thm. Qed.

Lemma gen_eval_file_missing cfg b p f st :
  lookup p (c_files cfg) = None -> exec use_body use_rethrows_nested cfg (S f) (CEvalPath b p) st = (st, UMissing p).
Proof. rewrite gen_use_body_canonical, gen_use_rethrows. apply eval_file_missing_thm. Qed.

Lemma gen_script_eval_file_missing cfg name paths fuel st :
  (forall pa, In pa paths -> lookup (pa ++ name)%string (c_files cfg) = None) -> List.length paths + 2 <= fuel ->
  exec use_body use_rethrows_nested cfg fuel (CIef name paths) st = (st, UMissing name).
Proof. rewrite gen_use_body_canonical, gen_use_rethrows. apply script_eval_file_missing_thm. Qed.
