(* C15 — proofs: the mechanism (three tables over shared vectors, copy-on-write add_function, field-wise
   get_state/set_state) simulates the dictionary specification for every history, provided the regenerated
   description satisfies desc_ok; consequences: tables in step, restore, re-add, snapshot stability. *)
From Coq Require Import List Bool String Arith Lia.
From ChaiV Require Import EngineDefs.
Import ListNotations.
Local Open Scope list_scope.

(* ================================================================ association lists *)
Lemma eqb_refl' (k : string) : String.eqb k k = true.
Proof. apply String.eqb_refl. Qed.

Lemma lookup_map_snd {V W : Type} (g : V -> W) k (l : list (string * V)) :
  lookup k (map (fun e => (fst e, g (snd e))) l) = option_map g (lookup k l).
Proof.
  induction l as [| [k' v] l IH]; cbn; [reflexivity |].
  destruct (String.eqb k' k); [reflexivity | exact IH].
Qed.

Lemma assign_map_snd {V W : Type} (g : V -> W) k v (l : list (string * V)) :
  assign k (g v) (map (fun e => (fst e, g (snd e))) l) = map (fun e => (fst e, g (snd e))) (assign k v l).
Proof.
  induction l as [| [k' v'] l IH]; cbn; [reflexivity |].
  destruct (String.eqb k' k); cbn; [reflexivity | now rewrite IH].
Qed.

Lemma map_snd_ext {V W : Type} (g g' : V -> W) (l : list (string * V)) :
  Forall (fun e => g (snd e) = g' (snd e)) l ->
  map (fun e => (fst e, g (snd e))) l = map (fun e => (fst e, g' (snd e))) l.
Proof.
  induction 1 as [| [k v] l H _ IH]; cbn; [reflexivity |]. cbn in H. now rewrite H, IH.
Qed.

Lemma assign_notin {V : Type} k (v : V) l : lookup k l = None -> assign k v l = l ++ [(k, v)].
Proof.
  induction l as [| [k' v'] l IH]; cbn; [reflexivity |].
  destruct (String.eqb k' k); [discriminate | intros H; now rewrite IH].
Qed.

Lemma lookup_in_keys {V : Type} k (l : list (string * V)) : lookup k l = None <-> ~ In k (map fst l).
Proof.
  induction l as [| [k' v] l IH]; cbn; [tauto |].
  destruct (String.eqb k' k) eqn:E.
  - apply String.eqb_eq in E. subst. split; [discriminate | intros H; exfalso; apply H; now left].
  - apply String.eqb_neq in E. rewrite IH. split; [intros H [H1 | H1]; [congruence | tauto] | tauto].
Qed.

Lemma keys_assign {V : Type} k (v : V) l : lookup k l <> None -> map fst (assign k v l) = map fst l.
Proof.
  induction l as [| [k' v'] l IH]; cbn; [congruence |].
  destruct (String.eqb k' k); cbn; [reflexivity | intros H; now rewrite IH].
Qed.

Lemma lookup_some_in {V : Type} k (v : V) l : lookup k l = Some v -> In (k, v) l.
Proof.
  induction l as [| [k' v'] l IH]; cbn; [discriminate |].
  destruct (String.eqb k' k) eqn:E; [apply String.eqb_eq in E; intros [= ->]; subst; now left | intros H; right; auto].
Qed.

Lemma Forall_assign {V : Type} (P : string * V -> Prop) k v (l : list (string * V)) :
  Forall P l -> (forall k', P (k', v)) -> Forall P (assign k v l).
Proof.
  intros H Hv. induction H as [| [k' v'] l H Hl IH]; cbn.
  - constructor; [apply Hv | constructor].
  - destruct (String.eqb k' k); constructor; auto.
Qed.

Lemma nth_error_map' {A B : Type} (f : A -> B) l n : nth_error (map f l) n = option_map f (nth_error l n).
Proof. revert n; induction l; intros [| n]; cbn; auto. Qed.

Lemma NoDup_app_one {A : Type} (l : list A) x : NoDup l -> ~ In x l -> NoDup (l ++ [x]).
Proof.
  induction 1 as [| y l Hy Hl IH]; cbn; intros Hx; [constructor; [tauto | constructor] |].
  constructor.
  - rewrite in_app_iff. cbn. intros [H | [H | []]]; [tauto | subst; tauto].
  - apply IH. tauto.
Qed.

(* ================================================================ the heap only grows *)
Lemma cell_ext (h ext : heap) a : a < List.length h -> cell (h ++ ext) a = cell h a.
Proof. intros H; unfold cell; now rewrite app_nth1. Qed.

Lemma cell_new (h : heap) v : cell (h ++ [v]) (List.length h) = v.
Proof. unfold cell. rewrite app_nth2, Nat.sub_diag by lia. reflexivity. Qed.

Definition valid (h : heap) (fns : list (string * nat)) : Prop :=
  Forall (fun e => snd e < List.length h /\ cell h (snd e) <> []) fns.

Lemma valid_ext h ext fns : valid h fns -> valid (h ++ ext) fns.
Proof.
  unfold valid. apply Forall_impl. intros e [H1 H2]. split.
  - rewrite app_length; lia.
  - now rewrite cell_ext.
Qed.

Lemma deref_ext h ext fns : valid h fns -> deref (h ++ ext) fns = deref h fns.
Proof.
  intros H. unfold deref. apply map_snd_ext. revert H. apply Forall_impl. intros e [H1 _]. now apply cell_ext.
Qed.

Lemma wrapped_ext h ext fns : valid h fns -> wrapped (h ++ ext) fns = wrapped h fns.
Proof.
  intros H. unfold wrapped.
  apply (map_snd_ext (fun a => wrap (cell (h ++ ext) a)) (fun a => wrap (cell h a))).
  revert H. apply Forall_impl. intros e [H1 _]. now rewrite cell_ext.
Qed.

Lemma tabs_ext h ext t : tabs_in_step h t -> tabs_in_step (h ++ ext) t.
Proof.
  intros (H1 & H2 & H3 & H4). repeat split; auto.
  - now rewrite wrapped_ext.
  - now rewrite wrapped_ext.
  - now apply valid_ext.
Qed.

Lemma abs_snap_ext h ext s : tabs_in_step h (es_tabs (sn_engine s)) -> abs_snap (h ++ ext) s = abs_snap h s.
Proof. intros (_ & _ & H3 & _). unfold abs_snap. now rewrite deref_ext. Qed.

Lemma lookup_deref h k fns : lookup k (deref h fns) = option_map (cell h) (lookup k fns).
Proof. apply (lookup_map_snd (cell h)). Qed.
Lemma lookup_wrapped h k fns : lookup k (wrapped h fns) = option_map (fun a => wrap (cell h a)) (lookup k fns).
Proof. apply (lookup_map_snd (fun a => wrap (cell h a))). Qed.

(* ================================================================ sortv, wrap *)
Lemma ins_front_length x l : List.length (ins_front x l) = S (List.length l).
Proof. induction l as [| y l IH]; cbn; [reflexivity |]. destruct (Nat.leb (rank x) (rank y)); cbn; auto. Qed.
Lemma sortv_length l : List.length (sortv l) = List.length l.
Proof. unfold sortv. induction l as [| x l IH]; cbn [fold_right List.length]; [reflexivity |]. now rewrite ins_front_length, IH. Qed.

Lemma wrap_two l : 2 <= List.length l -> wrap l = FDispatch l.
Proof. destruct l as [| a [| b l]]; cbn; intros; try lia; reflexivity. Qed.

Lemma sortv_snoc_wrap vec f : vec <> [] -> wrap (sortv (vec ++ [f])) = FDispatch (sortv (vec ++ [f])).
Proof.
  intros H. apply wrap_two. rewrite sortv_length, app_length. cbn.
  destruct vec; [congruence | cbn; lia].
Qed.
Lemma sortv_snoc_nonempty vec f : sortv (vec ++ [f]) <> [].
Proof.
  intros H. apply (f_equal (@List.length _)) in H. rewrite sortv_length, app_length in H. cbn in H. lia.
Qed.

(* ================================================================ the regenerated description *)
Lemma astmt_eqb_eq a b : astmt_eqb a b = true -> a = b.
Proof. destruct a, b; cbn; congruence. Qed.
Lemma astmts_eqb_eq a b : astmts_eqb a b = true -> a = b.
Proof.
  revert b; induction a as [| x a IH]; intros [| y b]; cbn; try congruence.
  intros H. apply andb_true_iff in H as [H1 H2]. f_equal; [now apply astmt_eqb_eq | now apply IH].
Qed.

Record desc_facts (d : engine_desc) : Prop := mkFacts {
  df_branch : d_exists_branch d = canonical_exists_branch;
  df_tail_b : hasE EBoxed (d_tail d) = true;
  df_tail_o : hasE EFunctionObjects (d_tail d) = true;
  df_get_e : forall f, hasE f (d_get_e d) = true;
  df_set_e : forall f, hasE f (d_set_e d) = true;
  df_get_c : forall f, hasC f (d_get_c d) = true;
  df_set_c : forall f, hasC f (d_set_c d) = true }.

Lemma desc_ok_facts d : desc_ok d = true -> desc_facts d.
Proof.
  unfold desc_ok. intros H.
  repeat (apply andb_true_iff in H as [H ?]).
  cbn in *.
  repeat match goal with Hx : (_ && _)%bool = true |- _ => apply andb_true_iff in Hx as [? ?] end.
  constructor; auto using astmts_eqb_eq.
  - intros []; assumption.
  - intros []; assumption.
  - intros []; assumption.
  - intros []; assumption.
Qed.

Lemma madd_canon d ht n f : desc_facts d -> madd d ht n f = madd_cow ht n f.
Proof.
  intros F. destruct ht as [h t]. unfold madd, madd_cow, tail_update.
  rewrite (df_branch d F), (df_tail_b d F), (df_tail_o d F).
  destruct (lookup n (t_functions t)) as [a |]; [| reflexivity].
  cbn. unfold fr_vec, cell; cbn.
  destruct (existsb (conflict f) (nth a h [])); cbn; reflexivity.
Qed.

Lemma cget_id d l : desc_facts d -> cget d l = l.
Proof.
  intros F. unfold cget, eget. rewrite !(df_get_c d F), !(df_get_e d F). cbn.
  destruct l as [u [[a b c] [g ty]] m]; reflexivity.
Qed.
Lemma cset_id d l s : desc_facts d -> cset d l s = s.
Proof.
  intros F. unfold cset, eset. rewrite !(df_set_c d F), !(df_set_e d F). cbn.
  destruct s as [u [[a b c] [g ty]] m]; reflexivity.
Qed.

(* ================================================================ add_function simulates dict_add *)
Lemma madd_sim h t n f h' t' o :
  tabs_in_step h t -> madd_cow (h, t) n f = ((h', t'), o) ->
  (exists ext, h' = h ++ ext) /\ tabs_in_step h' t' /\
  dict_add (deref h (t_functions t)) n f = (deref h' (t_functions t'), o).
Proof.
  intros (Ho & Hb & Hv & Hn). unfold madd_cow, dict_add. rewrite lookup_deref.
  destruct (lookup n (t_functions t)) as [a |] eqn:L; cbn.
  - assert (Ha : a < List.length h /\ cell h a <> []).
    { apply lookup_some_in in L. unfold valid in Hv. rewrite Forall_forall in Hv. apply (Hv _ L). }
    destruct (existsb (conflict f) (cell h a)).
    + intros [= <- <- <-]. split; [exists []; now rewrite app_nil_r |]. split; [repeat split; auto | reflexivity].
    + intros [= <- <- <-]. cbn.
      set (v := sortv (cell h a ++ [f])).
      assert (Wv : wrap v = FDispatch v) by (apply sortv_snoc_wrap; tauto).
      assert (Nv : v <> []) by apply sortv_snoc_nonempty.
      clearbody v.
      assert (Hv' : valid (h ++ [v]) (assign n (List.length h) (t_functions t))).
      { apply Forall_assign; [now apply valid_ext |]. intros k'. cbn. split; [rewrite app_length; cbn; lia |].
        now rewrite cell_new. }
      assert (Hw : wrapped (h ++ [v]) (assign n (List.length h) (t_functions t)) = assign n (FDispatch v) (wrapped h (t_functions t))).
      { pose proof (assign_map_snd (fun a => wrap (cell (h ++ [v]) a)) n (List.length h) (t_functions t)) as E. cbn beta in E.
        unfold wrapped. rewrite <- E, cell_new, Wv. f_equal. apply (wrapped_ext h [v]). exact Hv. }
      split; [now exists [v] |]. split.
      * repeat split; cbn [t_fobjs t_boxed t_functions]; [now rewrite Hw, Ho | now rewrite Hw, Hb | exact Hv' |].
        rewrite keys_assign; [exact Hn | congruence].
      * f_equal. pose proof (assign_map_snd (cell (h ++ [v])) n (List.length h) (t_functions t)) as E.
        unfold deref. rewrite <- E, cell_new. f_equal. symmetry. apply (deref_ext h [v]). exact Hv.
  - intros [= <- <- <-]. cbn.
    assert (Hv' : valid (h ++ [[f]]) (t_functions t ++ [(n, List.length h)])).
    { apply Forall_app. split; [now apply valid_ext |]. constructor; [| constructor]. cbn.
      split; [rewrite app_length; cbn; lia | rewrite cell_new; discriminate]. }
    assert (Hw : wrapped (h ++ [[f]]) (t_functions t ++ [(n, List.length h)]) = wrapped h (t_functions t) ++ [(n, wrap [f])]).
    { unfold wrapped at 1. rewrite map_app. cbn [map fst snd]. rewrite cell_new. f_equal. apply (wrapped_ext h [[f]]). exact Hv. }
    assert (Ln : lookup n (wrapped h (t_functions t)) = None) by (rewrite lookup_wrapped, L; reflexivity).
    split; [now exists [[f]] |]. split.
    + repeat split; cbn [t_fobjs t_boxed t_functions].
      * rewrite Ho, Hw. now apply assign_notin.
      * rewrite Hb, Hw. now apply assign_notin.
      * exact Hv'.
      * rewrite map_app. cbn. apply NoDup_app_one; [exact Hn |]. now apply lookup_in_keys.
    + f_equal. rewrite <- (deref_ext h [[f]] (t_functions t) Hv). unfold deref. rewrite map_app. cbn [map fst snd]. now rewrite cell_new.
Qed.

(* ================================================================ statements, scripts, modules *)
Section Sim.
  Variable d : engine_desc.
  Hypothesis F : desc_facts d.

  Lemma sop_sim s h t r a h' t' r' a' o :
    tabs_in_step h t ->
    sop_step (madd d) ((h, t), r, a) s = (((h', t'), r', a'), o) ->
    (exists ext, h' = h ++ ext) /\ tabs_in_step h' t' /\
    sop_step dict_add (deref h (t_functions t), r, a) s = ((deref h' (t_functions t'), r', a'), o).
  Proof.
    intros T. destruct s as [n f | n v | n v | n v | n v | n ty]; cbn [sop_step].
    - rewrite (madd_canon d (h, t) n f F).
      destruct (madd_cow (h, t) n f) as [[h1 t1] o1] eqn:E. intros [= <- <- <- <- <-].
      destruct (madd_sim _ _ _ _ _ _ _ T E) as (X & T1 & E1). rewrite E1. auto.
    - destruct (gstep r a (SGlobalDecl n v)) as [[r1 a1] o1]. intros [= <- <- <- <- <-].
      split; [exists []; now rewrite app_nil_r | auto].
    - destruct (gstep r a (SAddGlobal n v)) as [[r1 a1] o1]. intros [= <- <- <- <- <-].
      split; [exists []; now rewrite app_nil_r | auto].
    - destruct (gstep r a (SSetGlobal n v)) as [[r1 a1] o1]. intros [= <- <- <- <- <-].
      split; [exists []; now rewrite app_nil_r | auto].
    - destruct (gstep r a (SAssign n v)) as [[r1 a1] o1]. intros [= <- <- <- <- <-].
      split; [exists []; now rewrite app_nil_r | auto].
    - destruct (gstep r a (SAddType n ty)) as [[r1 a1] o1]. intros [= <- <- <- <- <-].
      split; [exists []; now rewrite app_nil_r | auto].
  Qed.

  Lemma script_sim l : forall h t r a h' t' r' a' o,
    tabs_in_step h t ->
    run_script (madd d) ((h, t), r, a) l = (((h', t'), r', a'), o) ->
    (exists ext, h' = h ++ ext) /\ tabs_in_step h' t' /\
    run_script dict_add (deref h (t_functions t), r, a) l = ((deref h' (t_functions t'), r', a'), o).
  Proof.
    induction l as [| s l IH]; intros h t r a h' t' r' a' o T; cbn [run_script].
    - intros [= <- <- <- <- <-]. split; [exists []; now rewrite app_nil_r | auto].
    - destruct (sop_step (madd d) (h, t, r, a) s) as [[[[h1 t1] r1] a1] o1] eqn:E.
      destruct (sop_sim _ _ _ _ _ _ _ _ _ _ T E) as ((e1 & ->) & T1 & E1). rewrite E1.
      destruct (is_ok o1).
      + intros R. destruct (IH _ _ _ _ _ _ _ _ _ T1 R) as ((e2 & ->) & T2 & E2).
        split; [exists (e1 ++ e2); now rewrite app_assoc | auto].
      + intros [= <- <- <- <- <-]. split; [now exists e1 | auto].
  Qed.

  Lemma module_sim l : forall h t r a h' t' r' a',
    tabs_in_step h t ->
    run_module (madd d) ((h, t), r, a) l = ((h', t'), r', a') ->
    (exists ext, h' = h ++ ext) /\ tabs_in_step h' t' /\
    run_module dict_add (deref h (t_functions t), r, a) l = (deref h' (t_functions t'), r', a').
  Proof.
    induction l as [| s l IH]; intros h t r a h' t' r' a' T; cbn [run_module].
    - intros [= <- <- <- <-]. split; [exists []; now rewrite app_nil_r | auto].
    - destruct (sop_step (madd d) (h, t, r, a) s) as [[[[h1 t1] r1] a1] o1] eqn:E.
      destruct (sop_sim _ _ _ _ _ _ _ _ _ _ T E) as ((e1 & ->) & T1 & E1). rewrite E1. cbn [fst].
      intros R. destruct (IH _ _ _ _ _ _ _ _ T1 R) as ((e2 & ->) & T2 & E2).
      split; [exists (e1 ++ e2); now rewrite app_assoc | auto].
  Qed.

  (* ============================================================== whole states *)
  Lemma abs_snaps_ext h ext snaps :
    Forall (fun s => tabs_in_step h (es_tabs (sn_engine s))) snaps ->
    map (abs_snap (h ++ ext)) snaps = map (abs_snap h) snaps.
  Proof. induction 1 as [| s l H _ IH]; cbn; [reflexivity |]. now rewrite IH, abs_snap_ext. Qed.

  Lemma with_sim st ext t' r' a' used mods :
    inv st -> tabs_in_step (m_heap st ++ ext) t' ->
    inv (m_with st ((m_heap st ++ ext, t'), r', a') used mods) /\
    abs (m_with st ((m_heap st ++ ext, t'), r', a') used mods)
    = s_with (abs st) (deref (m_heap st ++ ext) (t_functions t'), r', a') used mods.
  Proof.
    intros [I1 I2] T. split.
    - split; cbn; [exact T |]. revert I2. apply Forall_impl. intros s. apply tabs_ext.
    - unfold abs, m_with, s_with. cbn. now rewrite abs_snaps_ext.
  Qed.

  Lemma mstep_sim w st o st' oc :
    inv st -> mstep d w st o = (st', oc) -> inv st' /\ sstep w (abs st) o = (abs st', oc).
  Proof.
    intros I. pose proof I as [I1 I2].
    destruct o as [l | f | m | n v | | k]; cbn [mstep sstep].
    - (* script *)
      unfold m_core. destruct (run_script (madd d) _ l) as [[[[h' t'] r'] a'] o1] eqn:E.
      destruct (script_sim _ _ _ _ _ _ _ _ _ _ I1 E) as ((ext & ->) & T & E1).
      intros [= <- <-]. destruct (with_sim st ext t' r' a' (sn_used (m_live st)) (sn_mods (m_live st)) I T) as [J A]. cbn [m_with] in J, A.
      split; [exact J |]. rewrite A. unfold s_core. cbn. cbn in E1. rewrite E1. reflexivity.
    - (* use *)
      cbn. destruct (lookup f (w_files w)) as [l |]; [| intros [= <- <-]; auto].
      destruct (mem f (sn_used (m_live st))); [intros [= <- <-]; auto |].
      destruct (run_script (madd d) _ (map (regen (next_gen (m_amb st))) l)) as [[[[h' t'] r'] a'] o1] eqn:E.
      destruct (script_sim _ _ _ _ _ _ _ _ _ _ I1 E) as ((ext & ->) & T & E1). rewrite E1.
      destruct (is_ok o1); intros [= <- <-].
      + destruct (with_sim st ext t' r' a' (add_set f (sn_used (m_live st))) (sn_mods (m_live st)) I T) as [J A]. cbn [m_with] in J, A. split; [exact J | now rewrite A].
      + destruct (with_sim st ext t' r' a' (sn_used (m_live st)) (sn_mods (m_live st)) I T) as [J A]. cbn [m_with] in J, A. split; [exact J | now rewrite A].
    - (* module *)
      cbn. destruct (lookup m (w_mods w)) as [mc |]; [| intros [= <- <-]; auto].
      destruct (mem m (sn_mods (m_live st))); [intros [= <- <-]; auto |].
      unfold m_core, s_core. cbn.
      destruct (run_module (madd d) _ (mod_ops mc)) as [[[h' t'] r'] a'] eqn:E.
      destruct (module_sim _ _ _ _ _ _ _ _ _ I1 E) as ((ext & ->) & T & E1). rewrite E1.
      intros [= <- <-].
      destruct (with_sim st ext t' r' a' (sn_used (m_live st)) (add_set m (sn_mods (m_live st))) I T) as [J A]. cbn [m_with] in J, A. split; [exact J | now rewrite A].
    - (* local *)
      intros [= <- <-]. split; [split; assumption | reflexivity].
    - (* get_state *)
      rewrite (cget_id d _ F). intros [= <- <-]. split.
      + split; cbn; [exact I1 |]. apply Forall_app. split; [exact I2 | constructor; [exact I1 | constructor]].
      + unfold abs; cbn. now rewrite map_app.
    - (* set_state *)
      cbn. rewrite nth_error_map'. destruct (nth_error (m_snaps st) k) as [s |] eqn:N; cbn.
      + rewrite (cset_id d _ _ F). intros [= <- <-]. split; [| reflexivity].
        split; cbn; [| exact I2]. rewrite Forall_forall in I2. apply I2. eapply nth_error_In; eauto.
      + intros [= <- <-]. auto.
  Qed.

  Lemma inv_init : inv m_init.
  Proof. split; cbn; [| constructor]. repeat split; cbn; constructor. Qed.

  Lemma mrun_sim w h : forall st, inv st -> inv (mrun d w st h) /\ abs (mrun d w st h) = srun w (abs st) h.
  Proof.
    induction h as [| o h IH]; intros st I; cbn [mrun srun]; [auto |].
    destruct (mstep d w st o) as [st' oc] eqn:E. destruct (mstep_sim _ _ _ _ _ I E) as [J A].
    rewrite A. cbn [fst]. now apply IH.
  Qed.

  Lemma moutcome_sim w st o : inv st -> moutcome d w st o = soutcome w (abs st) o.
  Proof.
    intros I. unfold moutcome, soutcome. destruct (mstep d w st o) as [st' oc] eqn:E.
    destruct (mstep_sim _ _ _ _ _ I E) as [_ A]. now rewrite A.
  Qed.
End Sim.

(* ================================================================ facts about the specification *)
Lemma s_with_snaps st c u m : s_snaps (s_with st c u m) = s_snaps st.
Proof. destruct c as [[x y] z]; reflexivity. Qed.
Lemma s_with_env st c u m : s_env (s_with st c u m) = mkEnv (fst (fst c)) (snd (fst c)) u m.
Proof. destruct c as [[x y] z]; reflexivity. Qed.

Lemma sstep_snaps w st o : exists l, s_snaps (fst (sstep w st o)) = s_snaps st ++ l.
Proof.
  destruct o as [l | f | m | n v | | k]; cbn [sstep].
  - destruct (run_script dict_add (s_core st) l) as [c oc]. cbn. rewrite s_with_snaps. exists []. now rewrite app_nil_r.
  - destruct (lookup f (w_files w)); [| exists []; now rewrite app_nil_r].
    destruct (mem f (e_used (s_env st))); [exists []; now rewrite app_nil_r |].
    destruct (s_core st) as [[d0 r0] a0].
    destruct (run_script dict_add _ _) as [c oc]. destruct (is_ok oc); cbn; rewrite s_with_snaps; exists []; now rewrite app_nil_r.
  - destruct (lookup m (w_mods w)); [| exists []; now rewrite app_nil_r].
    destruct (mem m (e_mods (s_env st))); cbn; [| rewrite s_with_snaps]; exists []; now rewrite app_nil_r.
  - exists []. cbn. now rewrite app_nil_r.
  - exists [s_env st]. reflexivity.
  - destruct (nth_error (s_snaps st) k); exists []; cbn; now rewrite app_nil_r.
Qed.

Lemma srun_snaps w h : forall st, exists l, s_snaps (srun w st h) = s_snaps st ++ l.
Proof.
  induction h as [| o h IH]; intros st; cbn [srun]; [exists []; now rewrite app_nil_r |].
  destruct (sstep_snaps w st o) as [l1 E1]. destruct (IH (fst (sstep w st o))) as [l2 E2].
  exists (l1 ++ l2). now rewrite E2, E1, app_assoc.
Qed.

Lemma srun_app w h1 h2 : forall st, srun w st (h1 ++ h2) = srun w (srun w st h1) h2.
Proof. induction h1 as [| o h1 IH]; intros st; cbn; auto. Qed.
Lemma mrun_app d w h1 h2 : forall st, mrun d w st (h1 ++ h2) = mrun d w (mrun d w st h1) h2.
Proof. induction h1 as [| o h1 IH]; intros st; cbn; auto. Qed.

(* a saved state is the environment at the time of get_state, whatever happens afterwards *)
Lemma snapshot_is_env w st h1 h2 :
  nth_error (s_snaps (srun w st (h1 ++ OGet :: h2))) (List.length (s_snaps (srun w st h1))) = Some (s_env (srun w st h1)).
Proof.
  rewrite srun_app. cbn [srun sstep fst].
  destruct (srun_snaps w h2 (mkS (s_env (srun w st h1)) (s_amb (srun w st h1)) (s_snaps (srun w st h1) ++ [s_env (srun w st h1)]))) as [l E].
  rewrite E. cbn [s_snaps]. rewrite <- app_assoc. rewrite nth_error_app2 by lia. now rewrite Nat.sub_diag.
Qed.

Lemma snapshot_stable_spec w st h1 h2 k :
  k < List.length (s_snaps (srun w st h1)) ->
  nth_error (s_snaps (srun w st (h1 ++ h2))) k = nth_error (s_snaps (srun w st h1)) k.
Proof.
  intros H. rewrite srun_app. destruct (srun_snaps w h2 (srun w st h1)) as [l E]. rewrite E. now apply nth_error_app1.
Qed.

Lemma restore_spec w st h1 h2 :
  let k := List.length (s_snaps (srun w st h1)) in
  let before := srun w st (h1 ++ OGet :: h2) in
  let after := srun w st (h1 ++ OGet :: h2 ++ [OSet k]) in
  s_env after = s_env (srun w st h1) /\ s_amb after = s_amb before /\ soutcome w before (OSet k) = Ok.
Proof.
  cbn zeta. rewrite app_comm_cons, app_assoc, srun_app. cbn [srun]. unfold soutcome. cbn [sstep].
  rewrite (snapshot_is_env w st h1 h2). cbn. auto.
Qed.

(* whether an addition succeeds is decided by the environment alone *)
Lemma add_outcome_env w st st' s :
  is_add s = true -> s_env st = s_env st' -> soutcome w st (OScript [s]) = soutcome w st' (OScript [s]).
Proof.
  intros A H. unfold soutcome. cbn [sstep]. unfold s_core. rewrite <- H.
  destruct s as [n f | n v | n v | n v | n v | n ty]; try discriminate; cbn.
  - destruct (dict_add (e_funs (s_env st)) n f) as [d' o']. destruct (is_ok o'); reflexivity.
  - destruct (lookup n (r_globals (e_rest (s_env st)))); reflexivity.
  - destruct (lookup (type_global n) (r_globals (e_rest (s_env st)))); reflexivity.
Qed.

Lemma add_fresh_ok w st n f : lookup n (e_funs (s_env st)) = None -> soutcome w st (OScript [SDef n f]) = Ok.
Proof. intros H. unfold soutcome. cbn. unfold dict_add. now rewrite H. Qed.

(* ================================================================ the theorems about the mechanism *)
Section Theorems.
  Variable d : engine_desc.
  Hypothesis OK : desc_ok d = true.
  Variable w : world.

  Let F := desc_ok_facts d OK.
  Let M (h : list op) : mstate := mrun d w m_init h.

  Lemma M_inv h : inv (M h).
  Proof. apply (mrun_sim d F w h m_init inv_init). Qed.
  Lemma M_abs h : abs (M h) = srun w s_init h.
  Proof. apply (mrun_sim d F w h m_init inv_init). Qed.

  Theorem tables_in_step_thm h :
    tabs_in_step (m_heap (M h)) (es_tabs (sn_engine (m_live (M h)))) /\
    Forall (fun s => tabs_in_step (m_heap (M h)) (es_tabs (sn_engine s))) (m_snaps (M h)).
  Proof. exact (M_inv h). Qed.

  Theorem simulation_thm h : abs (M h) = srun w s_init h.
  Proof. exact (M_abs h). Qed.

  Theorem restore_thm h1 h2 :
    let k := List.length (m_snaps (M h1)) in
    let before := M (h1 ++ OGet :: h2) in
    let after := M (h1 ++ OGet :: h2 ++ [OSet k]) in
    menv after = menv (M h1) /\ m_amb after = m_amb before /\ moutcome d w before (OSet k) = Ok.
  Proof.
    cbn zeta.
    assert (K : List.length (m_snaps (M h1)) = List.length (s_snaps (srun w s_init h1))).
    { rewrite <- M_abs. cbn. now rewrite map_length. }
    rewrite K. destruct (restore_spec w s_init h1 h2) as (E1 & E2 & E3). cbn zeta in *.
    set (k := List.length (s_snaps (srun w s_init h1))) in *.
    repeat split.
    - change (s_env (abs (M (h1 ++ OGet :: h2 ++ [OSet k]))) = s_env (abs (M h1))). now rewrite !M_abs.
    - change (s_amb (abs (M (h1 ++ OGet :: h2 ++ [OSet k]))) = s_amb (abs (M (h1 ++ OGet :: h2)))). now rewrite !M_abs.
    - rewrite moutcome_sim by (exact F || apply M_inv). now rewrite M_abs.
  Qed.

  Theorem added_gone_thm h1 h2 n :
    let k := List.length (m_snaps (M h1)) in
    lookup n (e_funs (menv (M h1))) = None ->
    lookup n (e_funs (menv (M (h1 ++ OGet :: h2 ++ [OSet k])))) = None.
  Proof. cbn zeta. intros H. destruct (restore_thm h1 h2) as [E _]. cbn zeta in E. now rewrite E. Qed.

  Theorem readd_thm h1 h2 s :
    let k := List.length (m_snaps (M h1)) in
    is_add s = true ->
    moutcome d w (M (h1 ++ OGet :: h2 ++ [OSet k])) (OScript [s]) = moutcome d w (M h1) (OScript [s]).
  Proof.
    cbn zeta. intros A. rewrite !moutcome_sim by (exact F || apply M_inv).
    apply add_outcome_env; [exact A |]. destruct (restore_thm h1 h2) as [E _]. exact E.
  Qed.

  Theorem readd_fresh_thm h1 h2 n f :
    let k := List.length (m_snaps (M h1)) in
    lookup n (e_funs (menv (M h1))) = None ->
    moutcome d w (M (h1 ++ OGet :: h2 ++ [OSet k])) (OScript [SDef n f]) = Ok.
  Proof.
    cbn zeta. intros H. rewrite moutcome_sim by (exact F || apply M_inv). apply add_fresh_ok.
    change (s_env (abs ?x)) with (menv x). now apply added_gone_thm.
  Qed.

  Theorem snapshot_stable_thm h1 h2 k :
    k < List.length (m_snaps (M h1)) -> msnap_env (M (h1 ++ h2)) k = msnap_env (M h1) k.
  Proof.
    intros H. unfold msnap_env. rewrite <- !nth_error_map'.
    change (map (abs_snap (m_heap ?x)) (m_snaps ?x)) with (s_snaps (abs x)).
    rewrite !M_abs. apply snapshot_stable_spec. rewrite <- M_abs. cbn. now rewrite map_length.
  Qed.

  Theorem snapshot_is_env_thm h1 h2 :
    msnap_env (M (h1 ++ OGet :: h2)) (List.length (m_snaps (M h1))) = Some (menv (M h1)).
  Proof.
    unfold msnap_env. rewrite <- nth_error_map'.
    change (map (abs_snap (m_heap ?x)) (m_snaps ?x)) with (s_snaps (abs x)).
    replace (List.length (m_snaps (M h1))) with (List.length (s_snaps (srun w s_init h1))) by (rewrite <- M_abs; cbn; now rewrite map_length).
    rewrite M_abs, snapshot_is_env. f_equal. now rewrite <- M_abs.
  Qed.

  Theorem locals_untouched_thm st k : m_amb (fst (mstep d w st (OSet k))) = m_amb st.
  Proof. cbn. destruct (nth_error (m_snaps st) k); reflexivity. Qed.
End Theorems.

(* ================================================================ position hints *)
Lemma lookup_nodup {V : Type} k (v : V) l : NoDup (map fst l) -> In (k, v) l -> lookup k l = Some v.
Proof.
  induction l as [| [k' v'] l IH]; cbn; [tauto |]. intros N [H | H].
  - injection H as -> ->. now rewrite String.eqb_refl.
  - inversion N as [| ? ? N1 N2]; subst. destruct (String.eqb k' k) eqn:E; [| auto].
    apply String.eqb_eq in E. subst. exfalso. apply N1. apply (in_map fst) in H. exact H.
Qed.

Theorem find_hint_safe {V : Type} k hint (l : list (string * V)) :
  NoDup (map fst l) -> find_hint true true true k hint l = Some (lookup k l).
Proof.
  intros N. unfold find_hint. cbn [andb negb].
  destruct (Nat.ltb hint (List.length l)) eqn:B; cbn [negb]; [| reflexivity].
  apply Nat.ltb_lt in B. destruct (nth_error l hint) as [[k' v] |] eqn:E.
  - destruct (String.eqb k' k) eqn:K; cbn; [| reflexivity].
    apply String.eqb_eq in K. subst. f_equal. symmetry. apply lookup_nodup; [exact N | eapply nth_error_In; eauto].
  - apply nth_error_None in E. lia.
Qed.

Lemma wrapped_keys h fns : map fst (wrapped h fns) = map fst fns.
Proof. unfold wrapped. rewrite map_map. reflexivity. Qed.

Lemma tables_nodup h t : tabs_in_step h t ->
  NoDup (map fst (t_functions t)) /\ NoDup (map fst (t_fobjs t)) /\ NoDup (map fst (t_boxed t)).
Proof. intros (H1 & H2 & _ & H4). rewrite H1, H2, !wrapped_keys. auto. Qed.

(* ================================================================ what goes wrong otherwise (witnesses) *)
Local Open Scope string_scope.
Definition F0 (site ar : nat) : fdesc := mkF site 0 KDyn ar None.
Definition desc_canonical : engine_desc :=
  mkDesc canonical_exists_branch [EBoxed; EFunctionObjects] all_efields all_efields all_cfields all_cfields.
(* add_function pushing into the published vector *)
Definition desc_inplace : engine_desc :=
  mkDesc [ARefVec; AConflictCheck; APushShared; ASortShared; AReturnDispatchShared]
         [EBoxed; EFunctionObjects] all_efields all_efields all_cfields all_cfields.
(* set_state forgetting m_boxed_functions *)
Definition desc_no_boxed_restore : engine_desc :=
  mkDesc canonical_exists_branch [EBoxed; EFunctionObjects] all_efields [EFunctions; EFunctionObjects; EGlobals; ETypes] all_cfields all_cfields.
Definition w0 : world := mkWorld [] [].

Example canonical_ok : desc_ok desc_canonical = true.
Proof. reflexivity. Qed.

Example inplace_changes_a_snapshot :
  let h1 := [OScript [SDef "f" (F0 1 0)]; OGet] in
  msnap_env (mrun desc_inplace w0 m_init h1) 0 <> msnap_env (mrun desc_inplace w0 m_init (h1 ++ [OScript [SDef "f" (F0 2 1)]])%list) 0.
Proof. vm_compute. discriminate. Qed.

Example partial_restore_leaves_a_function_behind :
  let st := mrun desc_no_boxed_restore w0 m_init [OGet; OScript [SDef "f" (F0 1 0)]; OSet 0] in
  lookup "f" (t_functions (es_tabs (sn_engine (m_live st)))) = None /\
  lookup "f" (t_boxed (es_tabs (sn_engine (m_live st)))) = Some (FSingle (F0 1 0)).
Proof. vm_compute. split; reflexivity. Qed.

(* a hint that is not validated by name returns another function *)
Example unchecked_hint_is_wrong :
  find_hint true false true "g" 0 [("f", 1); ("g", 2)] = Some (Some 1) /\ lookup "g" [("f", 1); ("g", 2)] = Some 2.
Proof. vm_compute. split; reflexivity. Qed.

(* the hypotheses of the theorems are satisfiable by a non-trivial history: two overloads, a snapshot, a third
   overload, a global, a type, restore; the third overload is gone, the first two are back, it can be added again *)
Example restore_example :
  let h1 := [OScript [SDef "f" (F0 1 0)]; OScript [SDef "f" (F0 2 1)]] in
  let h2 := [OScript [SDef "f" (F0 3 2)]; OScript [SAddGlobal "g" 5]; OScript [SAddType "T" 1]] in
  let st1 := mrun desc_canonical w0 m_init h1 in
  let st2 := mrun desc_canonical w0 m_init (h1 ++ OGet :: h2)%list in
  let st3 := mrun desc_canonical w0 m_init (h1 ++ OGet :: h2 ++ [OSet 0])%list in
  List.length (m_snaps st1) = 0 /\
  option_map (@List.length _) (lookup "f" (e_funs (menv st2))) = Some 3 /\
  lookup "g" (r_globals (e_rest (menv st2))) = Some 0 /\
  menv st3 = menv st1 /\
  option_map (@List.length _) (lookup "f" (e_funs (menv st3))) = Some 2 /\
  moutcome desc_canonical w0 st3 (OScript [SDef "f" (F0 3 2)]) = Ok /\
  moutcome desc_canonical w0 st2 (OScript [SDef "f" (F0 4 2)]) = Conflict.
Proof. vm_compute. repeat split; reflexivity. Qed.

(* ================================================================ the explicit `Dangling` outcome never occurs *)
(* globals are bound to object ids; objects are never freed in the model (shared Boxed_Value data is reference
   counted in the code), so every id bound in the live environment or in a saved State is allocated *)
Definition oids_ok (n : nat) (r : rest) : Prop := Forall (fun e => snd e < n) (r_globals r).
Definition sstate_ok (st : sstate) : Prop :=
  oids_ok (List.length (a_objs (s_amb st))) (e_rest (s_env st)) /\
  Forall (fun e => oids_ok (List.length (a_objs (s_amb st))) (e_rest e)) (s_snaps st).

Lemma set_nth_length {A : Type} n (x : A) l : List.length (set_nth n x l) = List.length l.
Proof. revert n; induction l as [| y l IH]; intros [| n]; cbn; auto. Qed.

Lemma oids_mono n m r : n <= m -> oids_ok n r -> oids_ok m r.
Proof. intros H. unfold oids_ok. apply Forall_impl. intros e He. lia. Qed.

Lemma lookup_in_snd {V : Type} k (v : V) l : lookup k l = Some v -> In v (map snd l).
Proof. intros H. apply lookup_some_in in H. now apply (in_map snd) in H. Qed.

Lemma gstep_ok r a s r' a' o :
  oids_ok (List.length (a_objs a)) r -> gstep r a s = (r', a', o) ->
  oids_ok (List.length (a_objs a')) r' /\ List.length (a_objs a) <= List.length (a_objs a') /\ o <> Dangling.
Proof.
  intros H.
  assert (AO : forall oid v, In oid (map snd (r_globals r)) ->
               forall r1 a1 o1, assign_obj oid v r a = (r1, a1, o1) ->
               oids_ok (List.length (a_objs a1)) r1 /\ List.length (a_objs a) <= List.length (a_objs a1) /\ o1 <> Dangling).
  { intros oid v Hin r1 a1 o1. unfold assign_obj.
    assert (Lt : oid < List.length (a_objs a)).
    { unfold oids_ok in H. rewrite Forall_forall in H. apply in_map_iff in Hin as ((k & x) & <- & Hx). apply (H _ Hx). }
    destruct (nth_error (a_objs a) oid) as [[[] x] |] eqn:N.
    - intros [= <- <- <-]. repeat split; auto; discriminate.
    - intros [= <- <- <-]. cbn. rewrite set_nth_length. repeat split; auto; discriminate.
    - apply nth_error_None in N. lia. }
  assert (AL : forall n c v, oids_ok (List.length (a_objs (alloc_obj c v a))) (mkRest (r_globals r ++ [(n, List.length (a_objs a))]) (r_types r))).
  { intros n c v. unfold oids_ok. cbn. rewrite app_length. cbn. apply Forall_app. split.
    - revert H. apply Forall_impl. intros e He. lia.
    - constructor; [cbn; lia | constructor]. }
  destruct s as [n f | n v | n v | n v | n v | n ty]; cbn [gstep].
  - intros [= <- <- <-]. repeat split; auto; discriminate.
  - destruct (lookup n (r_globals r)) as [oid |] eqn:L.
    + apply AO. eapply lookup_in_snd; eauto.
    + intros [= <- <- <-]. split; [apply AL |]. cbn. rewrite app_length. cbn. split; [lia | discriminate].
  - destruct (lookup n (r_globals r)) as [oid |] eqn:L.
    + intros [= <- <- <-]. repeat split; auto; discriminate.
    + intros [= <- <- <-]. split; [apply AL |]. cbn. rewrite app_length. cbn. split; [lia | discriminate].
  - intros [= <- <- <-]. split; [| cbn; rewrite app_length; cbn; split; [lia | discriminate]].
    unfold oids_ok. cbn. rewrite app_length. cbn. apply Forall_assign.
    + revert H. apply Forall_impl. intros e He. lia.
    + intros k'. cbn. lia.
  - destruct (lookup n (r_globals r)) as [oid |] eqn:L.
    + apply AO. eapply lookup_in_snd; eauto.
    + intros [= <- <- <-]. repeat split; auto; discriminate.
  - destruct (lookup (type_global n) (r_globals r)) as [oid |] eqn:L.
    + intros [= <- <- <-]. repeat split; auto; discriminate.
    + intros [= <- <- <-]. split; [| cbn; rewrite app_length; cbn; split; [lia | discriminate]].
      exact (AL (type_global n) true ty).
Qed.

Lemma dict_add_outcome d n f : snd (dict_add d n f) <> Dangling.
Proof. unfold dict_add. destruct (lookup n d); [destruct (existsb _ _) |]; cbn; discriminate. Qed.

Lemma sop_ok d r a s d' r' a' o :
  oids_ok (List.length (a_objs a)) r -> sop_step dict_add (d, r, a) s = ((d', r', a'), o) ->
  oids_ok (List.length (a_objs a')) r' /\ List.length (a_objs a) <= List.length (a_objs a') /\ o <> Dangling.
Proof.
  intros H. destruct s as [n f | n v | n v | n v | n v | n ty]; cbn [sop_step].
  - pose proof (dict_add_outcome d n f) as X. destruct (dict_add d n f) as [d1 o1]. intros [= <- <- <- <-]. auto.
  - destruct (gstep r a (SGlobalDecl n v)) as [[r1 a1] o1] eqn:G. intros [= <- <- <- <-]. eapply gstep_ok; eauto.
  - destruct (gstep r a (SAddGlobal n v)) as [[r1 a1] o1] eqn:G. intros [= <- <- <- <-]. eapply gstep_ok; eauto.
  - destruct (gstep r a (SSetGlobal n v)) as [[r1 a1] o1] eqn:G. intros [= <- <- <- <-]. eapply gstep_ok; eauto.
  - destruct (gstep r a (SAssign n v)) as [[r1 a1] o1] eqn:G. intros [= <- <- <- <-]. eapply gstep_ok; eauto.
  - destruct (gstep r a (SAddType n ty)) as [[r1 a1] o1] eqn:G. intros [= <- <- <- <-]. eapply gstep_ok; eauto.
Qed.

Lemma script_ok l : forall d r a d' r' a' o,
  oids_ok (List.length (a_objs a)) r -> run_script dict_add (d, r, a) l = ((d', r', a'), o) ->
  oids_ok (List.length (a_objs a')) r' /\ List.length (a_objs a) <= List.length (a_objs a') /\ o <> Dangling.
Proof.
  induction l as [| s l IH]; intros d r a d' r' a' o H; cbn [run_script].
  - intros [= <- <- <- <-]. repeat split; auto; discriminate.
  - destruct (sop_step dict_add (d, r, a) s) as [[[d1 r1] a1] o1] eqn:E.
    destruct (sop_ok _ _ _ _ _ _ _ _ H E) as (H1 & L1 & N1).
    destruct (is_ok o1).
    + intros R. destruct (IH _ _ _ _ _ _ _ H1 R) as (H2 & L2 & N2). repeat split; auto; lia.
    + intros [= <- <- <- <-]. auto.
Qed.

Lemma module_ok l : forall d r a d' r' a',
  oids_ok (List.length (a_objs a)) r -> run_module dict_add (d, r, a) l = (d', r', a') ->
  oids_ok (List.length (a_objs a')) r' /\ List.length (a_objs a) <= List.length (a_objs a').
Proof.
  induction l as [| s l IH]; intros d r a d' r' a' H; cbn [run_module].
  - intros [= <- <- <-]. auto.
  - destruct (sop_step dict_add (d, r, a) s) as [[[d1 r1] a1] o1] eqn:E.
    destruct (sop_ok _ _ _ _ _ _ _ _ H E) as (H1 & L1 & _). cbn [fst].
    intros R. destruct (IH _ _ _ _ _ _ H1 R) as (H2 & L2). split; auto; lia.
Qed.

Lemma with_ok st d r a u m :
  sstate_ok st -> oids_ok (List.length (a_objs a)) r -> List.length (a_objs (s_amb st)) <= List.length (a_objs a) ->
  sstate_ok (s_with st (d, r, a) u m).
Proof.
  intros [_ S] H L. split; cbn; [exact H |]. revert S. apply Forall_impl. intros e. now apply oids_mono.
Qed.

Lemma sstep_ok w st o : sstate_ok st -> sstate_ok (fst (sstep w st o)) /\ snd (sstep w st o) <> Dangling.
Proof.
  intros K. pose proof K as [K1 K2].
  destruct o as [l | f | m | n v | | k]; cbn [sstep].
  - unfold s_core. destruct (run_script dict_add _ l) as [[[d' r'] a'] oc] eqn:E.
    destruct (script_ok _ _ _ _ _ _ _ _ K1 E) as (H & L & N). cbn [fst snd]. split; [now apply with_ok | exact N].
  - destruct (lookup f (w_files w)) as [l |]; [| split; [exact K | discriminate]].
    destruct (mem f (e_used (s_env st))); [split; [exact K | discriminate] |].
    unfold s_core.
    destruct (run_script dict_add _ (map (regen (next_gen (s_amb st))) l)) as [[[d' r'] a'] oc] eqn:E.
    assert (K1' : oids_ok (List.length (a_objs (log_eval f (s_amb st)))) (e_rest (s_env st))) by exact K1.
    destruct (script_ok _ _ _ _ _ _ _ _ K1' E) as (H & L & N).
    destruct (is_ok oc) eqn:OK; cbn [fst snd]; (split; [apply with_ok; auto | (discriminate || exact N)]).
  - destruct (lookup m (w_mods w)) as [mc |]; [| split; [exact K | discriminate]].
    destruct (mem m (e_mods (s_env st))); [split; [exact K | discriminate] |].
    unfold s_core. destruct (run_module dict_add _ (mod_ops mc)) as [[d' r'] a'] eqn:E.
    destruct (module_ok _ _ _ _ _ _ _ K1 E) as (H & L). cbn [fst snd]. split; [now apply with_ok | discriminate].
  - cbn [fst snd]. split; [exact K | discriminate].
  - cbn [fst snd]. split; [| discriminate]. split; cbn; [exact K1 |]. apply Forall_app. split; [exact K2 | constructor; [exact K1 | constructor]].
  - destruct (nth_error (s_snaps st) k) as [e' |] eqn:N; cbn [fst snd]; [| split; [exact K | discriminate]].
    split; [| discriminate]. split; cbn; [| exact K2]. rewrite Forall_forall in K2. apply K2. eapply nth_error_In; eauto.
Qed.

Lemma srun_ok w h : forall st, sstate_ok st -> sstate_ok (srun w st h).
Proof. induction h as [| o h IH]; intros st K; cbn [srun]; [exact K |]. apply IH. now apply sstep_ok. Qed.

Lemma s_init_ok : sstate_ok s_init.
Proof. split; cbn; constructor. Qed.

Theorem no_dangling_thm d (OK : desc_ok d = true) w h o : moutcome d w (mrun d w m_init h) o <> Dangling.
Proof.
  pose proof (desc_ok_facts d OK) as F.
  rewrite (moutcome_sim d F w _ o) by apply (mrun_sim d F w h m_init inv_init).
  destruct (mrun_sim d F w h m_init inv_init) as [_ A]. rewrite A.
  apply sstep_ok. apply srun_ok. exact s_init_ok.
Qed.
