(* C13 — the hypotheses of the property theorems are satisfiable by concrete, non-trivial executions. *)
From Coq Require Import List String Bool Arith PeanoNat Lia Permutation.
From ChaiV Require Import ConcDefs ConcProofs ConcTheorems.
From ChaiV.Gen Require Import G_Locks.
Import ListNotations.
Local Open Scope string_scope.
Local Open Scope nat_scope.
Local Open Scope list_scope.

Ltac solve_can :=
  split;
  [ let t' := fresh "t'" in let Hne := fresh "Hne" in
    intros t' Hne; unfold upd, no_locks;
    repeat match goal with |- context [Nat.eqb t' ?k] => destruct (Nat.eqb_spec t' k); try congruence end;
    reflexivity
  | let Hh := fresh "Hh" in
    intro Hh; first [ discriminate Hh | (vm_compute in Hh; discriminate Hh) | (split; vm_compute; reflexivity) ] ].

Ltac prog_head := cbv; reflexivity.
Ltac step1 :=
  eapply ExCons;
  [ first [ eapply LAcq; [prog_head | solve_can]
          | eapply LRel; [prog_head | cbv; reflexivity]
          | eapply LOther; [prog_head | reflexivity] ] | ].

(* a writer section and a reader section of the engine mutex on m_global_objects *)
Definition ex_P : nat -> list ev := fun t =>
  match t with
  | 0 => section_events (MkSection (LExclusive engine_mutex_id) [] [f_global_objects])
  | 1 => section_events (MkSection (LShared engine_mutex_id) [f_global_objects] [])
  | _ => []
  end.
Definition ex_tr : list (nat * ev) :=
  [(0, Acq engine_mutex_id Ex); (0, Wr f_global_objects); (0, Rel engine_mutex_id); (1, Acq engine_mutex_id Sh); (1, Rd f_global_objects)].

Lemma lockset_example :
  exists s,
    (forall t, gscan pol_table [] (ex_P t) <> None) /\
    exec kinds_table (ex_P, no_locks) ex_tr s /\
    ex_tr = [(0, Acq engine_mutex_id Ex)] ++ (0, Wr f_global_objects) :: [(0, Rel engine_mutex_id); (1, Acq engine_mutex_id Sh)] ++ (1, Rd f_global_objects) :: [] /\
    pol_table f_global_objects = PGuard engine_mutex_id.
Proof.
  eexists. split; [|split; [|split]].
  - intros [|[|t]]; vm_compute; discriminate.
  - unfold ex_tr. step1. step1. step1. step1. step1. apply ExNil.
  - reflexivity.
  - vm_compute. reflexivity.
Qed.

(* two threads call use(5); the second finds the file already used *)
Definition ex_calls : nat -> list (nat * bool) := fun t => match t with 0 | 1 => [(5, true)] | _ => [] end.
Definition ex_use_P : nat -> list ev := fun t => List.concat (map (fun c => use_prog use_ids_table use_body (fst c) (snd c)) (ex_calls t)).
Definition ex_use_tr : list (nat * ev) := Eval vm_compute in (map (pair 0) (ex_use_P 0) ++ map (pair 1) (ex_use_P 1)).

Lemma use_once_example :
  exists s, exec kinds_table (ex_use_P, no_locks) ex_use_tr s /\
    u_started (urun use_ids_table ex_use_tr u0) 5 = 1 /\ u_finished (urun use_ids_table ex_use_tr u0) 5 = 1 /\
    u_returned (urun use_ids_table ex_use_tr u0) = [(1, 5); (0, 5)].
Proof.
  eexists. split; [|split; [|split]].
  - unfold ex_use_tr. repeat step1. apply ExNil.
  - vm_compute. reflexivity.
  - vm_compute. reflexivity.
  - vm_compute. reflexivity.
Qed.

(* three threads register functions (two overloads of one name from different threads), a global, a type entry and
   a conversion; one of the 1680 interleavings *)
Definition ex_ts : list (list op) :=
  [[AddFun "f" 1; AddGlobal "g" 7]; [AddFun "f" 2; AddConv 0 1; GetFun "f"]; [AddTypeEntry "T" 3; AddFun "h" 0]].
Definition ex_sched : list op :=
  [AddFun "f" 2; AddTypeEntry "T" 3; AddFun "f" 1; AddConv 0 1; AddFun "h" 0; GetFun "f"; AddGlobal "g" 7].

Lemma retained_example :
  Interleave ex_ts ex_sched /\ forallb monotone_op (List.concat ex_ts) = true /\ fresh_regs empty_engine (List.concat ex_ts) /\
  fun_items (run_ops ex_sched empty_engine) = [("f", 2); ("f", 1); ("h", 0)] /\
  nth 5 (run_log ex_sched empty_engine) ROk = RFuns [2; 1].
Proof.
  split; [|split; [|split; [|split]]]; try (vm_compute; reflexivity).
  - unfold ex_ts, ex_sched.
    apply (IL_step [[AddFun "f" 1; AddGlobal "g" 7]] (AddFun "f" 2) _ [[AddTypeEntry "T" 3; AddFun "h" 0]]).
    apply (IL_step [[AddFun "f" 1; AddGlobal "g" 7]; [AddConv 0 1; GetFun "f"]] (AddTypeEntry "T" 3) _ []).
    apply (IL_step [] (AddFun "f" 1) _ [[AddConv 0 1; GetFun "f"]; [AddFun "h" 0]]).
    apply (IL_step [[AddGlobal "g" 7]] (AddConv 0 1) _ [[AddFun "h" 0]]).
    apply (IL_step [[AddGlobal "g" 7]; [GetFun "f"]] (AddFun "h" 0) _ []).
    apply (IL_step [[AddGlobal "g" 7]] (GetFun "f") _ [[]]).
    apply (IL_step [] (AddGlobal "g" 7) _ [[]; []]).
    apply IL_nil. repeat constructor.
  - unfold fresh_regs. vm_compute. repeat split; repeat constructor; simpl; intuition discriminate.
Qed.

Lemma visible_example :
  snd (apply_op (AddFun "f" 2) (run_ops [AddFun "f" 1] empty_engine)) = ROk /\
  forallb monotone_op [AddGlobal "g" 1; AddFun "f" 3] = true /\
  snd (apply_op (GetFun "f") (run_ops ([AddFun "f" 1] ++ AddFun "f" 2 :: [AddGlobal "g" 1; AddFun "f" 3]) empty_engine)) = RFuns [1; 2; 3].
Proof. vm_compute. repeat split. Qed.
