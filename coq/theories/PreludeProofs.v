(* C17 — lemmas about the range monad and the list-level specification that do not depend on
   the regenerated prelude (coq/gen/G_Prelude.v); the per-function theorems are in PreludeTheorems.v *)
From Coq Require Import ZArith List Bool String Ascii Lia.
From ChaiV Require Import PreludeDefs.
Import ListNotations.
Local Open Scope Z_scope.

Lemma bind_ret_l {E A B} (a : A) (k : A -> M E B) : bind (ret a) k = k a.
Proof. unfold bind, ret; cbn. destruct (k a); reflexivity. Qed.

Lemma bind_ok {E A B} tr (a : A) (k : A -> M E B) : bind (tr, Ok a) k = (tr ++ fst (k a), snd (k a)).
Proof. reflexivity. Qed.

Lemma to_nat_pos i : i > 0 -> Z.to_nat i = S (Z.to_nat (i - 1)).
Proof. lia. Qed.
Lemma to_nat_nonpos i : i <= 0 -> Z.to_nat i = 0%nat.
Proof. lia. Qed.

Lemma firstn_Z_cons {V} i (a : V) s : i > 0 -> spec_take i (a :: s) = a :: spec_take (i - 1) s.
Proof. intros; unfold spec_take; rewrite (to_nat_pos i) by assumption; reflexivity. Qed.
Lemma skipn_Z_cons {V} i (a : V) s : i > 0 -> spec_drop i (a :: s) = spec_drop (i - 1) s.
Proof. intros; unfold spec_drop; rewrite (to_nat_pos i) by assumption; reflexivity. Qed.
Lemma firstn_Z_le0 {V} i (s : list V) : i <= 0 -> spec_take i s = [].
Proof. intros; unfold spec_take; rewrite to_nat_nonpos by assumption; reflexivity. Qed.
Lemma skipn_Z_le0 {V} i (s : list V) : i <= 0 -> spec_drop i s = s.
Proof. intros; unfold spec_drop; rewrite to_nat_nonpos by assumption; reflexivity. Qed.

Lemma rev_last_cons {V} (l : list V) (a : V) : rev (l ++ [a]) = a :: rev l.
Proof. rewrite rev_app_distr; reflexivity. Qed.

Lemma spec_generate_range_step x y : x <= y -> spec_generate_range x y = x :: spec_generate_range (x + 1) y.
Proof.
  intros. unfold spec_generate_range.
  replace (Z.to_nat (y + 1 - x)) with (S (Z.to_nat (y + 1 - (x + 1)))) by lia.
  cbn [seq map]. f_equal. lia.
  rewrite <- seq_shift, map_map. apply map_ext. intros. lia.
Qed.
Lemma spec_generate_range_empty x y : y < x -> spec_generate_range x y = [].
Proof. intros. unfold spec_generate_range. replace (Z.to_nat (y + 1 - x)) with 0%nat by lia. reflexivity. Qed.

Lemma spec_join_cons {V} (ts : V -> string) d a b (l : list V) :
  spec_join ts d (a :: b :: l) = (ts a ++ d ++ spec_join ts d (b :: l))%string.
Proof. reflexivity. Qed.

Lemma string_app_assoc (a b c : string) : ((a ++ b) ++ c = a ++ (b ++ c))%string.
Proof. induction a; cbn; congruence. Qed.
Lemma string_app_nil_r (a : string) : (a ++ "" = a)%string.
Proof. induction a; cbn; congruence. Qed.

Lemma existsb_upto_first {V} (p : V -> bool) l : existsb p (upto_first p l) = existsb p l.
Proof. induction l; cbn; auto. destruct (p a) eqn:H; cbn; rewrite H; auto. Qed.

(* C++ truncating % against the parity of the mathematical integer *)
Lemma rem2_odd x : negb (Z.rem x 2 =? 0) = Z.odd x.
Proof.
  assert (Hc : Z.rem x 2 = 0 <-> x mod 2 = 0) by (rewrite Z.rem_divide, Z.mod_divide by lia; tauto).
  rewrite Zmod_odd in Hc. destruct (Z.odd x); destruct (Z.eqb_spec (Z.rem x 2) 0); cbn; try reflexivity; exfalso.
  - apply Hc in e. lia.
  - apply n, Hc. reflexivity.
Qed.
Lemma rem2_even x : (Z.rem x 2 =? 0) = Z.even x.
Proof. rewrite <- Z.negb_odd, <- rem2_odd, negb_involutive. reflexivity. Qed.

Lemma drop_while_len {V} (p : V -> bool) l : (List.length (drop_while_l p l) <= List.length l)%nat.
Proof. induction l; cbn; [lia|]. destruct (p a); cbn; lia. Qed.

Lemma r_empty_snoc {V} (s : list V) a : r_empty (Rng (s ++ [a])) = false.
Proof. unfold r_empty; cbn. destruct s; reflexivity. Qed.
Lemma r_back_snoc {E V} (s : list V) a : r_back (Rng (s ++ [a])) = (ret a : M E V).
Proof. unfold r_back; cbn. rewrite rev_last_cons. reflexivity. Qed.
Lemma r_pop_back_snoc {E V} (s : list V) a : r_pop_back (Rng (s ++ [a])) = (ret (Rng s) : M E (range V)).
Proof. unfold r_pop_back; cbn. rewrite removelast_last. destruct s; reflexivity. Qed.
