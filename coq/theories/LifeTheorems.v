(* C11 — facts about the ownership tables regenerated from boxed_value.hpp / handle_return.hpp /
   proxy_constructors.hpp / type_conversions.hpp / chaiscript_eval.hpp / chaiscript_prelude.hpp
   (Gen/G_Ownership.v).  They are re-checked against the current source text on every run. *)
From Coq Require Import List Bool Arith.
From ChaiV Require Import LifeDefs.
From ChaiV.Gen Require Import G_Ownership.
Import ListNotations.

(* every return shape resolves to exactly the specified flags (owning / new object / is_ref / const / return value) *)
Theorem gen_ret_is_spec : forall r, In r all_rshapes -> gen_ret r = spec_ret r.
Proof.
  assert (H : forallb (fun r => match gen_ret r, spec_ret r with
                               | Some a, Some b => Bool.eqb (f_owning a) (f_owning b) && Bool.eqb (f_fresh a) (f_fresh b) && Bool.eqb (f_is_ref a) (f_is_ref b)
                                                   && Bool.eqb (f_const a) (f_const b) && Bool.eqb (f_rv a) (f_rv b)
                               | None, None => true | _, _ => false end) all_rshapes = true) by (vm_compute; reflexivity).
  intros r I. rewrite forallb_forall in H. specialize (H r I).
  destruct (gen_ret r) as [[a1 a2 a3 a4 a5]|], (spec_ret r) as [[b1 b2 b3 b4 b5]|]; try discriminate; auto.
  simpl in H. repeat (apply andb_true_iff in H; destruct H as [H ?]).
  repeat match goal with E : Bool.eqb _ _ = true |- _ => apply Bool.eqb_prop in E; subst end. reflexivity.
Qed.

Lemma all_rshapes_complete : forall r, In r all_rshapes \/ exists n, r = RFunction n /\ 6 <= n.
Proof.
  intros r. destruct r; try (left; simpl; tauto).
  destruct n as [|[|[|[|[|[|n]]]]]]; try (left; simpl; tauto).
  right. exists (S (S (S (S (S (S n)))))). split; auto. repeat apply le_n_S. apply Nat.le_0_l.
Qed.

(* every Object_Data::get overload stores what is specified *)
Theorem gen_box_is_spec : forall b, In b all_bshapes ->
  match box_flags 4 box_table b false false, spec_box b with
  | Some f, Some (o, fr) => f_owning f = o /\ f_fresh f = fr
  | _, _ => False
  end.
Proof.
  intros b I. simpl in I. repeat (destruct I as [<-|I]; [vm_compute; auto|]). contradiction.
Qed.

(* every route by which a script brings an object into existence is owning *)
Theorem creation_routes_owning : forall c, In c all_creations ->
  exists f, gen_via (ViaCreation c) = Some f /\ f_owning f = true.
Proof.
  assert (H : forallb (fun c => match gen_via (ViaCreation c) with Some f => f_owning f | None => false end) all_creations = true)
    by (vm_compute; reflexivity).
  intros c I. rewrite forallb_forall in H. specialize (H c I).
  destruct (gen_via (ViaCreation c)) as [f|]; [|discriminate]. exists f. auto.
Qed.

(* ... and, except for a class that is not copy-constructible (whose constructor returns the shared_ptr it made),
   the object is a new one that nothing else owns *)
Theorem creation_routes_fresh : forall c, In c all_creations -> c <> CrConstructorShared ->
  exists f, gen_via (ViaCreation c) = Some f /\ f_fresh f = true.
Proof.
  assert (H : forallb (fun c => creation_eqb c CrConstructorShared || match gen_via (ViaCreation c) with Some f => f_fresh f | None => false end) all_creations = true)
    by (vm_compute; reflexivity).
  intros c I N. rewrite forallb_forall in H. specialize (H c I).
  destruct (creation_eqb c CrConstructorShared) eqn:E; [destruct c; try discriminate; congruence|].
  simpl in H. destruct (gen_via (ViaCreation c)) as [f|]; [|discriminate]. exists f. auto.
Qed.

Lemma all_creations_complete : forall c, In c all_creations.
Proof. destruct c; simpl; tauto. Qed.

(* only pointer / reference / std::ref shapes are not owning *)
Theorem only_references_do_not_own : forall r f, In r all_rshapes -> gen_ret r = Some f -> f_owning f = false ->
  In r [RRef; RCRef; RPtr; RCPtr; RPtrRef; RCPtrRef].
Proof.
  intros r f I G O. simpl in I.
  repeat (destruct I as [<-|I]; [vm_compute in G; inversion G; subst; simpl in O; try discriminate; simpl; tauto|]). contradiction.
Qed.

Theorem only_reference_boxes_do_not_own : forall b f, In b all_bshapes -> box_flags 4 box_table b false false = Some f -> f_owning f = false ->
  In b [BVoid; BPtr; BCPtr; BRefWrap; BCRefWrap].
Proof.
  intros b f I G O. simpl in I.
  repeat (destruct I as [<-|I]; [vm_compute in G; inversion G; subst; simpl in O; try discriminate; simpl; tauto|]). contradiction.
Qed.

(* a non-owning Boxed_Value is always marked as a reference, an owning one made from a value never *)
Theorem references_are_marked : forall r f, In r all_rshapes -> gen_ret r = Some f -> f_owning f = false -> f_is_ref f = true.
Proof.
  intros r f I G O. simpl in I.
  repeat (destruct I as [<-|I]; [vm_compute in G; inversion G; subst; simpl in *; try discriminate; auto|]). contradiction.
Qed.

(* consequence for the machine: with the regenerated tables, the value of a registered function returning by value
   is a new owned object, and one returning a reference is a borrow of the object referred to *)
Theorem lower_value_return : forall dst, lower gen_ret (HRet RValue None dst) = [PCreate dst true].
Proof. reflexivity. Qed.
Theorem lower_reference_return : forall src dst, lower gen_ret (HRet RRef (Some src) dst) = [PBorrow src dst].
Proof. reflexivity. Qed.
Theorem lower_shared_return : forall src dst, lower gen_ret (HRet RShared (Some src) dst) = [PShare src dst].
Proof. reflexivity. Qed.

(* the mechanism run and the specification run are the same function on every history *)
Theorem lower_gen_is_spec : forall h,
  (forall r, match h with HRet r' _ _ => r' = r | HBind (RvShape r') _ _ _ _ => r' = r | _ => False end -> In r all_rshapes) ->
  lower gen_ret h = lower spec_ret h.
Proof.
  intros h H. destruct h as [p|r src dst|v tmp dst ss sr|p]; simpl; auto.
  - rewrite (gen_ret_is_spec r (H r eq_refl)). reflexivity.
  - destruct v as [| |r]; auto. rewrite (gen_ret_is_spec r (H r eq_refl)). reflexivity.
Qed.
