(* C11 — executable mechanism model: the same machine, ownership routes taken from the tables regenerated
   from boxed_value.hpp / handle_return.hpp (Gen/G_Ownership.v). *)
From Coq Require Import String.
From ChaiV Require Import LifeDefs LifeIO.
From ChaiV.Gen Require Import G_Ownership.
Definition run_line (line : string) : string := run_with gen_ret line.
