(* C16 / C01 / C20 — theorems about the tables regenerated from the source (Gen/G_IntLadder.v, Gen/G_Keywords.v). *)
From Coq Require Import ZArith NArith List Bool String Lia Arith.
From ChaiV Require Import NumDefs LexDefs CxxLiteral LexProofs LexLitProofs.
From ChaiV.Gen Require Import G_IntLadder G_Keywords.
Import ListNotations.
Local Open Scope Z_scope.

Definition A := alphabets_gen.
Definition T := int_tables_gen.
Definition K := kw_tables_gen.

(* the five Static_String constants of the parser are the ones the model uses *)
Lemma static_strings_ok : static_strings_gen = [s_ml_end; s_ml_begin; s_sl_comment; s_annotation; s_cr_lf].
Proof. reflexivity. Qed.

Lemma backtick_not_id_gen : in_alpha (a_id A) 96%N = false.
Proof. reflexivity. Qed.

Lemma Id_safe_gen U validate : lexer_safe (@Id U A K validate).
Proof. eapply fine_safe. apply fine_Id. exact backtick_not_id_gen. Qed.

(* ------------------------------------------------------------------ keywords *)
Lemma bytes_eqb_eq a b : bytes_eqb a b = true <-> a = b.
Proof. unfold bytes_eqb. destruct (list_eq_dec N.eq_dec a b); split; auto; discriminate. Qed.
Lemma mem_bytes_In x l : mem_bytes x l = true <-> In x l.
Proof.
  unfold mem_bytes. rewrite existsb_exists. split.
  - intros (y & Hy & E). apply bytes_eqb_eq in E. subst. exact Hy.
  - intros H. exists x. split; [exact H|apply bytes_eqb_eq; reflexivity].
Qed.

Definition kwcase_eqb (a b : kwcase) : bool :=
  match a, b with
  | KW_true, KW_true | KW_false, KW_false | KW_Infinity, KW_Infinity | KW_NaN, KW_NaN | KW_LINE, KW_LINE | KW_FILE, KW_FILE
  | KW_FUNC, KW_FUNC | KW_CLASS, KW_CLASS | KW_placeholder, KW_placeholder => true
  | _, _ => false
  end.

(* finite facts about today's tables, decided by computation *)
Lemma kw_guard_list_classified :
  forallb (fun w => match classify K w with Some k => bytes_eqb w (kw_spelling k) | None => false end) (kw_spellings K) = true.
Proof. vm_compute. reflexivity. Qed.
Lemma kw_empty_hash_no_case :
  find (fun e => N.eqb (fnv1a (fnv_basis K) (fnv_prime K) (fst e)) (fnv1a (fnv_basis K) (fnv_prime K) [])) (kw_cases K) = None.
Proof. vm_compute. reflexivity. Qed.
Lemma kw_every_word_recognised : forall k, classify K (kw_spelling k) = Some k.
Proof. destruct k; vm_compute; reflexivity. Qed.

Theorem keywords_thm : forall text k, classify K text = Some k <-> text = kw_spelling k.
Proof.
  intros text k. split; [|intros ->; apply kw_every_word_recognised].
  intros H. destruct (mem_bytes text (kw_spellings K)) eqn:M.
  - apply mem_bytes_In in M. pose proof kw_guard_list_classified as C. rewrite forallb_forall in C. specialize (C _ M).
    rewrite H in C. apply bytes_eqb_eq in C. exact C.
  - unfold classify, id_text_hash in H. rewrite M in H. rewrite kw_empty_hash_no_case in H. discriminate.
Qed.

Lemma rw_every_word_recognised : forallb (is_reserved_word K) (rw_spellings K) = true.
Proof. vm_compute. reflexivity. Qed.
Theorem reserved_thm : forall s, is_reserved_word K s = true <-> In s (rw_spellings K).
Proof.
  intros s. split.
  - unfold is_reserved_word. destruct (existsb _ _); [|discriminate]. apply mem_bytes_In.
  - intros H. pose proof rw_every_word_recognised as C. rewrite forallb_forall in C. apply C, H.
Qed.
Lemma reserved_list_ok : rw_spellings K = reserved_words /\ rw_hashed K = reserved_words.
Proof. split; reflexivity. Qed.

(* a recogniser that looks at the FNV-1a hash alone is wrong: committed collision witnesses *)
Definition w_njMQdv : list N := [110; 106; 77; 81; 100; 118]%N.
Definition w_nKXl50 : list N := [110; 75; 88; 108; 53; 48]%N.
Definition w_njdmKm : list N := [110; 106; 100; 109; 75; 109]%N.
Theorem hash_only_refuted :
  classify_hash_only K w_njMQdv = Some KW_true /\ w_njMQdv <> kw_spelling KW_true
  /\ classify_hash_only K w_nKXl50 = Some KW_LINE /\ w_nKXl50 <> kw_spelling KW_LINE
  /\ is_reserved_hash_only K w_njdmKm = true /\ ~ In w_njdmKm (rw_spellings K)
  /\ classify K w_njMQdv = None /\ classify K w_nKXl50 = None /\ is_reserved_word K w_njdmKm = false.
Proof.
  repeat split; try (vm_compute; reflexivity); try (intros H; vm_compute in H; discriminate).
  intros H. apply reserved_thm in H. vm_compute in H. discriminate.
Qed.

(* ------------------------------------------------------------------ floating literals: the suffix picks the type *)
Lemma scan_suffix_stop rules d r f : suffix_rule rules d = None -> scan_suffix rules (d :: r) f = (f, S (List.length r)).
Proof. intros H. simpl. rewrite H. reflexivity. Qed.
Lemma dec_not_float_suffix d : (48 <=? d)%N && (d <=? 57)%N = true -> suffix_rule (ft_suffix T) d = None.
Proof.
  intros H. apply andb_prop in H. destruct H as [H1 H2]. apply N.leb_le in H1, H2.
  unfold suffix_rule, T, int_tables_gen, ft_suffix, in_alpha. cbn [find existsb fst snd].
  repeat match goal with |- context [(?a =? ?b)%N] => destruct (N.eqb_spec a b); [lia|] end. reflexivity.
Qed.

Lemma scan_suffix_cons rules c r f a : suffix_rule rules c = Some a -> scan_suffix rules (c :: r) f = scan_suffix rules r (apply_action a f).
Proof. intros H. simpl. rewrite H. reflexivity. Qed.

Theorem float_type_thm : forall b d sfx k,
  (48 <=? d)%N && (d <=? 57)%N = true -> float_suffix_type sfx = Some k ->
  buildFloat T ((b ++ [d]) ++ sfx) = (k, parse_num_float k (b ++ [d])).
Proof.
  intros b d sfx k Hd Hs. pose proof (dec_not_float_suffix d Hd) as Hn.
  assert (Hlen : S (List.length (rev b)) = List.length (b ++ [d])) by (rewrite rev_length, app_length; simpl; lia).
  assert (Hfirst : forall x, firstn (List.length (b ++ [d])) ((b ++ [d]) ++ x) = b ++ [d]).
  { intros x. rewrite firstn_app, firstn_all, Nat.sub_diag. cbn [firstn]. apply app_nil_r. }
  unfold buildFloat. rewrite rev_app_distr, (rev_app_distr b [d]). cbn [rev app].
  unfold float_suffix_type in Hs.
  assert (Hc : sfx = [] /\ k = F64 \/ (sfx = [102%N] \/ sfx = [70%N]) /\ k = F32 \/ (sfx = [108%N] \/ sfx = [76%N]) /\ k = F80).
  { destruct sfx as [|c [|c2 r]].
    - inversion Hs. auto.
    - destruct c as [|p]; [discriminate|]. do 7 (destruct p as [p|p|]; try discriminate); inversion Hs; auto.
    - destruct c as [|p]; [discriminate|]. do 7 (destruct p as [p|p|]; try discriminate). }
  destruct Hc as [[-> ->] | [[[-> | ->] ->] | [[-> | ->] ->]]]; cbn [rev app].
  - rewrite (scan_suffix_stop _ _ _ _ Hn), Hlen. cbv beta iota. rewrite Hfirst. reflexivity.
  - rewrite (scan_suffix_cons (ft_suffix T) 102%N _ _ SA_float eq_refl), (scan_suffix_stop _ _ _ _ Hn), Hlen. cbv beta iota. rewrite Hfirst. reflexivity.
  - rewrite (scan_suffix_cons (ft_suffix T) 70%N _ _ SA_float eq_refl), (scan_suffix_stop _ _ _ _ Hn), Hlen. cbv beta iota. rewrite Hfirst. reflexivity.
  - rewrite (scan_suffix_cons (ft_suffix T) 108%N _ _ SA_long_plain eq_refl), (scan_suffix_stop _ _ _ _ Hn), Hlen. cbv beta iota. rewrite Hfirst. reflexivity.
  - rewrite (scan_suffix_cons (ft_suffix T) 76%N _ _ SA_long_plain eq_refl), (scan_suffix_stop _ _ _ _ Hn), Hlen. cbv beta iota. rewrite Hfirst. reflexivity.
Qed.

(* ------------------------------------------------------------------ integer literals: the ladder of buildInt against [lex.icon] *)
Definition flags_of (u : bool) (l : lsize) : flags :=
  mkFlags u (match l with LNone => false | _ => true end) (match l with LLongLong => true | _ => false end) false.
Definition suffix_table : list (list N * (bool * lsize)) :=
  let u := [117; 85]%N in let l := [108; 76]%N in
  [([], (false, LNone))]
  ++ map (fun a => ([a], (true, LNone))) u
  ++ map (fun a => ([a], (false, LLong))) l
  ++ map (fun a => ([a; a], (false, LLongLong))) l
  ++ flat_map (fun a => map (fun b => ([a; b], (true, LLong))) l) u
  ++ flat_map (fun a => map (fun b => ([b; a], (true, LLong))) l) u
  ++ flat_map (fun a => map (fun b => ([a; b; b], (true, LLongLong))) l) u
  ++ flat_map (fun a => map (fun b => ([b; b; a], (true, LLongLong))) l) u.

Lemma is_u_cases c : is_u c = true -> c = 117%N \/ c = 85%N.
Proof. unfold is_u. intros H. apply orb_prop in H. destruct H as [H|H]; apply N.eqb_eq in H; auto. Qed.
Lemma is_l_cases c : is_l c = true -> c = 108%N \/ c = 76%N.
Proof. unfold is_l. intros H. apply orb_prop in H. destruct H as [H|H]; apply N.eqb_eq in H; auto. Qed.
Lemma l_part_cases s l : l_part s = Some l ->
  (s = [] /\ l = LNone) \/ (exists a, s = [a] /\ is_l a = true /\ l = LLong) \/ (exists a, s = [a; a] /\ is_l a = true /\ l = LLongLong).
Proof.
  unfold l_part. destruct s as [|a [|b [|c r]]]; intros H.
  - inversion H. auto.
  - destruct (is_l a) eqn:E; inversion H. right; left. eauto.
  - destruct (is_l a) eqn:E; cbn [andb] in H; [|discriminate]. destruct (N.eqb_spec a b); inversion H. subst. right; right. eauto.
  - discriminate.
Qed.

Lemma cxx_suffix_enum sfx u l : cxx_suffix sfx = Some (u, l) -> In (sfx, (u, l)) suffix_table.
Proof.
  unfold cxx_suffix. destruct sfx as [|c r]; [intros H; inversion H; left; reflexivity|].
  destruct (is_u c) eqn:Ec.
  - destruct (l_part r) as [l0|] eqn:El; cbn [option_map]; [|discriminate]. intros H; inversion H; subst.
    apply is_u_cases in Ec. apply l_part_cases in El.
    destruct El as [[-> ->]|[(a & -> & Ha & ->)|(a & -> & Ha & ->)]]; try apply is_l_cases in Ha;
      destruct Ec as [-> | ->]; try destruct Ha as [-> | ->]; vm_compute; tauto.
  - destruct (rev (c :: r)) as [|d r'] eqn:Er; [discriminate|].
    assert (Hs : c :: r = rev r' ++ [d]) by (rewrite <- (rev_involutive (c :: r)), Er; reflexivity).
    destruct (is_u d) eqn:Ed.
    + destruct (l_part (rev r')) as [l0|] eqn:El; cbn [option_map]; [|discriminate]. intros H; inversion H; subst. rewrite Hs.
      apply is_u_cases in Ed. apply l_part_cases in El.
      destruct El as [[-> ->]|[(a & -> & Ha & ->)|(a & -> & Ha & ->)]]; try apply is_l_cases in Ha;
        destruct Ed as [-> | ->]; try destruct Ha as [-> | ->]; vm_compute; tauto.
    + destruct (l_part (c :: r)) as [l0|] eqn:El; cbn [option_map]; [|discriminate]. intros H; inversion H; subst.
      apply l_part_cases in El.
      destruct El as [[E ->]|[(a & -> & Ha & ->)|(a & -> & Ha & ->)]]; [discriminate| |]; apply is_l_cases in Ha;
        destruct Ha as [-> | ->]; vm_compute; tauto.
Qed.

Lemma scan_suffix_app rules s1 d rest f :
  Forall (fun c => suffix_rule rules c <> None) s1 -> suffix_rule rules d = None ->
  scan_suffix rules (s1 ++ d :: rest) f =
  (fold_left (fun f c => match suffix_rule rules c with Some a => apply_action a f | None => f end) s1 f, S (List.length rest)).
Proof.
  intros H Hd. revert f. induction H as [|c s1 Hc Hs IH]; intros f.
  - cbn [app fold_left]. apply scan_suffix_stop, Hd.
  - cbn [app fold_left scan_suffix]. destruct (suffix_rule rules c) as [a|]; [|congruence]. apply IH.
Qed.

Lemma digit_not_int_suffix base d : base <= 16 -> cxx_digit base d <> None -> suffix_rule (it_suffix T) d = None.
Proof.
  intros Hb H. unfold suffix_rule, T, int_tables_gen, it_suffix, in_alpha. cbn [find existsb fst snd].
  assert (Hd : d <> 117%N /\ d <> 85%N /\ d <> 108%N /\ d <> 76%N).
  { repeat split; intros ->; apply H; unfold cxx_digit; cbn; destruct (Z.ltb_spec 99 base); try reflexivity; lia. }
  destruct Hd as (H1 & H2 & H3 & H4). apply N.eqb_neq in H1, H2, H3, H4. rewrite H1, H2, H3, H4. reflexivity.
Qed.

Lemma scan_flags : forall e, In e suffix_table -> forall d rest, suffix_rule (it_suffix T) d = None ->
  scan_suffix (it_suffix T) (rev (fst e) ++ d :: rest) no_flags = (flags_of (fst (snd e)) (snd (snd e)), S (List.length rest)).
Proof.
  intros e He d rest Hd. rewrite scan_suffix_app; [| |exact Hd].
  - f_equal. revert e He. apply Forall_forall. vm_compute. repeat constructor.
  - revert e He. apply Forall_forall. vm_compute. repeat (constructor; [repeat (constructor; try discriminate)|]). constructor.
Qed.

Lemma wrap64s z : - 2 ^ 63 <= z < 2 ^ 63 -> wrap 64 true z = z.
Proof.
  intros H. unfold wrap. cbn [andb]. change (2 ^ (64 - 1)) with (2 ^ 63).
  destruct (Z.leb_spec (2 ^ 63) (z mod 2 ^ 64)) as [L|L];
    change (2 ^ 64) with 18446744073709551616 in *; change (2 ^ 63) with 9223372036854775808 in *;
    pose proof (Z.mod_pos_bound z 18446744073709551616 ltac:(lia));
    pose proof (Z.div_mod z 18446744073709551616 ltac:(lia));
    assert (z / 18446744073709551616 = 0 \/ z / 18446744073709551616 = -1) by nia; lia.
Qed.
Lemma wrap64u z : 0 <= z < 2 ^ 64 -> wrap 64 false z = z.
Proof. intros H. unfold wrap. cbn [andb]. apply Z.mod_small. exact H. Qed.
Lemma wrap32s z : - 2 ^ 31 <= z < 2 ^ 31 -> wrap 32 true z = z.
Proof.
  intros H. unfold wrap. cbn [andb]. change (2 ^ (32 - 1)) with (2 ^ 31).
  destruct (Z.leb_spec (2 ^ 31) (z mod 2 ^ 32)) as [L|L];
    change (2 ^ 32) with 4294967296 in *; change (2 ^ 31) with 2147483648 in *;
    pose proof (Z.mod_pos_bound z 4294967296 ltac:(lia));
    pose proof (Z.div_mod z 4294967296 ltac:(lia));
    assert (z / 4294967296 = 0 \/ z / 4294967296 = -1) by nia; lia.
Qed.
Lemma wrap32u z : 0 <= z < 2 ^ 32 -> wrap 32 false z = z.
Proof. intros H. unfold wrap. cbn [andb]. apply Z.mod_small. exact H. Qed.

Lemma conv_cmp_ll t v : 0 <= v < 2 ^ 63 -> conv_cmp ILLong t v = v.
Proof.
  intros H. destruct t; unfold conv_cmp; cbn [ity_nty common promote Z.ltb Z.compare Bool.eqb Z.max Z.leb];
    first [apply wrap64s; lia | apply wrap64u; change (2 ^ 64) with 18446744073709551616; change (2 ^ 63) with 9223372036854775808 in H; lia].
Qed.
Lemma conv_cmp_ull t v : 0 <= v < 2 ^ 64 -> conv_cmp IULLong t v = v.
Proof.
  intros H. destruct t; unfold conv_cmp; cbn [ity_nty common promote Z.ltb Z.compare Bool.eqb Z.max Z.leb]; apply wrap64u; exact H.
Qed.

Ltac const_fold :=
  repeat match goal with
         | |- context [conv_cmp ?a ?b (ity_min ?c)] => let x := eval vm_compute in (conv_cmp a b (ity_min c)) in change (conv_cmp a b (ity_min c)) with x
         | |- context [conv_cmp ?a ?b (ity_max ?c + ?o)] => let x := eval vm_compute in (conv_cmp a b (ity_max c + o)) in change (conv_cmp a b (ity_max c + o)) with x
         end.

Lemma ladder_signed base u l t v :
  In base [2; 8; 10; 16] -> 0 <= v <= 2 ^ 63 - 1 ->
  first_fit (type_sequence (base =? 10) u l) v = Some t ->
  run_ladder (it_signed T) (it_signed_else T) (flags_of u l) base ILLong v = t /\ ity_cast t v = v.
Proof.
  intros Hb Hv Hf. change (2 ^ 63 - 1) with 9223372036854775807 in Hv.
  assert (Hc : forall t', conv_cmp ILLong t' v = v) by (intros; apply conv_cmp_ll; change (2 ^ 63) with 9223372036854775808; lia).
  unfold run_ladder, T, int_tables_gen, it_signed, it_signed_else.
  cbn [find fst snd eval_cond]. rewrite !Hc. const_fold.
  destruct Hb as [<-|[<-|[<-|[<-|[]]]]]; destruct u, l;
    cbn [Z.eqb flags_of flag_val fl_unsigned fl_long fl_longlong negb andb orb Pos.eqb type_sequence first_fit find cxx_max] in *;
    repeat match goal with
           | H : context [?a <=? ?b] |- _ => destruct (Z.leb_spec a b); cbn [negb andb orb] in *
           | |- context [?a <=? ?b] => destruct (Z.leb_spec a b); cbn [negb andb orb] in *
           end; try discriminate; try lia; inversion Hf; subst; (split; [reflexivity|]);
    unfold ity_cast; cbn [ity_nty];
    first [apply wrap32s; lia | apply wrap32u; lia | apply wrap64s; lia | apply wrap64u; lia].
Qed.

Lemma ladder_unsigned base u l t v :
  In base [2; 8; 10; 16] -> 2 ^ 63 <= v <= 2 ^ 64 - 1 ->
  first_fit (type_sequence (base =? 10) u l) v = Some t ->
  run_ladder (it_unsigned T) (it_unsigned_else T) (flags_of u l) base IULLong v = t /\ ity_cast t v = v.
Proof.
  intros Hb Hv Hf. change (2 ^ 64 - 1) with 18446744073709551615 in Hv. change (2 ^ 63) with 9223372036854775808 in Hv.
  assert (Hc : forall t', conv_cmp IULLong t' v = v) by (intros; apply conv_cmp_ull; change (2 ^ 64) with 18446744073709551616; lia).
  unfold run_ladder, T, int_tables_gen, it_unsigned, it_unsigned_else.
  cbn [find fst snd eval_cond]. rewrite !Hc. const_fold.
  destruct Hb as [<-|[<-|[<-|[<-|[]]]]]; destruct u, l;
    cbn [Z.eqb flags_of flag_val fl_unsigned fl_long fl_longlong negb andb orb Pos.eqb type_sequence first_fit find cxx_max] in *;
    repeat match goal with
           | H : context [?a <=? ?b] |- _ => destruct (Z.leb_spec a b); cbn [negb andb orb] in *
           | |- context [?a <=? ?b] => destruct (Z.leb_spec a b); cbn [negb andb orb] in *
           end; try discriminate; try lia; inversion Hf; subst; (split; [reflexivity|]);
    unfold ity_cast; cbn [ity_nty];
    first [apply wrap32s; lia | apply wrap32u; lia | apply wrap64s; lia | apply wrap64u; change (2 ^ 64) with 18446744073709551616; lia].
Qed.

Lemma digits_value_all base ds acc v : digits_value base ds acc = Some v -> all_digits base ds.
Proof.
  revert acc; induction ds as [|c r IH]; intros acc H; [constructor|]. simpl in H.
  destruct (cxx_digit base c) eqn:E; [|discriminate]. constructor; [congruence|eapply IH; eauto].
Qed.
Lemma span_digits_stop base ds rest :
  all_digits base ds -> match rest with [] => True | c :: _ => cxx_digit base c = None end -> span_digits base (ds ++ rest) = (ds, rest).
Proof.
  intros H Hr. induction H as [|c r Hc Hr' IH]; cbn [app].
  - destruct rest as [|c r]; [reflexivity|]. simpl. rewrite Hr. reflexivity.
  - simpl. destruct (cxx_digit base c); [|congruence]. rewrite IH. reflexivity.
Qed.
Lemma first_fit_bound seq v t : first_fit seq v = Some t -> v <= 2 ^ 64 - 1.
Proof.
  unfold first_fit. intros H. apply find_some in H. destruct H as [_ H]. apply Z.leb_le in H.
  change (2 ^ 64 - 1) with 18446744073709551615. destruct t; cbn [cxx_max] in H; lia.
Qed.
Lemma suffix_head_not_digit base sfx u l : base <= 16 -> cxx_suffix sfx = Some (u, l) ->
  match sfx with [] => True | c :: _ => cxx_digit base c = None /\ c <> 120%N /\ c <> 88%N end.
Proof.
  intros Hb H. apply cxx_suffix_enum in H. revert H.
  assert (G : Forall (fun e => match fst e with [] => True | c :: _ => cxx_digit base c = None /\ c <> 120%N /\ c <> 88%N end) suffix_table).
  { unfold suffix_table. cbn [map flat_map app]. repeat constructor; cbn [fst]; try discriminate;
      unfold cxx_digit; cbn; destruct (Z.ltb_spec 99 base); try reflexivity; lia. }
  rewrite Forall_forall in G. intros H. apply (G _ H).
Qed.

(* C16_int at the level of buildInt: the text is prefix ++ digits ++ suffix *)
Theorem buildInt_thm : forall base pre ds sfx t v,
  ((base = 16 \/ base = 2) /\ List.length pre = 2%nat) \/ ((base = 8 \/ base = 10) /\ pre = []) ->
  int_literal base ds sfx = IntLit t v ->
  buildInt T base (pre ++ ds ++ sfx) (negb (Nat.eqb (List.length pre) 0)) = BI t v.
Proof.
  intros base pre ds sfx t v Hp Hl.
  assert (Hb : In base [2; 8; 10; 16]) by (destruct Hp as [[[-> | ->] _]|[[-> | ->] _]]; simpl; auto).
  assert (Hb16 : 2 <= base <= 16) by (destruct Hb as [<-|[<-|[<-|[<-|[]]]]]; lia).
  unfold int_literal in Hl. destruct ds as [|c0 r0]; [discriminate|]. cbv iota in Hl.
  remember (c0 :: r0) as ds eqn:Eds.
  destruct (digits_value base ds 0) as [v0|] eqn:Ev; [|discriminate].
  destruct (cxx_suffix sfx) as [[u l]|] eqn:Es; [|discriminate].
  destruct (first_fit _ v0) as [t0|] eqn:Ef; [|discriminate]. inversion Hl; subst t0 v0. clear Hl.
  pose proof (digits_value_all _ _ _ _ Ev) as Hall.
  assert (Hv : v = num_value base ds) by (unfold num_value; rewrite Ev; reflexivity).
  pose proof (num_value_bound base ds ltac:(lia) Hall) as [Hv0 _]. rewrite <- Hv in Hv0.
  pose proof (first_fit_bound _ _ _ Ef) as Hv1.
  pose proof (suffix_head_not_digit base sfx u l ltac:(lia) Es) as Hsh.
  (* the suffix scan *)
  assert (Hlast : exists ds' d, ds = ds' ++ [d]) by (rewrite Eds; exists (removelast (c0 :: r0)), (last (c0 :: r0) 0%N); apply app_removelast_last; discriminate).
  destruct Hlast as (ds' & d & Hds).
  assert (Hd : suffix_rule (it_suffix T) d = None).
  { apply (digit_not_int_suffix base); [lia|]. rewrite Hds in Hall. apply Forall_app in Hall. destruct Hall as [_ Hd]. inversion Hd; assumption. }
  unfold buildInt.
  assert (Hrev : rev (pre ++ ds ++ sfx) = rev sfx ++ d :: (rev ds' ++ rev pre)).
  { rewrite !rev_app_distr, Hds, rev_app_distr. cbn [rev app]. rewrite <- app_assoc. reflexivity. }
  rewrite Hrev, (scan_flags (sfx, (u, l)) (cxx_suffix_enum _ _ _ Es) d _ Hd). cbn [fst snd].
  (* the digits *)
  assert (Hskip : (if negb (Nat.eqb (List.length pre) 0) then skipn 2 (pre ++ ds ++ sfx) else pre ++ ds ++ sfx) = ds ++ sfx).
  { destruct Hp as [[_ Hp]|[_ ->]]; [|reflexivity]. rewrite Hp. cbn [Nat.eqb negb].
    destruct pre as [|a [|b [|? ?]]]; try discriminate. reflexivity. }
  rewrite Hskip.
  assert (Hsp : span_digits base (ds ++ sfx) = (ds, sfx)).
  { apply span_digits_stop; [exact Hall|]. destruct sfx; [exact I|apply Hsh]. }
  assert (Hstr : strto base (ds ++ sfx) = Some (false, v)).
  { pose proof Hsp as Hsp'. pose proof Hall as Hall'. rewrite Hv. rewrite Eds in Hsp', Hall' |- *. cbn [app] in Hsp' |- *. rewrite strto_digits.
    - rewrite Hsp'. cbn [fst]. rewrite <- num_value_dfold by exact Hall'. reflexivity.
    - lia.
    - inversion Hall'; assumption.
    - destruct r0 as [|x r1]; cbn [app].
      + destruct sfx as [|s0 sr]; [exact I|]. destruct Hsh as (_ & H1 & H2). split; assumption.
      + inversion Hall'; subst. match goal with H : Forall _ (x :: r1) |- _ => inversion H; subst end. apply (cxx_digit_not_x base); [assumption|lia]. }
  unfold stoll, stoull. rewrite Hstr.
  assert (E1 : (- 2 ^ 63 <=? v) = true) by (apply Z.leb_le; change (2 ^ 63) with 9223372036854775808; lia). rewrite E1. cbn [andb].
  destruct (Z.leb_spec v (2 ^ 63 - 1)) as [L|L].
  - destruct (ladder_signed base u l t v Hb ltac:(lia) Ef) as [Ht Hc]. rewrite Ht, Hc. reflexivity.
  - assert (E2 : (v <=? 2 ^ 64 - 1) = true) by (apply Z.leb_le; exact Hv1). rewrite E2.
    destruct (ladder_unsigned base u l t v Hb ltac:(lia) Ef) as [Ht Hc]. rewrite Ht, Hc. reflexivity.
Qed.
