(* C10 — the specification of try/catch/finally as inference rules, and the proof that the
   evaluator's Try node (Eval.eval_try, the port of the repaired Try_AST_Node) satisfies it for
   every sub-term evaluator `ev`.

   Reading the rules:
   * finally: every rule of `fin_spec` with a finally block has exactly one premise evaluating it;
     every rule of `try_spec` has exactly one `fin_spec` premise  ⇒ finally runs exactly once on
     every path (normal, return/break/continue, caught, uncaught, catch block throwing);
   * `handled`: clauses are tried in order; the first one that accepts is taken and the later ones
     are not looked at; a clause body is evaluated only in H_take/H_fail ⇒ at most one catch body;
   * TS_uncaught: when every clause refuses, the pending outcome is the *same* exception `e`. *)
From Coq Require Import ZArith NArith List Bool String Lia.
From ChaiV Require Import StrUtil NumDefs NumSpecRun Ast EvalDefs Eval.
Import ListNotations.

Section TRY.
  Variable c : cfg.
  Variable ops : numops.
  Variable ev : ast -> M dloc.
  Variable k : nat.
  Notation R := (run ev k).

  Definition res_of (p : dloc + fail) : res dloc := match p with inl d => RVal d | inr f => RFail f end.

  Inductive fin_spec (fin : option ast) (pending : dloc + fail) : state -> res dloc -> state -> Prop :=
  | FS_none s : fin = None -> fin_spec fin pending s (res_of pending) s
  | FS_ok b s d s' : fin = Some b -> ev b s = (RVal d, s') ->
      fin_spec fin pending s (match pending with inl _ => RVal d | inr f => RFail f end) s'
  | FS_fail b s f s' : fin = Some b -> ev b s = (RFail f, s') -> fin_spec fin pending s (RFail f) s'.

  Inductive handled (ex : dloc) : list ast -> state -> res (option dloc) -> state -> Prop :=
  | H_nil s : handled ex [] s (RVal None) s
  | H_refuse cl rest s s1 r s2 :
      R (try_clause cl ex) s = (RVal None, s1) -> handled ex rest s1 r s2 -> handled ex (cl :: rest) s r s2
  | H_take cl rest s d s1 :
      R (try_clause cl ex) s = (RVal (Some d), s1) -> handled ex (cl :: rest) s (RVal (Some d)) s1
  | H_fail cl rest s f s1 :
      R (try_clause cl ex) s = (RFail f, s1) -> handled ex (cl :: rest) s (RFail f) s1.

  Definition not_unsup (r : fail) : Prop := match r with FUnsup _ => False | _ => True end.

  (* inside the try's own scope *)
  Inductive try_inner (body : ast) (clauses : list ast) (fin : option ast) : state -> res dloc -> state -> Prop :=
  | TS_value s d s1 r s2 :
      ev body s = (RVal d, s1) -> fin_spec fin (inl d) s1 r s2 -> try_inner body clauses fin s r s2
  | TS_control s f s1 r s2 :          (* return / break / continue leave through the try *)
      ev body s = (RFail f, s1) -> (forall e, f <> FThrow e) -> not_unsup f ->
      fin_spec fin (inr f) s1 r s2 -> try_inner body clauses fin s r s2
  | TS_foreign s w s1 r s2 :          (* a non-std C++ exception: no clause can see it; finally, then it continues *)
      ev body s = (RFail (FThrow (EForeign w)), s1) -> fin_spec fin (inr (FThrow (EForeign w))) s1 r s2 ->
      try_inner body clauses fin s r s2
  | TS_caught s e s1 ex s1' d s2 r s3 :
      (forall w, e <> EForeign w) ->
      ev body s = (RFail (FThrow e), s1) -> R (box_exception e) s1 = (RVal ex, s1') ->
      handled ex clauses s1' (RVal (Some d)) s2 -> fin_spec fin (inl d) s2 r s3 ->
      try_inner body clauses fin s r s3
  | TS_uncaught s e s1 ex s1' s2 r s3 :
      (forall w, e <> EForeign w) ->
      ev body s = (RFail (FThrow e), s1) -> R (box_exception e) s1 = (RVal ex, s1') ->
      handled ex clauses s1' (RVal None) s2 -> fin_spec fin (inr (FThrow e)) s2 r s3 ->
      try_inner body clauses fin s r s3
  | TS_catch_fails s e s1 ex s1' f s2 r s3 :   (* the taken catch block threw, returned, broke or continued *)
      (forall w, e <> EForeign w) ->
      ev body s = (RFail (FThrow e), s1) -> R (box_exception e) s1 = (RVal ex, s1') ->
      handled ex clauses s1' (RFail f) s2 -> not_unsup f -> fin_spec fin (inr f) s2 r s3 ->
      try_inner body clauses fin s r s3.

  Definition try_spec (n : ast) (s : state) (r : res dloc) (s' : state) : Prop :=
    let '(fin, clauses) := try_parts n in
    exists s1, try_inner (child 0 n) clauses fin (push_scope s) r s1 /\ s' = pop_scope s1.

  (* ------------------------------------------------------------ the program satisfies the rules *)
  Lemma run_bind A B (p : prog A) (f : A -> prog B) s :
    R (Bind p f) s = match R p s with
                     | (RVal a, s') => R (f a) s'
                     | (RFail e, s') => (RFail e, s')
                     | (RFuel, s') => (RFuel, s')
                     end.
  Proof. unfold Bind. cbn [run]. destruct (R p s) as [[a|e|] s']; reflexivity. Qed.

  Lemma handle_exception_spec clauses ex : forall s r s',
      R (handle_exception clauses ex) s = (r, s') -> r <> RFuel -> handled ex clauses s r s'.
  Proof.
    induction clauses as [|cl rest IH]; intros s r s' H Hr; cbn [handle_exception] in H.
    - cbn in H. inversion H; subst. constructor.
    - rewrite run_bind in H.
      destruct (R (try_clause cl ex) s) as [[[d|]|f|] s1] eqn:E.
      + cbn in H. inversion H; subst. eapply H_take; eauto.
      + eapply H_refuse; eauto.
      + inversion H; subst. eapply H_fail; eauto.
      + inversion H; subst. exfalso; apply Hr; reflexivity.
  Qed.

  Lemma run_finally_spec fin pending s r s' :
    R (run_finally fin pending) s = (r, s') -> r <> RFuel -> fin_spec fin pending s r s'.
  Proof.
    unfold run_finally. destruct fin as [b|]; intros H Hr.
    - rewrite run_bind in H. cbn [run] in H.
      destruct (ev b s) as [[d|f|] s1] eqn:E.
      + destruct pending as [d0|f0]; cbn in H; inversion H; subst.
        * exact (FS_ok (Some b) (inl d0) b s r0 s' eq_refl E) || (pose proof (FS_ok (Some b) (inl d0) b s _ s' eq_refl E) as X; exact X).
        * pose proof (FS_ok (Some b) (inr f0) b s _ s' eq_refl E) as X; exact X.
      + inversion H; subst. eapply FS_fail; eauto.
      + inversion H; subst. exfalso; apply Hr; reflexivity.
    - destruct pending; cbn in H; inversion H; subst; apply FS_none; reflexivity.
  Qed.

  Lemma res_is_unsup (r : res dloc) : {w | r = RFail (FUnsup w)} + {forall w, r <> RFail (FUnsup w)}.
  Proof. destruct r as [|[]|]; try (right; intros w0; discriminate). left; eexists; reflexivity. Qed.

  Theorem eval_try_refines_spec n s r s' :
    R (eval_try n) s = (r, s') -> r <> RFuel -> (forall w, r <> RFail (FUnsup w)) -> try_spec n s r s'.
  Proof.
    unfold eval_try, try_spec. destruct (try_parts n) as [fin clauses].
    cbn [run]. unfold bracket.
    intros H Hr Hu.
    match type of H with (let '(_, _) := ?X in _) = _ => destruct X as [r1 s1] eqn:E end.
    inversion H; subst r1 s'. clear H.
    exists s1. split; [|reflexivity].
    cbn [run] in E.
    destruct (ev (child 0 n) (push_scope s)) as [[d|f|] s0] eqn:Eb.
    - (* normal completion of the body *)
      eapply TS_value; eauto. apply run_finally_spec; assumption.
    - destruct f as [d| | |e|w].
      + eapply TS_control; eauto; [discriminate|exact I|]. apply run_finally_spec; assumption.
      + eapply TS_control; eauto; [discriminate|exact I|]. apply run_finally_spec; assumption.
      + eapply TS_control; eauto; [discriminate|exact I|]. apply run_finally_spec; assumption.
      + (* an exception *)
        destruct e as [bd|reason st|ty w|w];
          [ | | | cbn [run] in E; eapply TS_foreign; eauto; apply run_finally_spec; assumption ];
          (cbn [run] in E; rewrite run_bind in E;
           match type of E with context [R (box_exception ?e0) s0] =>
             assert (Hnf : forall w0, e0 <> EForeign w0) by (intros w0 X; discriminate);
             destruct (R (box_exception e0) s0) as [[ex|fb|] s0'] eqn:Ebox;
             [ destruct (R (handle_exception clauses ex) s0') as [[[d'|]|fh|] s2] eqn:Eh;
               [ eapply TS_caught; eauto; [eapply handle_exception_spec; eauto; discriminate|]; apply run_finally_spec; assumption
               | eapply TS_uncaught; eauto; [eapply handle_exception_spec; eauto; discriminate|]; apply run_finally_spec; assumption
               | destruct fh as [d'| | |e'|w'];
                 try (eapply TS_catch_fails; eauto; [eapply handle_exception_spec; eauto; discriminate|exact I|apply run_finally_spec; assumption]);
                 cbn in E; inversion E; subst; exfalso; eapply Hu; reflexivity
               | inversion E; subst; exfalso; apply Hr; reflexivity ]
             | exfalso; cbn in Ebox; try discriminate; unfold new_value in Ebox; rewrite run_bind in Ebox; cbn in Ebox; discriminate
             | exfalso; cbn in Ebox; try discriminate; unfold new_value in Ebox; rewrite run_bind in Ebox; cbn in Ebox; discriminate ]
           end).
      + cbn in E. inversion E; subst. exfalso. eapply Hu; reflexivity.
    - inversion E; subst. exfalso; apply Hr; reflexivity.
  Qed.

  (* a clause body is evaluated only if the clause accepts the exception *)
  Lemma try_clause_typed_refuses arg body ex s o :
    known_type (arg_type arg) = true ->
    R (obj_of ex) (push_scope s) = (RVal o, push_scope s) ->
    clause_accepts (arg_type arg) o = false ->
    R (try_clause (Node KCatch "" "" (mkloc 0 0 0 0) None [arg; body]) ex) s = (RVal None, pop_scope (push_scope s)).
  Proof.
    intros Hk Ho Ha. unfold try_clause. cbn [a_children run]. unfold bracket.
    rewrite Hk. cbn [negb]. rewrite run_bind. rewrite Ho. rewrite Ha. reflexivity.
  Qed.
End TRY.
