(* Lexer-level safety lemmas (cited by C01 / C20 / C16): position arithmetic, the Hoare-style rules for the
   scanner monad, and for every scanner of LexDefs: no Crash, no OutOfFuel, wf_pos preserved, cursor monotone. *)
From Coq Require Import ZArith NArith List Bool String Lia Arith.
From ChaiV Require Import NumDefs LexDefs.
Import ListNotations.
Local Open Scope Z_scope.

(* ------------------------------------------------------------------ Position *)
Lemma firstn_S_nth {X} (l : list X) (i : nat) (d : X) :
  (i < List.length l)%nat -> firstn (S i) l = firstn i l ++ [nth i l d].
Proof.
  revert i; induction l as [|x l IH]; intros i H; simpl in H; [lia|].
  destruct i; simpl; [reflexivity|]. f_equal. apply IH. lia.
Qed.

Lemma count_nl_snoc l x : count_nl (l ++ [x]) = if N.eqb x NL then count_nl l + 1 else count_nl l.
Proof. unfold count_nl. rewrite fold_left_app. reflexivity. Qed.
Lemma since_nl_snoc l x : since_nl (l ++ [x]) = if N.eqb x NL then O else S (since_nl l).
Proof. unfold since_nl. rewrite fold_left_app. reflexivity. Qed.

Lemma has_more_lt p : has_more p = true <-> (idx p < List.length (buf p))%nat.
Proof. unfold has_more. apply Nat.ltb_lt. Qed.
Lemma has_more_false p : has_more p = false <-> (List.length (buf p) <= idx p)%nat.
Proof. unfold has_more. apply Nat.ltb_ge. Qed.

Lemma pos_inc_buf p : buf (pos_inc p) = buf p.
Proof. unfold pos_inc. destruct (has_more p); [destruct (N.eqb _ _)|]; reflexivity. Qed.
Lemma pos_inc_idx p : idx (pos_inc p) = if has_more p then S (idx p) else idx p.
Proof. unfold pos_inc. destruct (has_more p); [destruct (N.eqb _ _)|]; reflexivity. Qed.

(* C20_inc: ++ always preserves the meaning of line/col *)
Lemma wf_pos_inc p : wf_pos p -> wf_pos (pos_inc p).
Proof.
  intros (Hi & Hl & Hc). unfold pos_inc.
  destruct (has_more p) eqn:Hm; [|repeat split; assumption].
  apply has_more_lt in Hm.
  destruct (N.eqb (nth (idx p) (buf p) 0%N) NL) eqn:E; unfold wf_pos, before; cbn [idx buf line col last_col];
    rewrite (firstn_S_nth _ _ 0%N Hm), count_nl_snoc, since_nl_snoc, E; fold (before p);
    (split; [lia|split; [lia|]]); rewrite ?Nat2Z.inj_succ; lia.
Qed.

(* C20_dec: -- preserves it when it does not cross a newline, or crosses one whose column last_col records *)
Lemma wf_pos_dec p q :
  wf_pos p -> pos_dec p = Some q ->
  (nth (Nat.pred (idx p)) (buf p) 0%N <> NL \/ last_col p = 1 + Z.of_nat (since_nl (firstn (Nat.pred (idx p)) (buf p)))) ->
  wf_pos q.
Proof.
  intros (Hi & Hl & Hc) Hd Hside. unfold pos_dec in Hd. destruct (idx p) as [|i] eqn:Ei; [discriminate|].
  cbn [Nat.pred] in Hside. assert (Hlt : (i < List.length (buf p))%nat) by (clear - Hi; lia).
  unfold before in Hl, Hc. rewrite ?Ei, (firstn_S_nth _ _ 0%N Hlt) in Hl, Hc. rewrite count_nl_snoc in Hl. rewrite since_nl_snoc in Hc.
  destruct (N.eqb (nth i (buf p) 0%N) NL) eqn:E; inversion Hd; subst q; unfold wf_pos, before; cbn [idx buf line col last_col].
  - destruct Hside as [Hn|Hs]; [apply N.eqb_eq in E; contradiction|]. repeat split; lia.
  - rewrite Nat2Z.inj_succ in Hc. repeat split; lia.
Qed.

Lemma pos_dec_none p : pos_dec p = None <-> idx p = O.
Proof. unfold pos_dec. destruct (idx p); [tauto|]. destruct (N.eqb _ _); split; discriminate. Qed.

(* the decrement sites of the lexer all undo increments made just before *)
Definition set_last_col (p : Position) (c : Z) := mkPos (buf p) (idx p) (line p) (col p) c.
Lemma pos_dec_inc p :
  has_more p = true ->
  pos_dec (pos_inc p) = Some (set_last_col p (if N.eqb (nth (idx p) (buf p) 0%N) NL then col p else last_col p)).
Proof.
  intros Hm. unfold pos_inc. rewrite Hm.
  destruct (N.eqb (nth (idx p) (buf p) 0%N) NL) eqn:E; unfold pos_dec; cbn [idx buf line col last_col]; rewrite E; unfold set_last_col; f_equal; f_equal; lia.
Qed.
Lemma wf_set_last_col p c : wf_pos p -> wf_pos (set_last_col p c).
Proof. intros H; exact H. Qed.

Lemma pos_add_buf p n : buf (pos_add p n) = buf p.
Proof. revert p; induction n; intros p; simpl; [reflexivity|]. rewrite IHn. apply pos_inc_buf. Qed.
Lemma wf_pos_add p n : wf_pos p -> wf_pos (pos_add p n).
Proof. revert p; induction n; intros p H; simpl; [assumption|]. apply IHn, wf_pos_inc, H. Qed.
Lemma pos_add_idx p n : (idx p + n <= List.length (buf p))%nat -> idx (pos_add p n) = (idx p + n)%nat.
Proof.
  revert p; induction n; intros p H; simpl; [lia|].
  rewrite IHn; rewrite ?pos_inc_buf, pos_inc_idx.
  - assert (has_more p = true) by (apply has_more_lt; lia). rewrite H0. lia.
  - assert (has_more p = true) by (apply has_more_lt; lia). rewrite H0. lia.
Qed.
Lemma pos_add_idx_le p n : (idx p <= idx (pos_add p n))%nat.
Proof.
  revert p; induction n; intros p; simpl; [lia|]. etransitivity; [|apply IHn].
  rewrite pos_inc_idx. destruct (has_more p); lia.
Qed.

(* ------------------------------------------------------------------ rules for the scanner monad *)
Section Rules.
  Context {U : Type}.
  Local Notation ST := (state U).

  (* the result is neither Crash nor OutOfFuel, and Q holds of a normal result; eval_error is always allowed *)
  Definition post {A} (r : outcome (A * ST)) (Q : A -> ST -> Prop) : Prop :=
    match r with Ok (a, s') => Q a s' | Err _ _ _ => True | Crash _ => False | OutOfFuel => False end.

  (* s' is a later state of the same scan: same buffer, cursor not moved back, line/col still right,
     depth and grammar-layer state untouched *)
  Definition ext (s s' : ST) : Prop :=
    buf (pos s') = buf (pos s) /\ (idx (pos s) <= idx (pos s'))%nat /\ wf_pos (pos s') /\ depth s' = depth s /\ user s' = user s.

  Lemma ext_intro (s s' : ST) :
    buf (pos s') = buf (pos s) -> (idx (pos s) <= idx (pos s'))%nat -> wf_pos (pos s') -> depth s' = depth s -> user s' = user s -> ext s s'.
  Proof. unfold ext; auto. Qed.
  Lemma ext_refl s : wf_pos (pos s) -> ext s s.
  Proof. intros; repeat split; auto; apply H. Qed.
  Lemma ext_trans a b c : ext a b -> ext b c -> ext a c.
  Proof. intros (B1 & I1 & W1 & D1 & U1) (B2 & I2 & W2 & D2 & U2). repeat split; try congruence; try lia; apply W2. Qed.
  Lemma ext_depth' a b : ext a b -> depth b = depth a.
  Proof. intros (_ & _ & _ & D & _). exact D. Qed.
  Lemma ext_user' a b : ext a b -> user b = user a.
  Proof. intros (_ & _ & _ & _ & Us). exact Us. Qed.
  Lemma ext_wf a b : ext a b -> wf_pos (pos b).
  Proof. intros (_ & _ & W & _); exact W. Qed.

  Lemma post_mono {A} (r : outcome (A * ST)) (Q1 Q2 : A -> ST -> Prop) :
    post r Q1 -> (forall a s, Q1 a s -> Q2 a s) -> post r Q2.
  Proof. destruct r as [[a s]| | |]; simpl; auto. Qed.
  Lemma post_bind {A B} (m : M U A) (k : A -> M U B) s (Q : B -> ST -> Prop) :
    post (m s) (fun a s' => post (k a s') Q) -> post (bind m k s) Q.
  Proof. unfold bind. destruct (m s) as [[a s']| | |]; simpl; auto. Qed.
  Lemma post_ret {A} (a : A) s (Q : A -> ST -> Prop) : Q a s -> post (ret a s) Q.
  Proof. auto. Qed.

  (* a scanner is `fine` when from any well-formed state it ends well and R relates result, start and end state *)
  Definition fine {A} (m : M U A) (R : A -> ST -> ST -> Prop) : Prop :=
    forall s, wf_pos (pos s) -> post (m s) (fun a s' => ext s s' /\ R a s s').

  Lemma use_fine {A B} (m : M U A) R (k : A -> M U B) s0 s (Q : B -> ST -> Prop) :
    fine m R -> ext s0 s ->
    (forall a s', ext s0 s' -> ext s s' -> R a s s' -> post (k a s') Q) ->
    post (bind m k s) Q.
  Proof.
    intros F E H. apply post_bind. eapply post_mono; [apply F, (ext_wf _ _ E)|].
    intros a s' [E' HR]. apply H; auto. eapply ext_trans; eauto.
  Qed.

  (* primitives *)
  Lemma fine_get_pos : fine get_pos (fun p s s' => s' = s /\ p = pos s).
  Proof. intros s W; simpl. split; [apply ext_refl, W|auto]. Qed.
  Lemma fine_ret {A} (a : A) : fine (ret a) (fun b s s' => s' = s /\ b = a).
  Proof. intros s W; simpl. split; [apply ext_refl, W|auto]. Qed.
  Lemma fine_inc : fine inc (fun _ s s' => pos s' = pos_inc (pos s)).
  Proof.
    intros s W; simpl. split; [|reflexivity]. apply ext_intro; simpl; auto using pos_inc_buf, wf_pos_inc.
    rewrite pos_inc_idx. destruct (has_more (pos s)); lia.
  Qed.
  Lemma fine_add_n n : fine (add_n n) (fun _ s s' => pos s' = pos_add (pos s) n).
  Proof.
    intros s W; simpl. split; [|reflexivity]. apply ext_intro; simpl; auto using pos_add_buf, wf_pos_add, pos_add_idx_le.
  Qed.
  Lemma fine_set_col_1 :
    forall s, wf_pos (pos s) -> col (pos s) = 1 ->
    post (set_col 1 s) (fun _ s' => ext s s' /\ pos s' = pos s).
  Proof.
    intros s W C; simpl. assert (E : mkPos (buf (pos s)) (idx (pos s)) (line (pos s)) 1 (last_col (pos s)) = pos s)
      by (rewrite <- C; destruct (pos s); reflexivity).
    rewrite E. split; [|reflexivity]. apply ext_intro; simpl; auto.
  Qed.

  (* loops: an invariant, and every continuing iteration moves the cursor forward inside the same buffer *)
  Lemma while_ok {X} (body : X -> M U (X * bool)) (I : X -> ST -> Prop) :
    (forall x s, I x s ->
       post (body x s) (fun r s' => I (fst r) s' /\ buf (pos s') = buf (pos s) /\
                                   (snd r = true -> (idx (pos s) < idx (pos s') <= List.length (buf (pos s')))%nat))) ->
    forall fuel x s, I x s -> (remaining (pos s) < fuel)%nat -> post (while_ fuel body x s) (fun x' s' => I x' s').
  Proof.
    intros Hb. induction fuel as [|f IH]; intros x s HI Hf; [lia|].
    simpl. apply post_bind. eapply post_mono; [apply Hb, HI|].
    intros [x' b] s' (HI' & Hbuf & Hprog). simpl in *. destruct b; [|exact HI'].
    apply IH; [exact HI'|]. specialize (Hprog eq_refl). unfold remaining in *. rewrite Hbuf in *. lia.
  Qed.
  Lemma loop_ok {X} (body : X -> M U (X * bool)) (I : X -> ST -> Prop) :
    (forall x s, I x s ->
       post (body x s) (fun r s' => I (fst r) s' /\ buf (pos s') = buf (pos s) /\
                                   (snd r = true -> (idx (pos s) < idx (pos s') <= List.length (buf (pos s')))%nat))) ->
    forall x s, I x s -> post (loop body x s) (fun x' s' => I x' s').
  Proof. intros Hb x s HI. unfold loop. eapply while_ok; eauto. Qed.
End Rules.

(* ------------------------------------------------------------------ the scanners *)
Ltac step F :=
  eapply (use_fine _ _ _ _ _ _ F); [eassumption | let a := fresh "a" in let s := fresh "s" in
                                                  let E0 := fresh "E0" in let E1 := fresh "E1" in let R := fresh "R" in
                                                  intros a s E0 E1 R; cbv beta in R; move E0 at bottom].
Ltac step_pos :=
  eapply (use_fine _ _ _ _ _ _ fine_get_pos); [eassumption | let a := fresh "p" in let s := fresh "s" in
                                                  let R := fresh "R" in intros a s _ _ R; destruct R; subst a s].
Ltac exts := match goal with
  | H : ext ?a ?b |- depth ?b = depth ?a => apply H
  | H : ext ?a ?b |- user ?b = user ?a => apply H
  end.
Ltac done_ret := apply post_ret; split; [assumption|].

Section ScannerProofs.
  Context {U : Type}.
  Variable A : alphabets.
  Variable T : int_tables.
  Variable K : kw_tables.
  Local Notation ST := (state U).

  Lemma sym_match_some sym p k :
    (idx p + k + List.length sym <= List.length (buf p))%nat -> sym_match sym p k <> None.
  Proof.
    revert k; induction sym as [|c r IH]; intros k H; simpl in *; [discriminate|].
    unfold raw_at. destruct (nth_error (buf p) (idx p + k)) eqn:E.
    - destruct (N.eqb c n); [apply IH; lia|discriminate].
    - apply nth_error_None in E. lia.
  Qed.

  Lemma sym_match_true sym p k :
    sym_match sym p k = Some true ->
    forall j, (j < List.length sym)%nat -> nth (idx p + k + j) (buf p) 0%N = nth j sym 0%N.
  Proof.
    revert k; induction sym as [|c r IH]; intros k H j Hj; simpl in *; [lia|].
    unfold raw_at in H. destruct (nth_error (buf p) (idx p + k)) eqn:E; [|discriminate].
    destruct (N.eqb c n) eqn:Ec; [|discriminate]. apply N.eqb_eq in Ec. subst n.
    destruct j.
    - rewrite Nat.add_0_r. apply nth_error_nth with (d := 0%N) in E. exact E.
    - replace (idx p + k + S j)%nat with (idx p + S k + j)%nat by lia. apply IH; [exact H|lia].
  Qed.

  Definition moved (n : nat) (s s' : ST) : Prop := pos s' = pos_add (pos s) n /\ idx (pos s') = (idx (pos s) + n)%nat.

  Lemma fine_Symbol_ sym :
    fine (@Symbol_ U sym) (fun b s s' =>
      if b then moved (List.length sym) s s' /\
                (forall j, (j < List.length sym)%nat -> nth (idx (pos s) + j) (buf (pos s)) 0%N = nth j sym 0%N)
      else s' = s).
  Proof.
    intros s W. pose proof (ext_refl s W) as E. unfold Symbol_. step_pos.
    destruct (Nat.leb (List.length sym) (remaining (pos s))) eqn:L.
    - apply Nat.leb_le in L. unfold remaining in L.
      destruct (sym_match sym (pos s) 0) as [[|]|] eqn:M.
      + step (fine_add_n (U:=U) (List.length sym)). done_ret. split.
        * split; [assumption|]. rewrite R. apply pos_add_idx. destruct W as (W1 & _). lia.
        * intros j Hj. pose proof (sym_match_true _ _ _ M j Hj) as Hm. rewrite Nat.add_0_r in Hm. exact Hm.
      + done_ret. reflexivity.
      + exfalso. eapply sym_match_some; [|exact M]. destruct W as (W1 & _). lia.
    - done_ret. reflexivity.
  Qed.

  Lemma fine_Char_ c :
    fine (@Char_ U c) (fun b s s' => if b then moved 1 s s' /\ deref (pos s) = c /\ has_more (pos s) = true else s' = s).
  Proof.
    intros s W. pose proof (ext_refl s W) as E. unfold Char_. step_pos.
    destruct (has_more (pos s)) eqn:Hm; cbn [andb]; [destruct (N.eqb (deref (pos s)) c) eqn:Ec|].
    - step (fine_inc (U:=U)). done_ret. apply N.eqb_eq in Ec. split; [|auto]. split; [exact R|].
      rewrite R, pos_inc_idx, Hm. lia.
    - done_ret. reflexivity.
    - done_ret. reflexivity.
  Qed.

  Lemma deref_nth p : has_more p = true -> deref p = nth (idx p) (buf p) 0%N.
  Proof. unfold deref. intros ->. reflexivity. Qed.
  Lemma pos_inc_nl p : has_more p = true -> nth (idx p) (buf p) 0%N = NL -> col (pos_inc p) = 1.
  Proof. intros Hm Hn. unfold pos_inc. rewrite Hm, Hn. reflexivity. Qed.

  (* `--` right after `++` (possibly with look-ahead tests in between): the C20 side condition holds *)
  Lemma dec_undo (s0 s1 : ST) :
    wf_pos (pos s0) -> has_more (pos s0) = true -> pos s1 = pos_inc (pos s0) -> depth s1 = depth s0 -> user s1 = user s0 ->
    post (dec s1) (fun _ s2 => ext s0 s2 /\ idx (pos s2) = idx (pos s0)).
  Proof.
    intros W Hm Hp Hd Hu. unfold dec. rewrite Hp, (pos_dec_inc _ Hm). simpl. split; [|reflexivity].
    apply ext_intro; simpl; auto.
  Qed.

  (* `m_position -= 2` right after Symbol_("\r\n") *)
  Lemma sub2_undo (s0 s1 : ST) :
    wf_pos (pos s0) -> (idx (pos s0) + 2 <= List.length (buf (pos s0)))%nat ->
    nth (idx (pos s0)) (buf (pos s0)) 0%N = CR -> nth (idx (pos s0) + 1) (buf (pos s0)) 0%N = NL ->
    pos s1 = pos_add (pos s0) 2 -> depth s1 = depth s0 -> user s1 = user s0 ->
    post (sub_n 2 s1) (fun _ s2 => ext s0 s2 /\ idx (pos s2) = idx (pos s0)).
  Proof.
    intros W Hlen H0 H1 Hp Hd Hu. unfold sub_n. rewrite Hp. cbn [pos_add pos_sub].
    set (p := pos s0) in *.
    assert (Hm0 : has_more p = true) by (apply has_more_lt; lia).
    assert (Hm1 : has_more (pos_inc p) = true) by (apply has_more_lt; rewrite pos_inc_buf, pos_inc_idx, Hm0; lia).
    rewrite (pos_dec_inc _ Hm1).
    assert (Ep1 : pos_inc p = mkPos (buf p) (S (idx p)) (line p) (col p + 1) (last_col p)).
    { unfold pos_inc. rewrite Hm0, H0. reflexivity. }
    rewrite Ep1. unfold set_last_col, pos_dec. cbn [idx buf line col last_col]. rewrite H0.
    change (N.eqb CR NL) with false. cbn iota. split; [|reflexivity].
    apply ext_intro; cbn [pos idx buf depth user]; auto.
    destruct W as (Wa & Wb & Wc). unfold wf_pos, before. cbn [idx buf line col]. fold (before p). repeat split; try assumption; lia.
  Qed.

  Lemma kw_match_ok t : forall p q, kw_match t p = Some q -> wf_pos p -> wf_pos q /\ buf q = buf p /\ (idx p <= idx q)%nat.
  Proof.
    induction t as [|c r IH]; intros p q H W; simpl in H.
    - inversion H; subst; auto.
    - destruct (has_more p) eqn:Hm; [|inversion H; subst; auto].
      destruct (N.eqb (deref p) c); [|discriminate].
      destruct (IH _ _ H (wf_pos_inc _ W)) as (W' & B & I). rewrite pos_inc_buf in B. rewrite pos_inc_idx, Hm in I.
      repeat split; try apply W'; auto; lia.
  Qed.
  Lemma fine_Keyword_ t : fine (@Keyword_ U t) (fun b s s' => b = false -> s' = s).
  Proof.
    intros s W. pose proof (ext_refl s W) as E. unfold Keyword_. step_pos.
    destruct (Nat.leb _ _); [|done_ret; auto].
    destruct (kw_match t (pos s)) as [q|] eqn:M; [|done_ret; auto].
    destruct (kw_match_ok _ _ _ M W) as (Wq & Bq & Iq).
    apply post_bind. simpl. split; [|discriminate]. apply ext_intro; simpl; auto.
  Qed.

  Lemma fine_Eol_ t_eos :
    fine (@Eol_ U t_eos) (fun b s s' => if b then (idx (pos s) < idx (pos s'))%nat else s' = s).
  Proof.
    intros s W. pose proof (ext_refl s W) as E. unfold Eol_. step_pos.
    (* second half, used twice *)
    assert (Tail : post ((p <- get_pos ;; if has_more p && negb t_eos then Char_ 59%N else ret false) s)
                        (fun b s' => ext s s' /\ (if b then (idx (pos s) < idx (pos s'))%nat else s' = s))).
    { step_pos. destruct (has_more (pos s) && negb t_eos).
      - eapply post_mono; [apply fine_Char_, W|]. intros b s' [E' R]. split; [exact E'|].
        destruct b; [destruct R as ((_ & I) & _); lia|exact R].
      - done_ret. reflexivity. }
    destruct (has_more (pos s)) eqn:Hm.
    - apply post_bind. apply post_bind.
      eapply post_mono; [apply fine_Symbol_, W|]. intros b1 s1 [E1 R1]. destruct b1.
      + (* "\r\n" *)
        destruct R1 as ((Rp & Ri) & Rb). apply post_ret. cbv beta.
        assert (C1 : col (pos s1) = 1).
        { rewrite Rp. cbn [List.length s_cr_lf pos_add].
          assert (Hm1 : has_more (pos_inc (pos s)) = true).
          { apply has_more_lt. rewrite pos_inc_buf, pos_inc_idx, Hm. destruct E1 as (B1 & _ & (W1 & _) & _). rewrite B1 in W1.
            cbn [List.length s_cr_lf] in Ri. lia. }
          apply pos_inc_nl; [exact Hm1|]. rewrite pos_inc_buf, pos_inc_idx, Hm.
          specialize (Rb 1%nat). cbn [List.length s_cr_lf nth] in Rb. replace (S (idx (pos s))) with (idx (pos s) + 1)%nat by lia.
          apply Rb. lia. }
        apply post_bind. eapply post_mono; [apply fine_set_col_1; [apply (ext_wf _ _ E1)|exact C1]|].
        intros _ s2 [E2 P2]. apply post_ret. split; [eapply ext_trans; eauto|]. rewrite P2. cbn [List.length s_cr_lf] in Ri. lia.
      + subst s1. eapply post_mono; [apply fine_Char_, W|]. intros b2 s2 [E2 R2]. destruct b2.
        * destruct R2 as ((Rp & Ri) & Rc & _).
          assert (C1 : col (pos s2) = 1).
          { rewrite Rp. cbn [pos_add]. apply pos_inc_nl; [exact Hm|]. rewrite <- deref_nth; assumption. }
          apply post_bind. eapply post_mono; [apply fine_set_col_1; [apply (ext_wf _ _ E2)|exact C1]|].
          intros _ s3 [E3 P3]. apply post_ret. split; [eapply ext_trans; eauto|]. rewrite P3. lia.
        * subst s2. exact Tail.
    - apply post_bind. apply post_ret. exact Tail.
  Qed.

  Lemma ext_len (s s' : ST) : ext s s' -> (idx (pos s') <= List.length (buf (pos s')))%nat.
  Proof. intros (_ & _ & (W & _) & _). exact W. Qed.
  Lemma ext_buf (s s' : ST) : ext s s' -> buf (pos s') = buf (pos s).
  Proof. intros (B & _). exact B. Qed.
  Lemma ext_idx (s s' : ST) : ext s s' -> (idx (pos s) <= idx (pos s'))%nat.
  Proof. intros (_ & I & _). exact I. Qed.

  (* the obligations of one loop iteration, with invariant `ext s0` *)
  Definition iter_ok {X} (s0 s : ST) (r : outcome ((X * bool) * ST)) : Prop :=
    post r (fun r s' => ext s0 s' /\ buf (pos s') = buf (pos s) /\
                        (snd r = true -> (idx (pos s) < idx (pos s') <= List.length (buf (pos s')))%nat)).
  Lemma iter_stop {X} (s0 s s' : ST) (x : X) : ext s0 s -> ext s s' -> @iter_ok X s0 s (ret (x, false) s').
  Proof. intros E0 E1. simpl. split; [eapply ext_trans; eauto|]. split; [apply (ext_buf _ _ E1)|discriminate]. Qed.
  Lemma iter_go {X} (s0 s s' : ST) (x : X) :
    ext s0 s -> ext s s' -> (idx (pos s) < idx (pos s'))%nat -> @iter_ok X s0 s (ret (x, true) s').
  Proof.
    intros E0 E1 L. simpl. split; [eapply ext_trans; eauto|]. split; [apply (ext_buf _ _ E1)|]. intros _. split; [exact L|apply (ext_len _ _ E1)].
  Qed.
  Lemma inc_go {X} (s0 s s1 : ST) (x : X) :
    ext s0 s -> ext s s1 -> has_more (pos s1) = true ->
    @iter_ok X s0 s ((inc ;;; ret (x, true)) s1).
  Proof.
    intros E0 E1 Hm. apply post_bind. eapply post_mono; [apply fine_inc, (ext_wf _ _ E1)|].
    intros _ s2 [E2 R2]. apply iter_go; [exact E0|eapply ext_trans; eauto|].
    rewrite R2, pos_inc_idx, Hm. pose proof (ext_idx _ _ E1). lia.
  Qed.

  Lemma ml_comment_iter (s0 s : ST) : ext s0 s -> @iter_ok unit s0 s (ml_comment_body tt s).
  Proof.
    intros E0. pose proof (ext_wf _ _ E0) as W. pose proof (ext_refl s W) as E. unfold iter_ok, ml_comment_body. step_pos.
    destruct (has_more (pos s)) eqn:Hm; [|apply iter_stop; auto].
    step (fine_Symbol_ s_ml_end). destruct a.
    - apply iter_stop; auto.
    - subst s1. step (fine_Eol_ false). destruct a.
      + apply iter_go; auto.
      + subst s1. apply inc_go; auto.
  Qed.

  Lemma line_comment_iter (s0 s : ST) : ext s0 s -> @iter_ok unit s0 s (line_comment_body tt s).
  Proof.
    intros E0. pose proof (ext_wf _ _ E0) as W. pose proof (ext_refl s W) as E. unfold iter_ok, line_comment_body. step_pos.
    destruct (has_more (pos s)) eqn:Hm; [|apply iter_stop; auto].
    step (fine_Symbol_ s_cr_lf). destruct a.
    - destruct R as ((Rp & Ri) & Rb). cbn [List.length s_cr_lf] in *.
      apply post_bind. eapply post_mono.
      + apply (sub2_undo s s1); auto.
        * match goal with H : ext s s1 |- _ => pose proof (ext_len _ _ H) as HL; rewrite (ext_buf _ _ H) in HL end. lia.
        * specialize (Rb 0%nat). rewrite Nat.add_0_r in Rb. apply Rb. lia.
        * apply (Rb 1%nat). lia.
        * exts.
        * exts.
      + intros _ s2 [EE _]. apply iter_stop; auto.
    - subst s1. step (fine_Char_ NL). destruct a.
      + destruct R as ((Rp & Ri) & Rc & _). apply post_bind. eapply post_mono.
        * apply (dec_undo s s1); auto; exts.
        * intros _ s2 [EE _]. apply iter_stop; auto.
      + subst s1. apply inc_go; auto.
  Qed.

  Lemma comment_loop_ok (body : unit -> M U (unit * bool)) (s1 : ST) :
    (forall s, ext s1 s -> @iter_ok unit s1 s (body tt s)) ->
    wf_pos (pos s1) -> post (loop body tt s1) (fun _ s2 => ext s1 s2).
  Proof.
    intros Hb W. apply (loop_ok body (fun _ s => ext s1 s)); [|apply ext_refl, W].
    intros [] s HI. apply Hb, HI.
  Qed.

  Lemma fine_SkipComment :
    fine (@SkipComment U) (fun b s s' => if b then (idx (pos s) < idx (pos s'))%nat else s' = s).
  Proof.
    intros s W. pose proof (ext_refl s W) as E. unfold SkipComment.
    assert (Go : forall body (s1 : ST), (forall s, ext s1 s -> @iter_ok unit s1 s (body tt s)) ->
                   ext s s1 -> (idx (pos s) < idx (pos s1))%nat ->
                   post ((loop body tt ;;; ret true) s1) (fun b s' => ext s s' /\ (if b then (idx (pos s) < idx (pos s'))%nat else s' = s))).
    { intros body s1 Hb E1 L. apply post_bind. eapply post_mono; [apply comment_loop_ok; [exact Hb|apply (ext_wf _ _ E1)]|].
      intros ? s2 E2. cbv beta in *. apply post_ret. split; [eapply ext_trans; eauto|]. pose proof (ext_idx _ _ E2). lia. }
    step (fine_Symbol_ s_ml_begin). destruct a.
    { apply Go; [apply ml_comment_iter|assumption|]. destruct R as ((_ & Ri) & _). cbn [List.length s_ml_begin] in Ri. lia. }
    subst s0. step (fine_Symbol_ s_sl_comment). destruct a.
    { apply Go; [apply line_comment_iter|assumption|]. destruct R as ((_ & Ri) & _). cbn [List.length s_sl_comment] in Ri. lia. }
    subst s0. step (fine_Symbol_ s_annotation). destruct a.
    { apply Go; [apply line_comment_iter|assumption|]. destruct R as ((_ & Ri) & _). cbn [List.length s_annotation] in Ri. lia. }
    subst s0. done_ret. reflexivity.
  Qed.

  Lemma skipws_iter skip_cr (s0 s : ST) b : ext s0 s -> @iter_ok bool s0 s (skipws_body A skip_cr b s).
  Proof.
    intros E0. pose proof (ext_wf _ _ E0) as W. pose proof (ext_refl s W) as E. unfold iter_ok, skipws_body. step_pos.
    destruct (has_more (pos s)) eqn:Hm; [|apply iter_stop; auto].
    destruct (126 <? deref (pos s))%N; [exact I|].
    match goal with |- context [if ?c then _ else _] => destruct c eqn:Cw end.
    - match goal with |- context [if ?c then inc else ret tt] => destruct c end.
      + step (fine_inc (U:=U)). destruct (has_more (pos s1)) eqn:Hm1.
        * apply inc_go; auto.
        * apply post_bind. eapply post_mono; [apply fine_inc; match goal with H : ext s s1 |- _ => apply (ext_wf _ _ H) end|]. intros _ s2 [E3 R3].
          apply iter_go; [exact E0|eapply ext_trans; eauto|]. pose proof (ext_idx _ _ E3) as HI3. rewrite R, pos_inc_idx, Hm in HI3. lia.
      + apply post_bind. apply post_ret. apply inc_go; auto.
    - step fine_SkipComment. destruct a.
      + apply iter_go; auto.
      + subst s1. apply iter_stop; auto.
  Qed.
  Lemma fine_SkipWS skip_cr : fine (@SkipWS U A skip_cr) (fun _ _ _ => True).
  Proof.
    intros s W. unfold SkipWS. eapply post_mono.
    - apply (loop_ok (skipws_body A skip_cr) (fun _ s' => ext s s')); [|apply ext_refl, W].
      intros b s' HI. apply skipws_iter, HI.
    - intros b s' HI. auto.
  Qed.

  Lemma fine_skip_while a : fine (@skip_while U a) (fun _ _ _ => True).
  Proof.
    intros s W. unfold skip_while. eapply post_mono.
    - apply (loop_ok (skip_while_body a) (fun _ s' => ext s s')); [|apply ext_refl, W].
      intros [] s1 E0. pose proof (ext_wf _ _ E0) as W1. pose proof (ext_refl s1 W1) as E. unfold skip_while_body.
      change (@iter_ok unit s s1 ((p <- get_pos ;; if has_more p && in_alpha a (deref p) then inc ;;; ret (tt, true) else ret (tt, false)) s1)).
      unfold iter_ok. step_pos. destruct (has_more (pos s1)) eqn:Hm; cbn [andb]; [destruct (in_alpha a (deref (pos s1)))|].
      + apply inc_go; auto.
      + apply iter_stop; auto.
      + apply iter_stop; auto.
    - intros ? s' HI. auto.
  Qed.
  Lemma fine_at_alpha a : fine (@at_alpha U a) (fun b s s' => s' = s /\ b = (has_more (pos s) && in_alpha a (deref (pos s)))).
  Proof. intros s W. pose proof (ext_refl s W) as E. unfold at_alpha. step_pos. done_ret. auto. Qed.
  Lemma fine_at_char f : fine (@at_char U f) (fun b s s' => s' = s /\ b = (has_more (pos s) && f (deref (pos s)))).
  Proof. intros s W. pose proof (ext_refl s W) as E. unfold at_char. step_pos. done_ret. auto. Qed.

  Ltac step_at F := step F; match goal with R : _ = _ /\ _ = _ |- _ => destruct R as [? ?]; subst end.

  Lemma fine_read_exponent_and_suffix : fine (@read_exponent_and_suffix U A) (fun _ _ _ => True).
  Proof.
    intros s W. pose proof (ext_refl s W) as E. unfold read_exponent_and_suffix.
    step_at (fine_at_char (fun c => (tolower c =? 101)%N)).
    match goal with |- context [if ?c then _ else _] => destruct c end.
    - apply post_bind. step (fine_inc (U:=U)).
      step_at (fine_at_char (fun c => (c =? 45)%N || (c =? 43)%N)).
      assert (Rest : forall sx : ST, ext s sx ->
                post ((exponent_pos <- get_pos ;; skip_while (a_int A) ;;; p <- get_pos ;; ret (negb (pos_eqb p exponent_pos))) sx)
                     (fun ok s3 => post ((if ok then skip_while (a_float_suffix A) ;;; ret true else ret false) s3)
                                        (fun a s' => ext s s' /\ True))).
      { intros sx Ex. step_pos. step (fine_skip_while (a_int A)). step_pos. apply post_ret.
        destruct (negb _).
        - step (fine_skip_while (a_float_suffix A)). done_ret. exact I.
        - done_ret. exact I. }
      match goal with |- context [if ?c then inc else ret tt] => destruct c end.
      + step (fine_inc (U:=U)). apply Rest. assumption.
      + apply post_bind. apply post_ret. apply Rest. assumption.
    - apply post_bind. apply post_ret. step (fine_skip_while (a_float_suffix A)). done_ret. exact I.
  Qed.

  Lemma fine_Float_ : fine (@Float_ U A) (fun _ _ _ => True).
  Proof.
    intros s W. pose proof (ext_refl s W) as E. unfold Float_.
    step_at (fine_at_alpha (a_float A)).
    match goal with |- context [if ?c then _ else _] => destruct c end; [|done_ret; exact I].
    step (fine_skip_while (a_int A)).
    step_at (fine_at_char (fun c => (tolower c =? 101)%N)).
    match goal with |- context [if ?c then _ else _] => destruct c end.
    { eapply post_mono; [apply fine_read_exponent_and_suffix; eapply ext_wf; eassumption|].
      intros b s' [E' _]. split; [eapply ext_trans; eauto|exact I]. }
    step_at (fine_at_char (fun c => (c =? 46)%N)).
    destruct (has_more (pos s0)) eqn:Hm; cbn [andb]; [|done_ret; exact I].
    match goal with |- context [if ?c then _ else _] => destruct c end; [|done_ret; exact I].
    step (fine_inc (U:=U)).
    step_at (fine_at_alpha (a_int A)).
    match goal with |- context [if ?c then _ else _] => destruct c end.
    - step (fine_skip_while (a_int A)).
      eapply post_mono; [apply fine_read_exponent_and_suffix; eapply ext_wf; eassumption|].
      intros b s' [E' _]. split; [eapply ext_trans; eauto|exact I].
    - apply post_bind. eapply post_mono.
      + apply (dec_undo s0 s1); auto; try exts. eapply ext_wf; eassumption.
      + intros ? s2 [EE _]. apply post_ret. split; [eapply ext_trans; [|exact EE]; assumption|exact I].
  Qed.

  Lemma fine_prefixed_ letter digits : fine (@prefixed_ U A letter digits) (fun _ _ _ => True).
  Proof.
    intros s W. pose proof (ext_refl s W) as E. unfold prefixed_.
    step_at (fine_at_char (fun c => (c =? 48)%N)).
    destruct (has_more (pos s)) eqn:Hm; cbn [andb]; [|done_ret; exact I].
    match goal with |- context [if ?c then _ else _] => destruct c end; [|done_ret; exact I].
    step (fine_inc (U:=U)).
    step_at (fine_at_alpha letter).
    destruct (has_more (pos s0)) eqn:Hm0; cbn [andb].
    2:{ apply post_bind. eapply post_mono; [apply (dec_undo s s0); auto; exts|].
        intros ? s2 [EE _]. apply post_ret. split; [exact EE|exact I]. }
    match goal with |- context [if ?c then _ else _] => destruct c end.
    2:{ apply post_bind. eapply post_mono; [apply (dec_undo s s0); auto; exts|].
        intros ? s2 [EE _]. apply post_ret. split; [exact EE|exact I]. }
    step (fine_inc (U:=U)).
    step_at (fine_at_alpha digits).
    match goal with |- context [if ?c then _ else _] => destruct c end.
    - step (fine_skip_while digits). step (fine_skip_while (a_int_suffix A)). done_ret. exact I.
    - apply post_bind. eapply post_mono.
      + apply (dec_undo s0 s1); auto; try exts. eapply ext_wf; eassumption.
      + intros ? s2 [EE _]. apply post_ret. split; [eapply ext_trans; [|exact EE]; assumption|exact I].
  Qed.
  Lemma fine_Hex_ : fine (@Hex_ U A) (fun _ _ _ => True).
  Proof. apply fine_prefixed_. Qed.
  Lemma fine_Binary_ : fine (@Binary_ U A) (fun _ _ _ => True).
  Proof. apply fine_prefixed_. Qed.
  Lemma fine_IntSuffix_ : fine (@IntSuffix_ U A) (fun _ _ _ => True).
  Proof. apply fine_skip_while. Qed.

  (* int_token restores the cursor to `start` when the text is not a number (fix 3bd5fe4): `start` must be the position of an
     earlier state s0 of the same scan *)
  Lemma int_token_ok base prefixed (s0 sx : ST) :
    wf_pos (pos s0) -> ext s0 sx -> post (int_token T (pos s0) base prefixed sx) (fun _ s' => ext s0 s').
  Proof.
    intros W0 Ex. unfold int_token. step_pos.
    destruct (buildInt T base _ prefixed).
    - apply post_ret. exact Ex.
    - apply post_bind. simpl. apply ext_intro; simpl; auto; [apply (ext_depth' _ _ Ex)|apply (ext_user' _ _ Ex)].
  Qed.

  Lemma fine_Num : fine (@Num U A T) (fun _ _ _ => True).
  Proof.
    intros s W. pose proof (ext_refl s W) as E. unfold Num.
    step (fine_SkipWS false). step_pos.
    assert (W0 : wf_pos (pos s0)) by (eapply ext_wf; eassumption).
    assert (Fin : forall base prefixed (sx : ST), ext s0 sx -> post (int_token T (pos s0) base prefixed sx) (fun _ s' => ext s s' /\ True)).
    { intros base prefixed sx Ex. eapply post_mono; [apply (int_token_ok base prefixed s0 sx W0 Ex)|].
      intros o s' E'. split; [eapply ext_trans; eauto|exact I]. }
    step_at (fine_at_alpha (a_float A)).
    match goal with |- context [if ?c then _ else _] => destruct c end; [|done_ret; exact I].
    step fine_Hex_. destruct a0; [apply Fin; assumption|].
    step fine_Binary_. destruct a0; [apply Fin; eapply ext_trans; eauto|].
    step fine_Float_. destruct a0.
    - step_pos. destruct (buildFloat T _). done_ret. exact I.
    - (* m_position = start: the integer is read again from the start of the token *)
      apply post_bind. simpl.
      set (sr := mkState (pos s0) (depth s3) (user s3)).
      assert (E03 : ext s0 s3) by (eapply ext_trans; [exact E5|]; eapply ext_trans; [exact E7|exact E9]).
      assert (Er : ext s0 sr).
      { apply ext_intro; simpl; auto; [apply (ext_depth' _ _ E03)|apply (ext_user' _ _ E03)]. }
      assert (Esr : ext s sr) by (eapply ext_trans; [exact E2|exact Er]).
      clear E E1 E3 E4 E5 E6 E7 E8 E9 E03.
      step (fine_skip_while (a_int A)). step fine_IntSuffix_. step_pos.
      destruct (pos_str _ _) as [|c r]; [done_ret; exact I|].
      assert (E0x : ext s0 s5) by (eapply ext_trans; [exact Er|]; eapply ext_trans; eassumption).
      destruct (c =? 48)%N; apply Fin; exact E0x.
  Qed.

  Lemma fine_with_depth {X} (m : M U X) (P : X -> Position -> Position -> Prop) :
    fine m (fun a s s' => P a (pos s) (pos s')) -> fine (with_depth m) (fun a s s' => P a (pos s) (pos s')).
  Proof.
    intros F s W. unfold with_depth.
    destruct (Nat.ltb max_parse_depth _); [exact I|].
    set (s1 := mkState (pos s) (S (depth s)) (user s)).
    pose proof (F s1 W) as H. destruct (m s1) as [[a s2]| | |]; simpl in *; auto.
    destruct H as ((B & I' & W' & D & Us) & HP). split; [|exact HP].
    apply ext_intro; simpl; auto. rewrite D. reflexivity.
  Qed.

  Definition progress_if (b : bool) (p p' : Position) : Prop := b = true -> (idx p < idx p')%nat.

  Lemma fine_ws_then {X} (m : M U X) (P : X -> Position -> Position -> Prop) :
    fine m (fun a s s' => P a (pos s) (pos s')) ->
    (forall a p p' p'', (idx p <= idx p')%nat -> P a p' p'' -> P a p p'') ->
    fine (SkipWS A false ;;; m) (fun a s s' => P a (pos s) (pos s')).
  Proof.
    intros F Mono s W. pose proof (ext_refl s W) as E. step (fine_SkipWS false).
    eapply post_mono; [apply F; eapply ext_wf; eassumption|].
    intros b s' [E' HP]. split; [eapply ext_trans; [|exact E']; assumption|].
    eapply Mono; [|exact HP]. apply ext_idx. assumption.
  Qed.

  Lemma progress_mono : forall (a : bool) p p' p'', (idx p <= idx p')%nat -> progress_if a p' p'' -> progress_if a p p''.
  Proof. unfold progress_if. intros a p p' p'' L H Ht. specialize (H Ht). lia. Qed.

  Lemma fine_Eol : fine (@Eol U A) (fun b s s' => progress_if b (pos s) (pos s')).
  Proof.
    unfold Eol. apply (fine_with_depth _ progress_if). apply (fine_ws_then _ progress_if); [|apply progress_mono].
    intros s W. eapply post_mono; [apply fine_Eol_, W|]. intros b s' [E' R]. split; [exact E'|].
    unfold progress_if. intros ->. exact R.
  Qed.
  Lemma fine_Eos : fine (@Eos U A) (fun b s s' => progress_if b (pos s) (pos s')).
  Proof.
    unfold Eos. apply (fine_with_depth _ progress_if). apply (fine_ws_then _ progress_if); [|apply progress_mono].
    intros s W. eapply post_mono; [apply fine_Eol_, W|]. intros b s' [E' R]. split; [exact E'|].
    unfold progress_if. intros ->. exact R.
  Qed.
  Lemma fine_Char c : fine (@Char U A c) (fun b s s' => progress_if b (pos s) (pos s')).
  Proof.
    unfold Char. apply (fine_with_depth _ progress_if). apply (fine_ws_then _ progress_if); [|apply progress_mono].
    intros s W. eapply post_mono; [apply fine_Char_, W|]. intros b s' [E' R]. split; [exact E'|].
    unfold progress_if. intros ->. destruct R as ((_ & Ri) & _). lia.
  Qed.
  Lemma fine_Keyword t : fine (@Keyword U A t) (fun _ _ _ => True).
  Proof.
    unfold Keyword. apply (fine_with_depth _ (fun _ _ _ => True)). apply (fine_ws_then _ (fun _ _ _ => True)); [|auto].
    intros s W. pose proof (ext_refl s W) as E. step_pos. step (fine_Keyword_ t).
    step_at (fine_at_alpha (a_keyword A)).
    match goal with |- context [if ?c then _ else _] => destruct c eqn:Ck end.
    - apply post_bind. simpl. split; [|exact I]. apply ext_intro; simpl; auto; exts.
    - done_ret. exact I.
  Qed.

  Lemma backtick_iter (s0 s : ST) : ext s0 s -> @iter_ok unit s0 s (backtick_body A tt s).
  Proof.
    intros E0. pose proof (ext_wf _ _ E0) as W. pose proof (ext_refl s W) as E. unfold iter_ok, backtick_body. step_pos.
    destruct (has_more (pos s)) eqn:Hm; cbn [andb]; [|apply iter_stop; auto].
    destruct (negb _); [|apply iter_stop; auto].
    step fine_Eol. destruct a; [exact I|].
    destruct (has_more (pos s1)) eqn:Hm1.
    - apply inc_go; auto.
    - (* SkipWS inside Eol() ran to the end of the input: ++ is a no-op there, but the iteration as a whole moved *)
      apply post_bind. eapply post_mono; [apply fine_inc; eapply ext_wf; eassumption|]. intros ? s2 [EE RR].
      apply iter_go; [exact E0|eapply ext_trans; [|exact EE]; assumption|].
      apply has_more_false in Hm1. apply has_more_lt in Hm.
      match goal with H : ext s s1 |- _ => pose proof (ext_buf _ _ H) as HB end.
      rewrite HB in Hm1. pose proof (ext_idx _ _ EE). lia.
  Qed.

  Lemma fine_Id_ :
    fine (@Id_ U A) (fun b s s' => b = true -> in_alpha (a_id A) (deref (pos s)) = false -> (idx (pos s) < idx (pos s'))%nat).
  Proof.
    intros s W. pose proof (ext_refl s W) as E. unfold Id_.
    step_at (fine_at_alpha (a_id A)).
    destruct (has_more (pos s)) eqn:Hm; cbn [andb].
    2:{ step_at (fine_at_char (fun c => (c =? 96)%N)). rewrite Hm. cbn [andb]. done_ret. discriminate. }
    destruct (in_alpha (a_id A) (deref (pos s))) eqn:Ia.
    { step (fine_skip_while (a_keyword A)). done_ret. discriminate. }
    step_at (fine_at_char (fun c => (c =? 96)%N)). rewrite Hm. cbn [andb].
    destruct (deref (pos s) =? 96)%N; [|done_ret; discriminate].
    step (fine_inc (U:=U)). step_pos.
    apply post_bind. eapply post_mono.
    { apply (loop_ok (backtick_body A) (fun _ s' => ext s0 s')); [|apply ext_refl; eapply ext_wf; eassumption].
      intros [] sx Ex. apply backtick_iter, Ex. }
    intros ? s1 E1'. cbv beta in E1' |- *. assert (Es : ext s s1) by (eapply ext_trans; [|exact E1']; assumption).
    step_pos.
    destruct (pos_eqb (pos s0) (pos s1)); [exact I|].
    destruct (negb (has_more (pos s1))); [exact I|].
    step (fine_inc (U:=U)). done_ret. intros _ _.
    match goal with H : ext s1 s2 |- _ => pose proof (ext_idx _ _ H) as H12 end.
    pose proof (ext_idx _ _ E1') as H01. rewrite R, pos_inc_idx, Hm in H01. lia.
  Qed.

  Hypothesis backtick_not_id : in_alpha (a_id A) 96%N = false.

  Lemma fine_Id validate : fine (@Id U A K validate) (fun _ _ _ => True).
  Proof.
    intros s W. pose proof (ext_refl s W) as E. unfold Id.
    step (fine_SkipWS false). step_pos. step fine_Id_. destruct a0; [|done_ret; exact I].
    step_pos. apply post_bind.
    match goal with |- context [if ?c then throw_at _ else ret tt] => destruct c end; [exact I|].
    apply post_ret.
    destruct (classify K _); [done_ret; exact I|].
    destruct (deref (pos s0) =? 96)%N eqn:Eq; [|done_ret; exact I].
    apply N.eqb_eq in Eq. rewrite Eq in R0. specialize (R0 eq_refl backtick_not_id).
    cbn [pos_sub]. destruct (pos_dec (pos s1)) eqn:Ed.
    - done_ret. exact I.
    - apply pos_dec_none in Ed. lia.
  Qed.

  Lemma qs_iter (s0 s : ST) v : ext s0 s -> @iter_ok (N * Z * bool) s0 s (qs_body v s).
  Proof.
    intros E0. pose proof (ext_wf _ _ E0) as W. pose proof (ext_refl s W) as E. unfold iter_ok, qs_body.
    destruct v as [[prev_char in_interp] in_quote]. step_pos.
    destruct (has_more (pos s)) eqn:Hm; cbn [andb]; [|apply iter_stop; auto].
    match goal with |- context [if ?c then _ else _] => destruct c end; [|apply iter_stop; auto].
    step (fine_Eol_ false). destruct a.
    - apply iter_go; auto.
    - subst s1. step_pos.
      match goal with |- context [let '(ii, iq) := ?c in _] => destruct c as [ii iq] end.
      apply inc_go; auto.
  Qed.
  Lemma sqs_iter (s0 s : ST) v : ext s0 s -> @iter_ok N s0 s (sqs_body v s).
  Proof.
    intros E0. pose proof (ext_wf _ _ E0) as W. pose proof (ext_refl s W) as E. unfold iter_ok, sqs_body. step_pos.
    destruct (has_more (pos s)) eqn:Hm; cbn [andb]; [|apply iter_stop; auto].
    match goal with |- context [if ?c then _ else _] => destruct c end; [|apply iter_stop; auto].
    step (fine_Eol_ false). destruct a.
    - apply iter_go; auto.
    - subst s1. step_pos. apply inc_go; auto.
  Qed.

  (* a quoted scanner that succeeds has consumed at least the two quote characters *)
  Lemma fine_quoted {X} (q : N) (body : X -> M U (X * bool)) (x0 : X) msg :
    (forall s0 s v, ext s0 s -> @iter_ok X s0 s (body v s)) ->
    fine (q' <- at_char (fun c => (c =? q)%N) ;;
          if q' then inc ;;; loop body x0 ;;; p <- get_pos ;; (if has_more p then inc ;;; ret true else throw_at msg) else ret false)
         (fun b s s' => b = true -> (idx (pos s) + 2 <= idx (pos s'))%nat).
  Proof.
    intros Hb s W. pose proof (ext_refl s W) as E.
    step_at (fine_at_char (fun c => (c =? q)%N)).
    destruct (has_more (pos s)) eqn:Hm; cbn [andb]; [|done_ret; discriminate].
    destruct (deref (pos s) =? q)%N; [|done_ret; discriminate].
    step (fine_inc (U:=U)).
    apply post_bind. eapply post_mono.
    { apply (loop_ok body (fun _ s' => ext s0 s')); [|apply ext_refl; eapply ext_wf; eassumption].
      intros v sx Ex. apply Hb, Ex. }
    intros ? s1 E1'. cbv beta in E1' |- *. assert (Es : ext s s1) by (eapply ext_trans; [|exact E1']; assumption).
    step_pos. destruct (has_more (pos s1)) eqn:Hm1; [|exact I].
    step (fine_inc (U:=U)). done_ret. intros _.
    pose proof (ext_idx _ _ E1') as H01. rewrite R, pos_inc_idx, Hm in H01.
    match goal with H : pos s2 = pos_inc (pos s1) |- _ => rewrite H, pos_inc_idx, Hm1 end. lia.
  Qed.
  Lemma fine_Quoted_String_ : fine (@Quoted_String_ U) (fun b s s' => b = true -> (idx (pos s) + 2 <= idx (pos s'))%nat).
  Proof. apply (fine_quoted 34%N qs_body). intros; apply qs_iter; assumption. Qed.
  Lemma fine_Single_Quoted_String_ : fine (@Single_Quoted_String_ U) (fun b s s' => b = true -> (idx (pos s) + 2 <= idx (pos s'))%nat).
  Proof. apply (fine_quoted 39%N sqs_body). intros; apply sqs_iter; assumption. Qed.

  (* `m_position - 1` in the string scanners: the precondition of operator-- holds *)
  Lemma between_ok (start : Position) (s : ST) :
    (1 <= idx (pos s))%nat -> exists content, @between U start s = Ok (content, s).
  Proof.
    intros H. unfold between, bind, get_pos. cbn [pos_sub]. destruct (pos_dec (pos s)) eqn:Ed.
    - eexists; reflexivity.
    - apply pos_dec_none in Ed. lia.
  Qed.
End ScannerProofs.
