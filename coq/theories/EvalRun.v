(* Executable evaluator whose arithmetic interprets the tables regenerated from the source. *)
From Coq Require Import ZArith NArith List Bool String Ascii.
From ChaiV Require Import StrUtil NumDefs NumSpecRun Ast EvalDefs Eval EvalSpecRun.
From ChaiV.Gen Require Import G_NumTables.
Import ListNotations.
Local Open Scope string_scope.

Definition mech_numops : numops :=
  mknumops
    (fun text m t1 v1 t2 v2 =>
       match to_operator to_operator_table text false with
       | invalid => None
       | op => Some (interp_go go_table op m t1 v1 t2 v2)
       end)
    (fun text m t v =>
       match to_operator to_operator_table text true with
       | invalid => None
       | op => Some (interp_unary unary_table op m t v)
       end)
    (fun text m t1 v1 t2 v2 =>
       match find (fun e => let '(n, _, _, ar) := e in String.eqb n text && Nat.eqb ar 2) pod_table with
       | Some (_, _, op, _) => Some (interp_go go_table op m t1 v1 t2 v2)
       | None => None
       end).

Definition run_line (line : string) : string := run_with mech_numops line.
