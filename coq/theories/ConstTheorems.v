(* C07 — facts about the tables regenerated from the source (G_CastRules, G_ConstRules), checked by computation. *)
From Coq Require Import String ZArith List Bool.
From ChaiV Require Import DispatchDefs DispatchProofs DispatchTheorems ConstDefs ConstSpecRun ConstProofs.
From ChaiV.Gen Require Import G_CastRules G_ConstRules.
Import ListNotations.

(* Equation_AST_Node refuses a const left operand before anything else; references/pointers to const are boxed const and
   not copied; by-value returns are copies; every stdlib wrapper that mutates its first parameter takes it by T& or T*; the functions
   registered under an assignment-like name that take the Boxed_Value itself rebind it only if it is undefined or not const *)
Lemma gen_crules_ok : crules_ok gen_crules = true.
Proof. vm_compute. reflexivity. Qed.

Lemma gen_prefix_guard : cr_prefix_guard gen_crules = true.
Proof. vm_compute. reflexivity. Qed.

(* every Cast_Helper_Inner specialisation whose form permits mutation, listed *)
Definition mutable_inner_forms : list form := List.filter form_mutable inner_forms.
Lemma mutable_inner_forms_eq :
  mutable_inner_forms = [FPtr; FPtrCRef; FRef; FRRef; FUniqRRef; FUniqRef; FUniqCRef; FSh; FCSh; FShCRef; FShRef; FRw; FCRw; FRwCRef].
Proof. vm_compute. reflexivity. Qed.

(* boxed_value.hpp / dispatchkit.hpp: every const_var overload adds const to the type it boxes, var keeps the type it is given, no entry
   point removes const; add_global_const (Module and Dispatch_Engine) begins by refusing a non-const value; add_function boxes the
   function object it keeps for lookup by name with const_var *)
Lemma gen_entries_ok : entries_ok gen_crules = true.
Proof. vm_compute. reflexivity. Qed.

(* the regenerated entry points give exactly the constness the specification (ConstSpecRun.source_const, which the oracle uses) demands *)
Lemma gen_entries_meet_spec :
  forall e tc, In e (cr_entries gen_crules) -> entry_const e tc = source_const (en_name e) tc.
Proof.
  assert (H : forallb (fun e => forallb (fun tc => Bool.eqb (entry_const e tc) (source_const (en_name e) tc)) [true; false]) (cr_entries gen_crules) = true)
    by (vm_compute; reflexivity).
  intros e tc Hin. rewrite forallb_forall in H. specialize (H e Hin). cbn [forallb] in H.
  apply andb_true_iff in H. destruct H as [H1 H2]. apply andb_true_iff in H2. destruct H2 as [H2 _].
  destruct tc; apply eqb_prop; assumption.
Qed.

(* the overloads, listed: const_var of a value / pointer / shared_ptr / reference_wrapper, and var *)
Lemma gen_entry_args : map (fun e => (en_name e, en_arg e)) (cr_entries gen_crules)
  = [("const_var"%string, EaValue); ("const_var"%string, EaPtr); ("const_var"%string, EaShared); ("const_var"%string, EaRefWrap); ("var"%string, EaForward)].
Proof. vm_compute. reflexivity. Qed.

(* every name under which an assignment-like function is registered in bootstrap.hpp *)
Definition assign_names : list string := ["="; "+="; "-="; "*="; "/="; "%="; "<<="; ">>="; "&="; "|="; "^="; "++"; "--"]%string.
Lemma gen_assign_names : forall a, In a (cr_assign gen_crules) -> In (fst a) assign_names.
Proof.
  assert (H : forallb (fun a => existsb (String.eqb (fst a)) assign_names) (cr_assign gen_crules) = true) by (vm_compute; reflexivity).
  intros a Hin. rewrite forallb_forall in H. specialize (H a Hin). apply existsb_exists in H. destruct H as (n & Hn & He).
  apply String.eqb_eq in He. rewrite He. exact Hn.
Qed.
