(* C07 — facts about the tables regenerated from the source (G_CastRules, G_ConstRules), checked by computation. *)
From Coq Require Import ZArith List Bool.
From ChaiV Require Import DispatchDefs DispatchProofs DispatchTheorems ConstDefs ConstProofs.
From ChaiV.Gen Require Import G_CastRules G_ConstRules.
Import ListNotations.

(* Equation_AST_Node refuses a const left operand before anything else; references/pointers to const are boxed const and
   not copied; by-value returns are copies; every stdlib wrapper that mutates its first parameter takes it by T& or T* *)
Lemma gen_crules_ok : crules_ok gen_crules = true.
Proof. vm_compute. reflexivity. Qed.

Lemma gen_prefix_guard : cr_prefix_guard gen_crules = true.
Proof. vm_compute. reflexivity. Qed.

(* every Cast_Helper_Inner specialisation whose form permits mutation, listed *)
Definition mutable_inner_forms : list form := List.filter form_mutable inner_forms.
Lemma mutable_inner_forms_eq :
  mutable_inner_forms = [FPtr; FPtrCRef; FRef; FRRef; FUniqRRef; FUniqRef; FUniqCRef; FSh; FCSh; FShCRef; FShRef; FRw; FCRw; FRwCRef].
Proof. vm_compute. reflexivity. Qed.
