(* C18 — executable *specification*: judges an observation of the implementation against the
   round-trip law and the totality clause.  It does not use the parser/dump model (JsonDefs.parse_next,
   dump): only the tree vocabulary (sval, wf_sval, vheight, map_insert) and the I/O glue.
   input line:   <case> => <observation>
   verdicts:     OK | FLOAT (structure fine, doubles present: tolerance is judged outside, partial)
                 | NOSPEC (case outside the law's scope) | FAIL <reason> *)
From Coq Require Import ZArith NArith Ascii String List Bool.
From ChaiV Require Import StrUtil JsonDefs JsonIO.
Import ListNotations.
Local Open Scope string_scope.

Fixpoint split_at_tok (sep : string) (l : list string) (cur : list string) : list (list string) :=
  match l with
  | [] => [rev cur]
  | t :: r => if String.eqb t sep then rev cur :: split_at_tok sep r [] else split_at_tok sep r (t :: cur)
  end.

Fixpoint list_string_eqb (a b : list string) : bool :=
  match a, b with
  | [], [] => true
  | x :: a', y :: b' => String.eqb x y && list_string_eqb a' b'
  | _, _ => false
  end.

Definition starts_with (p s : string) : bool := String.eqb (substring 0 (String.length p) s) p.
Definition is_err_obs (l : list string) : bool :=
  match l with
  | [t] => String.eqb t "ERR(unparsed)" || String.eqb t "ERR(parse)" || String.eqb t "ERR(depth)"
  | _ => false
  end.
Definition has_float (l : list string) : bool := existsb (fun t => starts_with "D" t) l.

(* an observation is a value tree exactly when it reads back as one *)
Definition is_tree (l : list string) : bool := match read_tree l with Some _ => true | None => false end.

(* totality + idempotence: from_json(t) is an exception, or a value v with from_json(to_json(v)) = v *)
Definition judge_from (obs : list string) : string :=
  if is_err_obs obs then "OK" else
  match split_at_tok "|" obs [] with
  | [t1; text2; t2] =>
      if negb (is_tree t1) then "FAIL not a value, not an exception"
      else if has_float t1 then (if is_tree t2 then "FLOAT" else "FLOAT-ERR")
      else if list_string_eqb t1 t2 then "OK"
      else "FAIL from_json(to_json(from_json(t))) differs from from_json(t)"
  | _ => "FAIL not a value, not an exception"
  end.

(* round trip: for v in scope, from_json(to_json(v)) = v *)
Definition judge_rt (case : list string) (obs : list string) : string :=
  match read_tree case with
  | None => "NOSPEC"
  | Some v =>
      if negb (sval_float_free v) then
        match split_at_tok "|" obs [] with
        | [text; t2] => if is_tree t2 then "FLOAT" else "FLOAT-ERR"
        | _ => "FAIL not a value, not an exception"
        end
      else if negb (wf_sval v && Nat.leb (vheight v) max_depth) then
        (if is_err_obs obs then "NOSPEC"
         else match split_at_tok "|" obs [] with
              | [text; t2] => if is_tree t2 || is_err_obs t2 then "NOSPEC" else "FAIL not a value, not an exception"
              | _ => "FAIL not a value, not an exception"
              end)
      else
        match split_at_tok "|" obs [] with
        | [text; t2] =>
            if list_string_eqb t2 (show_sval v) then "OK"
            else "FAIL from_json(to_json(v)) differs from v; expected " ++ unwords (show_sval v)
        | _ => "FAIL no value"
        end
  end.

Definition spec_line (line : string) : string :=
  match split_at_tok "=>" (tokens line) [] with
  | [case; obs] =>
      match case with
      | cmd :: rest =>
          if String.eqb cmd "from" then judge_from obs
          else if String.eqb cmd "rt" then judge_rt rest obs
          else "NOSPEC"
      | [] => "NOSPEC"
      end
  | _ => "FAIL malformed observation"
  end.
