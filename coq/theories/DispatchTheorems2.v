(* C06 — further facts about the rules regenerated from the source (coq/gen/G_CastRules.v), checked by computation.
   Kept apart from DispatchTheorems.v, which C07 also uses. *)
From Coq Require Import ZArith List Bool.
From ChaiV Require Import DispatchDefs DispatchProofs DispatchMore.
From ChaiV.Gen Require Import G_CastRules.
Import ListNotations.

(* boxed_cast swallows the internal bad_any_cast at each of its three attempts *)
Lemma gen_flow_ok : flow_ok gen_rules = true.
Proof. vm_compute. reflexivity. Qed.

(* function_less_than starts at slot 1 of get_param_types(): the return type is not compared *)
Lemma gen_order_ok : order_ok gen_rules = true.
Proof. vm_compute. reflexivity. Qed.

(* ~Sentinel refreshes both cached pointers of the Boxed_Value *)
Lemma gen_sentinel_ok : sentinel_ok gen_rules = true.
Proof. vm_compute. reflexivity. Qed.
