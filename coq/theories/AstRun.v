(* round-trip self-check of the dump reader/printer (used by the tie of the tree format) *)
From Coq Require Import String List.
From ChaiV Require Import StrUtil Ast.
Local Open Scope string_scope.
Definition run_line (line : string) : string :=
  match read_ast line with Some a => show_ast a | None => "UNREADABLE" end.
