(* C17 — executable SPECIFICATION (the oracle of the check): every prelude function as its list-level
   functional specification from PreludeDefs.v.  Independent of gen/. *)
From Coq Require Import ZArith List Bool String Ascii.
From ChaiV Require Import StrUtil PreludeDefs PreludeIO.
Import ListNotations.
Local Open Scope Z_scope.

Definition ok (tr : list val) (r : val) (ins : list val) : Obs := (tr, Ok (r, ins)).
Definition ev2 (p : val * val) : val := VL [fst p; snd p].

Fixpoint sts (v : val) : string :=
  match v with
  | VL l => spec_to_string_container sts l
  | VP a b => spec_to_string_pair sts sts (a, b)
  | _ => atom_to_string v
  end.
Definition spec_ops : Ops val := mk_ops sts.

Definition spec_impl : Impl := {|
  i_for_each := fun f l => ok l VU [VL l];
  i_map := fun f l => ok l (VL (map f l)) [VL l];
  i_map3 := fun f l o => ok l VU [VL l; VL (o ++ map f l)];
  i_filter := fun p l => ok l (VL (filter p l)) [VL l];
  i_filter3 := fun p l o => ok l VU [VL l; VL (o ++ filter p l)];
  i_foldl := fun f z l => ok (map ev2 (spec_foldl_trace f z l)) (spec_foldl f z l) [VL l];
  i_sum := fun l => ok [] (spec_foldl v_add (VD 0) l) [VL l];
  i_product := fun l => ok [] (spec_foldl v_mul (VD 1) l) [VL l];
  i_any_of := fun p l => ok (upto_first p l) (VB (existsb p l)) [VL l];
  i_all_of := fun p l => ok (upto_first (fun x => negb (p x)) l) (VB (forallb p l)) [VL l];
  i_contains3 := fun c x l => ok (map (fun y => VL [y; x]) (upto_first (fun y => c y x) l)) (VB (existsb (fun y => c y x) l)) [VL l];
  i_contains := fun x l => ok [] (VB (existsb (fun y => @spec_eq _ spec_ops y x) l)) [VL l];
  i_find3 := fun c x l => ok (map (fun y => VL [y; x]) (upto_first (fun y => c y x) l)) (VL (find_suffix (fun y => c y x) l)) [VL l];
  i_find := fun x l => ok [] (VL (find_suffix (fun y => @spec_eq _ spec_ops y x) l)) [VL l];
  i_take := fun n l => ok [] (VL (spec_take n l)) [VL l];
  i_take3 := fun n l o => ok [] VU [VL l; VL (o ++ spec_take n l)];
  i_drop := fun n l => ok [] (VL (spec_drop n l)) [VL l];
  i_drop3 := fun n l o => ok [] VU [VL l; VL (o ++ spec_drop n l)];
  i_take_while := fun p l => ok (upto_first (fun x => negb (p x)) l) (VL (take_while_l p l)) [VL l];
  i_take_while3 := fun p l o => ok (upto_first (fun x => negb (p x)) l) VU [VL l; VL (o ++ take_while_l p l)];
  i_drop_while := fun p l => ok (upto_first (fun x => negb (p x)) l) (VL (drop_while_l p l)) [VL l];
  i_drop_while3 := fun p l o => ok (upto_first (fun x => negb (p x)) l) VU [VL l; VL (o ++ drop_while_l p l)];
  i_zip_with := fun f x y => ok (map ev2 (combine x y)) (VL (spec_zip_with f x y)) [VL x; VL y];
  i_zip_with4 := fun f x y o => ok (map ev2 (combine x y)) VU [VL x; VL y; VL (o ++ spec_zip_with f x y)];
  i_zip := fun x y => ok [] (VL (map ev2 (combine x y))) [VL x; VL y];
  i_concat := fun x y => ok [] (VL (x ++ y)) [VL x; VL y];
  i_join := fun d l => ok [] (VS (spec_join sts d l)) [VL l];
  i_reverse := fun l => ok [] (VL (rev l)) [VL l];
  i_retro := fun l => ok [] (VL (rev l)) [VL l];
  i_retro_back := fun l => ok [] (VL l) [VL l];
  i_reduce := fun f l => match spec_reduce f l, l with
                         | Some r, x :: t => ok (map ev2 (spec_reduce_trace f x t)) r [VL l]
                         | _, _ => ([], Err GuardFailed)
                         end;
  i_generate_range := fun x y => ok [] (VL (map VI (spec_generate_range x y))) [];
  i_generate_range3 := fun x y o => ok [] VU [VL (o ++ map VI (spec_generate_range x y))];
  i_max := fun a b => ok [] (VI (Z.max a b)) [];
  i_min := fun a b => ok [] (VI (Z.min a b)) [];
  i_odd := fun x => ok [] (VB (Z.odd x)) [];
  i_even := fun x => ok [] (VB (Z.even x)) [];
  i_ltrim := fun s => ok [] (chars_val (spec_ltrim s)) [chars_val s];
  i_rtrim := fun s => ok [] (chars_val (spec_rtrim s)) [chars_val s];
  i_trim := fun s => ok [] (chars_val (spec_trim s)) [chars_val s];
  i_to_string := fun v => ok [] (VS (sts v)) [v]
|}.

Definition spec_line (line : string) : string := run_with spec_impl line.
