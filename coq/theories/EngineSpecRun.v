(* C15 — executable SPECIFICATION (dictionary model; independent of gen/) and the I/O glue shared with
   the mechanism run: history parser and the canonical views, in the format of harness/h_engine.cpp. *)
From Coq Require Import ZArith List Bool String Ascii Arith.
From ChaiV Require Import StrUtil EngineDefs.
Import ListNotations.
Local Open Scope string_scope.

Definition nat_of_dec (s : string) : option nat := option_map Z.to_nat (z_of_dec s).
Definition dn (n : nat) : string := dec_of_nat n.

(* ---------------------------------------------------------------- parsing *)
Fixpoint split_bar (ws cur : list string) : list (list string) :=
  match ws with
  | [] => [rev cur]
  | w :: r => if String.eqb w "|" then rev cur :: split_bar r [] else split_bar r (w :: cur)
  end.

Definition parse_sop (w : list string) : option sop :=
  match w with
  | ["d"; n; ar; g; id] =>
      match nat_of_dec ar, nat_of_dec id with
      | Some a, Some i =>
          if String.eqb g "-" then Some (SDef n (mkF i 0 KDyn a None))
          else match nat_of_dec g with Some gv => Some (SDef n (mkF i 0 KDyn a (Some gv))) | None => None end
      | _, _ => None
      end
  | ["c"; n; k; id] =>
      match nat_of_dec k, nat_of_dec id with Some kv, Some i => Some (SDef n (mkF i 0 (KCpp kv) (Nat.modulo kv 10) None)) | _, _ => None end
  | ["ka"; c; n; id] => match nat_of_dec id with Some i => Some (SDef n (mkF i 0 (KAttr c) 1 None)) | None => None end
  | ["km"; c; n; ar; id] =>
      match nat_of_dec ar, nat_of_dec id with Some a, Some i => Some (SDef n (mkF i 0 (KMethod c) a None)) | _, _ => None end
  | ["kc"; c; ar; id] =>
      match nat_of_dec ar, nat_of_dec id with Some a, Some i => Some (SDef c (mkF i 0 (KCtor c) a None)) | _, _ => None end
  | ["G"; n; v] => option_map (SGlobalDecl n) (nat_of_dec v)
  | ["g"; n; v] => option_map (SAddGlobal n) (nat_of_dec v)
  | ["s"; n; v] => option_map (SSetGlobal n) (nat_of_dec v)
  | ["a"; n; v] => option_map (SAssign n) (nat_of_dec v)
  | ["t"; n; v] => option_map (SAddType n) (nat_of_dec v)
  | _ => None
  end.

Record parsed := mkP {
  p_fn : list string; p_gn : list string; p_tn : list string; p_ln : list string;
  p_files : list (string * list sop); p_mods : list (string * modc);
  p_ops : list op;     (* most recent first *)
  p_bad : bool }.

Definition add_file_sop (f : string) (s : option sop) (l : list (string * list sop)) : list (string * list sop) :=
  let cur := match lookup f l with Some x => x | None => [] end in
  assign f (match s with Some x => (cur ++ [x])%list | None => cur end) l.
Definition add_mod_sop (m : string) (s : option sop) (l : list (string * modc)) : list (string * modc) :=
  let cur := match lookup m l with Some x => x | None => mkMod [] [] end in
  assign m (match s with
            | Some (SAddType n ty) => mkMod (mc_types cur ++ [(n, ty)])%list (mc_funs cur)
            | Some (SDef n f) => mkMod (mc_types cur) (mc_funs cur ++ [(n, f)])%list
            | _ => cur
            end) l.

Definition set_bad (p : parsed) : parsed := mkP (p_fn p) (p_gn p) (p_tn p) (p_ln p) (p_files p) (p_mods p) (p_ops p) true.
Definition push_op (p : parsed) (o : op) : parsed := mkP (p_fn p) (p_gn p) (p_tn p) (p_ln p) (p_files p) (p_mods p) (o :: p_ops p) (p_bad p).

Definition parse_seg (p : parsed) (w : list string) : parsed :=
  match w with
  | [] => p
  | "N" :: r => mkP r (p_gn p) (p_tn p) (p_ln p) (p_files p) (p_mods p) (p_ops p) (p_bad p)
  | "V" :: r => mkP (p_fn p) r (p_tn p) (p_ln p) (p_files p) (p_mods p) (p_ops p) (p_bad p)
  | "T" :: r => mkP (p_fn p) (p_gn p) r (p_ln p) (p_files p) (p_mods p) (p_ops p) (p_bad p)
  | "L" :: r => mkP (p_fn p) (p_gn p) (p_tn p) r (p_files p) (p_mods p) (p_ops p) (p_bad p)
  | "+" :: r =>
      match parse_sop r, p_ops p with
      | Some s, OScript l :: t => mkP (p_fn p) (p_gn p) (p_tn p) (p_ln p) (p_files p) (p_mods p) (OScript (l ++ [s])%list :: t) (p_bad p)
      | _, _ => set_bad p
      end
  | ["u"; f] => push_op p (OUse f)
  | ["m"; m] => push_op p (OModule m)
  | ["l"; n; v] => match nat_of_dec v with Some x => push_op p (OLocal n x) | None => set_bad p end
  | ["S"] => push_op p OGet
  | ["R"; k] => match nat_of_dec k with Some x => push_op p (OSet x) | None => set_bad p end
  | String c name :: r =>
      if Ascii.eqb c "@" then
        match r, parse_sop r with
        | _ :: _, None => set_bad p
        | _, s => mkP (p_fn p) (p_gn p) (p_tn p) (p_ln p) (add_file_sop name s (p_files p)) (p_mods p) (p_ops p) (p_bad p)
        end
      else if Ascii.eqb c "%" then
        match r, parse_sop r with
        | _ :: _, None => set_bad p
        | _, s => mkP (p_fn p) (p_gn p) (p_tn p) (p_ln p) (p_files p) (add_mod_sop name s (p_mods p)) (p_ops p) (p_bad p)
        end
      else match parse_sop w with Some s => push_op p (OScript [s]) | None => set_bad p end
  | _ => set_bad p
  end.

Definition parse_line (line : string) : parsed :=
  fold_left parse_seg (split_bar (words line) []) (mkP [] [] [] [] [] [] [] false).

(* ---------------------------------------------------------------- views *)
Record reader := mkR {
  rd_F : string -> option (list fdesc);   (* m_functions, dereferenced *)
  rd_O : string -> option fobj;           (* m_function_objects *)
  rd_B : string -> option fobj;           (* m_boxed_functions *)
  rd_g : string -> option nat;            (* global name -> object *)
  rd_t : string -> option nat;
  rd_used : list string; rd_mods : list string }.

Definition show_ids (l : list fdesc) : string := "[" ++ join "," (map (fun f => "#" ++ dn (f_site f) ++ "." ++ dn (f_gen f)) l) ++ "]".
Definition show_fobj (o : option fobj) : string :=
  match o with
  | None => "-"
  | Some (FSingle f) => "S" ++ show_ids [f]
  | Some (FDispatch l) => "D" ++ show_ids l
  end.
Definition show_obj (objs : list (bool * nat)) (missing : string) (o : option nat) : string :=
  match o with
  | None => missing
  | Some oid => match nth_error objs oid with
                | Some (true, v) => "ty" ++ dn v
                | Some (false, v) => dn v
                | None => "dangling"
                end
  end.
Definition show_cres (r : cres) : string := match r with RId n => dn n | RObj => "obj" | RErr => "E" end.
Definition concat_map {A : Type} (f : A -> string) (l : list A) : string := fold_right (fun x acc => f x ++ acc) "" l.

Definition state_view (p : parsed) (objs : list (bool * nat)) (rd : reader) : string :=
  concat_map (fun n => " " ++ n ++ ":F" ++ match rd_F rd n with None => "-" | Some v => show_ids v end
                        ++ " O" ++ show_fobj (rd_O rd n) ++ " B" ++ show_fobj (rd_B rd n)) (p_fn p)
  ++ " ;" ++ concat_map (fun n => " " ++ n ++ "=" ++ show_obj objs "-" (rd_g rd n)) (p_gn p)
  ++ " ;" ++ concat_map (fun n => " " ++ n ++ "=" ++ match rd_t rd n with None => "-" | Some k => dn k end) (p_tn p)
  ++ " ; U[" ++ join "," (filter (fun f => mem f (rd_used rd)) (map fst (p_files p))) ++ "] M["
  ++ join "," (filter (fun m => mem m (rd_mods rd)) (map fst (p_mods p))) ++ "]".

Definition probe (fs : option (list fdesc)) (args : list nat) : string :=
  match fs with None => "E" | Some v => show_cres (dispatch v args) end.

Definition live_view (p : parsed) (a : ambient) (rd : reader) : string :=
  concat_map (fun n =>
      let b := option_map fobj_funs (rd_B rd n) in
      let f := rd_F rd n in
      " " ++ n ++ ":e" ++ (match f with None => "0" | Some _ => "1" end)
      ++ " O" ++ show_fobj (rd_O rd n) ++ " B" ++ show_fobj (rd_B rd n)
      ++ " c[" ++ probe b [] ++ "," ++ probe b [1] ++ "," ++ probe b [2] ++ "," ++ probe b [1; 1] ++ "]"
      ++ " m[" ++ probe f [1] ++ "," ++ probe f [2] ++ "," ++ probe f [1; 1] ++ "]") (p_fn p)
  ++ " ;" ++ concat_map (fun n => " " ++ n ++ "=" ++ show_obj (a_objs a) "E" (rd_g rd n)) (p_gn p)
  ++ " ;" ++ concat_map (fun n => " " ++ n ++ "=" ++ match rd_t rd n with None => "-" | Some k => dn k end) (p_tn p)
  ++ " ; L" ++ concat_map (fun n => " " ++ n ++ "=" ++ match lookup n (a_locals a) with None => "-" | Some v => dn v end) (p_ln p)
  ++ " ; ev" ++ concat_map (fun f => " " ++ f ++ "=" ++ dn (List.length (filter (String.eqb f) (a_evals a)))) (map fst (p_files p)).

Definition show_outcome (o : outcome) : string :=
  match o with
  | Ok | Skipped => "OK"
  | Conflict => "ERR(conflict)" | NotFound => "ERR(notfound)" | ConstError => "ERR(const)"
  | FileNotFound => "ERR(file)" | BadSnapshot => "ERR(snap)" | Dangling => "ERR(dangling)"
  end.

Fixpoint show_snaps {St : Type} (view : St -> string) (l : list St) (i : nat) : string :=
  match l with
  | [] => ""
  | s :: r => " ;; S" ++ dn i ++ view s ++ show_snaps view r (S i)
  end.

(* ---------------------------------------------------------------- the dictionary specification, run *)
Definition env_reader (e : env) : reader :=
  mkR (fun n => lookup n (e_funs e))
      (fun n => option_map wrap (lookup n (e_funs e)))
      (fun n => option_map wrap (lookup n (e_funs e)))
      (fun n => lookup n (r_globals (e_rest e)))
      (fun n => lookup n (r_types (e_rest e)))
      (e_used e) (e_mods e).

Definition spec_step_view (p : parsed) (o : outcome) (st : sstate) : string :=
  show_outcome o ++ " ;" ++ live_view p (s_amb st) (env_reader (s_env st))
  ++ " ;;" ++ state_view p (a_objs (s_amb st)) (env_reader (s_env st))
  ++ show_snaps (fun e => state_view p (a_objs (s_amb st)) (env_reader e)) (s_snaps st) 0.

Fixpoint spec_run (p : parsed) (w : world) (st : sstate) (h : list op) : list string :=
  match h with
  | [] => []
  | o :: t => let (st', oc) := sstep w st o in spec_step_view p oc st' :: spec_run p w st' t
  end.

Definition spec_line (line : string) : string :=
  let p := parse_line line in
  if p_bad p then "BADCASE"
  else join " || " (spec_run p (mkWorld (p_files p) (p_mods p)) s_init (rev (p_ops p))).
