(* Executable evaluator with the *specification* arithmetic (independent of regenerated tables),
   plus the printers shared with the mechanism instance. *)
From Coq Require Import ZArith NArith List Bool String Ascii.
From ChaiV Require Import StrUtil NumDefs NumSpecRun Ast EvalDefs Eval.
Import ListNotations.
Local Open Scope string_scope.

Definition spec_numops : numops :=
  mknumops
    (fun text m t1 v1 t2 v2 => match spec_action_of_text text with Some a => Some (spec_row a m t1 v1 t2 v2) | None => None end)
    (fun text m t v => match spec_unary_of_text text with Some u => Some (spec_unary u m t v) | None => None end)
    (fun text m t1 v1 t2 v2 => match spec_action_of_text text with Some a => Some (spec_row a m t1 v1 t2 v2) | None => None end).

Fixpoint show_deep (fuel : nat) (s : state) (d : dloc) : string :=
  match fuel with
  | O => "..."
  | S f =>
      match nth_error (s_data s) (dl d) with
      | None => "dangling"
      | Some x =>
          match d_obj x with
          | None => "undef"
          | Some l =>
              match nth_error (s_objs s) (ol l) with
              | None => "dangling"
              | Some (ONum tn t v) => tn ++ ":" ++ show_val t v
              | Some (OBool b) => "bool:bool:" ++ (if b then "1" else "0")
              | Some (OStr str) => "string:" ++ hex_of_string str
              | Some (OVec l) => "[" ++ join "," (map (show_deep f s) l) ++ "]"
              | Some (OMap l) => "{" ++ join "," (map (fun e => hex_of_string (fst e) ++ "=" ++ show_deep f s (snd e)) l) ++ "}"
              | Some (OFun _) => "fun"
              | Some OVoid => "void"
              | Some (OExc st _ _) => "exc:" ++ st
              | Some (ODyn cn l) => "obj:" ++ cn ++ "{" ++ join "," (map (fun e => fst e ++ "=" ++ show_deep f s (snd e)) l) ++ "}"
              end
          end
      end
  end.

Definition show_trace (st : list trace_entry) : string :=
  "[" ++ join "," (map (fun e => let 'TE k l := e in name_of_kind k ++ "@" ++ dec_of_z (l_line l) ++ ":" ++ dec_of_z (l_col l)) st) ++ "]".

Definition show_result (r : res dloc) (s : state) : string :=
  "OUT " ++ hex_of_string (s_out s) ++ " || " ++
  match r with
  | RVal d => "RES " ++ show_deep 9 s d
  | RFail (FRet d) => "RES " ++ show_deep 9 s d
  | RFail FBreak => "ERR(break)"
  | RFail FCont => "ERR(continue)"
  | RFail (FThrow (EBoxed d)) =>
      (* ChaiScript_Basic::eval hands an eval_error to C++ boxed: a script-rethrown eval_error value and a raw one look the same there *)
      match nth_error (s_data s) (dl d) with
      | Some x => match d_obj x with
                  | Some l => match nth_error (s_objs s) (ol l) with
                              | Some (OExc "eval_error" _ w) => "ERR(eval_error) " ++ hex_of_string w ++ " [boxed]"
                              | _ => "ERR(boxed) " ++ show_deep 9 s d
                              end
                  | None => "ERR(boxed) " ++ show_deep 9 s d
                  end
      | None => "ERR(boxed) " ++ show_deep 9 s d
      end
  | RFail (FThrow (EEval reason st)) => "ERR(eval_error) " ++ hex_of_string reason ++ " " ++ show_trace st
  | RFail (FThrow (EStd ty w)) => "ERR(" ++ ty ++ ") " ++ hex_of_string w
  | RFail (FThrow (EForeign w)) => "ERR(other)"
  | RFuel => "FUEL"
  | RFail (FUnsup w) => "UNSUP " ++ w
  end.

Definition show_shape (s : state) : string :=
  "SHAPE " ++ join "," (map dec_of_nat (map (@List.length scope) (s_stacks s))) ++ ";" ++ dec_of_nat (List.length (s_call_params s)) ++ ";" ++ dec_of_nat (s_call_depth s)
  ++ " LOCALS " ++ join "," (match s_stacks s with (sc :: _) :: _ => map fst sc | _ => [] end).

(* input: "<flags> <fuel> <tree dump>"; flags: "0"/"1" = hints off/on, optionally followed by ",fault=<n>:<kind>" *)
Definition parse_flags (h : string) : bool * option (nat * string) :=
  match split_on ","%char h "" with
  | hb :: rest =>
      (String.eqb hb "1",
       match rest with
       | f :: _ => if has_prefix "fault=" f then
                     let '(n, kd) := split2 ":"%char (drop_prefix "fault=" f) in
                     match z_of_dec n with Some z => Some (Z.to_nat z, kd) | None => None end
                   else None
       | [] => None
       end)
  | [] => (false, None)
  end.

(* "<tree> @@ <hex text> <tree> @@ …": the program followed by the pre-parsed eval() texts *)
Fixpoint split_at (sep : string) (ws : list string) (cur : list string) : list (list string) :=
  match ws with
  | [] => [rev cur]
  | w :: r => if String.eqb w sep then rev cur :: split_at sep r [] else split_at sep r (w :: cur)
  end.

Definition read_evals (segs : list (list string)) : list (string * ast) :=
  fold_right (fun seg acc =>
                match seg with
                | h :: rest => match string_of_hex h, read_ast (join " " rest) with
                               | Some text, Some t => (text, t) :: acc
                               | _, _ => acc
                               end
                | [] => acc
                end) [] segs.

Definition run_with (ops : numops) (line : string) : string :=
  match words line with
  | h :: f :: rest =>
      match split_at "@@" rest [] with
      | main :: evs =>
          match z_of_dec f, read_ast (join " " main) with
          | Some fz, Some a =>
              let '(hints, fault) := parse_flags h in
              let s0 := set_evals (set_cb init_state (0%nat, fault)) (read_evals evs, 0%nat) in
              let '(r, s) := run_program (mkcfg hints) ops (Z.to_nat fz) a s0 in
              show_result r s ++ " || " ++ show_shape s
          | _, _ => "UNREADABLE"
          end
      | [] => "BADCASE"
      end
  | _ => "BADCASE"
  end.

Definition spec_line (line : string) : string := run_with spec_numops line.
