(* C11 — line format of the executable models: one operation history per line in, the sequence of
   checkpoint counts and faults out.  (Definitions only.)

   line   ::= number*            (decimal, space separated)
   path   ::= kind a b n k1..kn  kind 0 RVar a b | 1 RTemp a | 2 RParam a b | 3 RConv a | 4 RCxx a, followed by n slot indices
   op     ::= 0 path tr | 1 path path | 2 path path | 3 path path | 4 path path | 5 path | 6 path
            | 7 | 8 | 9 lvl | 10 lvl | 11 from | 12 | 13 | 14  (PCreate .. PCxxRelease in the order of LifeDefs.prim)
            | 20 shape has_src [path] path                  (HRet; shape = index in all_rshapes)
            | 21 rv [shape] path path has [path] has [path] (HBind; rv 0 = no, 1 = yes, 2 = that of the shape; the two optional save places)
            | 15 path n | 16 path                           (PWrite, PRead)
            | 22 path                                       (HReseat)
   output ::= items separated by spaces: a number (Live n), V<n> (Value n), UAF, BAD<code>, FAULT; "PARSE" if the line is malformed *)
From Coq Require Import List Bool Arith String ZArith.
From ChaiV Require Import StrUtil LifeDefs.
Import ListNotations.
Local Open Scope string_scope.

Fixpoint take_slots (n : nat) (p : path) (l : list nat) : option (path * list nat) :=
  match n with
  | 0 => Some (p, l)
  | S m => match l with k :: r => take_slots m (PSlot p k) r | [] => None end
  end.

Definition parse_path (l : list nat) : option (path * list nat) :=
  match l with
  | kind :: a :: b :: n :: r =>
      let root := match kind with
                  | 0 => Some (RVar a b) | 1 => Some (RTemp a) | 2 => Some (RParam a b) | 3 => Some (RConv a) | 4 => Some (RCxx a)
                  | _ => None end in
      match root with Some rt => take_slots n (PRoot rt) r | None => None end
  | _ => None
  end.

Definition shape_of (n : nat) : option rshape := nth_error all_rshapes n.

Definition parse_op (l : list nat) : option (hop * list nat) :=
  let two (mk : path -> path -> prim) r :=
    match parse_path r with
    | Some (p1, r1) => match parse_path r1 with Some (p2, r2) => Some (HPrim (mk p1 p2), r2) | None => None end
    | None => None end in
  let one (mk : path -> prim) r :=
    match parse_path r with Some (p1, r1) => Some (HPrim (mk p1), r1) | None => None end in
  match l with
  | 0 :: r => match parse_path r with Some (p, tr :: r1) => Some (HPrim (PCreate p (negb (Nat.eqb tr 0))), r1) | _ => None end
  | 1 :: r => two PShare r
  | 2 :: r => two PBorrow r
  | 3 :: r => two PClone r
  | 4 :: r => two PMove r
  | 5 :: r => one PDrop r
  | 6 :: r => one PTouch r
  | 7 :: r => Some (HPrim PPush, r)
  | 8 :: r => Some (HPrim PPop, r)
  | 9 :: lvl :: r => Some (HPrim (PCallBegin lvl), r)
  | 10 :: lvl :: r => Some (HPrim (PCallEnd lvl), r)
  | 11 :: from :: r => Some (HPrim (PStmtEnd from), r)
  | 12 :: r => Some (HPrim PCheckpoint, r)
  | 13 :: r => Some (HPrim PEngineEnd, r)
  | 14 :: r => Some (HPrim PCxxRelease, r)
  | 15 :: r => match parse_path r with Some (p, n :: r1) => Some (HPrim (PWrite p n), r1) | _ => None end
  | 16 :: r => one PRead r
  | 20 :: sh :: has :: r =>
      match shape_of sh with
      | None => None
      | Some rs =>
          match has with
          | 0 => match parse_path r with Some (d, r1) => Some (HRet rs None d, r1) | None => None end
          | _ => match parse_path r with
                 | Some (sp, r1) => match parse_path r1 with Some (d, r2) => Some (HRet rs (Some sp) d, r2) | None => None end
                 | None => None end
          end
      end
  | 22 :: r => match parse_path r with Some (p, r1) => Some (HReseat p, r1) | None => None end
  | 21 :: rv :: r =>
      let opt_path r0 :=
        match r0 with
        | 0 :: r1 => Some (None, r1)
        | _ :: r1 => match parse_path r1 with Some (p, r2) => Some (Some p, r2) | None => None end
        | [] => None
        end in
      let bind v r0 :=
        match parse_path r0 with
        | Some (t, r1) =>
            match parse_path r1 with
            | Some (d, r2) =>
                match opt_path r2 with
                | Some (ss, r3) => match opt_path r3 with Some (sr, r4) => Some (HBind v t d ss sr, r4) | None => None end
                | None => None
                end
            | None => None end
        | None => None end in
      match rv with
      | 0 => bind RvNo r
      | 1 => bind RvYes r
      | _ => match r with sh :: r0 => match shape_of sh with Some rs => bind (RvShape rs) r0 | None => None end | [] => None end
      end
  | _ => None
  end.

Fixpoint parse_ops (fuel : nat) (l : list nat) : option (list hop) :=
  match l with
  | [] => Some []
  | _ =>
      match fuel with
      | 0 => None
      | S f => match parse_op l with
               | Some (h, r) => match parse_ops f r with Some hs => Some (h :: hs) | None => None end
               | None => None end
      end
  end.

Fixpoint nats_of (ws : list string) : option (list nat) :=
  match ws with
  | [] => Some []
  | w :: r =>
      if String.eqb w "" then nats_of r else
      match z_of_dec w, nats_of r with
      | Some z, Some l => Some (Z.to_nat z :: l)
      | _, _ => None
      end
  end.

Definition show_event (e : event) : list string :=
  match e with
  | Live n => [dec_of_nat n]
  | Value n => ["V" ++ dec_of_nat n]
  | UseAfterFree _ => ["UAF"]
  | BadOp c => ["BAD" ++ dec_of_nat c]
  | RcUnderflow _ => ["FAULT"]
  | OutOfFuel => ["FAULT"]
  | _ => []
  end.

Definition run_with (fl : rshape -> option flags) (line : string) : string :=
  match nats_of (words line) with
  | None => "PARSE"
  | Some ns =>
      match parse_ops (S (List.length ns)) ns with
      | None => "PARSE"
      | Some hs => join " " (flat_map show_event (snd (run_h fl hs init)))
      end
  end.
