(* C18 — proofs about the JSON model (JsonDefs.v). *)
From Coq Require Import ZArith NArith Ascii String List Bool Arith Lia.
From ChaiV Require Import JsonDefs.
Import ListNotations.

(* ================================================================== outcomes *)
(* a result that is neither "the model ran out of fuel" nor "size_t wrapped": a value or a C++ exception *)
Definition okres {A} (P : A -> Prop) (r : res A) : Prop :=
  match r with Ok a => P a | Err e => e <> OutOfFuel /\ e <> Crash end.

Lemma okres_bind : forall A C (P : A -> Prop) (Q : C -> Prop) (r : res A) (f : A -> res C),
  okres P r -> (forall a, P a -> okres Q (f a)) -> okres Q (bind r f).
Proof. intros A C P Q [a|e] f H Hf; simpl in *; auto. Qed.

Lemma okres_weaken : forall A (P Q : A -> Prop) (r : res A),
  okres P r -> (forall a, P a -> Q a) -> okres Q r.
Proof. intros A P Q [a|e] H HPQ; simpl in *; auto. Qed.

Lemma okres_err : forall A (P : A -> Prop) e, e <> OutOfFuel -> e <> Crash -> okres P (@Err A e).
Proof. intros; simpl; auto. Qed.

Local Arguments read_hex4 : simpl never.
Local Arguments Nat.ltb : simpl never.
Local Arguments Nat.leb : simpl never.

(* ================================================================== reading *)
Lemma at_lt : forall s i c, at_ s i = Ok c -> i < length s.
Proof.
  unfold at_; intros s i c H. destruct (nth_error s i) eqn:E; try discriminate.
  apply nth_error_Some. congruence.
Qed.

Lemma at_in_range : forall s i, i < length s -> exists c, at_ s i = Ok c.
Proof.
  unfold at_; intros s i H. destruct (nth_error s i) eqn:E; eauto.
  apply nth_error_None in E. lia.
Qed.

Lemma at_cases : forall s i, (exists c, at_ s i = Ok c /\ i < length s) \/ (at_ s i = Err OutOfRange /\ length s <= i).
Proof.
  intros. unfold at_. destruct (nth_error s i) eqn:E.
  - left. eexists; split; eauto. apply nth_error_Some. congruence.
  - right. split; auto. apply nth_error_None; auto.
Qed.

(* ================================================================== totality *)
Definition adv (off : nat) (r : json * nat) : Prop := off <= snd r.
Definition adv1 (off : nat) (r : json * nat) : Prop := off < snd r.

Lemma consume_ws_loop_total : forall k s off, length s - off < k ->
  okres (fun off' => off <= off' /\ off' < length s) (consume_ws_loop k s (length s) off).
Proof.
  induction k; intros s off Hk; [lia|]. simpl.
  destruct (at_cases s off) as [(c & -> & Hlt)|[-> Hge]]; simpl.
  - destruct (isspace c && (off <=? length s)).
    + eapply okres_weaken. apply IHk. lia. simpl. intros; lia.
    + simpl. lia.
  - split; discriminate.
Qed.

Lemma consume_ws_total : forall s off,
  okres (fun off' => off <= off' /\ off' < length s) (consume_ws s (length s) off).
Proof. intros. apply consume_ws_loop_total. lia. Qed.

Lemma read_hex4_S : forall n s pos, read_hex4 (S n) s pos =
  (c <- at_ s pos ;; if is_hex c then (r <- read_hex4 n s (S pos) ;; Ok (c :: r)) else Err ParseError).
Proof. reflexivity. Qed.

Lemma read_hex4_total : forall n s pos, okres (fun _ => True) (read_hex4 n s pos).
Proof.
  induction n; intros; [simpl; auto|rewrite read_hex4_S].
  destruct (at_cases s pos) as [(c & -> & Hlt)|[-> Hge]]; simpl; [|split; discriminate].
  destruct (is_hex c); [|simpl; split; discriminate].
  eapply okres_bind. apply IHn. simpl. auto.
Qed.

Lemma parse_string_loop_total : forall k s off val, length s - off < k ->
  okres (adv1 off) (parse_string_loop k s off val).
Proof.
  induction k; intros s off val Hk; [lia|]. simpl.
  destruct (at_cases s (S off)) as [(c & -> & Hlt)|[-> Hge]]; simpl; [|split; discriminate].
  assert (Hrec : forall o v, off < o -> okres (adv1 off) (parse_string_loop k s o v)).
  { intros o v H1. eapply okres_weaken. apply IHk. lia. unfold adv1; intros; lia. }
  destruct (ceq c ch_quote). { simpl. unfold adv1; simpl; lia. }
  destruct (ceq c ch_bslash); [|apply Hrec; lia].
  destruct (at_cases s (S (S off))) as [(e & -> & Hlt2)|[-> Hge]]; simpl; [|split; discriminate].
  repeat match goal with |- okres _ (if ?b then _ else _) => destruct b end; try (apply Hrec; lia).
  eapply okres_bind. apply read_hex4_total. intros h _. apply Hrec; lia.
Qed.

Lemma parse_string_total : forall s off, okres (adv1 off) (parse_string s (length s) off).
Proof. intros. apply parse_string_loop_total. lia. Qed.

Lemma num_loop1_total : forall k s off c val isd, length s - off < k ->
  okres (fun r => let '(off', _, _, _) := r in off <= off' /\ (off < length s -> off < off'))
        (num_loop1 k s (length s) off c val isd).
Proof.
  induction k; intros s off c val isd Hk; [lia|]. simpl.
  destruct (off <? length s) eqn:E; [apply Nat.ltb_lt in E|apply Nat.ltb_ge in E; simpl; lia].
  destruct (at_cases s off) as [(c' & -> & _)|[_ Hge]]; [|lia]. simpl.
  assert (Hrec : forall c v i, okres (fun r => let '(off', _, _, _) := r in off <= off' /\ (off < length s -> off < off'))
                                      (num_loop1 k s (length s) (S off) c v i)).
  { intros. eapply okres_weaken. apply IHk. lia. intros [[[o ?] ?] ?]. lia. }
  destruct (is_digit c'); [apply Hrec|].
  destruct (ceq c' "." && negb isd); [apply Hrec|]. simpl. lia.
Qed.

Lemma num_loop2_total : forall k s off e, length s - off < k ->
  okres (fun r => off <= fst r) (num_loop2 k s (length s) off e).
Proof.
  induction k; intros s off e Hk; [lia|]. simpl.
  destruct (off <? length s) eqn:E; [apply Nat.ltb_lt in E|simpl; lia].
  destruct (at_cases s off) as [(c' & -> & _)|[_ Hge]]; [|lia]. simpl.
  destruct (is_digit c').
  - eapply okres_weaken. apply IHk. lia. simpl. intros; lia.
  - destruct (negb (is_term c')); simpl; [split; discriminate|lia].
Qed.

Lemma parse_number_total : forall s off, off < length s -> okres (adv off) (parse_number s (length s) off).
Proof.
  intros s off Hlt. unfold parse_number.
  eapply okres_bind with (P := fun r => (snd r = off \/ snd r = S off) /\ (snd r = S off \/ fst r = false)).
  { destruct (off <? length s); [|cbn; auto].
    destruct (at_cases s off) as [(c & -> & _)|[_ Hge]]; [|lia]. cbn [bind].
    destruct (ceq c "-"); cbn; auto. }
  intros [neg off0] [H0 H0']; cbn [fst snd] in H0, H0'.
  eapply okres_bind. { apply num_loop1_total. lia. }
  intros [[[off1 c] val] isd] [H1 H1'].
  assert (Hoff1 : S off <= off1) by (destruct H0 as [->| ->]; lia).
  eapply okres_bind with (P := fun r => let '(o, _, _) := r in S off <= o).
  { destruct ((off1 <? length s) && (ceq c "E" || ceq c "e")) eqn:E.
    - apply andb_prop in E. destruct E as [E _]. apply Nat.ltb_lt in E.
      destruct (at_cases s off1) as [(c2 & -> & _)|[_ Hge]]; [|lia]. cbn [bind].
      eapply okres_bind with (P := fun r => off1 <= snd r).
      { destruct (ceq c2 "-"); [cbn; lia|]. destruct (ceq c2 "+"); cbn; lia. }
      intros [eneg off2] H2; cbn [snd] in H2.
      eapply okres_bind. { apply num_loop2_total. lia. }
      intros [off3 es] H3; cbn [fst] in H3. cbn. lia.
    - destruct ((off1 <? length s) && negb (is_term c)); cbn; [split; discriminate|lia]. }
  intros [[off3 es] ex] H3.
  destruct off3 as [|o3]; [lia|]. cbn [dec_offset bind].
  destruct isd; [cbn; unfold adv; cbn; lia|].
  destruct es; cbn; unfold adv; cbn; lia.
Qed.

Lemma parse_bool_total : forall s off, okres (adv off) (parse_bool s (length s) off).
Proof.
  intros. unfold parse_bool, substr.
  destruct (off <=? length s); simpl; [|split; discriminate].
  destruct (bytes_eqb _ _); simpl. { unfold adv; simpl; lia. }
  destruct (bytes_eqb _ _); simpl. { unfold adv; simpl; lia. } split; discriminate.
Qed.

Lemma parse_null_total : forall s off, okres (adv off) (parse_null s (length s) off).
Proof.
  intros. unfold parse_null, substr.
  destruct (off <=? length s); simpl; [|split; discriminate].
  destruct (negb _); simpl. { split; discriminate. } unfold adv; simpl; lia.
Qed.

Section Loops.
  Variable s : bytes.
  Variable rec : nat -> res (json * nat).
  Hypothesis rec_total : forall off, okres (adv off) (rec off).

  Lemma array_loop_total : forall k off acc, length s - off < k ->
    okres (adv off) (array_loop rec k s (length s) off acc).
  Proof.
    induction k; intros off acc Hk; [lia|]. simpl.
    destruct (off <? length s) eqn:E; [apply Nat.ltb_lt in E|simpl; unfold adv; simpl; lia].
    eapply okres_bind. apply rec_total. intros [v off1] H1. unfold adv in H1; simpl in H1.
    eapply okres_bind. apply consume_ws_total. intros off2 [H2 H2'].
    destruct (at_cases s off2) as [(c & -> & _)|[-> _]]; simpl; [|split; discriminate].
    destruct (ceq c ",").
    - eapply okres_weaken. apply IHk. lia. unfold adv; intros; lia.
    - destruct (ceq c "]"); simpl; [unfold adv; simpl; lia|split; discriminate].
  Qed.

  Lemma parse_array_total : forall off, okres (adv off) (parse_array rec s (length s) off).
  Proof.
    intros. unfold parse_array.
    eapply okres_bind. apply consume_ws_total. intros off1 [H1 H1'].
    destruct (at_cases s off1) as [(c & -> & _)|[-> _]]; cbn [bind]; [|split; discriminate].
    destruct (ceq c "]"); cbn [bind]. { unfold adv; simpl; lia. }
    eapply okres_weaken. apply array_loop_total. lia. unfold adv; intros; lia.
  Qed.

  Lemma object_loop_total : forall k off acc, length s - off < k ->
    okres (adv off) (object_loop rec k s (length s) off acc).
  Proof.
    induction k; intros off acc Hk; [lia|]. simpl.
    destruct (off <? length s) eqn:E; [apply Nat.ltb_lt in E|simpl; unfold adv; simpl; lia].
    eapply okres_bind. apply rec_total. intros [key off1] H1. unfold adv in H1; simpl in H1.
    eapply okres_bind. apply consume_ws_total. intros off2 [H2 H2'].
    destruct (at_cases s off2) as [(c & -> & _)|[-> _]]; simpl; [|split; discriminate].
    destruct (negb (ceq c ":")); simpl; [split; discriminate|].
    eapply okres_bind. apply consume_ws_total. intros off3 [H3 H3'].
    eapply okres_bind. apply rec_total. intros [v off4] H4. unfold adv in H4; simpl in H4.
    eapply okres_bind. apply consume_ws_total. intros off5 [H5 H5'].
    destruct (at_cases s off5) as [(c' & -> & _)|[-> _]]; simpl; [|split; discriminate].
    destruct (ceq c' ",").
    - eapply okres_weaken. apply IHk. lia. unfold adv; intros; lia.
    - destruct (ceq c' "}"); simpl; [unfold adv; simpl; lia|split; discriminate].
  Qed.

  Lemma parse_object_total : forall off, okres (adv off) (parse_object rec s (length s) off).
  Proof.
    intros. unfold parse_object.
    eapply okres_bind. apply consume_ws_total. intros off1 [H1 H1'].
    destruct (at_cases s off1) as [(c & -> & _)|[-> _]]; cbn [bind]; [|split; discriminate].
    destruct (ceq c "}"); cbn [bind]. { unfold adv; simpl; lia. }
    eapply okres_weaken. apply object_loop_total. lia. unfold adv; intros; lia.
  Qed.
End Loops.

Lemma parse_next_total : forall d s off, okres (adv off) (parse_next d s (length s) off).
Proof.
  induction d; intros s off; simpl. { split; discriminate. }
  eapply okres_bind. apply consume_ws_total. intros off1 [H1 H1'].
  destruct (at_cases s off1) as [(c & -> & _)|[-> _]]; simpl; [|split; discriminate].
  assert (W : forall r : res (json * nat), okres (adv off1) r -> okres (adv off) r).
  { intros r Hr. eapply okres_weaken. apply Hr. unfold adv; intros; lia. }
  destruct (ceq c "["). { apply W, parse_array_total. intros; apply IHd. }
  destruct (ceq c "{"). { apply W, parse_object_total. intros; apply IHd. }
  destruct (ceq c ch_quote). { apply W. eapply okres_weaken. apply parse_string_total. unfold adv, adv1; intros; lia. }
  destruct (ceq c "t" || ceq c "f"). { apply W, parse_bool_total. }
  destruct (ceq c "n"). { apply W, parse_null_total. }
  destruct (is_digit c || ceq c "-"). { apply W, parse_number_total; auto. }
  simpl. split; discriminate.
Qed.

(* every text: a value or one of the three exceptions; the model never runs out of fuel, never wraps a size_t *)
Theorem total_thm : forall s : bytes,
  (exists v, from_json s = FValue v) \/ (exists e, from_json s = FExc e).
Proof.
  intros s. unfold from_json, load, load_at.
  pose proof (parse_next_total max_depth s 0) as H.
  destruct (parse_next max_depth s (length s) 0) as [[j off]|e]; simpl in *.
  - left; eauto.
  - destruct H as [H1 H2]. destruct e; try congruence; right; eauto.
Qed.

Theorem load_total_thm : forall s : bytes, okres (fun _ => True) (load s).
Proof.
  intros. unfold load, load_at. eapply okres_bind. apply parse_next_total. intros [j o] _. simpl. auto.
Qed.

(* ================================================================== the text seen from an offset *)
Definition view (s : bytes) (off : nat) : bytes := skipn off s.
Local Arguments view : simpl never.

Lemma view_0 : forall s, view s 0 = s.
Proof. reflexivity. Qed.

Lemma view_S : forall s off c r, view s off = c :: r -> view s (S off) = r.
Proof.
  unfold view. induction s; intros off c r H.
  - rewrite skipn_nil in H. discriminate.
  - destruct off; simpl in *. + congruence. + eauto.
Qed.

Lemma view_app : forall x s off y, view s off = x ++ y -> view s (off + length x) = y.
Proof.
  induction x; intros s off y H; simpl in *.
  - rewrite Nat.add_0_r. auto.
  - replace (off + S (length x)) with (S off + length x) by lia.
    apply IHx. eapply view_S; eauto.
Qed.

Lemma view_at : forall s off c r, view s off = c :: r -> at_ s off = Ok c.
Proof.
  unfold view, at_. induction s; intros off c r H.
  - rewrite skipn_nil in H. discriminate.
  - destruct off; simpl in *. + congruence. + eauto.
Qed.

Lemma view_lt : forall s off c r, view s off = c :: r -> off < length s.
Proof. intros. eapply at_lt. eapply view_at; eauto. Qed.

Lemma view_nil_ge : forall s off, off <= length s -> view s off = [] -> off = length s.
Proof.
  unfold view. intros s off Hle H. assert (length (skipn off s) = 0) by (rewrite H; auto).
  rewrite skipn_length in H0. lia.
Qed.

Lemma view_end : forall s off x, view s off = x -> off <= length s -> off + length x = length s.
Proof.
  unfold view. intros s off x H Hle. subst x. rewrite skipn_length. lia.
Qed.

Lemma view_ltb : forall s off c r, view s off = c :: r -> (off <? length s) = true.
Proof. intros. apply Nat.ltb_lt. eapply view_lt; eauto. Qed.

Lemma view_leb : forall s off c r, view s off = c :: r -> (off <=? length s) = true.
Proof. intros. apply Nat.leb_le. apply view_lt in H. lia. Qed.

(* ================================================================== characters *)
Lemma ceq_eq : forall a b, ceq a b = true -> a = b.
Proof. intros. apply Ascii.eqb_eq. auto. Qed.
Lemma ceq_refl : forall a, ceq a a = true.
Proof. intros. apply Ascii.eqb_refl. Qed.

Definition all_space (l : bytes) : Prop := Forall (fun c => isspace c = true) l.

Lemma consume_ws_loop_view : forall ws k s off c r,
  all_space ws -> isspace c = false -> view s off = ws ++ c :: r -> length ws < k ->
  consume_ws_loop k s (length s) off = Ok (off + length ws).
Proof.
  induction ws; intros k s off c r Hws Hc Hv Hk; (destruct k; [simpl in Hk; lia|]); simpl in *.
  - rewrite (view_at _ _ _ _ Hv). cbn [bind]. rewrite Hc. simpl. f_equal. lia.
  - inversion Hws; subst. rewrite (view_at _ _ _ _ Hv). cbn [bind].
    rewrite H1, (view_leb _ _ _ _ Hv). simpl.
    rewrite (IHws k s (S off) c r); auto. + f_equal; lia. + eapply view_S; eauto. + lia.
Qed.

Lemma consume_ws_view : forall ws s off c r,
  all_space ws -> isspace c = false -> view s off = ws ++ c :: r ->
  consume_ws s (length s) off = Ok (off + length ws).
Proof.
  intros. unfold consume_ws. eapply consume_ws_loop_view; eauto.
  assert (length (view s off) <= length s) by (unfold view; rewrite skipn_length; lia).
  rewrite H1, app_length in H2. simpl in H2. lia.
Qed.

Lemma consume_ws_here : forall s off c r,
  isspace c = false -> view s off = c :: r -> consume_ws s (length s) off = Ok off.
Proof.
  intros s off c r H H0. pose proof (consume_ws_view [] s off c r (Forall_nil _) H H0) as E.
  simpl in E. rewrite Nat.add_0_r in E. exact E.
Qed.

(* ================================================================== json_escape / parse_string *)
Lemma parse_string_loop_escape : forall x k s off val rest,
  view s (S off) = json_escape x ++ ch_quote :: rest -> length (json_escape x) < k ->
  parse_string_loop k s off val = Ok (JString (val ++ x), S off + length (json_escape x) + 1).
Proof.
  induction x as [|c x IH]; intros k s off val rest Hv Hk; (destruct k; [simpl in Hk; lia|]).
  - simpl in *. rewrite (view_at _ _ _ _ Hv). cbn [bind]. rewrite ceq_refl.
    rewrite app_nil_r. repeat f_equal. lia.
  - cbn [json_escape] in *. unfold escape_char in *.
    assert (Hplain : forall t, view s (S off) = c :: t -> ceq c ch_quote = false -> ceq c ch_bslash = false ->
                      parse_string_loop (S k) s off val = parse_string_loop k s (S off) (val ++ [c])).
    { intros t Ht E1 E2. simpl. rewrite (view_at _ _ _ _ Ht). cbn [bind]. rewrite E1, E2. reflexivity. }
    assert (Hesc : forall e t, view s (S off) = ch_bslash :: e :: t ->
                      parse_string_loop (S k) s off val =
                      (let off := S (S off) in
                       if ceq e ch_quote then parse_string_loop k s off (val ++ [ch_quote])
                       else if ceq e ch_bslash then parse_string_loop k s off (val ++ [ch_bslash])
                       else if ceq e "/"%char then parse_string_loop k s off (val ++ ["/"%char])
                       else if ceq e "b"%char then parse_string_loop k s off (val ++ [ch_bs])
                       else if ceq e "f"%char then parse_string_loop k s off (val ++ [ch_ff])
                       else if ceq e "n"%char then parse_string_loop k s off (val ++ [ch_nl])
                       else if ceq e "r"%char then parse_string_loop k s off (val ++ [ch_cr])
                       else if ceq e "t"%char then parse_string_loop k s off (val ++ [ch_tab])
                       else if ceq e "u"%char then
                         h <- read_hex4 4 s (off + 1) ;;
                         parse_string_loop k s (off + 4) (val ++ [ch_bslash; "u"%char] ++ h)
                       else parse_string_loop k s off (val ++ [ch_bslash]))).
    { intros e t Ht. simpl. rewrite (view_at _ _ _ _ Ht). cbn [bind].
      replace (ceq ch_bslash ch_quote) with false by reflexivity. rewrite ceq_refl.
      rewrite (view_at _ _ _ _ (view_S _ _ _ _ Ht)). reflexivity. }
    assert (Hfin : forall n (t : bytes) o, view s (S o) = json_escape x ++ ch_quote :: rest ->
                     length (json_escape x) < k -> o = off + n ->
                     length t = n ->
                     parse_string_loop k s o (val ++ [c]) =
                     Ok (JString (val ++ c :: x), S off + length (t ++ json_escape x) + 1)).
    { intros n t o Ho Hk' Hlen Ht. rewrite (IH k s o (val ++ [c]) rest Ho Hk').
      replace (S o + length (json_escape x) + 1) with (S off + length (t ++ json_escape x) + 1)
        by (rewrite app_length in *; lia).
      rewrite <- app_assoc. reflexivity. }
    destruct (ceq c ch_quote) eqn:E1.
    { apply ceq_eq in E1; subst c. simpl in Hv, Hk. rewrite (Hesc _ _ Hv). cbv zeta. rewrite ceq_refl.
      apply (Hfin 2 [ch_bslash; ch_quote]); auto. eapply view_S, view_S; eauto. lia. simpl; lia. }
    destruct (ceq c ch_bslash) eqn:E2.
    { apply ceq_eq in E2; subst c. simpl in Hv, Hk. rewrite (Hesc _ _ Hv). cbv zeta.
      replace (ceq ch_bslash ch_quote) with false by reflexivity. rewrite ceq_refl.
      apply (Hfin 2 [ch_bslash; ch_bslash]); auto. eapply view_S, view_S; eauto. lia. simpl; lia. }
    destruct (ceq c ch_bs) eqn:E3.
    { apply ceq_eq in E3; subst c. simpl in Hv, Hk. rewrite (Hesc _ _ Hv). cbv zeta.
      apply (Hfin 2 [ch_bslash; "b"%char]); auto. eapply view_S, view_S; eauto. lia. simpl; lia. }
    destruct (ceq c ch_ff) eqn:E4.
    { apply ceq_eq in E4; subst c. simpl in Hv, Hk. rewrite (Hesc _ _ Hv). cbv zeta.
      apply (Hfin 2 [ch_bslash; "f"%char]); auto. eapply view_S, view_S; eauto. lia. simpl; lia. }
    destruct (ceq c ch_nl) eqn:E5.
    { apply ceq_eq in E5; subst c. simpl in Hv, Hk. rewrite (Hesc _ _ Hv). cbv zeta.
      apply (Hfin 2 [ch_bslash; "n"%char]); auto. eapply view_S, view_S; eauto. lia. simpl; lia. }
    destruct (ceq c ch_cr) eqn:E6.
    { apply ceq_eq in E6; subst c. simpl in Hv, Hk. rewrite (Hesc _ _ Hv). cbv zeta.
      apply (Hfin 2 [ch_bslash; "r"%char]); auto. eapply view_S, view_S; eauto. lia. simpl; lia. }
    destruct (ceq c ch_tab) eqn:E7.
    { apply ceq_eq in E7; subst c. simpl in Hv, Hk. rewrite (Hesc _ _ Hv). cbv zeta.
      apply (Hfin 2 [ch_bslash; "t"%char]); auto. eapply view_S, view_S; eauto. lia. simpl; lia. }
    simpl in Hv, Hk. rewrite (Hplain _ Hv eq_refl eq_refl).
    apply (Hfin 1 [c]); auto. eapply view_S; eauto. lia. simpl; lia.
Qed.

Lemma view_length_le : forall s off, length (view s off) <= length s.
Proof. intros. unfold view. rewrite skipn_length. lia. Qed.

Lemma parse_string_quoted : forall x s off rest,
  view s off = quoted x ++ rest ->
  parse_string s (length s) off = Ok (JString x, off + length (quoted x)).
Proof.
  intros x s off rest Hv. unfold parse_string, quoted in *. simpl in Hv.
  rewrite <- app_assoc in Hv. simpl in Hv.
  rewrite (parse_string_loop_escape x (S (length s)) s off [] rest).
  - simpl. rewrite app_length. simpl. repeat f_equal. lia.
  - eapply view_S; eauto.
  - pose proof (view_length_le s off) as H. rewrite Hv in H. simpl in H. rewrite app_length in H. lia.
Qed.

Theorem escape_roundtrip_thm : forall x : bytes, unescape (json_escape x) = Ok x.
Proof.
  intros x. unfold unescape.
  rewrite (parse_string_quoted x _ 0 []).
  - reflexivity.
  - rewrite view_0, app_nil_r. reflexivity.
Qed.

(* ================================================================== int64 text *)
Local Open Scope Z_scope.

Lemma wrap64_range : forall z, - two63 <= wrap64 z < two63.
Proof.
  intros. unfold wrap64. pose proof (Z.mod_pos_bound (z + two63) two64). unfold two63, two64 in *. lia.
Qed.

Lemma wrap64_id : forall z, - two63 <= z < two63 -> wrap64 z = z.
Proof.
  intros. unfold wrap64. rewrite Z.mod_small; unfold two63, two64 in *; lia.
Qed.

Lemma wrap64_mod : forall a b, (a - b) mod two64 = 0 -> wrap64 a = wrap64 b.
Proof.
  intros a b H. unfold wrap64. f_equal.
  apply Z.mod_divide in H; [|unfold two64; lia]. destruct H as [q Hq].
  replace (a + two63) with (b + two63 + q * two64) by lia. apply Z.mod_add. unfold two64; lia.
Qed.

Lemma wrap64_congr : forall a, (wrap64 a - a) mod two64 = 0.
Proof.
  intros. unfold wrap64.
  replace ((a + two63) mod two64 - two63 - a) with (- ((a + two63) / two64) * two64).
  - apply Z.mod_mul. unfold two64; lia.
  - pose proof (Z.div_mod (a + two63) two64). unfold two64 in *. lia.
Qed.

Lemma wrap64_step : forall t d, wrap64 (wrap64 (wrap64 t * 10) + d) = wrap64 (t * 10 + d).
Proof.
  intros. apply wrap64_mod.
  pose proof (wrap64_congr t) as H1. pose proof (wrap64_congr (wrap64 t * 10)) as H2.
  apply Z.mod_divide in H1; [|unfold two64; lia]. apply Z.mod_divide in H2; [|unfold two64; lia].
  destruct H1 as [q1 H1]. destruct H2 as [q2 H2].
  replace (wrap64 (wrap64 t * 10) + d - (t * 10 + d)) with ((q2 + 10 * q1) * two64) by lia.
  apply Z.mod_mul. unfold two64; lia.
Qed.

Lemma wrap64_mul_sign : forall sg t, wrap64 (sg * wrap64 t) = wrap64 (sg * t).
Proof.
  intros. apply wrap64_mod. pose proof (wrap64_congr t) as H1.
  apply Z.mod_divide in H1; [|unfold two64; lia]. destruct H1 as [q1 H1].
  replace (sg * wrap64 t - sg * t) with (sg * q1 * two64) by lia. apply Z.mod_mul. unfold two64; lia.
Qed.

(* the unwrapped value of a digit string *)
Fixpoint nv (t : Z) (l : bytes) : Z :=
  match l with [] => t | c :: r => nv (t * 10 + digit_val c) r end.

Definition all_digits (l : bytes) : Prop := Forall (fun c => is_digit c = true) l.

Lemma parse_num_int_from_nv : forall l t, all_digits l ->
  parse_num_int_from (wrap64 t) l = wrap64 (nv t l).
Proof.
  induction l; intros t H; simpl. - reflexivity.
  - inversion H; subst. rewrite H2. rewrite wrap64_step. apply IHl; auto.
Qed.

Lemma parse_num_int_nv : forall l, all_digits l -> parse_num_int l = wrap64 (nv 0 l).
Proof.
  intros. unfold parse_num_int. replace 0 with (wrap64 0) at 1 by reflexivity. apply parse_num_int_from_nv; auto.
Qed.

Lemma nv_app1 : forall l t c, nv t (l ++ [c]) = nv t l * 10 + digit_val c.
Proof. induction l; intros; simpl; auto. Qed.

Lemma digit_char_props : forall d, 0 <= d <= 9 ->
  is_digit (digit_char d) = true /\ digit_val (digit_char d) = d.
Proof.
  intros d H.
  assert (d = 0 \/ d = 1 \/ d = 2 \/ d = 3 \/ d = 4 \/ d = 5 \/ d = 6 \/ d = 7 \/ d = 8 \/ d = 9) as C by lia.
  repeat (destruct C as [->|C]; [split; reflexivity|]). subst. split; reflexivity.
Qed.

Lemma digits_rev_digits : forall f n, 0 <= n -> all_digits (digits_rev f n).
Proof.
  induction f; intros n Hn; simpl. - constructor.
  - constructor.
    + apply digit_char_props. pose proof (Z.mod_pos_bound n 10). lia.
    + destruct (n / 10 =? 0). constructor. apply IHf. apply Z.div_pos; lia.
Qed.

Lemma digits_rev_value : forall f n, 0 <= n < 10 ^ Z.of_nat f -> nv 0 (rev (digits_rev f n)) = n.
Proof.
  induction f; intros n Hn.
  - simpl in Hn. assert (n = 0) by lia. subst. reflexivity.
  - cbn [digits_rev rev]. rewrite nv_app1.
    assert (Hd : digit_val (digit_char (n mod 10)) = n mod 10).
    { apply digit_char_props. pose proof (Z.mod_pos_bound n 10). lia. }
    rewrite Hd. destruct (n / 10 =? 0) eqn:E.
    + apply Z.eqb_eq in E. simpl. pose proof (Z.div_mod n 10). lia.
    + rewrite IHf. * pose proof (Z.div_mod n 10). lia.
      * split. apply Z.div_pos; lia.
        apply Z.div_lt_upper_bound. lia.
        replace (10 ^ Z.of_nat (S f)) with (10 * 10 ^ Z.of_nat f) in Hn. lia.
        rewrite Nat2Z.inj_succ, Z.pow_succ_r; lia.
Qed.

Lemma digits_rev_S : forall f n,
  digits_rev (S f) n = digit_char (n mod 10) :: (if n / 10 =? 0 then [] else digits_rev f (n / 10)).
Proof. reflexivity. Qed.

Lemma print_nat_digits : forall n, 0 <= n -> all_digits (print_nat n).
Proof.
  intros. unfold print_nat, all_digits. apply Forall_rev. apply digits_rev_digits; auto.
Qed.

Lemma print_nat_nonempty : forall n, print_nat n <> [].
Proof.
  intros n H. unfold print_nat in H. change 20 with (S 19) in H. rewrite digits_rev_S in H. cbn [rev] in H.
  apply app_eq_nil in H. destruct H; discriminate.
Qed.

Lemma print_nat_value : forall n, 0 <= n < 10 ^ 20 -> parse_num_int (print_nat n) = wrap64 n.
Proof.
  intros. rewrite parse_num_int_nv. - unfold print_nat. rewrite digits_rev_value; auto.
  - apply print_nat_digits. lia.
Qed.
Local Close Scope Z_scope.

(* ================================================================== parse_number on printed integers *)
Lemma is_term_props : forall t, is_term t = true ->
  is_digit t = false /\ ceq t "." = false /\ ceq t "E" = false /\ ceq t "e" = false.
Proof.
  intros t. destruct t as [[] [] [] [] [] [] [] []]; vm_compute; intros H; try discriminate H; auto.
Qed.

Lemma is_digit_props : forall c, is_digit c = true ->
  ceq c "-" = false /\ isspace c = false /\ ceq c "[" = false /\ ceq c "{" = false /\ ceq c ch_quote = false
  /\ ceq c "t" = false /\ ceq c "f" = false /\ ceq c "n" = false /\ ceq c "]" = false /\ ceq c "}" = false.
Proof.
  intros t. destruct t as [[] [] [] [] [] [] [] []]; vm_compute; intros H; try discriminate H; repeat split.
Qed.

Definition rest_nondigit (rest : bytes) : Prop :=
  match rest with [] => True | t :: _ => is_digit t = false /\ ceq t "." = false end.

Lemma num_loop1_digits : forall ds k s off c0 val rest,
  all_digits ds -> view s off = ds ++ rest -> rest_nondigit rest -> length ds < k -> off <= length s ->
  exists c, num_loop1 k s (length s) off c0 val false =
    Ok (match rest with
        | [] => (off + length ds, c, val ++ ds, false)
        | t :: _ => (S (off + length ds), t, val ++ ds, false)
        end).
Proof.
  induction ds as [|d ds IH]; intros k s off c0 val rest Hd Hv Hr Hk Hle; (destruct k; [simpl in Hk; lia|]); simpl in Hv.
  - destruct rest as [|t r].
    + exists c0. simpl. pose proof (view_nil_ge s off Hle Hv). subst off.
      rewrite Nat.ltb_irrefl. rewrite app_nil_r, Nat.add_0_r. reflexivity.
    + exists c0. simpl. rewrite (view_ltb _ _ _ _ Hv), (view_at _ _ _ _ Hv). cbn [bind].
      destruct Hr as [-> ->]. simpl. rewrite app_nil_r, Nat.add_0_r. reflexivity.
  - inversion Hd; subst.
    destruct (IH k s (S off) d (val ++ [d]) rest) as [c Hc]; auto.
    + eapply view_S; eauto. + simpl in Hk; lia. + apply view_lt in Hv. lia.
    + exists c. simpl. rewrite (view_ltb _ _ _ _ Hv), (view_at _ _ _ _ Hv). cbn [bind]. rewrite H1.
      rewrite Hc. rewrite <- app_assoc. simpl. destruct rest; repeat f_equal; lia.
Qed.

Definition rest_term (rest : bytes) : Prop :=
  match rest with [] => True | t :: _ => is_term t = true end.

Lemma parse_number_digits : forall ds neg s off0 off rest,
  all_digits ds -> ds <> [] ->
  view s off = ds ++ rest -> rest_term rest ->
  ((neg = false /\ off0 = off) \/ (neg = true /\ view s off0 = "-"%char :: ds ++ rest /\ off = S off0)) ->
  parse_number s (length s) off0 =
    Ok (JInt (wrap64 (sign_of neg * parse_num_int ds)),
        match rest with [] => off + length ds - 1 | _ => off + length ds end).
Proof.
  intros ds neg s off0 off rest Hd Hne Hv Hr Hneg.
  assert (Hlt : off < length s).
  { destruct ds; [congruence|]. eapply view_lt; eauto. }
  unfold parse_number.
  assert (E0 : (if off0 <? length s
                then (c <- at_ s off0 ;; if ceq c "-" then Ok (true, S off0) else Ok (false, off0))
                else Ok (false, off0)) = Ok (neg, off)).
  { destruct Hneg as [[-> ->]|(-> & Hv0 & ->)].
    - destruct ds as [|d ds]; [congruence|]. simpl in Hv.
      rewrite (view_ltb _ _ _ _ Hv), (view_at _ _ _ _ Hv). cbn [bind].
      inversion Hd; subst. destruct (is_digit_props d H1) as [-> _]. reflexivity.
    - rewrite (view_ltb _ _ _ _ Hv0), (view_at _ _ _ _ Hv0). cbn [bind]. reflexivity. }
  rewrite E0. cbn [bind].
  destruct (num_loop1_digits ds (S (length s)) s off ch_nul [] rest) as [c Hc]; auto.
  { destruct rest; simpl in *; auto. destruct (is_term_props _ Hr) as (? & ? & _). auto. }
  { pose proof (view_length_le s off) as H. rewrite Hv, app_length in H. lia. }
  { lia. }
  rewrite Hc. destruct rest as [|t r]; cbn [bind app].
  - pose proof (view_end s off _ Hv ltac:(lia)) as He. rewrite app_nil_r in He.
    replace (off + length ds <? length s) with false by (symmetry; apply Nat.ltb_ge; lia).
    cbn [andb bind].
    destruct (off + length ds) eqn:E. { destruct ds; simpl in *; [congruence|lia]. }
    cbn [dec_offset bind]. repeat f_equal. lia.
  - simpl in Hr. destruct (is_term_props _ Hr) as (_ & _ & -> & ->). rewrite Hr.
    cbn [orb negb]. rewrite !andb_false_r. cbn [bind dec_offset]. reflexivity.
Qed.

Local Open Scope Z_scope.
Lemma two63_lt_pow : two63 < 10 ^ 20.
Proof. reflexivity. Qed.

Lemma print_int_roundtrip_value : forall z, - two63 <= z < two63 ->
  wrap64 (sign_of (z <? 0) * parse_num_int (print_nat (Z.abs z))) = z.
Proof.
  intros z Hz. pose proof two63_lt_pow.
  rewrite print_nat_value by lia. rewrite wrap64_mul_sign.
  destruct (z <? 0) eqn:E; simpl sign_of.
  - apply Z.ltb_lt in E. replace (-1 * Z.abs z) with z by lia. apply wrap64_id; auto.
  - apply Z.ltb_ge in E. replace (1 * Z.abs z) with z by lia. apply wrap64_id; auto.
Qed.
Local Close Scope Z_scope.

Lemma in_int64_range : forall z, in_int64 z = true -> (- two63 <= z < two63)%Z.
Proof.
  unfold in_int64. intros z H. apply andb_prop in H. destruct H as [H1 H2].
  apply Z.leb_le in H1. apply Z.ltb_lt in H2. lia.
Qed.

Lemma print_int_abs : forall z, print_int z = if (z <? 0)%Z then "-"%char :: print_nat (Z.abs z) else print_nat (Z.abs z).
Proof.
  intros. unfold print_int. destruct (z <? 0)%Z eqn:E.
  - apply Z.ltb_lt in E. rewrite Z.abs_neq by lia. reflexivity.
  - apply Z.ltb_ge in E. rewrite Z.abs_eq by lia. reflexivity.
Qed.

(* decimal printing and parse_number are inverse on every int64, in any context that ends the number *)
Lemma parse_number_print : forall z s off rest,
  in_int64 z = true -> view s off = print_int z ++ rest -> rest_term rest ->
  parse_number s (length s) off =
    Ok (JInt z, match rest with [] => off + length (print_int z) - 1 | _ => off + length (print_int z) end).
Proof.
  intros z s off rest Hz Hv Hr. apply in_int64_range in Hz.
  rewrite print_int_abs in *.
  assert (Hd : all_digits (print_nat (Z.abs z))) by (apply print_nat_digits; lia).
  pose proof (print_nat_nonempty (Z.abs z)) as Hne.
  destruct (z <? 0)%Z eqn:E.
  - simpl in Hv.
    rewrite (parse_number_digits (print_nat (Z.abs z)) true s off (S off) rest); auto.
    + replace true with (z <? 0)%Z at 1. rewrite print_int_roundtrip_value by auto.
      simpl length. destruct rest; f_equal; f_equal; lia.
    + eapply view_S; eauto.
  - rewrite (parse_number_digits (print_nat (Z.abs z)) false s off off rest); auto.
    replace false with (z <? 0)%Z at 1. rewrite print_int_roundtrip_value by auto. reflexivity.
Qed.

Theorem int_roundtrip_thm : forall z : Z, in_int64 z = true ->
  exists off, parse_number (print_int z) (length (print_int z)) 0 = Ok (JInt z, off).
Proof.
  intros z Hz. eexists. rewrite (parse_number_print z (print_int z) 0 []); auto.
  - rewrite view_0, app_nil_r. reflexivity. - exact I.
Qed.

(* ================================================================== trees: induction, well-formedness, dump equations *)
Section JsonInd.
  Variable P : json -> Prop.
  Hypothesis Hnull : P JNull.
  Hypothesis Hobj : forall l, Forall (fun kv => P (snd kv)) l -> P (JObject l).
  Hypothesis Harr : forall l, Forall P l -> P (JArray l).
  Hypothesis Hstr : forall s, P (JString s).
  Hypothesis Hflt : forall f, P (JFloat f).
  Hypothesis Hint : forall z, P (JInt z).
  Hypothesis Hbool : forall b, P (JBool b).
  Fixpoint json_ind' (j : json) : P j :=
    match j with
    | JNull => Hnull
    | JObject l => Hobj l ((fix go (l : list (bytes * json)) : Forall (fun kv => P (snd kv)) l :=
                              match l with
                              | [] => Forall_nil _
                              | (k, v) :: r => Forall_cons (k, v) (json_ind' v) (go r)
                              end) l)
    | JArray l => Harr l ((fix go (l : list json) : Forall P l :=
                             match l with [] => Forall_nil _ | v :: r => Forall_cons v (json_ind' v) (go r) end) l)
    | JString s => Hstr s
    | JFloat f => Hflt f
    | JInt z => Hint z
    | JBool b => Hbool b
    end.
End JsonInd.

Section SvalInd.
  Variable P : sval -> Prop.
  Hypothesis Hnull : P VNull.
  Hypothesis Hmap : forall l, Forall (fun kv => P (snd kv)) l -> P (VMap l).
  Hypothesis Hvec : forall l, Forall P l -> P (VVec l).
  Hypothesis Hstr : forall s, P (VStr s).
  Hypothesis Hflt : forall f, P (VFloat f).
  Hypothesis Hint : forall z, P (VInt z).
  Hypothesis Hbool : forall b, P (VBool b).
  Fixpoint sval_ind' (v : sval) : P v :=
    match v with
    | VNull => Hnull
    | VMap l => Hmap l ((fix go (l : list (bytes * sval)) : Forall (fun kv => P (snd kv)) l :=
                           match l with
                           | [] => Forall_nil _
                           | (k, x) :: r => Forall_cons (k, x) (sval_ind' x) (go r)
                           end) l)
    | VVec l => Hvec l ((fix go (l : list sval) : Forall P l :=
                           match l with [] => Forall_nil _ | x :: r => Forall_cons x (sval_ind' x) (go r) end) l)
    | VStr s => Hstr s
    | VFloat f => Hflt f
    | VInt z => Hint z
    | VBool b => Hbool b
    end.
End SvalInd.

(* a JSON value the round-trip law speaks about: no doubles, int64 integers, unique object keys *)
Fixpoint jwf (j : json) : Prop :=
  match j with
  | JObject l => NoDup (map fst l)
                 /\ (fix go (l : list (bytes * json)) : Prop :=
                       match l with [] => True | (_, v) :: r => jwf v /\ go r end) l
  | JArray l => (fix go (l : list json) : Prop := match l with [] => True | v :: r => jwf v /\ go r end) l
  | JFloat _ => False
  | JInt z => in_int64 z = true
  | _ => True
  end.

Lemma jwf_object : forall l, jwf (JObject l) <-> NoDup (map fst l) /\ Forall (fun kv => jwf (snd kv)) l.
Proof.
  intros l. cbn [jwf]. split.
  - intros [H1 H2]. split; auto. clear H1. induction l as [|[k v] r IH]; constructor; simpl in *; tauto.
  - intros [H1 H2]. split; auto. clear H1. induction l as [|[k v] r IH]; simpl; auto. inversion H2; subst. split; [assumption|apply IH; assumption].
Qed.

Lemma jwf_array : forall l, jwf (JArray l) <-> Forall jwf l.
Proof.
  intros l. cbn [jwf]. split; intros H.
  - induction l; constructor; simpl in *; tauto.
  - induction l; simpl; auto. inversion H; subst. split; [assumption|apply IHl; assumption].
Qed.

Fixpoint list_max_h (l : list nat) : nat := match l with [] => 0 | x :: r => Nat.max x (list_max_h r) end.

Lemma jheight_array : forall l, jheight (JArray l) = S (list_max_h (map jheight l)).
Proof.
  intros. cbn [jheight]. f_equal. induction l; simpl; auto.
Qed.

Lemma jheight_object : forall l, jheight (JObject l) = S (list_max_h (map (fun kv => Nat.max 1 (jheight (snd kv))) l)).
Proof.
  intros. cbn [jheight]. f_equal. induction l as [|[k v] r IH]; simpl; auto.
Qed.

Lemma list_max_h_le : forall l n, list_max_h l <= n <-> Forall (fun x => x <= n) l.
Proof.
  induction l; intros n; simpl; split; intros H.
  - constructor. - lia.
  - constructor. lia. apply IHl. lia.
  - inversion H; subst. apply IHl in H3. lia.
Qed.

Lemma dump_elems_eq : forall depth l skip,
  (fix elems (l : list json) (skip : bool) : bytes :=
     match l with
     | [] => []
     | v :: r => (if skip then [] else B ", ") ++ dump (S depth) v ++ elems r false
     end) l skip = dump_elems depth l skip.
Proof. intros depth l. induction l; intros; simpl; auto. rewrite IHl. reflexivity. Qed.

Lemma dump_members_eq : forall depth l skip,
  (fix members (l : list (bytes * json)) (skip : bool) : bytes :=
     match l with
     | [] => []
     | (k, v) :: r =>
         (if skip then [] else ","%char :: [ch_nl])
         ++ pad_of depth ++ quoted k ++ B " : " ++ dump (S depth) v ++ members r false
     end) l skip = dump_members depth l skip.
Proof. intros depth l. induction l as [|[k v] r IH]; intros; simpl; auto. rewrite IH. reflexivity. Qed.

Lemma dump_array : forall depth l, dump depth (JArray l) = "["%char :: dump_elems depth l true ++ ["]"%char].
Proof. intros. cbn [dump]. rewrite dump_elems_eq. reflexivity. Qed.

Lemma dump_object : forall depth l,
  dump depth (JObject l) =
  "{"%char :: ch_nl :: dump_members depth l true ++ ch_nl :: skipn 2 (pad_of depth) ++ ["}"%char].
Proof.
  intros. cbn [dump]. rewrite dump_members_eq. unfold B. cbn [list_ascii_of_string app].
  rewrite <- ?app_assoc. reflexivity.
Qed.

Lemma dump_elems_cons : forall depth v r skip,
  dump_elems depth (v :: r) skip =
  (if skip then [] else [","%char; " "%char]) ++ dump (S depth) v ++ dump_elems depth r false.
Proof. intros. destruct skip; reflexivity. Qed.

Lemma dump_members_cons : forall depth k v r skip,
  dump_members depth ((k, v) :: r) skip =
  (if skip then [] else [","%char; ch_nl]) ++ pad_of depth ++ quoted k
  ++ " "%char :: ":"%char :: " "%char :: dump (S depth) v ++ dump_members depth r false.
Proof. intros. destruct skip; reflexivity. Qed.

Lemma pad_space : forall d, all_space (pad_of d).
Proof.
  induction d; simpl. constructor. apply Forall_app. split; [exact IHd | repeat constructor].
Qed.

Lemma all_space_skipn : forall n l, all_space l -> all_space (skipn n l).
Proof.
  induction n; intros l H; simpl; auto. destruct l; auto. inversion H; subst. apply IHn; auto.
Qed.

(* first byte of a dumped value: never white space, never a closing bracket *)
Definition starter (c : ascii) : Prop :=
  isspace c = false /\ ceq c "]" = false /\ ceq c "}" = false.

Lemma print_int_head : forall z, exists c r, print_int z = c :: r /\ (c = "-"%char \/ is_digit c = true).
Proof.
  intros. rewrite print_int_abs. destruct (z <? 0)%Z.
  - eexists _, _. split. reflexivity. auto.
  - pose proof (print_nat_nonempty (Z.abs z)). pose proof (print_nat_digits (Z.abs z) ltac:(lia)) as Hd.
    destruct (print_nat (Z.abs z)) as [|c r]; [congruence|]. inversion Hd; subst. eauto.
Qed.

Lemma dump_head : forall j depth, jwf j -> exists c r, dump depth j = c :: r /\ starter c.
Proof.
  intros j depth Hj. destruct j; try (simpl in Hj; contradiction).
  - eexists _, _. split. reflexivity. repeat split.
  - rewrite dump_object. eexists _, _. split. reflexivity. repeat split.
  - rewrite dump_array. eexists _, _. split. reflexivity. repeat split.
  - eexists _, _. split. reflexivity. repeat split.
  - destruct (print_int_head z) as (c & r & E & Hc). exists c, r. split. exact E.
    destruct Hc as [->|Hc]. repeat split.
    destruct (is_digit_props c Hc) as (? & ? & ? & ? & ? & ? & ? & ? & ? & ?). repeat split; auto.
  - destruct b; eexists _, _; (split; [reflexivity|repeat split]).
Qed.

(* ================================================================== parse_next on dumped text *)
Lemma view_nonempty_lt : forall s off x, view s off = x -> x <> [] -> off < length s.
Proof. intros s off [|c r] H Hne; [congruence|]. eapply view_lt; eauto. Qed.

Lemma parse_next_dispatch : forall d s off c r,
  view s off = c :: r -> isspace c = false ->
  parse_next (S d) s (length s) off =
    (if ceq c "["%char then parse_array (parse_next d s (length s)) s (length s) off
     else if ceq c "{"%char then parse_object (parse_next d s (length s)) s (length s) off
     else if ceq c ch_quote then parse_string s (length s) off
     else if ceq c "t"%char || ceq c "f"%char then parse_bool s (length s) off
     else if ceq c "n"%char then parse_null s (length s) off
     else if is_digit c || ceq c "-"%char then parse_number s (length s) off
     else Err ParseError).
Proof.
  intros d s off c r Hv Hc. cbn [parse_next].
  rewrite (consume_ws_here s off c r Hc Hv). cbn [bind].
  rewrite (view_at _ _ _ _ Hv). cbn [bind]. reflexivity.
Qed.

Lemma parse_next_skip_ws : forall d s off ws c r,
  all_space ws -> isspace c = false -> view s off = ws ++ c :: r ->
  parse_next d s (length s) off = parse_next d s (length s) (off + length ws).
Proof.
  intros d s off ws c r Hws Hc Hv. destruct d; [reflexivity|]. cbn [parse_next].
  rewrite (consume_ws_view ws s off c r Hws Hc Hv).
  rewrite (consume_ws_here s (off + length ws) c r Hc). reflexivity.
  eapply view_app; eauto.
Qed.

Lemma substr_view : forall s off n x rest,
  view s off = x ++ rest -> length x = n -> off <= length s -> substr s (length s) off n = Ok x.
Proof.
  intros s off n x rest Hv Hn Hle. unfold substr.
  replace (off <=? length s) with true by (symmetry; apply Nat.leb_le; auto).
  unfold view in Hv. rewrite Hv. subst n. rewrite firstn_app, Nat.sub_diag, firstn_all. simpl. rewrite app_nil_r. reflexivity.
Qed.

Definition rest_ok (j : json) (rest : bytes) : Prop :=
  match j with
  | JInt _ => match rest with [] => False | t :: _ => is_term t = true end
  | _ => True
  end.

(* the statement proved by induction over the tree *)
Definition parse_dump_stmt (j : json) : Prop :=
  forall d depth s off rest,
    jwf j -> jheight j <= d -> view s off = dump depth j ++ rest -> rest_ok j rest ->
    parse_next d s (length s) off = Ok (j, off + length (dump depth j)).

Lemma parse_dump_null : parse_dump_stmt JNull.
Proof.
  intros d depth s off rest _ Hd Hv _. destruct d; [simpl in Hd; lia|].
  cbn [dump] in *. unfold B in *. cbn [list_ascii_of_string app] in Hv.
  rewrite (parse_next_dispatch d s off _ _ Hv eq_refl). cbn.
  unfold parse_null. rewrite (substr_view s off 4 (B "null") rest); auto.
  apply view_lt in Hv. lia.
Qed.

Lemma parse_dump_bool : forall b, parse_dump_stmt (JBool b).
Proof.
  intros b d depth s off rest _ Hd Hv _. destruct d; [simpl in Hd; lia|].
  cbn [dump] in *. destruct b; unfold B in *; cbn [list_ascii_of_string app] in Hv;
    rewrite (parse_next_dispatch d s off _ _ Hv eq_refl); cbn; unfold parse_bool.
  - rewrite (substr_view s off 4 (B "true") rest); auto. apply view_lt in Hv. lia.
  - assert (Hle : off <= length s) by (apply view_lt in Hv; lia).
    rewrite (substr_view s off 4 (B "fals") ("e"%char :: rest)); auto. cbn [bind].
    replace (bytes_eqb (B "fals") (B "true")) with false by reflexivity.
    rewrite (substr_view s off 5 (B "false") rest); auto.
Qed.

Lemma parse_dump_string : forall x, parse_dump_stmt (JString x).
Proof.
  intros x d depth s off rest _ Hd Hv _. destruct d; [simpl in Hd; lia|].
  cbn [dump] in *. assert (Hv' := Hv). unfold quoted in Hv'. simpl in Hv'.
  rewrite (parse_next_dispatch d s off _ _ Hv' eq_refl). cbn.
  apply parse_string_quoted with (rest := rest). exact Hv.
Qed.

Lemma parse_dump_int : forall z, parse_dump_stmt (JInt z).
Proof.
  intros z d depth s off rest Hz Hd Hv Hr. destruct d; [simpl in Hd; lia|].
  cbn [dump jwf] in *. destruct (print_int_head z) as (c & r & E & Hc).
  assert (Hv' := Hv). rewrite E in Hv'. simpl in Hv'.
  assert (Hsp : isspace c = false /\ (is_digit c || ceq c "-") = true
                /\ ceq c "[" = false /\ ceq c "{" = false /\ ceq c ch_quote = false
                /\ ceq c "t" = false /\ ceq c "f" = false /\ ceq c "n" = false).
  { destruct Hc as [->|Hc]. repeat split.
    destruct (is_digit_props c Hc) as (? & ? & ? & ? & ? & ? & ? & ? & ? & ?). rewrite Hc. repeat split; auto. }
  destruct Hsp as (H1 & H2 & H3 & H4 & H5 & H6 & H7 & H8).
  rewrite (parse_next_dispatch d s off _ _ Hv' H1). rewrite H2, H3, H4, H5, H6, H7, H8. cbn [orb].
  rewrite (parse_number_print z s off rest Hz Hv).
  - destruct rest; [contradiction|reflexivity].
  - destruct rest; simpl in *; auto.
Qed.

Lemma parse_next_ws_stmt : forall j, parse_dump_stmt j ->
  forall d depth s off ws rest,
    jwf j -> jheight j <= d -> all_space ws -> view s off = ws ++ dump depth j ++ rest -> rest_ok j rest ->
    parse_next d s (length s) off = Ok (j, off + length ws + length (dump depth j)).
Proof.
  intros j Hj d depth s off ws rest Hwf Hd Hws Hv Hr.
  destruct (dump_head j depth Hwf) as (c & r & E & (Hc & _)).
  rewrite (parse_next_skip_ws d s off ws c (r ++ rest) Hws Hc).
  - eapply Hj; eauto. eapply view_app; eauto.
  - rewrite Hv, E. reflexivity.
Qed.

Lemma dump_elems_false_head : forall depth r rest,
  exists t q, dump_elems depth r false ++ "]"%char :: rest = t :: q /\ is_term t = true /\ isspace t = false.
Proof.
  intros. destruct r; simpl; eexists _, _; (split; [reflexivity|split; reflexivity]).
Qed.

Lemma array_loop_dump : forall r v acc k d depth s off sp rest,
  Forall parse_dump_stmt (v :: r) -> Forall jwf (v :: r) -> Forall (fun x => jheight x <= d) (v :: r) ->
  all_space sp ->
  view s off = sp ++ dump (S depth) v ++ dump_elems depth r false ++ "]"%char :: rest ->
  length s - off < k ->
  array_loop (parse_next d s (length s)) k s (length s) off acc =
    Ok (JArray (acc ++ v :: r),
        off + length (sp ++ dump (S depth) v ++ dump_elems depth r false ++ ["]"%char])).
Proof.
  induction r as [|v' r IH]; intros v acc k d depth s off sp rest HP Hwf Hh Hsp Hv Hk;
    (destruct k; [lia|]); cbn [array_loop];
    inversion HP as [|? ? HPv HPr]; subst; inversion Hwf as [|? ? Hwv Hwr]; subst; inversion Hh as [|? ? Hhv Hhr]; subst.
  - (* last element *)
    assert (Hlt : off < length s).
    { eapply view_nonempty_lt; eauto. destruct sp; simpl; try discriminate.
      destruct (dump_head v (S depth) Hwv) as (c & q & -> & _). discriminate. }
    replace (off <? length s) with true by (symmetry; apply Nat.ltb_lt; auto).
    simpl dump_elems in *. cbn [app] in Hv.
    rewrite (parse_next_ws_stmt v HPv d (S depth) s off sp ("]"%char :: rest)); auto; [|exact I || (destruct v; simpl; auto)].
    cbn [bind].
    assert (Hv2 : view s (off + length sp + length (dump (S depth) v)) = "]"%char :: rest).
    { rewrite <- Nat.add_assoc, <- app_length. eapply view_app. rewrite <- app_assoc. exact Hv. }
    rewrite (consume_ws_here _ _ "]"%char _ eq_refl Hv2). cbn [bind].
    rewrite (view_at _ _ _ _ Hv2). cbn [bind].
    replace (ceq "]" ",") with false by reflexivity. rewrite ceq_refl.
    repeat f_equal. rewrite !app_length. simpl. lia.
  - (* an element followed by ", " *)
    assert (Hlt : off < length s).
    { eapply view_nonempty_lt; eauto. destruct sp; simpl; try discriminate.
      destruct (dump_head v (S depth) Hwv) as (c & q & -> & _). discriminate. }
    replace (off <? length s) with true by (symmetry; apply Nat.ltb_lt; auto).
    rewrite dump_elems_cons in Hv. cbn [app] in Hv.
    rewrite (parse_next_ws_stmt v HPv d (S depth) s off sp
               (","%char :: " "%char :: dump (S depth) v' ++ dump_elems depth r false ++ "]"%char :: rest)); auto;
      [|rewrite <- ?app_assoc in Hv; exact Hv|destruct v; simpl; auto].
    cbn [bind].
    assert (Hv2 : view s (off + length sp + length (dump (S depth) v)) =
                  ","%char :: " "%char :: dump (S depth) v' ++ dump_elems depth r false ++ "]"%char :: rest).
    { rewrite <- Nat.add_assoc, <- app_length. eapply view_app. rewrite <- app_assoc.
      rewrite <- ?app_assoc in Hv. exact Hv. }
    rewrite (consume_ws_here _ _ ","%char _ eq_refl Hv2). cbn [bind].
    rewrite (view_at _ _ _ _ Hv2). cbn [bind]. rewrite ceq_refl.
    rewrite (IH v' (acc ++ [v]) k d depth s _ [" "%char] rest); auto.
    + rewrite <- app_assoc. cbn [app]. f_equal. f_equal.
      rewrite dump_elems_cons. rewrite !app_length. simpl. rewrite !app_length. simpl. lia.
    + repeat constructor.
    + apply view_S in Hv2. exact Hv2.
    + lia.
Qed.

Ltac len := unfold quoted; repeat first [rewrite app_length | progress (cbn [length])]; lia.

Lemma qfm_set_fresh : forall acc k v, ~ In k (map fst acc) -> qfm_set acc k v = acc ++ [(k, v)].
Proof.
  induction acc as [|[k' v'] r IH]; intros k v H; simpl; auto.
  destruct (list_eq_dec ascii_dec k' k) as [->|Hne].
  - exfalso. apply H. simpl. auto.
  - rewrite IH; auto. intros Hin. apply H. simpl. auto.
Qed.

Definition members_tail (depth : nat) (r : list (bytes * json)) (rest : bytes) : bytes :=
  dump_members depth r false ++ ch_nl :: skipn 2 (pad_of depth) ++ "}"%char :: rest.

Lemma members_tail_head : forall depth r rest,
  exists t q, members_tail depth r rest = t :: q /\ is_term t = true.
Proof.
  intros. unfold members_tail. destruct r as [|[k v] r].
  - eexists _, _. split; reflexivity.
  - rewrite dump_members_cons. eexists _, _. split; reflexivity.
Qed.

Lemma object_loop_dump : forall r k0 v acc k d depth s off sp rest,
  Forall (fun kv => parse_dump_stmt (snd kv)) ((k0, v) :: r) ->
  Forall (fun kv => jwf (snd kv)) ((k0, v) :: r) ->
  Forall (fun kv => jheight (snd kv) <= d) ((k0, v) :: r) -> 1 <= d ->
  NoDup (map fst acc ++ map fst ((k0, v) :: r)) ->
  all_space sp ->
  view s off = sp ++ quoted k0 ++ " "%char :: ":"%char :: " "%char :: dump (S depth) v ++ members_tail depth r rest ->
  length s - off < k ->
  object_loop (parse_next d s (length s)) k s (length s) off acc =
    Ok (JObject (acc ++ (k0, v) :: r),
        off + length (sp ++ quoted k0 ++ " "%char :: ":"%char :: " "%char :: dump (S depth) v
                      ++ dump_members depth r false ++ ch_nl :: skipn 2 (pad_of depth) ++ ["}"%char])).
Proof.
  induction r as [|[k1 v1] r IH]; intros k0 v acc k d depth s off sp rest HP Hwf Hh Hd Hnd Hsp Hv Hk;
    (destruct k; [lia|]); cbn [object_loop];
    inversion HP as [|? ? HPv HPr]; subst; inversion Hwf as [|? ? Hwv Hwr]; subst; inversion Hh as [|? ? Hhv Hhr]; subst;
    cbn [snd] in *.
  all: assert (Hlt : off < length s) by
      (eapply view_nonempty_lt; eauto; destruct sp; simpl; discriminate).
  all: replace (off <? length s) with true by (symmetry; apply Nat.ltb_lt; auto).
  all: (* the key *)
    rewrite (parse_next_ws_stmt (JString k0) (parse_dump_string k0) d 0 s off sp _ I Hd Hsp Hv I); cbn [bind dump].
  all: set (off1 := off + length sp + length (quoted k0)).
  all: assert (Hv1 : view s off1 = " "%char :: ":"%char :: " "%char :: dump (S depth) v ++ members_tail depth _ rest)
      by (unfold off1; rewrite <- Nat.add_assoc, <- app_length; eapply view_app; rewrite <- app_assoc; exact Hv).
  all: rewrite (consume_ws_view [" "%char] s off1 ":"%char _ ltac:(repeat constructor) eq_refl Hv1); cbn [bind length].
  all: assert (Hv2 := view_S _ _ _ _ Hv1).
  all: replace (off1 + 1) with (S off1) by lia.
  all: rewrite (view_at _ _ _ _ Hv2); cbn [bind]; rewrite ceq_refl; cbn [negb].
  all: assert (Hv3 := view_S _ _ _ _ Hv2).
  all: destruct (dump_head v (S depth) Hwv) as (c & q & E & (Hc & _)).
  all: rewrite (consume_ws_view [" "%char] s (S (S off1)) c (q ++ members_tail depth _ rest) ltac:(repeat constructor) Hc
                  ltac:(rewrite Hv3, E; reflexivity)); cbn [bind length].
  all: set (off3 := S (S off1) + 1).
  all: assert (Hv4 : view s off3 = dump (S depth) v ++ members_tail depth _ rest)
      by (unfold off3; replace (S (S off1) + 1) with (S (S (S off1))) by lia; eapply view_S; exact Hv3).
  all: match type of Hv4 with context[members_tail ?dd ?l ?rr] =>
         destruct (members_tail_head dd l rr) as (t & q' & Et & Ht) end.
  all: rewrite (HPv d (S depth) s off3 _ Hwv Hhv Hv4 ltac:(rewrite Et; destruct v; simpl; auto)); cbn [bind to_string].
  all: assert (Hfresh : ~ In k0 (map fst acc))
      by (intros Hin; apply NoDup_remove_2 in Hnd; apply Hnd; apply in_or_app; auto).
  all: rewrite (qfm_set_fresh acc k0 v Hfresh).
  all: set (off4 := off3 + length (dump (S depth) v)).
  all: assert (Hv5 : view s off4 = members_tail depth _ rest) by (unfold off4; eapply view_app; exact Hv4).
  - (* last member: newline, padding, closing brace *)
    unfold members_tail in Hv5. simpl dump_members in Hv5. cbn [app] in Hv5.
    rewrite (consume_ws_view (ch_nl :: skipn 2 (pad_of depth)) s off4 "}"%char rest); auto.
    2:{ constructor. reflexivity. apply all_space_skipn, pad_space. }
    cbn [bind].
    assert (Hv6 : view s (off4 + length (ch_nl :: skipn 2 (pad_of depth))) = "}"%char :: rest).
    { eapply view_app. simpl. simpl in Hv5. exact Hv5. }
    rewrite (view_at _ _ _ _ Hv6). cbn [bind].
    replace (ceq "}" ",") with false by reflexivity. rewrite ceq_refl.
    f_equal. f_equal. unfold off4, off3, off1. cbn [dump_members app]. len.
  - (* a member followed by ",\n" *)
    unfold members_tail in Hv5. rewrite dump_members_cons in Hv5. cbn [app] in Hv5.
    rewrite (consume_ws_here s off4 ","%char _ eq_refl Hv5). cbn [bind].
    rewrite (view_at _ _ _ _ Hv5). cbn [bind]. rewrite ceq_refl.
    rewrite (IH k1 v1 (acc ++ [(k0, v)]) k d depth s (S off4) (ch_nl :: pad_of depth) rest); auto.
    + rewrite <- app_assoc. cbn [app]. f_equal. f_equal.
      unfold off4, off3, off1. rewrite dump_members_cons. len.
    + rewrite map_app. simpl. rewrite <- app_assoc. simpl. simpl in Hnd. exact Hnd.
    + constructor. reflexivity. apply pad_space.
    + apply view_S in Hv5. rewrite Hv5. unfold members_tail. rewrite <- ?app_assoc. simpl. rewrite <- ?app_assoc. reflexivity.
    + unfold off4, off3, off1. lia.
Qed.

Lemma parse_dump_array : forall l, Forall parse_dump_stmt l -> parse_dump_stmt (JArray l).
Proof.
  intros l HP d depth s off rest Hwf Hd Hv _. destruct d; [simpl in Hd; lia|].
  apply jwf_array in Hwf. rewrite jheight_array in Hd.
  assert (Hh : Forall (fun x => jheight x <= d) l).
  { assert (H : list_max_h (map jheight l) <= d) by lia. apply list_max_h_le in H.
    rewrite Forall_map in H. exact H. }
  rewrite dump_array in *. cbn [app] in Hv. rewrite <- app_assoc in Hv. cbn [app] in Hv.
  rewrite (parse_next_dispatch d s off _ _ Hv eq_refl). cbn [ceq Ascii.eqb Bool.eqb].
  unfold parse_array. assert (Hv1 := view_S _ _ _ _ Hv).
  destruct l as [|v r].
  - simpl in Hv1. rewrite (consume_ws_here s (S off) "]"%char rest eq_refl Hv1). cbn [bind].
    rewrite (view_at _ _ _ _ Hv1). cbn [bind]. rewrite ceq_refl. f_equal. f_equal. simpl. lia.
  - rewrite dump_elems_cons in Hv1. cbn [app] in Hv1. rewrite <- app_assoc in Hv1.
    inversion Hwf as [|? ? Hwv Hwr]; subst.
    destruct (dump_head v (S depth) Hwv) as (c & q & E & (Hc1 & Hc2 & Hc3)).
    assert (Hv1' := Hv1). rewrite E in Hv1'. cbn [app] in Hv1'.
    rewrite (consume_ws_here s (S off) c _ Hc1 Hv1'). cbn [bind].
    rewrite (view_at _ _ _ _ Hv1'). cbn [bind]. rewrite Hc2.
    rewrite (array_loop_dump r v [] (S (length s)) d depth s (S off) [] rest); auto.
    + f_equal. f_equal. rewrite dump_elems_cons. len.
    + constructor.
    + lia.
Qed.

Lemma parse_dump_object : forall l, Forall (fun kv => parse_dump_stmt (snd kv)) l -> parse_dump_stmt (JObject l).
Proof.
  intros l HP d depth s off rest Hwf Hd Hv _. destruct d; [simpl in Hd; lia|].
  apply jwf_object in Hwf. destruct Hwf as [Hnd Hwf]. rewrite jheight_object in Hd.
  assert (Hh : Forall (fun kv => Nat.max 1 (jheight (snd kv)) <= d) l).
  { assert (H : list_max_h (map (fun kv => Nat.max 1 (jheight (snd kv))) l) <= d) by lia.
    apply list_max_h_le in H. rewrite Forall_map in H. exact H. }
  rewrite dump_object in *. cbn [app] in Hv. rewrite <- app_assoc in Hv. cbn [app] in Hv. rewrite <- app_assoc in Hv. cbn [app] in Hv.
  rewrite (parse_next_dispatch d s off _ _ Hv eq_refl). cbn [ceq Ascii.eqb Bool.eqb].
  unfold parse_object. assert (Hv1 := view_S _ _ _ _ Hv).
  destruct l as [|[k0 v] r].
  - cbn [dump_members app] in Hv1.
    rewrite (consume_ws_view (ch_nl :: ch_nl :: skipn 2 (pad_of depth)) s (S off) "}"%char rest); auto.
    2:{ constructor. reflexivity. constructor. reflexivity. apply all_space_skipn, pad_space. }
    cbn [bind].
    assert (Hv2 : view s (S off + length (ch_nl :: ch_nl :: skipn 2 (pad_of depth))) = "}"%char :: rest).
    { eapply view_app. exact Hv1. }
    rewrite (view_at _ _ _ _ Hv2). cbn [bind]. rewrite ceq_refl. f_equal. f_equal. cbn [dump_members app]. len.
  - rewrite dump_members_cons in Hv1. cbn [app] in Hv1.
    inversion Hwf as [|? ? Hwv Hwr]; subst. inversion Hh as [|? ? Hhv Hhr]; subst. cbn [snd] in *.
    assert (Hv1' : view s (S off) = (ch_nl :: pad_of depth) ++ ch_quote :: (json_escape k0 ++ [ch_quote])
                     ++ " "%char :: ":"%char :: " "%char :: dump (S depth) v ++ members_tail depth r rest).
    { rewrite Hv1. unfold members_tail, quoted. rewrite <- ?app_assoc. cbn [app]. rewrite <- ?app_assoc. cbn [app]. reflexivity. }
    rewrite (consume_ws_view (ch_nl :: pad_of depth) s (S off) ch_quote _ ltac:(constructor; [reflexivity|apply pad_space]) eq_refl Hv1').
    cbn [bind].
    assert (Hv2 := view_app _ _ _ _ Hv1').
    rewrite (view_at _ _ _ _ Hv2). cbn [bind].
    replace (ceq ch_quote "}") with false by reflexivity.
    rewrite (object_loop_dump r k0 v [] (S (length s)) d depth s _ [] rest); auto.
    + f_equal. f_equal. rewrite dump_members_cons. len.
    + apply Forall_impl with (2 := Hh). intros; lia.
    + lia.
    + constructor.
    + lia.
Qed.

Theorem parse_dump_all : forall j, parse_dump_stmt j.
Proof.
  apply json_ind'.
  - exact parse_dump_null.
  - exact parse_dump_object.
  - exact parse_dump_array.
  - exact parse_dump_string.
  - intros f d depth s off rest Hwf. simpl in Hwf. contradiction.
  - exact parse_dump_int.
  - exact parse_dump_bool.
Qed.

Lemma load_at_dump : forall d j depth, jwf j -> jheight j <= d -> load_at d (dump depth j) = Ok j.
Proof.
  intros d j depth Hwf Hh. unfold load_at.
  destruct j; try (rewrite (parse_dump_all _ d depth _ 0 [] Hwf Hh); [reflexivity|rewrite view_0, app_nil_r; reflexivity|exact I]).
  (* a top-level integer: the cursor ends on its last digit *)
  destruct d; [simpl in Hh; lia|].
  cbn [dump jwf] in *. destruct (print_int_head z) as (c & r & E & Hc).
  assert (Hv : view (print_int z) 0 = print_int z ++ []) by (rewrite view_0, app_nil_r; reflexivity).
  assert (Hv' := Hv). rewrite E in Hv' at 2. simpl in Hv'.
  assert (Hsp : isspace c = false /\ (is_digit c || ceq c "-") = true
                /\ ceq c "[" = false /\ ceq c "{" = false /\ ceq c ch_quote = false
                /\ ceq c "t" = false /\ ceq c "f" = false /\ ceq c "n" = false).
  { destruct Hc as [->|Hc]. repeat split.
    destruct (is_digit_props c Hc) as (? & ? & ? & ? & ? & ? & ? & ? & ? & ?). rewrite Hc. repeat split; auto. }
  destruct Hsp as (H1 & H2 & H3 & H4 & H5 & H6 & H7 & H8).
  rewrite (parse_next_dispatch _ _ 0 _ _ Hv' H1). rewrite H2, H3, H4, H5, H6, H7, H8. cbn [orb].
  rewrite (parse_number_print z _ 0 [] Hwf Hv I). reflexivity.
Qed.

Lemma load_dump : forall j depth, jwf j -> jheight j <= max_depth -> load (dump depth j) = Ok j.
Proof. intros. unfold load. apply load_at_dump; auto. Qed.

(* ================================================================== std::map key order *)
Lemma bytes_ltb_irrefl : forall a, bytes_ltb a a = false.
Proof. induction a; simpl; auto. rewrite N.ltb_irrefl. auto. Qed.

Lemma bytes_ltb_trans : forall a b c, bytes_ltb a b = true -> bytes_ltb b c = true -> bytes_ltb a c = true.
Proof.
  induction a as [|x a IH]; intros [|y b] [|z c] H1 H2; simpl in *; try discriminate; auto.
  destruct (N.ltb (N_of_ascii x) (N_of_ascii y)) eqn:Exy;
  destruct (N.ltb (N_of_ascii y) (N_of_ascii x)) eqn:Eyx;
  destruct (N.ltb (N_of_ascii y) (N_of_ascii z)) eqn:Eyz;
  destruct (N.ltb (N_of_ascii z) (N_of_ascii y)) eqn:Ezy; try discriminate;
  destruct (N.ltb (N_of_ascii x) (N_of_ascii z)) eqn:Exz; auto;
  destruct (N.ltb (N_of_ascii z) (N_of_ascii x)) eqn:Ezx;
  rewrite ?N.ltb_lt, ?N.ltb_ge in *; try lia; eauto.
Qed.

Lemma bytes_ltb_asym : forall a b, bytes_ltb a b = true -> bytes_ltb b a = false.
Proof.
  intros a b H. destruct (bytes_ltb b a) eqn:E; auto.
  pose proof (bytes_ltb_trans _ _ _ H E) as C. rewrite bytes_ltb_irrefl in C. discriminate.
Qed.

Lemma keys_sorted_cons : forall A (k : bytes) (v : A) r,
  keys_sorted ((k, v) :: r) = true ->
  keys_sorted r = true /\ Forall (fun kv => bytes_ltb k (fst kv) = true) r.
Proof.
  intros A k v r. revert k v. induction r as [|[k1 v1] r IH]; intros k v H.
  - split; auto.
  - cbn [keys_sorted] in H. apply andb_prop in H. destruct H as [H1 H2].
    split; auto. constructor; auto.
    destruct (IH k1 v1 H2) as [_ H3].
    apply Forall_impl with (2 := H3). intros a Ha. eapply bytes_ltb_trans; eauto.
Qed.

Lemma keys_sorted_nodup : forall A (l : list (bytes * A)), keys_sorted l = true -> NoDup (map fst l).
Proof.
  induction l as [|[k v] r IH]; intros H; simpl. constructor.
  destruct (keys_sorted_cons _ _ _ _ H) as [H1 H2]. constructor; auto.
  intros Hin. apply in_map_iff in Hin. destruct Hin as ([k' v'] & E & Hin). simpl in E. subst k'.
  rewrite Forall_forall in H2. specialize (H2 _ Hin). simpl in H2. rewrite bytes_ltb_irrefl in H2. discriminate.
Qed.

Lemma map_insert_last : forall m k v,
  Forall (fun kv => bytes_ltb (fst kv) k = true) m -> map_insert m k v = m ++ [(k, v)].
Proof.
  induction m as [|[k' v'] r IH]; intros k v H; simpl; auto.
  inversion H; subst. simpl in H2. rewrite (bytes_ltb_asym _ _ H2), H2. rewrite IH; auto.
Qed.

(* ================================================================== json_wrap *)
Definition tj_step (m : list (bytes * json)) (kv : bytes * sval) := qfm_set m (fst kv) (to_json_object (snd kv)).
Definition fj_step (m : list (bytes * sval)) (kv : bytes * json) := map_insert m (fst kv) (from_json_obj (snd kv)).

Lemma to_json_object_map : forall l, to_json_object (VMap l) = JObject (fold_left tj_step l []).
Proof.
  intros. cbn [to_json_object]. f_equal. generalize (@nil (bytes * json)).
  induction l as [|[k x] r IH]; intros m; simpl; auto.
Qed.

Lemma from_json_obj_object : forall l, from_json_obj (JObject l) = VMap (fold_left fj_step l []).
Proof.
  intros. cbn [from_json_obj]. f_equal. generalize (@nil (bytes * sval)).
  induction l as [|[k x] r IH]; intros m; simpl; auto.
Qed.

Lemma fold_tj_fresh : forall l m, NoDup (map fst m ++ map fst l) ->
  fold_left tj_step l m = m ++ map (fun kv => (fst kv, to_json_object (snd kv))) l.
Proof.
  induction l as [|[k x] r IH]; intros m H; simpl. - rewrite app_nil_r; auto.
  - unfold tj_step at 2. simpl. rewrite qfm_set_fresh.
    + rewrite IH. * rewrite <- app_assoc. reflexivity.
      * rewrite map_app. simpl. rewrite <- app_assoc. exact H.
    + simpl in H. apply NoDup_remove_2 in H. intros Hin. apply H. apply in_or_app; auto.
Qed.

Lemma fold_fj_sorted : forall l m,
  keys_sorted l = true -> Forall (fun kv => Forall (fun kv' => bytes_ltb (fst kv) (fst kv') = true) l) m ->
  fold_left fj_step l m = m ++ map (fun kv => (fst kv, from_json_obj (snd kv))) l.
Proof.
  induction l as [|[k x] r IH]; intros m Hs Hm; simpl. - rewrite app_nil_r; auto.
  - destruct (keys_sorted_cons _ _ _ _ Hs) as [Hs' Hk].
    unfold fj_step at 2. simpl. rewrite map_insert_last.
    + rewrite IH; auto. * rewrite <- app_assoc. reflexivity.
      * apply Forall_app. split.
        -- apply Forall_impl with (2 := Hm). intros a Ha. inversion Ha; auto.
        -- constructor; auto.
    + apply Forall_impl with (2 := Hm). intros a Ha. inversion Ha; auto.
Qed.

Lemma wf_sval_map : forall l, wf_sval (VMap l) = keys_sorted l && forallb (fun kv => wf_sval (snd kv)) l.
Proof.
  intros. cbn [wf_sval]. f_equal. induction l as [|[k x] r IH]; simpl; auto; try (rewrite IH; reflexivity).
Qed.
Lemma wf_sval_vec : forall l, wf_sval (VVec l) = forallb wf_sval l.
Proof. intros. cbn [wf_sval]. induction l; simpl; auto; try (rewrite IHl; reflexivity). Qed.
Lemma vheight_map : forall l, vheight (VMap l) = S (list_max_h (map (fun kv => Nat.max 1 (vheight (snd kv))) l)).
Proof. intros. cbn [vheight]. f_equal. induction l as [|[k x] r IH]; simpl; auto. Qed.
Lemma vheight_vec : forall l, vheight (VVec l) = S (list_max_h (map vheight l)).
Proof. intros. cbn [vheight]. f_equal. induction l; simpl; auto. Qed.

Definition wrap_stmt (v : sval) : Prop :=
  wf_sval v = true ->
  jwf (to_json_object v) /\ jheight (to_json_object v) = vheight v /\ from_json_obj (to_json_object v) = v.

Lemma wrap_all : forall v, wrap_stmt v.
Proof.
  apply sval_ind'; unfold wrap_stmt.
  - intros _. repeat split.
  - (* map *)
    intros l IH Hwf. rewrite wf_sval_map in Hwf. apply andb_prop in Hwf. destruct Hwf as [Hs Hall].
    rewrite forallb_forall in Hall. rewrite Forall_forall in IH.
    rewrite to_json_object_map. rewrite fold_tj_fresh by (simpl; apply keys_sorted_nodup; auto). simpl app.
    split; [|split].
    + apply jwf_object. split.
      * rewrite map_map. simpl. apply keys_sorted_nodup; auto.
      * apply Forall_forall. intros kv Hin. apply in_map_iff in Hin. destruct Hin as (kv' & <- & Hin). simpl.
        apply (proj1 (IH _ Hin (Hall _ Hin))).
    + rewrite jheight_object, vheight_map. f_equal. rewrite map_map. simpl. f_equal.
      apply map_ext_in. intros kv Hin. destruct (IH _ Hin (Hall _ Hin)) as (_ & E & _). rewrite E. reflexivity.
    + rewrite from_json_obj_object. rewrite fold_fj_sorted.
      * simpl. f_equal. rewrite map_map. simpl. rewrite <- (map_id l) at 2.
        apply map_ext_in. intros [k x] Hin. destruct (IH _ Hin (Hall _ Hin)) as (_ & _ & E). simpl in *. rewrite E. reflexivity.
      * clear IH Hall. induction l as [|[k x] r IHr]; simpl; auto.
        destruct (keys_sorted_cons _ _ _ _ Hs) as [Hs' Hk]. specialize (IHr Hs').
        destruct r as [|[k1 x1] r]; simpl in *; auto. apply andb_prop in Hs. destruct Hs as [H1 _].
        rewrite H1. exact IHr.
      * constructor.
  - (* vector *)
    intros l IH Hwf. rewrite wf_sval_vec in Hwf. rewrite forallb_forall in Hwf. rewrite Forall_forall in IH.
    cbn [to_json_object]. split; [|split].
    + apply jwf_array. apply Forall_forall. intros j Hin. apply in_map_iff in Hin. destruct Hin as (x & <- & Hin).
      apply (proj1 (IH _ Hin (Hwf _ Hin))).
    + rewrite jheight_array, vheight_vec. f_equal. rewrite map_map. f_equal.
      apply map_ext_in. intros x Hin. apply (proj1 (proj2 (IH _ Hin (Hwf _ Hin)))).
    + cbn [from_json_obj]. f_equal. rewrite map_map. rewrite <- (map_id l) at 2.
      apply map_ext_in. intros x Hin. apply (proj2 (proj2 (IH _ Hin (Hwf _ Hin)))).
  - intros s _. repeat split.
  - intros f H. discriminate.
  - intros z H. cbn [wf_sval] in H. cbn [to_json_object]. rewrite wrap64_id by (apply in_int64_range; auto).
    repeat split. exact H.
  - intros b _. repeat split.
Qed.

(* from_json(to_json(v)) = v *)
Theorem roundtrip_thm : forall v : sval,
  wf_sval v = true -> vheight v <= max_depth -> from_json (to_json v) = FValue v.
Proof.
  intros v Hwf Hh. destruct (wrap_all v Hwf) as (H1 & H2 & H3).
  unfold from_json, to_json. rewrite load_dump; auto. - rewrite H3. reflexivity. - lia.
Qed.

(* ================================================================== what the parser can produce *)
Lemma bind_ok : forall A C (r : res A) (f : A -> res C) x,
  bind r f = Ok x -> exists a, r = Ok a /\ f a = Ok x.
Proof. intros A C [a|e] f x H; simpl in H; [eauto|discriminate]. Qed.

Fixpoint ints_ok (j : json) : Prop :=
  match j with
  | JObject l => (fix go (l : list (bytes * json)) : Prop :=
                    match l with [] => True | (_, v) :: r => ints_ok v /\ go r end) l
  | JArray l => (fix go (l : list json) : Prop := match l with [] => True | v :: r => ints_ok v /\ go r end) l
  | JInt z => in_int64 z = true
  | _ => True
  end.

Lemma ints_ok_object : forall l, ints_ok (JObject l) <-> Forall (fun kv => ints_ok (snd kv)) l.
Proof.
  intros l. cbn [ints_ok]. split; intros H.
  - induction l as [|[k v] r IH]; constructor; simpl in *; tauto.
  - induction l as [|[k v] r IH]; simpl; auto. inversion H; subst. split; [assumption|apply IH; assumption].
Qed.

Lemma ints_ok_array : forall l, ints_ok (JArray l) <-> Forall ints_ok l.
Proof.
  intros l. cbn [ints_ok]. split; intros H.
  - induction l; constructor; simpl in *; tauto.
  - induction l; simpl; auto. inversion H; subst. split; [assumption|apply IHl; assumption].
Qed.

Lemma jheight_pos : forall j, 1 <= jheight j.
Proof. destruct j; simpl; lia. Qed.

Definition pinv (d : nat) (j : json) : Prop := jheight j <= d /\ ints_ok j.

Lemma pinv_array : forall d l, Forall (pinv d) l -> pinv (S d) (JArray l).
Proof.
  intros d l H. split.
  - rewrite jheight_array. apply le_n_S. apply list_max_h_le. rewrite Forall_map.
    apply Forall_impl with (2 := H). intros a [Ha _]; auto.
  - apply ints_ok_array. apply Forall_impl with (2 := H). intros a [_ Ha]; auto.
Qed.

Lemma pinv_object : forall d l, Forall (fun kv => pinv d (snd kv)) l -> pinv (S d) (JObject l).
Proof.
  intros d l H. split.
  - rewrite jheight_object. apply le_n_S. apply list_max_h_le. rewrite Forall_map.
    apply Forall_impl with (2 := H). intros a [Ha _]. pose proof (jheight_pos (snd a)). lia.
  - apply ints_ok_object. apply Forall_impl with (2 := H). intros a [_ Ha]; auto.
Qed.

Lemma qfm_set_forall : forall (P : json -> Prop) m k v,
  Forall (fun kv => P (snd kv)) m -> P v -> Forall (fun kv => P (snd kv)) (qfm_set m k v).
Proof.
  induction m as [|[k' v'] r IH]; intros k v Hm Hv; simpl.
  - constructor; auto.
  - inversion Hm; subst. destruct (list_eq_dec ascii_dec k' k); constructor; auto.
Qed.

Lemma in_int64_wrap : forall z, in_int64 (wrap64 z) = true.
Proof.
  intros. unfold in_int64. pose proof (wrap64_range z).
  apply andb_true_intro. split. apply Z.leb_le. lia. apply Z.ltb_lt. lia.
Qed.

Lemma parse_string_loop_kind : forall k s off val j off',
  parse_string_loop k s off val = Ok (j, off') -> exists x, j = JString x.
Proof.
  induction k; intros s off val j off' H; simpl in H; [discriminate|].
  apply bind_ok in H. destruct H as (c & _ & H).
  destruct (ceq c ch_quote). { inversion H; eauto. }
  destruct (ceq c ch_bslash); [|eauto].
  apply bind_ok in H. destruct H as (e & _ & H).
  repeat match type of H with (if ?b then _ else _) = _ => destruct b end; eauto.
  apply bind_ok in H. destruct H as (h & _ & H). eauto.
Qed.

Lemma parse_number_kind : forall s sz off j off',
  parse_number s sz off = Ok (j, off') -> (exists f, j = JFloat f) \/ (exists z, j = JInt (wrap64 z)).
Proof.
  intros s sz off j off' H. unfold parse_number in H.
  apply bind_ok in H. destruct H as ([neg o0] & _ & H).
  apply bind_ok in H. destruct H as ([[[o1 c] val] isd] & _ & H).
  apply bind_ok in H. destruct H as ([[o2 es] ex] & _ & H).
  apply bind_ok in H. destruct H as (o3 & _ & H).
  destruct isd. { inversion H; eauto. }
  destruct es; inversion H; eauto.
Qed.

Section LoopsInv.
  Variable s : bytes.
  Variable sz : nat.
  Variable d : nat.
  Variable rec : nat -> res (json * nat).
  Hypothesis rec_inv : forall off j off', rec off = Ok (j, off') -> pinv d j.

  Lemma array_loop_inv : forall k off acc j off',
    Forall (pinv d) acc -> array_loop rec k s sz off acc = Ok (j, off') -> pinv (S d) j.
  Proof.
    induction k; intros off acc j off' Hacc H; simpl in H; [discriminate|].
    destruct (off <? sz).
    - apply bind_ok in H. destruct H as ([v o1] & Hr & H).
      apply bind_ok in H. destruct H as (o2 & _ & H).
      apply bind_ok in H. destruct H as (c & _ & H).
      assert (Hacc' : Forall (pinv d) (acc ++ [v])).
      { apply Forall_app. split; auto. constructor; auto. eapply rec_inv; eauto. }
      destruct (ceq c ","). { eapply IHk; eauto. }
      destruct (ceq c "]"); [|discriminate]. inversion H; subst. apply pinv_array; auto.
    - inversion H; subst. apply pinv_array; auto.
  Qed.

  Lemma object_loop_inv : forall k off acc j off',
    Forall (fun kv => pinv d (snd kv)) acc -> object_loop rec k s sz off acc = Ok (j, off') -> pinv (S d) j.
  Proof.
    induction k; intros off acc j off' Hacc H; simpl in H; [discriminate|].
    destruct (off <? sz).
    - apply bind_ok in H. destruct H as ([key o1] & _ & H).
      apply bind_ok in H. destruct H as (o2 & _ & H).
      apply bind_ok in H. destruct H as (c & _ & H).
      destruct (negb (ceq c ":")); [discriminate|].
      apply bind_ok in H. destruct H as (o3 & _ & H).
      apply bind_ok in H. destruct H as ([v o4] & Hr & H).
      apply bind_ok in H. destruct H as (o5 & _ & H).
      apply bind_ok in H. destruct H as (c' & _ & H).
      assert (Hacc' : Forall (fun kv => pinv d (snd kv)) (qfm_set acc (to_string key) v)).
      { apply qfm_set_forall with (P := pinv d); auto. eapply rec_inv; eauto. }
      destruct (ceq c' ","). { eapply IHk; eauto. }
      destruct (ceq c' "}"); [|discriminate]. inversion H; subst. apply pinv_object; auto.
    - inversion H; subst. apply pinv_object; auto.
  Qed.
End LoopsInv.

Lemma pinv_leaf : forall d j, jheight j = 1 -> ints_ok j -> pinv (S d) j.
Proof. intros d j H1 H2. split; auto. lia. Qed.

Lemma parse_next_inv : forall d s sz off j off', parse_next d s sz off = Ok (j, off') -> pinv d j.
Proof.
  induction d; intros s sz off j off' H; simpl in H; [discriminate|].
  apply bind_ok in H. destruct H as (o1 & _ & H).
  apply bind_ok in H. destruct H as (c & _ & H).
  destruct (ceq c "[").
  { unfold parse_array in H.
    apply bind_ok in H. destruct H as (o2 & _ & H).
    apply bind_ok in H. destruct H as (c2 & _ & H).
    destruct (ceq c2 "]"). { inversion H; subst. apply pinv_array. constructor. }
    eapply array_loop_inv; eauto. }
  destruct (ceq c "{").
  { unfold parse_object in H.
    apply bind_ok in H. destruct H as (o2 & _ & H).
    apply bind_ok in H. destruct H as (c2 & _ & H).
    destruct (ceq c2 "}"). { inversion H; subst. apply pinv_object. constructor. }
    eapply object_loop_inv; eauto. }
  destruct (ceq c ch_quote).
  { apply parse_string_loop_kind in H. destruct H as (x & ->). apply pinv_leaf; simpl; auto. }
  destruct (ceq c "t" || ceq c "f").
  { unfold parse_bool in H. apply bind_ok in H. destruct H as (t & _ & H).
    destruct (bytes_eqb t (B "true")). { inversion H; subst. apply pinv_leaf; simpl; auto. }
    apply bind_ok in H. destruct H as (f & _ & H).
    destruct (bytes_eqb f (B "false")); [|discriminate]. inversion H; subst. apply pinv_leaf; simpl; auto. }
  destruct (ceq c "n").
  { unfold parse_null in H. apply bind_ok in H. destruct H as (t & _ & H).
    destruct (negb (bytes_eqb t (B "null"))); [discriminate|]. inversion H; subst. apply pinv_leaf; simpl; auto. }
  destruct (is_digit c || ceq c "-"); [|discriminate].
  apply parse_number_kind in H. destruct H as [(f & ->)|(z & ->)]; apply pinv_leaf; simpl; auto.
  apply in_int64_wrap.
Qed.

(* ================================================================== from_json_obj yields values in the law's scope *)
Lemma map_insert_forall : forall (P : sval -> Prop) m k v,
  Forall (fun kv => P (snd kv)) m -> P v -> Forall (fun kv => P (snd kv)) (map_insert m k v).
Proof.
  induction m as [|[k' v'] r IH]; intros k v Hm Hv; simpl.
  - constructor; auto.
  - inversion Hm; subst. destruct (bytes_ltb k k'). { constructor; auto. }
    destruct (bytes_ltb k' k); [constructor; auto|auto].
Qed.

Lemma map_insert_sorted : forall m k v, keys_sorted m = true -> keys_sorted (map_insert m k v) = true.
Proof.
  induction m as [|[k' v'] r IH]; intros k v H; simpl; auto.
  destruct (bytes_ltb k k') eqn:E1.
  { change (bytes_ltb k k' && keys_sorted ((k', v') :: r) = true). rewrite E1, H. reflexivity. }
  destruct (bytes_ltb k' k) eqn:E2; auto.
  destruct (keys_sorted_cons _ _ _ _ H) as [Hr Hk].
  specialize (IH k v Hr).
  destruct r as [|[k1 v1] r1].
  - simpl. rewrite E2. reflexivity.
  - simpl in IH |- *. inversion Hk; subst. simpl in H2.
    destruct (bytes_ltb k k1).
    + change (bytes_ltb k' k && keys_sorted ((k, v) :: (k1, v1) :: r1) = true). rewrite E2. exact IH.
    + destruct (bytes_ltb k1 k).
      * change (bytes_ltb k' k1 && keys_sorted ((k1, v1) :: map_insert r1 k v) = true). rewrite H2. exact IH.
      * exact H.
Qed.

Lemma float_free_object : forall l, float_free (JObject l) = forallb (fun kv => float_free (snd kv)) l.
Proof. intros. cbn [float_free]. induction l as [|[k v] r IH]; simpl; auto; try (rewrite IH; reflexivity). Qed.
Lemma float_free_array : forall l, float_free (JArray l) = forallb float_free l.
Proof. intros. cbn [float_free]. induction l; simpl; auto; try (rewrite IHl; reflexivity). Qed.

Definition unwrap_stmt (j : json) : Prop :=
  float_free j = true -> ints_ok j ->
  wf_sval (from_json_obj j) = true /\ vheight (from_json_obj j) <= jheight j.

Lemma fold_fj_inv : forall (P : sval -> Prop) l m,
  Forall (fun kv => P (from_json_obj (snd kv))) l ->
  keys_sorted m = true -> Forall (fun kv => P (snd kv)) m ->
  keys_sorted (fold_left fj_step l m) = true /\ Forall (fun kv => P (snd kv)) (fold_left fj_step l m).
Proof.
  induction l as [|[k x] r IH]; intros m Hl Hs Hm; simpl; auto.
  inversion Hl; subst. apply IH; auto.
  - apply map_insert_sorted; auto.
  - apply map_insert_forall; auto.
Qed.

Lemma unwrap_all : forall j, unwrap_stmt j.
Proof.
  apply json_ind'; unfold unwrap_stmt.
  - intros _ _. split; simpl; auto.
  - (* object *)
    intros l IH Hff Hio. rewrite float_free_object in Hff. rewrite forallb_forall in Hff.
    apply ints_ok_object in Hio. rewrite Forall_forall in IH, Hio.
    rewrite from_json_obj_object.
    set (n := list_max_h (map (fun kv => Nat.max 1 (jheight (snd kv))) l)).
    destruct (fold_fj_inv (fun v => wf_sval v = true /\ Nat.max 1 (vheight v) <= n) l []) as [Hs Hall].
    { apply Forall_forall. intros kv Hin. destruct (IH kv Hin (Hff kv Hin) (Hio kv Hin)) as [H1 H2]. split; auto.
      assert (Hn : list_max_h (map (fun kv => Nat.max 1 (jheight (snd kv))) l) <= n) by (unfold n; lia).
      apply list_max_h_le in Hn. rewrite Forall_map in Hn. rewrite Forall_forall in Hn. specialize (Hn kv Hin). cbv beta in Hn. lia. }
    { reflexivity. } { constructor. }
    split.
    + rewrite wf_sval_map. rewrite Hs. simpl. apply forallb_forall. intros kv Hin.
      rewrite Forall_forall in Hall. apply (Hall kv Hin).
    + rewrite vheight_map, jheight_object. apply le_n_S. fold n. apply list_max_h_le. rewrite Forall_map.
      apply Forall_impl with (2 := Hall). intros a [_ Ha]. exact Ha.
  - (* array *)
    intros l IH Hff Hio. rewrite float_free_array in Hff. rewrite forallb_forall in Hff.
    apply ints_ok_array in Hio. rewrite Forall_forall in IH, Hio.
    cbn [from_json_obj]. split.
    + rewrite wf_sval_vec. apply forallb_forall. intros x Hin. apply in_map_iff in Hin. destruct Hin as (j & <- & Hin).
      apply (IH j Hin (Hff j Hin) (Hio j Hin)).
    + rewrite vheight_vec, jheight_array. apply le_n_S. apply list_max_h_le. rewrite map_map, Forall_map.
      apply Forall_forall. intros j Hin.
      assert (Hn : list_max_h (map jheight l) <= list_max_h (map jheight l)) by lia.
      apply list_max_h_le in Hn. rewrite Forall_map, Forall_forall in Hn. specialize (Hn j Hin).
      destruct (IH j Hin (Hff j Hin) (Hio j Hin)) as [_ H2]. lia.
  - intros s _ _. split; simpl; auto.
  - intros f H. discriminate.
  - intros z _ H. simpl in *. split; auto.
  - intros b _ _. split; simpl; auto.
Qed.

Lemma load_at_inv : forall d (t : bytes) (j : json), load_at d t = Ok j -> pinv d j.
Proof.
  intros d t j Hl. unfold load_at in Hl. apply bind_ok in Hl. destruct Hl as ([j' o] & Hp & Hj). inversion Hj; subst j'.
  eapply parse_next_inv; eauto.
Qed.

Lemma load_inv : forall (t : bytes) (j : json), load t = Ok j -> pinv max_depth j.
Proof. intros t j. exact (load_at_inv max_depth t j). Qed.

(* from_json(to_json(from_json(t))) = from_json(t) for every accepted text without doubles *)
Theorem idempotent_thm : forall (t : bytes) (j : json),
  load t = Ok j -> float_free j = true ->
  from_json t = FValue (from_json_obj j) /\
  from_json (to_json (from_json_obj j)) = FValue (from_json_obj j).
Proof.
  intros t j Hl Hff. split. { unfold from_json. rewrite Hl. reflexivity. }
  destruct (load_inv t j Hl) as [Hh Hio].
  destruct (unwrap_all j Hff Hio) as [Hwf Hvh].
  apply roundtrip_thm; auto. eapply Nat.le_trans; eauto.
Qed.

(* ================================================================== remaining property lemmas and non-vacuity *)
Theorem no_stuck_thm : forall s : bytes, load s <> Err OutOfFuel /\ load s <> Err Crash.
Proof.
  intros s. pose proof (load_total_thm s) as H. destruct (load s) as [j|e]; simpl in H.
  - split; discriminate.
  - destruct H as [H1 H2]. split; congruence.
Qed.

Theorem depth_bound_thm : forall (s : bytes) (j : json), load s = Ok j -> jheight j <= max_depth.
Proof. intros s j H. apply (load_inv s j H). Qed.

Theorem int_text_roundtrip_thm : forall z : Z, in_int64 z = true -> load (print_int z) = Ok (JInt z).
Proof.
  intros z Hz. apply (load_dump (JInt z) 1); simpl; auto. unfold max_depth. lia.
Qed.

Fixpoint nest_vec (n : nat) (v : sval) : sval := match n with O => v | S k => VVec [nest_vec k v] end.
Fixpoint repeat_byte (n : nat) (c : ascii) : bytes := match n with O => [] | S k => c :: repeat_byte k c end.

Example ex_total_outcomes :
  from_json (B "[") = FExc ExUnparsed
  /\ from_json (B "[1 2]") = FExc ExParse
  /\ from_json (repeat_byte 513 "["%char) = FExc ExDepth
  /\ from_json (repeat_byte 512 "["%char) = FExc ExUnparsed
  /\ from_json (B "{""a"":1,") = FValue (VMap [(B "a", VInt 1)])
  /\ from_json (B "1x") = FValue (VInt 1)
  /\ from_json [] = FExc ExUnparsed.
Proof. vm_compute. repeat split. Qed.

Example ex_escape :
  let s := [ch_quote; ch_bslash; ch_nl; ch_nul; "128"%char; "255"%char; "u"%char; ch_tab; "/"%char] in
  json_escape s = [ch_bslash; ch_quote; ch_bslash; ch_bslash; ch_bslash; "n"%char; ch_nul; "128"%char; "255"%char;
                   "u"%char; ch_bslash; "t"%char; "/"%char]
  /\ unescape (json_escape s) = Ok s
  /\ unescape (B "A\q\/") = Ok (B "A\/").
Proof. vm_compute. repeat split. Qed.

Example ex_int :
  print_int (-9223372036854775808) = B "-9223372036854775808"
  /\ in_int64 (-9223372036854775808) = true
  /\ parse_num_int (B "9223372036854775808") = (-9223372036854775808)%Z   (* the wrap the code relies on *)
  /\ load (B "-9223372036854775808") = Ok (JInt (-9223372036854775808))
  /\ load (B "9223372036854775807") = Ok (JInt 9223372036854775807)
  /\ load (B "9223372036854775808") = Ok (JInt (-9223372036854775808))     (* out of range: wraps, not an error *)
  /\ in_int64 9223372036854775808 = false.
Proof. vm_compute. repeat split. Qed.

Definition ex_value : sval :=
  VMap [(B "", VNull);
        (B "a", VVec [VInt (-9223372036854775808); VBool true; VStr [ch_quote; ch_bslash; ch_nul; "200"%char]; VVec []; VMap []]);
        (B "b", VMap [([ch_nl], VInt 0)])].

Example ex_roundtrip :
  wf_sval ex_value = true /\ vheight ex_value <= max_depth /\ vheight ex_value = 3
  /\ from_json (to_json ex_value) = FValue ex_value
  (* the hypotheses are needed: std::map order, Depth_Guard *)
  /\ wf_sval (VMap [(B "b", VNull); (B "a", VNull)]) = false
  /\ vheight (nest_vec 512 VNull) = 513
  /\ from_json (to_json (nest_vec 512 VNull)) = FExc ExDepth
  /\ from_json (to_json (nest_vec 511 VNull)) = FValue (nest_vec 511 VNull).
Proof. vm_compute. repeat split; intros; discriminate || (repeat constructor). Qed.

Example ex_idempotent :
  let t := B "{""b"":1, ""a"":[true,""A""] ,""b"":2, null:null}" in
  let j := JObject [(B "b", JInt 2); (B "a", JArray [JBool true; JString (B "A")]); ([], JNull)] in
  load t = Ok j /\ float_free j = true
  /\ from_json_obj j = VMap [([], VNull); (B "a", VVec [VBool true; VStr (B "A")]); (B "b", VInt 2)].
Proof. vm_compute. repeat split. Qed.
